//! Scenario images, the reference ("byte array + tree") file system the oracles use, and the
//! structured history generator.
use crate::fsrun::*;
use crate::mkfs::{self, Geometry, InfoInit, Layout, Node, PartSpec};
use crate::ramdisk::Blk;
use crate::util::*;
use embedded_sdmmc::{Mode, Timestamp};
use std::collections::BTreeMap;

// ------------------------------------------------------------------------------------------------
// Reference file system
// ------------------------------------------------------------------------------------------------

pub type Name = [u8; 11];

#[derive(Clone, Debug)]
pub struct RefFile {
    pub data: Vec<u8>,
    pub attr: u8,
    /// raw (date, time) words
    pub ctime: (u16, u16),
    pub mtime: (u16, u16),
    /// files whose content the harness does not track byte by byte (the formatter's filler)
    pub opaque: bool,
}

#[derive(Clone, Debug)]
pub struct RefDir {
    pub attr: u8,
    pub ctime: (u16, u16),
    pub mtime: (u16, u16),
    pub children: BTreeMap<Name, RefNode>,
}

#[derive(Clone, Debug)]
pub enum RefNode {
    File(RefFile),
    Dir(RefDir),
}

impl RefDir {
    pub fn empty(stamp: (u16, u16)) -> RefDir {
        RefDir { attr: 0x10, ctime: stamp, mtime: stamp, children: BTreeMap::new() }
    }
    pub fn dir_at(&self, path: &[Name]) -> Option<&RefDir> {
        let mut d = self;
        for n in path {
            match d.children.get(n) {
                Some(RefNode::Dir(c)) => d = c,
                _ => return None,
            }
        }
        Some(d)
    }
    pub fn dir_at_mut(&mut self, path: &[Name]) -> Option<&mut RefDir> {
        let mut d = self;
        for n in path {
            match d.children.get_mut(n) {
                Some(RefNode::Dir(c)) => d = c,
                _ => return None,
            }
        }
        Some(d)
    }
    pub fn file_at_mut(&mut self, path: &[Name]) -> Option<&mut RefFile> {
        let (name, dirs) = path.split_last()?;
        match self.dir_at_mut(dirs)?.children.get_mut(name) {
            Some(RefNode::File(f)) => Some(f),
            _ => None,
        }
    }
    pub fn file_at(&self, path: &[Name]) -> Option<&RefFile> {
        let (name, dirs) = path.split_last()?;
        match self.dir_at(dirs)?.children.get(name) {
            Some(RefNode::File(f)) => Some(f),
            _ => None,
        }
    }
    /// the lines `Spec.Fs.dumpTree` prints for this tree, as a sorted set
    pub fn dump(&self, prefix: &str, out: &mut Vec<String>) {
        for (name, node) in &self.children {
            let p = format!("{prefix}{}", hex(name));
            match node {
                RefNode::File(f) => {
                    let digest = if f.opaque { "*".to_string() } else if f.data.len() > 1_048_576 { "big".to_string() } else { fnv64(&f.data).to_string() };
                    out.push(format!("F {p} {} {} {}.{} {}.{} {}", f.attr, f.data.len(), f.ctime.0, f.ctime.1, f.mtime.0, f.mtime.1, digest));
                }
                RefNode::Dir(d) => {
                    out.push(format!("D {p} {} {}.{} {}.{}", d.attr, d.ctime.0, d.ctime.1, d.mtime.0, d.mtime.1));
                    d.dump(&format!("{p}/"), out);
                }
            }
        }
    }
}

/// FAT encoding of a clock value, from the FAT specification (harness side of the C02 oracle).
pub fn fat_stamp(t: &Timestamp) -> (u16, u16) {
    let year = (t.year_since_1970 as u16).saturating_sub(10);
    let date = (year << 9) | ((t.zero_indexed_month as u16 + 1) << 5) | (t.zero_indexed_day as u16 + 1);
    let time = ((t.hours as u16) << 11) | ((t.minutes as u16) << 5) | (t.seconds as u16 / 2);
    (date, time)
}

fn ref_from_nodes(nodes: &[Node]) -> RefDir {
    let mut d = RefDir::empty((0, 0));
    for n in nodes {
        match n {
            Node::File { name, attr, content, ctime, mtime, .. } => {
                d.children.insert(*name, RefNode::File(RefFile { data: content.clone(), attr: *attr, ctime: *ctime, mtime: *mtime, opaque: false }));
            }
            Node::Dir { name, attr, children, ctime, mtime, .. } => {
                let mut c = ref_from_nodes(children);
                c.attr = *attr | 0x10;
                c.ctime = *ctime;
                c.mtime = *mtime;
                d.children.insert(*name, RefNode::Dir(c));
            }
            _ => {}
        }
    }
    d
}

// ------------------------------------------------------------------------------------------------
// Scenarios
// ------------------------------------------------------------------------------------------------

#[derive(Clone)]
pub struct Scenario {
    pub blocks: BTreeMap<u32, Blk>,
    /// (mbr slot, layout, reference tree, free clusters at start)
    pub vols: Vec<ScVol>,
    pub limits: (usize, usize, usize),
    pub id_offset: u32,
    pub desc: String,
}

#[derive(Clone)]
pub struct ScVol {
    pub slot: usize,
    pub layout: Layout,
    pub tree: RefDir,
    pub free_at_start: u32,
    pub info: InfoInit,
}

#[derive(Clone, Debug)]
pub struct ScOpts {
    pub fat32: Option<bool>,
    pub keep_free: Option<Vec<u32>>,
    pub dirty: bool,
    pub multi_volume: bool,
    pub big_tree: bool,
    pub limits: Option<(usize, usize, usize)>,
    pub small_root: bool,
    pub bpc_choices: Vec<u8>,
    pub stale_info: bool,
    /// FAT32: the FSInfo next-free hint names a cluster that is in use (and the count is arbitrary)
    pub hint_in_use: bool,
    /// turn the formatter's filler file into bad-cluster marks (same free space, no huge chain to walk)
    pub bad_fill: bool,
    /// add a sub-directory FULLDIR whose entries fill exactly 1..3 clusters (the next create must grow it)
    pub full_dir: bool,
}

impl Default for ScOpts {
    fn default() -> Self {
        ScOpts { fat32: None, keep_free: None, dirty: false, multi_volume: false, big_tree: true, limits: None, small_root: false, bpc_choices: vec![1, 1, 2, 4, 8], stale_info: false, hint_in_use: false, bad_fill: true, full_dir: false }
    }
}

fn stamp(rng: &mut Rng) -> (u16, u16) {
    (mkfs::fat_date(1990 + rng.below(60) as u16, 1 + rng.below(12) as u16, 1 + rng.below(28) as u16), mkfs::fat_time(rng.below(24) as u16, rng.below(60) as u16, 2 * rng.below(30) as u16))
}

fn content(rng: &mut Rng, len: usize, tag: u8) -> Vec<u8> {
    // position-dependent and file-dependent, so misplaced blocks are visible
    let k = rng.next() as u8;
    (0..len).map(|i| (i as u8).wrapping_mul(31).wrapping_add(tag).wrapping_add(k).wrapping_add((i >> 8) as u8)).collect()
}

pub fn lfn_units(s: &str) -> Vec<u16> {
    s.encode_utf16().collect()
}

fn sample_tree(rng: &mut Rng, cluster_bytes: usize, big: bool, full_dir: bool) -> Vec<Node> {
    let mut nodes = Vec::new();
    let sizes = [0usize, 1, 511, 512, 513, cluster_bytes - 1, cluster_bytes, cluster_bytes + 1, 3 * cluster_bytes + 1, 2 * cluster_bytes];
    let nfiles = if big { 5 + rng.below(4) as usize } else { 2 };
    for i in 0..nfiles {
        let len = sizes[rng.below(sizes.len() as u64) as usize];
        let name = mkfs::short_name(&format!("F{i}.DAT"));
        let st = stamp(rng);
        nodes.push(Node::File {
            name,
            lfn: if rng.chance(1, 3) { Some(lfn_units(&format!("long file name number {i}.data"))) } else { None },
            // F1.DAT is read-only, in the combinations a DOS / Windows writer leaves (with hidden / system / without archive)
            attr: if i == 1 { [0x21u8, 0x23, 0x27, 0x01, 0x05, 0x03][len % 6] } else { 0x20 },
            content: content(rng, len, i as u8),
            ctime: st,
            mtime: stamp(rng),
            fragmented: rng.chance(1, 2),
        });
        if rng.chance(1, 4) {
            nodes.push(Node::Deleted { name: mkfs::short_name(&format!("OLD{i}.TMP")) });
        }
    }
    if big {
        let sub_children = vec![
            Node::File { name: mkfs::short_name("INNER.TXT"), lfn: None, attr: 0x20, content: content(rng, cluster_bytes + 7, 77), ctime: stamp(rng), mtime: stamp(rng), fragmented: true },
            Node::Deleted { name: mkfs::short_name("GONE.TXT") },
            Node::Dir { name: mkfs::short_name("DEEP"), lfn: None, attr: 0x10, children: vec![Node::File { name: mkfs::short_name("LEAF.BIN"), lfn: Some(lfn_units("a leaf with a long name.bin")), attr: 0x20, content: content(rng, 700, 9), ctime: stamp(rng), mtime: stamp(rng), fragmented: false }], ctime: stamp(rng), mtime: stamp(rng), extra_clusters: 0 },
        ];
        nodes.push(Node::Dir { name: mkfs::short_name("SUB"), lfn: Some(lfn_units("subdirectory with long name")), attr: 0x10, children: sub_children, ctime: stamp(rng), mtime: stamp(rng), extra_clusters: rng.below(3) as u32 });
        nodes.push(Node::Dir { name: mkfs::short_name("EMPTY"), lfn: None, attr: 0x10, children: vec![], ctime: stamp(rng), mtime: stamp(rng), extra_clusters: 0 });
    }
    if full_dir {
        let slots = cluster_bytes / 32;
        let k = 1 + rng.below(3) as usize;
        let n = k * slots - 2;
        let mut children = Vec::new();
        for i in 0..n {
            let len = if i % 9 == 4 { 300 + (i % 5) * 211 } else { 0 };
            children.push(Node::File { name: mkfs::short_name(&format!("E{i:05}.DAT")), lfn: None, attr: 0x20, content: content(rng, len, i as u8), ctime: stamp(rng), mtime: stamp(rng), fragmented: false });
        }
        nodes.push(Node::Dir { name: mkfs::short_name("FULLDIR"), lfn: None, attr: 0x10, children, ctime: stamp(rng), mtime: stamp(rng), extra_clusters: 0 });
    }
    nodes
}

fn count_free(img: &BTreeMap<u32, Blk>, l: &Layout) -> u32 {
    (2..l.clusters + 2).filter(|&c| mkfs::fat_get(img, l, c) == 0).count() as u32
}

/// Replace FILLER.BIN (a chain over almost the whole volume) by bad-cluster marks: the same clusters
/// stay unavailable, but no reader has to walk them.
fn filler_to_bad_marks(img: &mut BTreeMap<u32, Blk>, l: &Layout) {
    let list = match mkfs::spec_list_dir(img, l, &[]) {
        Some(x) => x,
        None => return,
    };
    let first = match list.iter().find(|e| &e.0 == b"FILLER  BIN") {
        Some(e) => e.2,
        None => return,
    };
    let chain = if first >= 2 { mkfs::spec_chain(img, l, first).unwrap_or_default() } else { vec![] };
    let w: u32 = if l.fat32 { 4 } else { 2 };
    for &c in &chain {
        for k in 0..l.num_fats {
            let bi = l.fat_start + k * l.fat_size + c * w / 512;
            let off = (c * w % 512) as usize;
            let mut b = img.get(&bi).copied().unwrap_or([0u8; 512]);
            if l.fat32 {
                b[off..off + 4].copy_from_slice(&0x0FFF_FFF7u32.to_le_bytes());
            } else {
                b[off..off + 2].copy_from_slice(&0xFFF7u16.to_le_bytes());
            }
            img.insert(bi, b);
        }
    }
    // drop the directory entry: it is the last one in the root, so the slot becomes the end marker
    let root_blocks: Vec<u32> = if l.fat32 {
        mkfs::spec_chain(img, l, l.root_cluster).unwrap_or_default().iter().flat_map(|&c| (0..l.bpc).map(move |j| (c, j))).map(|(c, j)| mkfs::cluster_to_block(l, c) + j).collect()
    } else {
        (0..l.root_blocks).map(|i| l.root_start + i).collect()
    };
    for bi in root_blocks {
        let mut b = img.get(&bi).copied().unwrap_or([0u8; 512]);
        for s in 0..16 {
            if &b[32 * s..32 * s + 11] == b"FILLER  BIN" {
                for x in b[32 * s..32 * s + 32].iter_mut() {
                    *x = 0;
                }
                img.insert(bi, b);
                return;
            }
        }
    }
}

/// Fill every block of every free cluster with plausible stale directory entries (files and
/// sub-directories pointing at low, usually live, clusters; no end marker), so that exposing an
/// uninitialised cluster as part of a directory shows up as cross-links / bad dot entries / duplicate
/// names in fsck.  All blocks get the same contents, which keeps the image transfer small.
fn dirty_fill(img: &mut BTreeMap<u32, Blk>, l: &Layout) {
    let mut pat = [0u8; 512];
    for s in 0..16usize {
        let name = format!("STALE{:03}TXT", s);
        pat[32 * s..32 * s + 11].copy_from_slice(name.as_bytes());
        pat[32 * s + 11] = if s % 4 == 3 { 0x10 } else { 0x20 };
        let cl = 2 + (s as u32 % 7);
        pat[32 * s + 26..32 * s + 28].copy_from_slice(&(cl as u16).to_le_bytes());
        pat[32 * s + 16..32 * s + 18].copy_from_slice(&0x4A8Fu16.to_le_bytes());
        pat[32 * s + 24..32 * s + 26].copy_from_slice(&0x4A8Fu16.to_le_bytes());
        pat[32 * s + 28..32 * s + 32].copy_from_slice(&(600u32 + s as u32).to_le_bytes());
    }
    for c in 2..l.clusters + 2 {
        if mkfs::fat_get(img, l, c) == 0 {
            for j in 0..l.bpc {
                img.insert(mkfs::cluster_to_block(l, c) + j, pat);
            }
        }
    }
}

pub fn make_scenario(rng: &mut Rng, o: &ScOpts) -> Scenario {
    let nvol = if o.multi_volume { 2 + rng.below(2) as usize } else { 1 };
    let mut parts = Vec::new();
    let mut next_lba: u32 = *rng.pick(&[1u32, 63, 2048]);
    let mut slots: Vec<usize> = vec![0, 1, 2, 3];
    if rng.chance(1, 2) {
        slots.rotate_left(rng.below(4) as usize);
    }
    let mut descs = Vec::new();
    for v in 0..nvol {
        let fat32 = o.fat32.unwrap_or_else(|| rng.chance(1, 3));
        let bpc = *rng.pick(&o.bpc_choices);
        let clusters = if fat32 { 65525 + rng.below(40) as u32 } else { 4085 + rng.below(60) as u32 };
        let geom = Geometry {
            fat32,
            bpc,
            num_fats: if rng.chance(2, 3) { 2 } else { 1 },
            reserved: if fat32 { *rng.pick(&[32u16, 8]) } else { *rng.pick(&[1u16, 4]) },
            root_entries: if o.small_root { *rng.pick(&[16u16, 32, 40]) } else { *rng.pick(&[512u16, 64, 40, 112]) },
            clusters,
            fat_extra_sectors: rng.below(2) as u32,
            lba_start: next_lba,
            tail_blocks: rng.below(bpc as u64) as u32,
            root_cluster: if fat32 { *rng.pick(&[2u32, 2, 5, 9]) } else { 0 },
            info: if !fat32 { InfoInit::Unknown } else if o.hint_in_use { InfoInit::Stale { free: rng.below(70000) as u32, next: 2 + rng.below(8) as u32 } } else if o.stale_info { match rng.below(7) { 0 => InfoInit::Unknown, 1 => InfoInit::Stale { free: 0, next: 0xFFFF_FFF0 }, 2 => InfoInit::Stale { free: rng.next() as u32, next: rng.below(70000) as u32 },
                // a hint naming a cluster that is IN USE (the formatter allocates from cluster 2 upwards: root, first files)
                3 | 4 => InfoInit::Stale { free: rng.below(70000) as u32, next: 2 + rng.below(8) as u32 },
                // a hint at cluster 0x10000 (free on these volumes): the next allocation gets a cluster number whose low 16 bits are 0
                5 => InfoInit::Stale { free: rng.below(70000) as u32, next: 0x1_0000 }, _ => InfoInit::Correct } } else { match rng.below(3) { 0 => InfoInit::Unknown, _ => InfoInit::Correct } },
            part_type: if fat32 { 0x0C } else { 0x06 },
            // a blank label in the boot sector makes `get_root_volume_label` fall back to the root directory
            label: if rng.chance(1, 3) { *b"           " } else { *b"VERIF      " },
            use_total16: rng.chance(1, 2),
        };
        let mut tree = sample_tree(rng, bpc as usize * 512, o.big_tree && v == 0 && !(o.small_root && !fat32), o.full_dir && v == 0);
        // a volume-label entry (attribute 0x08) somewhere in the root: in most blank-label volumes and a few others
        if rng.chance(if geom.label[0] == b' ' { 2 } else { 1 }, 3) {
            let at = rng.below(tree.len() as u64 + 1) as usize;
            tree.insert(at, Node::Label { name: *rng.pick(&[*b"ROOTLABEL  ", *b"L          ", *b"TRAIL  SP  "]) });
        }
        let keep_free = o.keep_free.as_ref().map(|ks| *rng.pick(ks));
        let layout = mkfs::compute_layout(&geom);
        next_lba = layout.lba_start + layout.total_blocks + rng.below(9) as u32;
        descs.push(format!("{} bpc={} clusters={} fats={} lba={} free={:?} dirty={}", if fat32 { "FAT32" } else { "FAT16" }, bpc, clusters, geom.num_fats, geom.lba_start, keep_free, o.dirty));
        parts.push(PartSpec { slot: slots[v], geom, tree, dirty_free: None, keep_free });
    }
    let mut img = mkfs::format(&parts);
    if o.bad_fill {
        for p in parts.iter().filter(|p| p.keep_free.is_some()) {
            let layout = img.layouts.iter().find(|(s, _)| *s == p.slot).map(|(_, l)| l.clone()).unwrap();
            filler_to_bad_marks(&mut img.blocks, &layout);
        }
    }
    if o.dirty {
        for p in parts.iter() {
            let layout = img.layouts.iter().find(|(s, _)| *s == p.slot).map(|(_, l)| l.clone()).unwrap();
            dirty_fill(&mut img.blocks, &layout);
        }
    }
    let mut vols = Vec::new();
    for (k, p) in parts.iter().enumerate() {
        let layout = img.layouts.iter().find(|(s, _)| *s == p.slot).map(|(_, l)| l.clone()).unwrap();
        let mut tree = ref_from_nodes(&p.tree);
        if p.keep_free.is_some() {
            // the formatter's filler: present in the root, content not tracked
            if let Some(list) = mkfs::spec_list_dir(&img.blocks, &layout, &[]) {
                for (name, attr, _cl, size) in list {
                    if &name == b"FILLER  BIN" {
                        tree.children.insert(name, RefNode::File(RefFile { data: vec![0; 0], attr, ctime: (0, 0), mtime: (0, 0), opaque: true }));
                        let _ = size;
                    }
                }
            }
        }
        let free = count_free(&img.blocks, &layout);
        vols.push(ScVol { slot: p.slot, layout, tree, free_at_start: free, info: p.geom.info.clone() });
        let _ = k;
    }
    let limits = o.limits.unwrap_or_else(|| if o.multi_volume { *rng.pick(&[(4usize, 4usize, 2usize), (8, 8, 4), (3, 5, 3), (6, 7, 5)]) } else { *rng.pick(&LIMITS) });
    Scenario { blocks: img.blocks, vols, limits, id_offset: *rng.pick(&[5000u32, 0, 100, 0xFFFF_FFF0, 0xFFFF_FFFD]), desc: descs.join(" | ") }
}

// ------------------------------------------------------------------------------------------------
// Generator state (what is open, in terms of the reference file system)
// ------------------------------------------------------------------------------------------------

#[derive(Clone, Debug)]
pub struct GVol {
    pub handle: u32,
    pub vol: usize,
}
#[derive(Clone, Debug)]
pub struct GDir {
    pub handle: u32,
    pub vol: usize,
    pub vhandle: u32,
    pub path: Vec<Name>,
}
#[derive(Clone, Debug)]
pub struct GFile {
    pub handle: u32,
    pub vol: usize,
    pub path: Vec<Name>,
    pub mode: Mode,
    pub pos: usize,
    /// length as the byte-array model has it
    pub writable: bool,
}

#[derive(Clone)]
pub struct GState {
    pub trees: Vec<RefDir>,
    pub vols: Vec<GVol>,
    pub dirs: Vec<GDir>,
    pub files: Vec<GFile>,
    pub closed_handles: Vec<u32>,
    pub clock: Timestamp,
    /// number of entries in the implementation's directory table (includes directories opened on a
    /// volume handle that is not open - the known finding - which `dirs` does not track)
    pub dir_slots_used: usize,
    /// handles of directories opened on a volume handle that is not open (the known finding): they occupy a
    /// slot of the implementation's table until closed
    pub ghost_dirs: Vec<u32>,
}

pub const NAME_POOL: [&str; 14] = ["A.TXT", "B.BIN", "NEW.DAT", "LOG", "X.Y", "DIR1", "DIR2", "F0.DAT", "F1.DAT", "F2.DAT", "INNER.TXT", "SUB", "EMPTY", "ZZZZZZZZ.ZZZ"];
pub const BAD_NAMES: [&str; 8] = ["BAD NAME.TXT", "TOOLONGNAME.TXT", "A.TOOLONG", "A*B", ".HID", "A..B", "\u{100}.TXT", "A.B.C"];

pub fn sfn(s: &str) -> Name {
    mkfs::short_name(s)
}

/// Which operations a profile may generate, with weights.
#[derive(Clone, Debug)]
pub struct Profile {
    pub w_open_file: u64,
    pub w_read: u64,
    pub w_write: u64,
    pub w_seek: u64,
    pub w_flush: u64,
    pub w_close_file: u64,
    pub w_delete: u64,
    pub w_mkdir: u64,
    pub w_open_dir: u64,
    pub w_close_dir: u64,
    pub w_list: u64,
    pub w_find: u64,
    pub w_query: u64,
    pub w_volume: u64,
    pub w_bad: u64,
    pub max_write: usize,
    pub big_writes: bool,
    /// route a third of the file / directory / volume calls through the RAII wrappers and the embedded-io traits
    pub wrap: bool,
    /// open every volume of the scenario (and a root directory on each) before anything else, so that calls on
    /// several volumes interleave and the tables hold records of different volumes side by side
    pub all_volumes: bool,
}

impl Profile {
    pub fn general() -> Profile {
        Profile { w_open_file: 10, w_read: 10, w_write: 12, w_seek: 8, w_flush: 3, w_close_file: 6, w_delete: 3, w_mkdir: 3, w_open_dir: 4, w_close_dir: 2, w_list: 3, w_find: 3, w_query: 4, w_volume: 1, w_bad: 2, max_write: 3000, big_writes: false, wrap: false, all_volumes: false }
    }
    pub fn rw() -> Profile {
        Profile { w_open_file: 8, w_read: 16, w_write: 16, w_seek: 14, w_flush: 2, w_close_file: 4, w_delete: 1, w_mkdir: 0, w_open_dir: 1, w_close_dir: 0, w_list: 0, w_find: 0, w_query: 6, w_volume: 1, w_bad: 1, max_write: 5000, big_writes: false, wrap: false, all_volumes: false }
    }
    pub fn namespace() -> Profile {
        Profile { w_open_file: 10, w_read: 2, w_write: 6, w_seek: 1, w_flush: 2, w_close_file: 8, w_delete: 8, w_mkdir: 8, w_open_dir: 6, w_close_dir: 4, w_list: 6, w_find: 6, w_query: 1, w_volume: 1, w_bad: 3, max_write: 1500, big_writes: false, wrap: false, all_volumes: false }
    }
    pub fn space() -> Profile {
        Profile { w_open_file: 10, w_read: 2, w_write: 16, w_seek: 2, w_flush: 2, w_close_file: 8, w_delete: 8, w_mkdir: 4, w_open_dir: 2, w_close_dir: 1, w_list: 1, w_find: 1, w_query: 2, w_volume: 1, w_bad: 1, max_write: 6000, big_writes: true, wrap: false, all_volumes: false }
    }
    pub fn handles() -> Profile {
        Profile { w_open_file: 12, w_read: 1, w_write: 1, w_seek: 1, w_flush: 1, w_close_file: 10, w_delete: 1, w_mkdir: 1, w_open_dir: 12, w_close_dir: 10, w_list: 1, w_find: 1, w_query: 4, w_volume: 8, w_bad: 8, max_write: 600, big_writes: false, wrap: false, all_volumes: false }
    }
}

fn pick_len(rng: &mut Rng, cb: usize, max: usize) -> usize {
    let cands = [0usize, 1, 2, 511, 512, 513, cb - 1, cb, cb + 1, 2 * cb, 3 * cb + 1, 1000, 100];
    let v = if rng.chance(3, 4) { *rng.pick(&cands) } else { rng.below(max as u64 + 1) as usize };
    v.min(max.max(cb + 1))
}

impl GState {
    pub fn new(sc: &Scenario) -> GState {
        GState { trees: sc.vols.iter().map(|v| v.tree.clone()).collect(), vols: vec![], dirs: vec![], files: vec![], closed_handles: vec![], clock: ts(46, 2, 0, 19, 56, 54), dir_slots_used: 0, ghost_dirs: vec![] }
    }

    fn file_len(&self, f: &GFile) -> usize {
        self.trees[f.vol].file_at(&f.path).map(|x| x.data.len()).unwrap_or(0)
    }

    fn stale_or_bogus(&self, rng: &mut Rng) -> u32 {
        if !self.closed_handles.is_empty() && rng.chance(2, 3) {
            *rng.pick(&self.closed_handles)
        } else {
            *rng.pick(&[0u32, 1, 4999, 0xFFFF_FFFF, 123456])
        }
    }

    /// choose the next operation
    pub fn next_op(&self, rng: &mut Rng, sc: &Scenario, p: &Profile) -> Op {
        let op = self.next_op_raw(rng, sc, p);
        if p.wrap && rng.chance(1, 3) { self.to_wrapper(op, rng) } else { op }
    }

    /// The same call through the wrapper layer (with the wider argument types of embedded-io's `SeekFrom`).
    fn to_wrapper(&self, op: Op, rng: &mut Rng) -> Op {
        match op {
            Op::Read(f, n) => Op::IoRead(f, if rng.chance(1, 10) { 0 } else { n }),
            Op::Write(f, b) => Op::IoWrite(f, if rng.chance(1, 12) { vec![] } else { b }),
            Op::Flush(f) => Op::IoFlush(f),
            Op::SeekStart(f, n) => Op::IoSeekStart(f, match rng.below(8) { 0 => n as u64 + (1u64 << 32), 1 => u64::MAX, 2 => 1u64 << 32, _ => n as u64 }),
            Op::SeekEnd(f, n) => Op::IoSeekEnd(f, match rng.below(8) { 0 => n as i64, 1 => i64::MIN, 2 => -(n as i64) - (1i64 << 32), 3 => i64::MAX, _ => -(n as i64) }),
            Op::SeekCur(f, n) => Op::IoSeekCur(f, match rng.below(8) { 0 => n as i64 + (1i64 << 32), 1 => i64::MIN, 2 => i64::MAX, 3 => n as i64 - (1i64 << 32), _ => n as i64 }),
            Op::Length(f) => Op::WLength(f),
            Op::Offset(f) => Op::WOffset(f),
            Op::Eof(f) => Op::WEof(f),
            Op::CloseFile(f) => if rng.chance(1, 2) { Op::WCloseFile(f) } else { Op::WDropFile(f) },
            Op::CloseDir(d) => if rng.chance(1, 2) { Op::WCloseDir(d) } else { Op::WDropDir(d) },
            Op::CloseVolume(v) => if rng.chance(1, 2) { Op::WCloseVolume(v) } else { Op::WDropVolume(v) },
            Op::OpenDir(d, n) if self.dirs.first().map(|x| x.handle) != Some(d) => Op::WChangeDir(d, n),
            other => other,
        }
    }

    fn next_op_raw(&self, rng: &mut Rng, sc: &Scenario, p: &Profile) -> Op {
        // make sure something is open to work with
        if self.vols.is_empty() {
            return Op::OpenVolume(sc.vols[rng.below(sc.vols.len() as u64) as usize].slot);
        }
        if self.dirs.is_empty() {
            return Op::OpenRoot(rng.pick(&self.vols).handle);
        }
        if p.all_volumes {
            if self.vols.len() < sc.limits.2 {
                if let Some(v) = sc.vols.iter().enumerate().find(|(i, _)| !self.vols.iter().any(|g| g.vol == *i)) {
                    return Op::OpenVolume(v.1.slot);
                }
            }
            if self.dirs.len() < sc.limits.0 {
                if let Some(g) = self.vols.iter().find(|g| !self.dirs.iter().any(|d| d.vol == g.vol)) {
                    return Op::OpenRoot(g.handle);
                }
            }
        }
        let cb = {
            let l = &sc.vols[self.dirs[0].vol].layout;
            (l.bpc * 512) as usize
        };
        let mut table: Vec<(u64, u8)> = vec![
            (p.w_open_file, 0), (p.w_delete, 6), (p.w_mkdir, 7), (p.w_open_dir, 8), (p.w_list, 10), (p.w_find, 11), (p.w_volume, 13), (p.w_bad, 14),
        ];
        if !self.files.is_empty() {
            table.extend_from_slice(&[(p.w_read, 1), (p.w_write, 2), (p.w_seek, 3), (p.w_flush, 4), (p.w_close_file, 5), (p.w_query, 12)]);
        }
        if self.dirs.len() > 1 {
            table.push((p.w_close_dir, 9));
        }
        let total: u64 = table.iter().map(|t| t.0).sum();
        let mut x = rng.below(total.max(1));
        let mut choice = 0u8;
        for (w, c) in &table {
            if x < *w {
                choice = *c;
                break;
            }
            x -= *w;
        }
        let fulldir = sfn("FULLDIR");
        let have_full = self.dirs.iter().any(|g| g.path.last() == Some(&fulldir));
        if !have_full && self.dirs.len() < sc.limits.0 && rng.chance(1, 4) {
            if let Some(root) = self.dirs.iter().find(|g| g.path.is_empty()) {
                if self.trees[root.vol].children.contains_key(&fulldir) {
                    return Op::OpenDir(root.handle, "FULLDIR".into());
                }
            }
        }
        let d = if have_full && rng.chance(1, 2) { self.dirs.iter().find(|g| g.path.last() == Some(&fulldir)).unwrap().clone() } else { rng.pick(&self.dirs).clone() };
        let existing: Vec<(Name, bool)> = self.trees[d.vol].dir_at(&d.path).map(|dd| dd.children.iter().map(|(n, c)| (*n, matches!(c, RefNode::Dir(_)))).collect()).unwrap_or_default();
        let name_str = |n: &Name| -> String {
            let base: String = n[..8].iter().filter(|b| **b != b' ').map(|b| *b as char).collect();
            let ext: String = n[8..].iter().filter(|b| **b != b' ').map(|b| *b as char).collect();
            if ext.is_empty() { base } else { format!("{base}.{ext}") }
        };
        // names of files that are open right now in this directory: opening / deleting them must be refused
        let open_here: Vec<Name> = self.files.iter().filter(|f| f.vol == d.vol && f.path.len() == d.path.len() + 1 && f.path[..d.path.len()] == d.path[..]).map(|f| *f.path.last().unwrap()).collect();
        let some_name = |rng: &mut Rng| -> String {
            if !open_here.is_empty() && rng.chance(1, 5) {
                name_str(rng.pick(&open_here))
            } else if !existing.is_empty() && rng.chance(3, 5) {
                name_str(&rng.pick(&existing).0)
            } else {
                let n = *rng.pick(&NAME_POOL);
                // lower-case sometimes: the parser upper-cases
                if rng.chance(1, 5) { n.to_lowercase() } else { n.to_string() }
            }
        };
        match choice {
            0 => {
                let mode = *rng.pick(&ALL_MODES);
                Op::OpenFile(d.handle, some_name(rng), mode)
            }
            1 => {
                let f = rng.pick(&self.files);
                Op::Read(f.handle, pick_len(rng, cb, 4 * cb + 10))
            }
            2 => {
                let f = rng.pick(&self.files);
                let len = if p.big_writes && rng.chance(1, 4) { rng.range(cb as u64, (40 * cb) as u64) as usize } else { pick_len(rng, cb, p.max_write) };
                let tag = rng.next() as u8;
                let data: Vec<u8> = (0..len).map(|i| tag.wrapping_add((i as u8).wrapping_mul(7)).wrapping_add((i >> 9) as u8)).collect();
                Op::Write(f.handle, data)
            }
            3 => {
                let f = rng.pick(&self.files);
                let len = self.file_len(f);
                match rng.below(6) {
                    0 => Op::SeekStart(f.handle, *rng.pick(&[0u32, 1, 511, 512, 513, cb as u32, cb as u32 + 1, len as u32, len as u32 + 1, (len / 2) as u32])),
                    1 => Op::SeekStart(f.handle, rng.below(len as u64 + 2) as u32),
                    2 => Op::SeekEnd(f.handle, *rng.pick(&[0u32, 1, 512, len as u32, len as u32 + 1, (len / 3) as u32])),
                    3 => Op::SeekCur(f.handle, *rng.pick(&[0i32, 1, -1, 512, -512, -(cb as i32), cb as i32, -(f.pos as i32), i32::MAX, i32::MIN, -(f.pos as i32) - 1])),
                    4 => Op::SeekCur(f.handle, rng.range(0, 2 * len as u64 + 2) as i32 - len as i32),
                    _ => Op::SeekStart(f.handle, 0),
                }
            }
            4 => Op::Flush(rng.pick(&self.files).handle),
            5 => Op::CloseFile(rng.pick(&self.files).handle),
            6 => Op::Delete(d.handle, some_name(rng)),
            7 => Op::Mkdir(d.handle, some_name(rng)),
            8 => {
                let n = if rng.chance(1, 5) { *rng.pick(&[".", "..", ""]) } else { "" };
                if !n.is_empty() || rng.chance(1, 12) {
                    Op::OpenDir(d.handle, n.to_string())
                } else {
                    let dirs: Vec<&(Name, bool)> = existing.iter().filter(|e| e.1).collect();
                    if !dirs.is_empty() && rng.chance(4, 5) { Op::OpenDir(d.handle, name_str(&rng.pick(&dirs).0)) } else { Op::OpenDir(d.handle, some_name(rng)) }
                }
            }
            9 => Op::CloseDir(rng.pick(&self.dirs[1..]).handle),
            10 => {
                if rng.chance(1, 3) { Op::ListLfn(d.handle, *rng.pick(&[0usize, 10, 27, 64, 255])) } else { Op::List(d.handle) }
            }
            11 => Op::Find(d.handle, some_name(rng)),
            12 => {
                let f = rng.pick(&self.files);
                match rng.below(3) { 0 => Op::Length(f.handle), 1 => Op::Offset(f.handle), _ => Op::Eof(f.handle) }
            }
            13 => match rng.below(6) {
                0 => Op::OpenVolume(sc.vols[rng.below(sc.vols.len() as u64) as usize].slot),
                1 => Op::CloseVolume(rng.pick(&self.vols).handle),
                2 => Op::OpenRoot(rng.pick(&self.vols).handle),
                3 => Op::HasOpen,
                4 => Op::Label(rng.pick(&self.vols).handle),
                _ => Op::OpenVolume(rng.below(5) as usize),
            },
            _ => {
                // malformed stream: stale / bogus handles, bad names
                let h = self.stale_or_bogus(rng);
                match rng.below(15) {
                    12 => Op::SeekCur(h, *rng.pick(&[0i32, 5, -5, i32::MAX, i32::MIN])),
                    13 => Op::SeekEnd(h, rng.below(3) as u32),
                    14 => Op::SeekStart(h, rng.below(3) as u32),
                    // (zero-length transfers on stale handles too: no short-cut around the handle check)
                    0 => Op::Read(h, if h % 3 == 0 { 0 } else { 10 }),
                    1 => Op::Write(h, if h % 3 == 1 { vec![] } else { vec![1, 2, 3] }),
                    2 => Op::CloseFile(h),
                    3 => Op::CloseDir(h),
                    4 => Op::CloseVolume(h),
                    5 => Op::OpenDir(h, "SUB".into()),
                    6 => Op::OpenFile(h, "A.TXT".into(), Mode::ReadOnly),
                    7 => Op::List(h),
                    8 => Op::OpenFile(d.handle, rng.pick(&BAD_NAMES).to_string(), *rng.pick(&ALL_MODES)),
                    9 => Op::Mkdir(d.handle, rng.pick(&BAD_NAMES).to_string()),
                    10 => Op::OpenRoot(h),
                    _ => Op::Flush(h),
                }
            }
        }
    }

    /// Update the reference state from the operation and what the implementation answered.
    /// (The byte-array / tree semantics; the Impl's answer is only used to learn handles and to know
    /// whether the call took effect — the *content* oracle is independent.)
    pub fn apply(&mut self, sc: &Scenario, op: &Op, out: &Outcome, offset_after: Option<usize>) {
        let ok = out.is_ok();
        match op {
            Op::OpenVolume(i) => {
                if let Some(h) = out.handle() {
                    if let Some(v) = sc.vols.iter().position(|v| v.slot == *i) {
                        self.vols.push(GVol { handle: h, vol: v });
                    }
                }
            }
            Op::CloseVolume(v) => {
                if ok {
                    self.vols.retain(|x| x.handle != *v);
                    self.closed_handles.push(*v);
                }
            }
            Op::OpenRoot(v) => {
                if out.handle().is_some() {
                    self.dir_slots_used += 1;
                }
                if let Some(h) = out.handle() {
                    if let Some(gv) = self.vols.iter().find(|x| x.handle == *v) {
                        self.dirs.push(GDir { handle: h, vol: gv.vol, vhandle: *v, path: vec![] });
                    } else {
                        // known finding: a directory on a volume that is not open; track it as unusable
                        self.closed_handles.push(h);
                        self.ghost_dirs.push(h);
                    }
                }
            }
            Op::OpenDir(d, n) => {
                if out.handle().is_some() {
                    self.dir_slots_used += 1;
                }
                if let Some(h) = out.handle() {
                    if let Some(gd) = self.dirs.iter().find(|x| x.handle == *d).cloned() {
                        let mut path = gd.path.clone();
                        match n.as_str() {
                            "" | "." => {}
                            ".." => {
                                path.pop();
                            }
                            other => path.push(sfn(other)),
                        }
                        self.dirs.push(GDir { handle: h, vol: gd.vol, vhandle: gd.vhandle, path });
                    }
                }
            }
            Op::CloseDir(d) => {
                if ok {
                    self.dir_slots_used = self.dir_slots_used.saturating_sub(1);
                    self.ghost_dirs.retain(|x| x != d);
                    self.dirs.retain(|x| x.handle != *d);
                    self.closed_handles.push(*d);
                }
            }
            Op::OpenFile(d, n, m) => {
                // a truncating open that failed on a device fault may or may not have emptied the file
                if !ok && out.res == "err DeviceError" && matches!(m, Mode::ReadWriteTruncate | Mode::ReadWriteCreateOrTruncate) {
                    if let Some(gd) = self.dirs.iter().find(|x| x.handle == *d).cloned() {
                        let mut path = gd.path.clone();
                        path.push(sfn(n));
                        if let Some(rf) = self.trees[gd.vol].file_at_mut(&path) {
                            rf.opaque = true;
                        }
                    }
                }
                if let Some(h) = out.handle() {
                    if let Some(gd) = self.dirs.iter().find(|x| x.handle == *d).cloned() {
                        let name = sfn(n);
                        let mut path = gd.path.clone();
                        path.push(name);
                        let st = fat_stamp(&self.clock);
                        let dir = self.trees[gd.vol].dir_at_mut(&gd.path);
                        let mut pos = 0usize;
                        if let Some(dir) = dir {
                            let exists = dir.children.contains_key(&name);
                            let eff = match (m, exists) {
                                (Mode::ReadWriteCreateOrAppend, true) => Mode::ReadWriteAppend,
                                (Mode::ReadWriteCreateOrTruncate, true) => Mode::ReadWriteTruncate,
                                (Mode::ReadWriteCreateOrAppend, false) | (Mode::ReadWriteCreateOrTruncate, false) => Mode::ReadWriteCreate,
                                (m, _) => *m,
                            };
                            match eff {
                                Mode::ReadWriteCreate => {
                                    dir.children.insert(name, RefNode::File(RefFile { data: vec![], attr: 0, ctime: st, mtime: st, opaque: false }));
                                }
                                Mode::ReadWriteTruncate => {
                                    if let Some(RefNode::File(f)) = dir.children.get_mut(&name) {
                                        f.data.clear();
                                        f.mtime = st;
                                        f.opaque = false;
                                    }
                                }
                                Mode::ReadWriteAppend => {
                                    if let Some(RefNode::File(f)) = dir.children.get(&name) {
                                        pos = f.data.len();
                                    }
                                }
                                _ => {}
                            }
                        }
                        self.files.push(GFile { handle: h, vol: gd.vol, path, mode: *m, pos, writable: *m != Mode::ReadOnly });
                    }
                }
            }
            Op::Read(f, n) => {
                if ok {
                    if let Some(gf) = self.files.iter_mut().find(|x| x.handle == *f) {
                        let len = self.trees[gf.vol].file_at(&gf.path).map(|x| x.data.len()).unwrap_or(0);
                        gf.pos = (gf.pos + n).min(len);
                    }
                }
            }
            Op::Write(f, data) => {
                if let Some(idx) = self.files.iter().position(|x| x.handle == *f) {
                    let gf = self.files[idx].clone();
                    let past_checks = out.res != "err BadHandle" && out.res != "err ReadOnly" && out.res != "err LockError" && out.res != "panic";
                    if gf.writable && past_checks {
                        // on failure (disk full) the transferred prefix is what the offset moved by
                        let k = if ok { data.len() } else { offset_after.unwrap_or(gf.pos).saturating_sub(gf.pos) };
                        let st = fat_stamp(&self.clock);
                        if let Some(file) = self.trees[gf.vol].file_at_mut(&gf.path) {
                            if !file.opaque {
                                let end = gf.pos + k;
                                if file.data.len() < end {
                                    file.data.resize(end, 0);
                                }
                                file.data[gf.pos..end].copy_from_slice(&data[..k]);
                            }
                            // the modification is recorded as soon as the call gets past its checks,
                            // also when it then fails part way (disk full)
                            file.attr |= 0x20;
                            file.mtime = st;
                        }
                        self.files[idx].pos = gf.pos + k;
                    }
                }
            }
            Op::SeekStart(f, n) => {
                if ok {
                    if let Some(gf) = self.files.iter_mut().find(|x| x.handle == *f) {
                        gf.pos = *n as usize;
                    }
                }
            }
            Op::SeekCur(f, n) => {
                if ok {
                    if let Some(gf) = self.files.iter_mut().find(|x| x.handle == *f) {
                        gf.pos = (gf.pos as i64 + *n as i64).max(0) as usize;
                    }
                }
            }
            Op::SeekEnd(f, n) => {
                if ok {
                    if let Some(gf) = self.files.iter_mut().find(|x| x.handle == *f) {
                        let len = self.trees[gf.vol].file_at(&gf.path).map(|x| x.data.len()).unwrap_or(0);
                        // (an untracked file's reference length may lag: never underflow)
                        gf.pos = len.saturating_sub(*n as usize);
                    }
                }
            }
            Op::CloseFile(f) => {
                // the handle is gone whether or not the flush inside failed (BadHandle aside)
                if self.files.iter().any(|x| x.handle == *f) && out.res != "err BadHandle" && out.res != "err LockError" {
                    // a close whose flush failed (device fault): what the directory entry says about the file is
                    // no longer known to the reference (old size or new): its content is not tracked from here on
                    if !ok {
                        if let Some(gf) = self.files.iter().find(|x| x.handle == *f).cloned() {
                            if let Some(rf) = self.trees[gf.vol].file_at_mut(&gf.path) {
                                rf.opaque = true;
                            }
                        }
                    }
                    self.files.retain(|x| x.handle != *f);
                    self.closed_handles.push(*f);
                }
            }
            Op::Delete(d, n) => {
                // a delete that failed on a device fault may or may not have removed the entry (the slot is marked
                // before the chain is freed): what is at that name is no longer known to the reference
                if !ok && out.res == "err DeviceError" {
                    if let Some(gd) = self.dirs.iter().find(|x| x.handle == *d).cloned() {
                        let mut path = gd.path.clone();
                        path.push(sfn(n));
                        if let Some(rf) = self.trees[gd.vol].file_at_mut(&path) {
                            rf.opaque = true;
                        }
                    }
                }
                if ok {
                    if let Some(gd) = self.dirs.iter().find(|x| x.handle == *d).cloned() {
                        if let Some(dir) = self.trees[gd.vol].dir_at_mut(&gd.path) {
                            dir.children.remove(&sfn(n));
                        }
                    }
                }
            }
            Op::Mkdir(d, n) => {
                if ok {
                    if let Some(gd) = self.dirs.iter().find(|x| x.handle == *d).cloned() {
                        let st = fat_stamp(&self.clock);
                        if let Some(dir) = self.trees[gd.vol].dir_at_mut(&gd.path) {
                            dir.children.insert(sfn(n), RefNode::Dir(RefDir::empty(st)));
                        }
                    }
                }
            }
            _ => {}
        }
    }
}
