//! Minimal JSON value + writer (no external crates).
use crate::util::json_escape;

#[derive(Clone, Debug)]
pub enum J {
    Null,
    Bool(bool),
    Int(i128),
    Str(String),
    Arr(Vec<J>),
    Obj(Vec<(String, J)>),
}

impl J {
    pub fn s(x: impl Into<String>) -> J {
        J::Str(x.into())
    }
    pub fn i(x: impl Into<i128>) -> J {
        J::Int(x.into())
    }
    pub fn obj(kv: Vec<(&str, J)>) -> J {
        J::Obj(kv.into_iter().map(|(k, v)| (k.to_string(), v)).collect())
    }
    pub fn write(&self, out: &mut String) {
        match self {
            J::Null => out.push_str("null"),
            J::Bool(b) => out.push_str(if *b { "true" } else { "false" }),
            J::Int(i) => out.push_str(&i.to_string()),
            J::Str(s) => {
                out.push('"');
                out.push_str(&json_escape(s));
                out.push('"');
            }
            J::Arr(a) => {
                out.push('[');
                for (k, v) in a.iter().enumerate() {
                    if k > 0 {
                        out.push(',');
                    }
                    v.write(out);
                }
                out.push(']');
            }
            J::Obj(o) => {
                out.push('{');
                for (k, (key, v)) in o.iter().enumerate() {
                    if k > 0 {
                        out.push(',');
                    }
                    out.push('"');
                    out.push_str(&json_escape(key));
                    out.push_str("\":");
                    v.write(out);
                }
                out.push('}');
            }
        }
    }
    pub fn to_string(&self) -> String {
        let mut s = String::new();
        self.write(&mut s);
        s
    }
}
