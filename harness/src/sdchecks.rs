//! C12 / C13 / C14: the real `SdCard` driver runs against the Lean card specification
//! (`Spec.Card`, served by the model driver's `card` verbs) through an `SpiDevice` shim that
//! records every transaction and can inject faults into what the card answers.  The recorded
//! MISO stream is then fed to the Lean model of the driver (`Model.Sd`) and MOSI, result,
//! delay count and card type are compared byte for byte.
use crate::json::J;
use crate::model::Model;
use crate::pure_checks::spec_crc7;
use crate::report::Report;
use crate::util::*;
use crate::Ctx;
use embedded_hal::delay::DelayNs;
use embedded_hal::spi::{ErrorKind, ErrorType, Operation, SpiDevice};
use embedded_sdmmc::sdcard::{AcquireOpts, SdCard};
use embedded_sdmmc::{Block, BlockDevice, BlockIdx};
use std::cell::RefCell;
use std::collections::BTreeMap;
use std::panic::{catch_unwind, AssertUnwindSafe};
use std::rc::Rc;

#[derive(Clone, Debug)]
pub struct Txn {
    pub out: Vec<u8>,
    pub inp: Option<Vec<u8>>,
}

#[derive(Clone, Debug, Default)]
pub struct Faults {
    /// this transaction (global index) fails with an SPI error
    pub spi_error_at: Option<usize>,
    /// xor this mask into MISO byte number `.0` (global byte index)
    pub flip: Vec<(usize, u8)>,
    /// from this global MISO byte index on the card is replaced by: 0 = silence (0xFF), 1 = busy forever (0x00), 2 = garbage
    pub dead_from: Option<(usize, u8)>,
    /// replace MISO byte number `.0` by `.1`
    pub replace: Vec<(usize, u8)>,
    /// the card's answers are masked by 0xFF for global MISO byte indices in [from, to) (it keeps running)
    pub silent_window: Option<(usize, usize)>,
}

pub struct BusState {
    pub model: Model,
    pub log: Vec<Txn>,
    pub miso_bytes: usize,
    pub txns: usize,
    pub faults: Faults,
    pub delays: u64,
    pub garbage: Rng,
    /// hard cap on bus traffic: reaching it means the driver would never return
    pub cap: usize,
    pub capped: bool,
}

#[derive(Clone)]
pub struct SimSpi(pub Rc<RefCell<BusState>>);

#[derive(Debug, Clone, Copy)]
pub struct SimSpiError;
impl embedded_hal::spi::Error for SimSpiError {
    fn kind(&self) -> ErrorKind {
        ErrorKind::Other
    }
}
impl ErrorType for SimSpi {
    type Error = SimSpiError;
}

impl SimSpi {
    fn exchange(&mut self, out: &[u8]) -> Result<Vec<u8>, SimSpiError> {
        let mut st = self.0.borrow_mut();
        let t = st.txns;
        st.txns += 1;
        if st.miso_bytes + out.len() > st.cap {
            st.capped = true;
            st.log.push(Txn { out: out.to_vec(), inp: None });
            return Err(SimSpiError);
        }
        if st.faults.spi_error_at == Some(t) {
            st.log.push(Txn { out: out.to_vec(), inp: None });
            return Err(SimSpiError);
        }
        // the card always sees what the host clocks out
        let resp = st.model.one(&format!("card x {}", hex_or_dash(out)));
        let mut inp = unhex(&resp);
        inp.resize(out.len(), 0xFF);
        let base = st.miso_bytes;
        for (k, b) in inp.iter_mut().enumerate() {
            let g = base + k;
            if let Some((from, mode)) = st.faults.dead_from {
                if g >= from {
                    *b = match mode {
                        0 => 0xFF,
                        1 => 0x00,
                        _ => st.garbage.next() as u8,
                    };
                }
            }
            if let Some((from, to)) = st.faults.silent_window {
                if g >= from && g < to {
                    *b = 0xFF;
                }
            }
            for (i, m) in st.faults.flip.clone() {
                if i == g {
                    *b ^= m;
                }
            }
            for (i, v) in st.faults.replace.clone() {
                if i == g {
                    *b = v;
                }
            }
        }
        st.miso_bytes += out.len();
        st.log.push(Txn { out: out.to_vec(), inp: Some(inp.clone()) });
        Ok(inp)
    }
}

impl SpiDevice<u8> for SimSpi {
    fn transaction(&mut self, operations: &mut [Operation<'_, u8>]) -> Result<(), SimSpiError> {
        for op in operations.iter_mut() {
            match op {
                Operation::Read(buf) => {
                    let out = vec![0xFFu8; buf.len()];
                    let inp = self.exchange(&out)?;
                    buf.copy_from_slice(&inp);
                }
                Operation::Write(data) => {
                    self.exchange(data)?;
                }
                Operation::Transfer(read, write) => {
                    let inp = self.exchange(write)?;
                    let n = read.len().min(inp.len());
                    read[..n].copy_from_slice(&inp[..n]);
                }
                Operation::TransferInPlace(buf) => {
                    let out = buf.to_vec();
                    let inp = self.exchange(&out)?;
                    buf.copy_from_slice(&inp);
                }
                Operation::DelayNs(_) => {}
            }
        }
        Ok(())
    }
}

pub struct SimDelay(pub Rc<RefCell<BusState>>);
impl DelayNs for SimDelay {
    fn delay_ns(&mut self, _ns: u32) {
        self.0.borrow_mut().delays += 1;
    }
    fn delay_us(&mut self, _us: u32) {
        self.0.borrow_mut().delays += 1;
    }
}

#[derive(Clone, Debug)]
pub enum Call {
    Read(usize, u32),
    Write(u32, Vec<[u8; 512]>),
    NumBlocks,
    NumBytes,
    CardType,
    MarkUninit,
}

impl Call {
    fn token(&self) -> String {
        match self {
            Call::Read(n, idx) => format!("read {n} {idx}"),
            Call::Write(idx, bs) => format!("write {idx} {}", hex(&bs.iter().flat_map(|b| b.iter().cloned()).collect::<Vec<u8>>())),
            Call::NumBlocks => "num_blocks".into(),
            Call::NumBytes => "num_bytes".into(),
            Call::CardType => "card_type".into(),
            Call::MarkUninit => "mark_uninit".into(),
        }
    }
    fn show(&self) -> String {
        match self {
            Call::Write(idx, bs) => format!("write {idx} <{} blocks>", bs.len()),
            other => other.token(),
        }
    }
}

fn show_sd_err(e: &embedded_sdmmc::sdcard::Error) -> String {
    let s = format!("{:?}", e);
    // "TimeoutCommand(0)", "CrcError(1, 2)", "Transport"
    let s = s.replace(", ", ".").replace('(', ".").replace(')', "");
    format!("err {s}")
}

#[derive(Clone, Copy, Debug, PartialEq)]
pub enum Kind {
    SD1,
    SD2,
    SDHC,
}
impl Kind {
    fn token(&self) -> &'static str {
        match self {
            Kind::SD1 => "SD1",
            Kind::SD2 => "SD2",
            Kind::SDHC => "SDHC",
        }
    }
}

pub struct Rig {
    pub bus: Rc<RefCell<BusState>>,
    pub card: SdCard<SimSpi, SimDelay>,
    pub use_crc: bool,
    pub retries: u32,
    pub kind: Kind,
    /// the driver's idea of the card type before the next call (mirrors `card_type`)
    pub ctype: String,
    pub csd: Vec<u8>,
}

/// CSD registers per the SD specification (mirrors `Spec.Card.csdV1` / `csdV2`; sent to the Lean card as is).
pub fn csd_v1(c_size: u32, mult: u32) -> Vec<u8> {
    vec![0x00, 0x26, 0x00, 0x32, 0x5F, 0x59, (0x80 + (c_size >> 10) % 4) as u8, ((c_size >> 2) & 0xFF) as u8, ((c_size % 4) * 64 + 0x2D) as u8, (0xD8 + (mult >> 1) % 4) as u8, ((mult % 2) * 128 + 0x4F) as u8, 0xFF, 0xD2, 0x40, 0x40, 0x01]
}
pub fn csd_v2(c_size: u32) -> Vec<u8> {
    vec![0x40, 0x0E, 0x00, 0x32, 0x5B, 0x59, 0x00, ((c_size >> 16) & 0x3F) as u8, ((c_size >> 8) & 0xFF) as u8, (c_size & 0xFF) as u8, 0x7F, 0x80, 0x0A, 0x40, 0x00, 0x01]
}
/// capacity in 512-byte blocks encoded by a CSD (specification formulas)
pub fn spec_capacity(csd: &[u8]) -> u64 {
    if csd[0] >> 6 == 0 {
        let c_size = ((csd[6] as u64 & 3) << 10) | ((csd[7] as u64) << 2) | (csd[8] as u64 >> 6);
        let mult = ((csd[9] as u64 & 3) << 1) | (csd[10] as u64 >> 7);
        let bl = csd[5] as u64 & 15;
        ((c_size + 1) << (mult + 2) << bl) / 512
    } else {
        let c_size = ((csd[7] as u64 & 0x3F) << 16) | ((csd[8] as u64) << 8) | csd[9] as u64;
        (c_size + 1) * 1024
    }
}

impl Rig {
    pub fn new(model_path: &str, kind: Kind, csd: Vec<u8>, timing: (u32, u32, u32, u32), use_crc: bool, retries: u32, seed: u64) -> Rig {
        let mut model = Model::spawn(model_path);
        // N_BR (bytes between the stop token of a multiple-block write and the busy signal): 0 or 1, both legal
        let gap = (seed >> 7) & 1;
        let r = model.one(&format!("card new {} {} {} {} {} {} {}", kind.token(), hex(&csd), timing.0, timing.1, timing.2, timing.3, gap));
        assert_eq!(r, "ok", "card new failed");
        let bus = Rc::new(RefCell::new(BusState { model, log: vec![], miso_bytes: 0, txns: 0, faults: Faults::default(), delays: 0, garbage: Rng::new(seed), cap: 4_000_000, capped: false }));
        let card = SdCard::new_with_options(SimSpi(bus.clone()), SimDelay(bus.clone()), AcquireOpts { use_crc, acquire_retries: retries });
        Rig { bus, card, use_crc, retries, kind, ctype: "none".into(), csd }
    }
    pub fn set_block(&self, n: u32, data: &[u8; 512]) {
        self.bus.borrow_mut().model.one(&format!("card blk {} {}", n, hex(data)));
    }
    pub fn get_block(&self, n: u32) -> Vec<u8> {
        unhex(&self.bus.borrow_mut().model.one(&format!("card get {}", n)))
    }
    pub fn violations(&self) -> String {
        self.bus.borrow_mut().model.one("card viol")
    }
    /// run one driver call; returns (canonical result, transactions of this call, delays of this call)
    pub fn call(&mut self, c: &Call) -> (String, Vec<Txn>, u64) {
        {
            let mut b = self.bus.borrow_mut();
            b.log.clear();
            b.delays = 0;
        }
        let card = &self.card;
        let res = catch_unwind(AssertUnwindSafe(|| match c {
            Call::Read(n, idx) => {
                let mut blocks = vec![Block::new(); *n];
                match card.read(&mut blocks, BlockIdx(*idx)) {
                    Ok(()) => format!("ok blocks {}", hex_or_dash(&blocks.iter().flat_map(|b| b.contents.iter().cloned()).collect::<Vec<u8>>())),
                    Err(e) => show_sd_err(&e),
                }
            }
            Call::Write(idx, bs) => {
                let blocks: Vec<Block> = bs.iter().map(|b| { let mut k = Block::new(); k.contents = *b; k }).collect();
                match card.write(&blocks, BlockIdx(*idx)) {
                    Ok(()) => "ok".to_string(),
                    Err(e) => show_sd_err(&e),
                }
            }
            Call::NumBlocks => match card.num_blocks() {
                Ok(n) => format!("ok n {}", n.0),
                Err(e) => show_sd_err(&e),
            },
            Call::NumBytes => match card.num_bytes() {
                Ok(n) => format!("ok n {}", n),
                Err(e) => show_sd_err(&e),
            },
            Call::CardType => format!("ok t {}", match card.get_card_type() {
                Some(embedded_sdmmc::sdcard::CardType::SD1) => "SD1",
                Some(embedded_sdmmc::sdcard::CardType::SD2) => "SD2",
                Some(embedded_sdmmc::sdcard::CardType::SDHC) => "SDHC",
                None => "none",
            }),
            Call::MarkUninit => {
                card.mark_card_uninit();
                "ok".to_string()
            }
        }))
        .unwrap_or_else(|_| "panic".to_string());
        let b = self.bus.borrow();
        (res, b.log.clone(), b.delays)
    }
}

fn txn_tokens(log: &[Txn]) -> (String, String) {
    // MOSI transactions and MISO responses, run-length compressed
    fn compress(toks: Vec<String>) -> String {
        let mut out: Vec<String> = Vec::new();
        let mut i = 0;
        while i < toks.len() {
            let mut j = i;
            while j + 1 < toks.len() && toks[j + 1] == toks[i] {
                j += 1;
            }
            if j > i {
                out.push(format!("{}*{}", toks[i], j - i + 1));
            } else {
                out.push(toks[i].clone());
            }
            i = j + 1;
        }
        if out.is_empty() { "-".into() } else { out.join(",") }
    }
    let mosi = compress(log.iter().map(|t| hex(&t.out)).collect());
    let miso = compress(log.iter().map(|t| match &t.inp { Some(b) => hex(b), None => "!".to_string() }).collect());
    (mosi, miso)
}

/// Compare one call with the Lean model of the driver; updates `rig.ctype` from the model's view.
fn correspond(rep: &mut Report, rig: &mut Rig, call: &Call, res: &str, log: &[Txn], delays: u64, tag: &str) {
    let (mosi, miso) = txn_tokens(log);
    let req = format!("sd {} {} {} {} | {}", if rig.use_crc { 1 } else { 0 }, rig.retries, rig.ctype, call.token(), miso);
    let got = rig.bus.borrow_mut().model.one(&req);
    // "<res> | <mosi> | <delays> | <ctype> | <unused responses>"
    let parts: Vec<&str> = got.split(" | ").collect();
    rep.model_requests += 1;
    if parts.len() != 5 {
        rep.violation("model-vs-impl", "correspondence:sd:malformed", &format!("model answered `{}` to `{}`", trunc(&got, 200), trunc(&req, 200)), J::obj(vec![("case", J::s(tag.to_string())), ("call", J::s(call.show()))]));
        return;
    }
    let impl_line = format!("{} | {} | {}", res, mosi, delays);
    let model_line = format!("{} | {} | {}", parts[0], if parts[1].is_empty() { "-" } else { parts[1] }, parts[2]);
    if impl_line != model_line || parts[4] != "0" {
        let what = if res != parts[0] { "result" } else if delays.to_string() != parts[2] { "delay-count" } else { "mosi" };
        rep.violation("model-vs-impl", &format!("correspondence:sd:{what}"), &format!("`{}`: implementation `{}`, model `{}` (unused recorded responses: {})", call.show(), trunc(&impl_line, 300), trunc(&model_line, 300), parts[4]),
            J::obj(vec![("case", J::s(tag.to_string())), ("call", J::s(call.show())), ("request", J::s(trunc(&req, 3000))), ("impl", J::s(trunc(&impl_line, 3000))), ("model", J::s(trunc(&model_line, 3000)))]));
    }
    rig.ctype = parts[3].to_string();
}

fn trunc(s: &str, n: usize) -> String {
    crate::fschecks::truncate(s, n)
}

/// Independent check of everything the driver put on MOSI during one call (C14, harness side):
/// command frames are six bytes `01cccccc`, big-endian argument, CRC-7 + end bit; application
/// commands are preceded by CMD55; a CMD18 is followed by CMD12 before any other command.
fn check_frames(rep: &mut Report, log: &[Txn], tag: &str, call: &Call, in_multi_read: &mut bool, last_cmd: &mut Option<u8>) {
    for t in log {
        if t.out.len() == 6 && (t.out[0] & 0xC0) == 0x40 {
            rep.oracle_checks += 1;
            let idx = t.out[0] & 0x3F;
            let crc = spec_crc7(&t.out[0..5]);
            if t.out[5] != crc {
                rep.violation("impl-vs-spec", "frame-crc7", &format!("command {idx} frame {} has CRC byte {:#04x}, the specification's CRC-7 with end bit is {:#04x}", hex(&t.out), t.out[5], crc), J::obj(vec![("case", J::s(tag.to_string())), ("call", J::s(call.show()))]));
            }
            if (idx == 41 || idx == 23) && *last_cmd != Some(55) {
                rep.violation("impl-vs-spec", "acmd-without-cmd55", &format!("application command {idx} not directly preceded by CMD55"), J::obj(vec![("case", J::s(tag.to_string())), ("call", J::s(call.show()))]));
            }
            if *in_multi_read && idx != 12 {
                rep.violation("impl-vs-spec", "multi-read-not-stopped", &format!("command {idx} sent while a multiple-block read (CMD18) has not been ended by CMD12"), J::obj(vec![("case", J::s(tag.to_string())), ("call", J::s(call.show()))]));
                *in_multi_read = false;
            }
            if idx == 18 {
                *in_multi_read = true;
            }
            if idx == 12 {
                *in_multi_read = false;
            }
            *last_cmd = Some(idx);
        }
    }
}

/// The bound on bus traffic of one call (bytes exchanged), from the retry budgets of the source:
/// see DESIGN.md appendix ("SPI traffic bounds").
pub fn traffic_bound(call: &Call, retries: u64, needs_init: bool) -> u64 {
    let c = 10_000u64; // DEFAULT_COMMAND_RETRIES
    let rd = 10_000u64;
    let wr = 50_000u64;
    let p = |n: u64| n + 1;
    let cmd = p(c) + 6 + 1 + p(c);
    let read_data = |l: u64| p(rd) + l + 2;
    let write_data = |l: u64| 1 + l + 2 + 1;
    let acquire = (retries + 1) * (cmd + 255) + cmd + (c + 1) * (cmd + 4) + (c + 1) * 2 * cmd + cmd + 4 + 1;
    let own = match call {
        Call::Read(1, _) => cmd + read_data(512),
        Call::Read(n, _) => 2 * cmd + *n as u64 * read_data(512),
        Call::Write(_, bs) if bs.len() == 1 => 2 * cmd + write_data(512) + p(wr) + 1,
        Call::Write(_, bs) => 3 * cmd + 3 * p(wr) + bs.len() as u64 * (p(wr) + write_data(512)) + 1 + 1,
        Call::NumBlocks | Call::NumBytes => cmd + read_data(16),
        Call::CardType | Call::MarkUninit => 0,
    };
    own + if needs_init { acquire } else { 0 }
}

struct CaseCfg {
    kind: Kind,
    csd: Vec<u8>,
    timing: (u32, u32, u32, u32),
    use_crc: bool,
    retries: u32,
}

fn random_cfg(rng: &mut Rng, k: usize) -> CaseCfg {
    let kind = [Kind::SD1, Kind::SD2, Kind::SDHC][k % 3];
    let csd = match kind {
        Kind::SDHC => csd_v2(*rng.pick(&[0u32, 3, 7529, 0x3FFF])),
        _ => csd_v1(*rng.pick(&[15u32, 255, 3773, 4095]), *rng.pick(&[0u32, 3, 7])),
    };
    CaseCfg { kind, csd, timing: (rng.below(9) as u32, rng.below(40) as u32, rng.below(60) as u32, rng.below(6) as u32), use_crc: (k / 3) % 2 == 0, retries: *rng.pick(&[50u32, 2, 0]) }
}

fn block_pattern(rng: &mut Rng) -> [u8; 512] {
    let mut b = [0u8; 512];
    let k = rng.next();
    for (i, x) in b.iter_mut().enumerate() {
        *x = (k >> ((i % 8) * 8)) as u8 ^ (i as u8).wrapping_mul(13);
    }
    b
}

/// One legal-card session: identification, reads and writes, capacity; memory oracle; C14 oracles.
fn legal_session(ctx: &Ctx, rng: &mut Rng, rep: &mut Report, cfg: &CaseCfg, tag: &str, ncalls: usize, prop: &str) {
    let mut rig = Rig::new(&ctx.model_path, cfg.kind, cfg.csd.clone(), cfg.timing, cfg.use_crc, cfg.retries, rng.next());
    let cap = spec_capacity(&cfg.csd).min(u32::MAX as u64) as u32;
    let mut mem: BTreeMap<u32, [u8; 512]> = BTreeMap::new();
    let addr_limit: u32 = if cfg.kind == Kind::SDHC { cap } else { cap.min(1 << 23) };
    let interesting: Vec<u32> = vec![0, 1, 2, 7, addr_limit.saturating_sub(1), addr_limit.saturating_sub(2), addr_limit / 2];
    for &n in interesting.iter().take(4) {
        if n < cap {
            let b = block_pattern(rng);
            rig.set_block(n, &b);
            mem.insert(n, b);
        }
    }
    let mut in_multi = false;
    let mut last_cmd = None;
    let mut initialised = false;
    rep.cases += 1;
    rep.count(&format!("kind:{}:crc={}", cfg.kind.token(), cfg.use_crc));
    for step in 0..ncalls {
        let call = match if step == 0 { 6 } else { rng.below(12) } {
            0 | 1 => Call::Read(1, *rng.pick(&interesting)),
            2 => Call::Read(rng.range(2, 5) as usize, (*rng.pick(&interesting)).min(addr_limit.saturating_sub(6))),
            3 | 4 => Call::Write(*rng.pick(&interesting), vec![block_pattern(rng)]),
            5 => {
                let n = rng.range(2, 4) as usize;
                Call::Write((*rng.pick(&interesting)).min(addr_limit.saturating_sub(6)), (0..n).map(|_| block_pattern(rng)).collect())
            }
            6 => Call::CardType,
            7 => Call::NumBlocks,
            8 => Call::NumBytes,
            9 => Call::MarkUninit,
            _ => Call::Read(1, rng.below(cap.max(1) as u64) as u32),
        };
        let in_range = match &call {
            Call::Read(n, idx) => (*idx as u64 + *n as u64) <= cap as u64,
            Call::Write(idx, bs) => (*idx as u64 + bs.len() as u64) <= cap as u64,
            _ => true,
        };
        if !in_range {
            continue;
        }
        let (res, log, delays) = rig.call(&call);
        rep.ops += 1;
        rep.count(&format!("call:{}", call.token().split(' ').next().unwrap_or("")));
        let bytes: u64 = log.iter().map(|t| t.out.len() as u64).sum();
        // ---- oracles
        rep.oracle_checks += 1;
        if res == "panic" {
            rep.violation("impl-vs-spec", "sd-panic", &format!("`{}` panicked against a legal card", call.show()), J::obj(vec![("case", J::s(tag.to_string())), ("call", J::s(call.show()))]));
        }
        match &call {
            Call::Read(n, idx) => {
                let mut want = Vec::new();
                for k in 0..*n as u32 {
                    want.extend_from_slice(&mem.get(&(idx + k)).copied().unwrap_or([0u8; 512]));
                }
                let want = format!("ok blocks {}", hex(&want));
                if res != want {
                    rep.violation("impl-vs-spec", "sd-read-wrong", &format!("{} of a legal {} card (crc {}) returned `{}`", call.show(), cfg.kind.token(), cfg.use_crc, trunc(&res, 80)), J::obj(vec![("case", J::s(tag.to_string())), ("call", J::s(call.show())), ("timing", J::s(format!("{:?}", cfg.timing)))]));
                }
            }
            Call::Write(idx, bs) => {
                if res != "ok" {
                    rep.violation("impl-vs-spec", "sd-write-fails", &format!("{} on a legal card returned `{}`", call.show(), res), J::obj(vec![("case", J::s(tag.to_string())), ("call", J::s(call.show())), ("timing", J::s(format!("{:?}", cfg.timing)))]));
                } else {
                    for (k, b) in bs.iter().enumerate() {
                        mem.insert(idx + k as u32, *b);
                    }
                    // exactly these blocks, nowhere else: check the written ones and their neighbours
                    for n in idx.saturating_sub(1)..=(idx + bs.len() as u32).min(cap - 1) {
                        let got = rig.get_block(n);
                        let want = mem.get(&n).copied().unwrap_or([0u8; 512]);
                        rep.oracle_checks += 1;
                        if got != want {
                            rep.violation("impl-vs-spec", "sd-write-misplaced", &format!("after {}, block {n} of the card is not what it should be", call.show()), J::obj(vec![("case", J::s(tag.to_string())), ("call", J::s(call.show())), ("block", J::i(n as i128))]));
                        }
                    }
                }
            }
            Call::NumBlocks => {
                let want = format!("ok n {}", spec_capacity(&cfg.csd).min(u32::MAX as u64));
                if res != want {
                    rep.violation("impl-vs-spec", &format!("sd-capacity-blocks:{}", cfg.kind.token()), &format!("num_blocks = `{}`, the card's CSD encodes {}", res, want), J::obj(vec![("case", J::s(tag.to_string())), ("csd", J::s(hex(&cfg.csd)))]));
                }
            }
            Call::NumBytes => {
                let want = format!("ok n {}", spec_capacity(&cfg.csd) * 512);
                if res != want {
                    rep.violation("impl-vs-spec", &format!("sd-capacity-bytes:{}", cfg.kind.token()), &format!("num_bytes = `{}`, the card's CSD encodes {}", res, want), J::obj(vec![("case", J::s(tag.to_string())), ("csd", J::s(hex(&cfg.csd)))]));
                }
            }
            Call::CardType => {
                if res != format!("ok t {}", cfg.kind.token()) {
                    rep.violation("impl-vs-spec", "sd-card-type", &format!("a {} card was identified as `{}`", cfg.kind.token(), res), J::obj(vec![("case", J::s(tag.to_string())), ("timing", J::s(format!("{:?}", cfg.timing)))]));
                }
            }
            Call::MarkUninit => {}
        }
        let needs_init = !initialised;
        if !matches!(call, Call::MarkUninit) {
            initialised = true;
        } else {
            initialised = false;
        }
        rep.oracle_checks += 1;
        let bound = traffic_bound(&call, cfg.retries as u64, needs_init);
        if bytes > bound {
            rep.violation("impl-vs-spec", "sd-traffic-bound", &format!("{} exchanged {bytes} bytes, bound {bound}", call.show()), J::obj(vec![("case", J::s(tag.to_string()))]));
        }
        check_frames(rep, &log, tag, &call, &mut in_multi, &mut last_cmd);
        let viol = rig.violations();
        rep.oracle_checks += 1;
        if viol != "-" {
            rep.violation("impl-vs-spec", &format!("protocol:{}", viol.split('|').next().unwrap_or("").split(' ').take(3).collect::<Vec<_>>().join("-")), &format!("after `{}` the card specification reports: {}", call.show(), trunc(&viol, 300)), J::obj(vec![("case", J::s(tag.to_string())), ("call", J::s(call.show())), ("timing", J::s(format!("{:?}", cfg.timing))), ("mosi", J::s(trunc(&txn_tokens(&log).0, 1500))), ("miso", J::s(trunc(&txn_tokens(&log).1, 1500)))]));
            break;
        }
        correspond(rep, &mut rig, &call, &res, &log, delays, tag);
    }
    if rep.samples.len() < 3 {
        rep.sample(J::obj(vec![("property", J::s(prop)), ("kind", J::s(cfg.kind.token())), ("use_crc", J::Bool(cfg.use_crc)), ("timing(ncr,nac,busy,initPolls)", J::s(format!("{:?}", cfg.timing))), ("csd", J::s(hex(&cfg.csd)))]));
    }
}

pub fn c12(ctx: &Ctx) -> Report {
    let mut rep = Report::new("C12");
    let mut rng = Rng::new(ctx.seed ^ 0xC12);
    let n = if ctx.thorough { 600 } else { 36 };
    for k in 0..n {
        let cfg = random_cfg(&mut rng, k);
        legal_session(ctx, &mut rng, &mut rep, &cfg, &format!("c12/{}/{k}", ctx.seed), if ctx.thorough { 30 } else { 16 }, "C12");
    }
    for k in 0..(if ctx.thorough { 12 } else { 2 }) {
        slow_card_session(ctx, &mut rng, &mut rep, k, &format!("c12slow/{}/{k}", ctx.seed));
    }
    rep.rule = "sessions of the real SdCard driver against the Lean card specification: kinds {SD1, SD2 standard capacity, SDHC} x CRC on/off x CSD registers (several C_SIZE / C_SIZE_MULT, v1 and v2 layouts) x timings (response delay 0..8, token delay 0..39, busy 0..59 bytes, 0..5 ACMD41 polls); calls: single and multi-block reads and writes at block 0, 1, last, last-1, middle, random; card type, capacity in blocks and bytes, mark-uninit + re-identification; oracles: harness-side memory map vs the card's memory after every write (written blocks and neighbours), read results, capacity from the CSD formulas; every call replayed on the Lean driver model (MOSI byte for byte, result, delay count); distinct = sessions".into();
    rep.distinct_nontrivial = rep.cases;
    rep
}

pub fn c14(ctx: &Ctx) -> Report {
    let mut rep = Report::new("C14");
    let mut rng = Rng::new(ctx.seed ^ 0xC14);
    let n = if ctx.thorough { 600 } else { 36 };
    for k in 0..n {
        let cfg = random_cfg(&mut rng, k + 1);
        legal_session(ctx, &mut rng, &mut rep, &cfg, &format!("c14/{}/{k}", ctx.seed), if ctx.thorough { 40 } else { 20 }, "C14");
    }
    // calls after errors: a corrupted block inside a multi-block read, then more calls
    for k in 0..(if ctx.thorough { 120 } else { 12 }) {
        after_error_session(ctx, &mut rng, &mut rep, k, &format!("c14e/{}/{k}", ctx.seed));
    }
    // a refused block inside a multiple-block write, then more calls
    for k in 0..(if PENDING_FIX_MULTI_WRITE_STOP { 0 } else if ctx.thorough { 60 } else { 6 }) {
        after_write_error_session(ctx, &mut rng, &mut rep, k, &format!("c14w/{}/{k}", ctx.seed));
    }
    // an identification that fails part way, then further calls without mark_card_uninit
    for k in 0..(if ctx.thorough { 80 } else { 8 }) {
        failed_init_session(ctx, &mut rng, &mut rep, k, &format!("c14i/{}/{k}", ctx.seed));
    }
    rep.rule = "the same sessions as C12 (all kinds, CRC modes, timings, incl. mark-uninit + re-identification), judged by the card specification's violation list (frame format, CRC-7, end bit, command while busy, ACMD without CMD55, data command before identification, command during a multiple-block read) and by an independent frame parser in the harness (CRC-7 from the polynomial, CMD55 prefix, CMD18 ended by CMD12), plus sessions in which a transfer fails (corrupted data block, rejected write) or the identification itself fails part way (SPI error after CMD8, card slower than the ACMD41 budget) and further calls follow; distinct = sessions".into();
    rep.distinct_nontrivial = rep.cases;
    rep
}

/// A session in which one call fails in the middle of a transfer and the next calls must still form
/// a legal conversation.  Variants: a corrupted block inside a multiple-block read (any block, also
/// not the last one: the corruption must be reported), and a card that falls silent for longer than
/// the read timeout in the middle of a multiple-block read and then carries on.
fn after_error_session(ctx: &Ctx, rng: &mut Rng, rep: &mut Report, k: usize, tag: &str) {
    let cfg = random_cfg(rng, k);
    let cfg = CaseCfg { use_crc: true, timing: (cfg.timing.0, cfg.timing.1 % 8, cfg.timing.2 % 8, cfg.timing.3), ..cfg };
    let mut rig = Rig::new(&ctx.model_path, cfg.kind, cfg.csd.clone(), cfg.timing, true, cfg.retries, rng.next());
    rep.cases += 1;
    let (r0, l0, d0) = rig.call(&Call::CardType);
    correspond(rep, &mut rig, &Call::CardType, &r0, &l0, d0, tag);
    let mut in_multi = false;
    let mut last_cmd = None;
    let nblocks = 3usize;
    let call = Call::Read(nblocks, 1);
    // a clean run first: where does each block's payload start in the MISO stream of this call?
    let (rc, lc, dc) = rig.call(&call);
    correspond(rep, &mut rig, &call, &rc, &lc, dc, tag);
    let mut starts: Vec<usize> = Vec::new();
    let mut pos = 0usize;
    for t in &lc {
        if t.out.len() == 512 {
            starts.push(pos);
        }
        pos += t.out.len();
    }
    if starts.len() != nblocks {
        return;
    }
    let base = rig.bus.borrow().miso_bytes;
    let variant = k % 3;
    let which = rng.below(nblocks as u64) as usize;
    if variant < 2 {
        // corrupt one bit of block `which` (data or its CRC)
        let bit = rng.below(4112) as usize;
        rig.bus.borrow_mut().faults.flip = vec![(base + starts[which] + bit / 8, 0x80 >> (bit % 8))];
        rep.count(&format!("after-error:flip-in-block-{}-of-{}", which + 1, nblocks));
    } else {
        // silence from just before block 2's token for longer than the read budget, then the card carries on
        let from = base + starts[1] - 1 - cfg.timing.1 as usize;
        rig.bus.borrow_mut().faults.silent_window = Some((from, from + 10_050));
        rep.count("after-error:silent-window");
    }
    let (res, log, delays) = rig.call(&call);
    rig.bus.borrow_mut().faults = Faults::default();
    rep.ops += 1;
    check_frames(rep, &log, tag, &call, &mut in_multi, &mut last_cmd);
    correspond(rep, &mut rig, &call, &res, &log, delays, tag);
    rep.oracle_checks += 1;
    if variant < 2 && !res.starts_with("err CrcError") {
        rep.violation("impl-vs-spec", "corruption-accepted-multi", &format!("a bit of block {} of a {}-block read was flipped on the wire (CRC on) and the read returned `{}`", which + 1, nblocks, trunc(&res, 60)), J::obj(vec![("case", J::s(tag.to_string())), ("kind", J::s(cfg.kind.token())), ("block", J::i(which as i128 + 1))]));
    }
    if variant == 2 && !res.starts_with("err") {
        rep.notes.push(format!("silent window did not make the read fail: {}", trunc(&res, 40)));
    }
    for c in [Call::Read(1, 2), Call::Write(3, vec![block_pattern(rng)]), Call::Read(2, 3)] {
        let (r2, log, delays) = rig.call(&c);
        rep.ops += 1;
        check_frames(rep, &log, tag, &c, &mut in_multi, &mut last_cmd);
        correspond(rep, &mut rig, &c, &r2, &log, delays, tag);
        let viol = rig.violations();
        rep.oracle_checks += 1;
        if viol != "-" {
            let sig = if viol.contains("during multiple-block read") { "multi-read-not-stopped-after-error".to_string() } else { format!("protocol-after-error:{}", viol.split(' ').take(3).collect::<Vec<_>>().join("-")) };
            rep.violation("impl-vs-spec", &sig, &format!("a {} failed with `{}`; the next call `{}` then violates the protocol: {}", call.show(), trunc(&res, 60), c.show(), trunc(&viol, 200)), J::obj(vec![("case", J::s(tag.to_string())), ("kind", J::s(cfg.kind.token())), ("timing", J::s(format!("{:?}", cfg.timing)))]));
            break;
        }
    }
}

/// An identification that FAILS part way - an SPI error at a transaction after the card has answered CMD8, or a
/// card that needs more ACMD41 polls than the driver's budget - followed by further calls WITHOUT
/// `mark_card_uninit`: the driver must start over with CMD0; a data command must never reach a card that has not
/// completed identification (the card specification records it), and the failed identification must be an error.
fn failed_init_session(ctx: &Ctx, rng: &mut Rng, rep: &mut Report, k: usize, tag: &str) {
    let cfg0 = random_cfg(rng, k);
    // (the slow card costs 10 000 polls per identification: one such case in the quick tier)
    let variant = if k % 4 == 3 && !ctx.thorough && k != 3 { 1 } else { k % 4 };
    let slow = variant == 3;
    let timing = if slow { (cfg0.timing.0 % 3, cfg0.timing.1 % 8, cfg0.timing.2 % 8, 10_020) } else { (cfg0.timing.0, cfg0.timing.1 % 8, cfg0.timing.2 % 8, cfg0.timing.3) };
    let seed = rng.next();
    let mut fault_at: Option<usize> = None;
    if !slow {
        // a clean identification on a twin rig: where is the CMD8 frame, how many transactions in all?
        let mut probe = Rig::new(&ctx.model_path, cfg0.kind, cfg0.csd.clone(), timing, cfg0.use_crc, cfg0.retries, seed);
        let (_r, l, _d) = probe.call(&Call::CardType);
        let i8 = match l.iter().position(|t| t.out.len() == 6 && t.out[0] == 0x48) { Some(i) => i, None => return };
        let n = l.len();
        if i8 + 3 >= n {
            return;
        }
        // just after CMD8's answer / in the middle of the rest / the last transaction of the identification
        fault_at = Some(match variant { 0 => i8 + 3, 1 => i8 + 3 + (n - i8 - 3) / 2, _ => n - 1 });
    }
    let mut rig = Rig::new(&ctx.model_path, cfg0.kind, cfg0.csd.clone(), timing, cfg0.use_crc, cfg0.retries, seed);
    rep.cases += 1;
    rep.count(&format!("failed-init:{}", ["spi-error-after-cmd8", "spi-error-mid-identification", "spi-error-last-transaction", "card-needs-more-acmd41-polls-than-budget"][variant]));
    let mut in_multi = false;
    let mut last_cmd = None;
    rig.bus.borrow_mut().faults.spi_error_at = fault_at;
    // the first call identifies (and fails); what it returns is compared with the model as always
    let first = if k % 2 == 0 { Call::Read(1, 1) } else { Call::NumBlocks };
    let (res, log, delays) = rig.call(&first);
    rig.bus.borrow_mut().faults = Faults::default();
    rep.ops += 1;
    check_frames(rep, &log, tag, &first, &mut in_multi, &mut last_cmd);
    correspond(rep, &mut rig, &first, &res, &log, delays, tag);
    rep.oracle_checks += 1;
    if !res.starts_with("err") {
        rep.notes.push(format!("failed-init: `{}` did not fail ({}), variant {variant}", first.show(), trunc(&res, 40)));
        return;
    }
    if !slow {
        let (rt, lt, dt) = rig.call(&Call::CardType);
        correspond(rep, &mut rig, &Call::CardType, &rt, &lt, dt, tag);
    }
    // (the query itself re-identifies: whatever it says, the calls below are judged by the card)
    for c in [Call::Read(1, 2), Call::Write(3, vec![block_pattern(rng)]), Call::NumBlocks, Call::Write(5, vec![block_pattern(rng), block_pattern(rng)]), Call::Read(2, 3)] {
        let (r2, log, delays) = rig.call(&c);
        rep.ops += 1;
        check_frames(rep, &log, tag, &c, &mut in_multi, &mut last_cmd);
        correspond(rep, &mut rig, &c, &r2, &log, delays, tag);
        let viol = rig.violations();
        rep.oracle_checks += 1;
        if viol != "-" {
            rep.violation("impl-vs-spec", &format!("protocol-after-failed-init:{}", viol.split(' ').take(4).collect::<Vec<_>>().join("-")), &format!("the identification inside `{}` failed with `{}`; the next call `{}` then violates the protocol: {}", first.show(), trunc(&res, 60), c.show(), trunc(&viol, 200)), J::obj(vec![("case", J::s(tag.to_string())), ("kind", J::s(cfg0.kind.token())), ("timing", J::s(format!("{:?}", timing))), ("spi_error_at_transaction", J::s(format!("{:?}", fault_at)))]));
            break;
        }
        if slow {
            // every further identification costs 10 000 polls: one is enough
            break;
        }
    }
}

/// (switched on together with the repair of the defect it exhibits)
const PENDING_FIX_MULTI_WRITE_STOP: bool = false;

/// A multiple-block write in which the card refuses one of the blocks (data response "write error" 0x0D or
/// "CRC error" 0x0B instead of "accepted"): the call must fail, and the calls that follow must still form a
/// legal conversation - in particular the card must not be left waiting for further data blocks (the write
/// has to be ended by the stop token although it failed).
fn after_write_error_session(ctx: &Ctx, rng: &mut Rng, rep: &mut Report, k: usize, tag: &str) {
    let cfg = random_cfg(rng, k);
    let cfg = CaseCfg { timing: (cfg.timing.0, cfg.timing.1 % 8, cfg.timing.2 % 8, cfg.timing.3), ..cfg };
    let mut rig = Rig::new(&ctx.model_path, cfg.kind, cfg.csd.clone(), cfg.timing, cfg.use_crc, cfg.retries, rng.next());
    rep.cases += 1;
    let (r0, l0, d0) = rig.call(&Call::CardType);
    correspond(rep, &mut rig, &Call::CardType, &r0, &l0, d0, tag);
    let mut in_multi = false;
    let mut last_cmd = None;
    let blocks = vec![block_pattern(rng), block_pattern(rng), block_pattern(rng)];
    let call = Call::Write(2, blocks.clone());
    // a clean run first: where is each block's data-response byte in the MISO stream of this call?
    let (rc, lc, dc) = rig.call(&call);
    correspond(rep, &mut rig, &call, &rc, &lc, dc, tag);
    let mut resp_pos: Vec<usize> = Vec::new();
    let mut pos = 0usize;
    let mut prev_len = 0usize;
    for t in &lc {
        if t.out.len() == 2 && prev_len == 512 {
            resp_pos.push(pos + 2);
        }
        prev_len = t.out.len();
        pos += t.out.len();
    }
    if resp_pos.len() != blocks.len() || !rc.starts_with("ok") {
        rep.notes.push(format!("after-write-error: clean 3-block write gave `{}` with {} data responses located", trunc(&rc, 40), resp_pos.len()));
        return;
    }
    let base = rig.bus.borrow().miso_bytes;
    let which = k % blocks.len();
    let status = if (k / 3) % 2 == 0 { 0x0Du8 } else { 0x0B };
    rig.bus.borrow_mut().faults.replace = vec![(base + resp_pos[which], status)];
    rep.count(&format!("after-write-error:block-{}-of-3:{:#04x}", which + 1, status));
    let (res, log, delays) = rig.call(&call);
    rig.bus.borrow_mut().faults = Faults::default();
    rep.ops += 1;
    check_frames(rep, &log, tag, &call, &mut in_multi, &mut last_cmd);
    correspond(rep, &mut rig, &call, &res, &log, delays, tag);
    rep.oracle_checks += 1;
    if !res.starts_with("err") {
        rep.violation("impl-vs-spec", "rejected-write-accepted", &format!("data response {status:#04x} (not 'accepted') for block {} of a 3-block write and the write returned `{res}`", which + 1), J::obj(vec![("case", J::s(tag.to_string())), ("status", J::i(status as i128)), ("block", J::i(which as i128 + 1))]));
    }
    for c in [Call::Read(1, 2), Call::Write(9, vec![block_pattern(rng)]), Call::Read(2, 3)] {
        let (r2, log, delays) = rig.call(&c);
        rep.ops += 1;
        check_frames(rep, &log, tag, &c, &mut in_multi, &mut last_cmd);
        correspond(rep, &mut rig, &c, &r2, &log, delays, tag);
        let viol = rig.violations();
        rep.oracle_checks += 1;
        if viol != "-" {
            rep.violation("impl-vs-spec", "multi-write-not-stopped-after-error", &format!("block {} of a `{}` was refused by the card (data response {status:#04x}), the call returned `{}`; the next call `{}` then violates the protocol: {}", which + 1, call.show(), trunc(&res, 60), c.show(), trunc(&viol, 200)), J::obj(vec![("case", J::s(tag.to_string())), ("kind", J::s(cfg.kind.token())), ("timing", J::s(format!("{:?}", cfg.timing))), ("status", J::i(status as i128)), ("block", J::i(which as i128 + 1))]));
            break;
        }
    }
}

/// C12 with the extremes of legal timing: a busy period after a single-block write that is long but
/// below the driver's write timeout, and a data-token delay just below the read timeout.
fn slow_card_session(ctx: &Ctx, rng: &mut Rng, rep: &mut Report, k: usize, tag: &str) {
    let base = random_cfg(rng, k);
    let busy = *rng.pick(&[12_000u32, 30_000, 49_000]);
    let nac = *rng.pick(&[0u32, 9_000]);
    let cfg = CaseCfg { timing: (base.timing.0, nac, busy, 1), ..base };
    let mut rig = Rig::new(&ctx.model_path, cfg.kind, cfg.csd.clone(), cfg.timing, cfg.use_crc, cfg.retries, rng.next());
    rep.cases += 1;
    rep.count("slow-card");
    let (r0, l0, d0) = rig.call(&Call::CardType);
    correspond(rep, &mut rig, &Call::CardType, &r0, &l0, d0, tag);
    let b = block_pattern(rng);
    let b2 = block_pattern(rng);
    // a single-block write and its read-back, then multiple-block writes directly followed by other calls (the
    // card is still programming when the stop token has been sent; the driver has to wait for it with the write
    // budget).  The specification card has ONE busy parameter, also used for the R1b answer to CMD12; a real
    // card's busy after stopping a READ is short, so the multiple-block read comes last (nothing follows it).
    for c in [Call::Write(2, vec![b]), Call::Read(1, 2), Call::Write(4, vec![b2, b]), Call::Read(1, 5), Call::Read(1, 4), Call::Write(7, vec![b, b2, b]), Call::Write(2, vec![b2]), Call::Read(1, 9), Call::Read(2, 4)] {
        let (res, log, delays) = rig.call(&c);
        rep.ops += 1;
        rep.oracle_checks += 1;
        let good = match &c {
            Call::Write(..) => res == "ok",
            Call::Read(1, 2) | Call::Read(1, 5) => res == format!("ok blocks {}", hex(&b)),
            Call::Read(1, 4) => res == format!("ok blocks {}", hex(&b2)),
            Call::Read(2, 4) => res == format!("ok blocks {}{}", hex(&b2), hex(&b)),
            _ => res.starts_with("ok blocks "),
        };
        if !good {
            rep.violation("impl-vs-spec", "legal-slow-card-fails", &format!("`{}` against a card with legal timing (busy {} bytes, token delay {} bytes: both below the driver's budgets) returned `{}`", c.show(), busy, nac, trunc(&res, 60)), J::obj(vec![("case", J::s(tag.to_string())), ("kind", J::s(cfg.kind.token())), ("timing", J::s(format!("{:?}", cfg.timing)))]));
        }
        correspond(rep, &mut rig, &c, &res, &log, delays, tag);
    }
}

pub fn c13(ctx: &Ctx) -> Report {
    let mut rep = Report::new("C13");
    let mut rng = Rng::new(ctx.seed ^ 0xC13);
    let nconf = if ctx.thorough { 6 } else { 2 };
    // corrupted blocks inside multiple-block reads (any block of the transfer) and a card that stalls mid-transfer
    for k in 0..(if ctx.thorough { 45 } else { 9 }) {
        after_error_session(ctx, &mut rng, &mut rep, k, &format!("c13m/{}/{k}", ctx.seed));
    }
    for k in 0..nconf {
        let cfg = random_cfg(&mut rng, k);
        let tag = format!("c13/{}/{k}", ctx.seed);
        // ---- (a) every single-bit flip of a data block and its CRC, CRC on
        {
            let cfg = CaseCfg { use_crc: true, timing: (cfg.timing.0, cfg.timing.1 % 6, cfg.timing.2 % 6, cfg.timing.3), ..CaseCfg { kind: cfg.kind, csd: cfg.csd.clone(), timing: cfg.timing, use_crc: true, retries: cfg.retries } };
            let mut rig = Rig::new(&ctx.model_path, cfg.kind, cfg.csd.clone(), cfg.timing, true, cfg.retries, rng.next());
            let data = block_pattern(&mut rng);
            rig.set_block(1, &data);
            let (r0, l0, d0) = rig.call(&Call::CardType);
            correspond(&mut rep, &mut rig, &Call::CardType, &r0, &l0, d0, &tag);
            // locate the data: a clean read first
            let (res, log, delays) = rig.call(&Call::Read(1, 1));
            correspond(&mut rep, &mut rig, &Call::Read(1, 1), &res, &log, delays, &tag);
            let pre: usize = log.iter().take_while(|t| t.out.len() != 512).map(|t| t.out.len()).sum();
            let per_call: usize = log.iter().map(|t| t.out.len()).sum();
            // thorough: EVERY single-bit position for the first three configurations (one per card kind), every fifth after
            let step = if ctx.thorough { if k < 3 { 1 } else { 5 } } else { 13 };
            let mut bit = 0usize;
            while bit < 4112 {
                let base = rig.bus.borrow().miso_bytes;
                rig.bus.borrow_mut().faults.flip = vec![(base + pre + bit / 8, 0x80 >> (bit % 8))];
                let (res, log, delays) = rig.call(&Call::Read(1, 1));
                rig.bus.borrow_mut().faults = Faults::default();
                rep.cases += 1;
                rep.oracle_checks += 1;
                rep.count("flip:single-bit");
                if !res.starts_with("err CrcError") {
                    rep.violation("impl-vs-spec", "corruption-accepted", &format!("bit {bit} of the data block / CRC flipped on the wire, read returned `{}`", trunc(&res, 60)), J::obj(vec![("case", J::s(tag.clone())), ("bit", J::i(bit as i128)), ("kind", J::s(cfg.kind.token()))]));
                }
                if bit % 257 == 0 {
                    correspond(&mut rep, &mut rig, &Call::Read(1, 1), &res, &log, delays, &tag);
                }
                let _ = per_call;
                bit += step;
            }
            // bursts up to 16 bits
            for _ in 0..(if ctx.thorough { 1000 } else { 120 }) {
                let len = rng.range(2, 16) as usize;
                let off = rng.below((4112 - len + 1) as u64) as usize;
                let pat = rng.below(1 << len) as u32 | 1 | (1 << (len - 1));
                let base = rig.bus.borrow().miso_bytes;
                let mut flips: BTreeMap<usize, u8> = BTreeMap::new();
                for j in 0..len {
                    if (pat >> (len - 1 - j)) & 1 == 1 {
                        let b = off + j;
                        *flips.entry(base + pre + b / 8).or_insert(0) |= 0x80 >> (b % 8);
                    }
                }
                rig.bus.borrow_mut().faults.flip = flips.into_iter().collect();
                let (res, _log, _d) = rig.call(&Call::Read(1, 1));
                rig.bus.borrow_mut().faults = Faults::default();
                rep.cases += 1;
                rep.oracle_checks += 1;
                rep.count("flip:burst");
                if !res.starts_with("err CrcError") {
                    rep.violation("impl-vs-spec", "corruption-accepted", &format!("burst of {len} bits at bit {off} on the wire, read returned `{}`", trunc(&res, 60)), J::obj(vec![("case", J::s(tag.clone())), ("off", J::i(off as i128)), ("len", J::i(len as i128)), ("pat", J::i(pat as i128))]));
                }
            }
        }
        // ---- (b) the card dies / stays busy / returns garbage from every byte position of every phase
        for crc in [true, false] {
            let calls = vec![Call::CardType, Call::Read(1, 1), Call::Read(2, 1), Call::Write(2, vec![block_pattern(&mut rng)]), Call::Write(3, vec![block_pattern(&mut rng), block_pattern(&mut rng)]), Call::NumBlocks];
            // lengths of the clean conversation
            let mut rig = Rig::new(&ctx.model_path, cfg.kind, cfg.csd.clone(), cfg.timing, crc, cfg.retries.min(2), rng.next());
            let mut ends: Vec<usize> = Vec::new();
            for c in &calls {
                let (_r, _l, _d) = rig.call(c);
                ends.push(rig.bus.borrow().miso_bytes);
            }
            let total = *ends.last().unwrap();
            let npoints = if ctx.thorough && k < 3 { 40 } else { 9 };
            // always: the line stuck low / high / noisy from the very first byte (empty socket, unpowered level shifter)
            // and a card dying low inside the first command's answer
            let fixed: Vec<(usize, u8)> = if crc { vec![(0, 1), (0, 0), (0, 2), (3, 1), (7, 1)] } else { vec![(0, 1)] };
            for j in 0..npoints + fixed.len() {
                let (pos, mode) = if j < fixed.len() { fixed[j] } else {
                    let j = j - fixed.len();
                    (if j < total.min(npoints / 2) && ctx.thorough { j } else { rng.below(total as u64) as usize }, (j % 3) as u8)
                };
                let mut rig = Rig::new(&ctx.model_path, cfg.kind, cfg.csd.clone(), cfg.timing, crc, cfg.retries.min(2), rng.next());
                rig.bus.borrow_mut().faults.dead_from = Some((pos, mode));
                let mut initialised = false;
                rep.cases += 1;
                rep.count(&format!("dead:{}", ["silent", "busy-forever", "garbage"][mode as usize]));
                for c in &calls {
                    let (res, log, delays) = rig.call(c);
                    let bytes: u64 = log.iter().map(|t| t.out.len() as u64).sum();
                    let bound = traffic_bound(c, cfg.retries.min(2) as u64, !initialised);
                    rep.oracle_checks += 2;
                    if rig.bus.borrow().capped || bytes > bound {
                        rep.violation("impl-vs-spec", "sd-traffic-bound", &format!("{} exchanged {bytes} bytes against a dead card (bound {bound})", c.show()), J::obj(vec![("case", J::s(tag.clone())), ("dead_from", J::i(pos as i128)), ("mode", J::i(mode as i128))]));
                    }
                    if rig.bus.borrow().capped {
                        // the driver would never have returned: nothing sensible follows on this rig (and the transcript is
                        // millions of bytes long - not worth replaying on the model)
                        break;
                    }
                    if res == "panic" {
                        rep.violation("impl-vs-spec", "sd-panic", &format!("`{}` panicked when the card went {} at byte {pos}", c.show(), ["silent", "busy", "garbage"][mode as usize]), J::obj(vec![("case", J::s(tag.clone())), ("dead_from", J::i(pos as i128)), ("mode", J::i(mode as i128)), ("kind", J::s(cfg.kind.token()))]));
                    }
                    // a failed initialisation leaves the card marked uninitialised: the next call starts with CMD0
                    let first_frame = log.iter().find(|t| t.out.len() == 6 && (t.out[0] & 0xC0) == 0x40).map(|t| t.out[0] & 0x3F);
                    if !initialised && !matches!(c, Call::MarkUninit) {
                        rep.oracle_checks += 1;
                        if first_frame.is_some() && first_frame != Some(0) {
                            rep.violation("impl-vs-spec", "init-skipped-after-failure", &format!("`{}`: the card was never initialised successfully but the first command is {:?}, not CMD0", c.show(), first_frame), J::obj(vec![("case", J::s(tag.clone())), ("dead_from", J::i(pos as i128))]));
                        }
                    }
                    correspond(&mut rep, &mut rig, c, &res, &log, delays, &tag);
                    initialised = rig.ctype != "none";
                }
                // recovery: the card answers again, is marked uninitialised, and can be used
                rig.bus.borrow_mut().faults = Faults::default();
                // a real card is power-cycled / re-selected; the specification card accepts CMD0 in any state
                rig.bus.borrow_mut().model.one("card x ffffffffffffffffffff");
                let (r, l, d) = rig.call(&Call::MarkUninit);
                correspond(&mut rep, &mut rig, &Call::MarkUninit, &r, &l, d, &tag);
                let (res, log, delays) = rig.call(&Call::Read(1, 0));
                correspond(&mut rep, &mut rig, &Call::Read(1, 0), &res, &log, delays, &tag);
                rep.oracle_checks += 1;
                if !res.starts_with("ok blocks") && mode != 2 {
                    // after garbage the card may be in the middle of a (garbage-triggered) state; silence and busy never confuse it
                    rep.count("recovery:failed");
                    rep.notes.push(format!("recovery read after {} at byte {pos} returned {}", ["silence", "busy", "garbage"][mode as usize], trunc(&res, 40)));
                } else {
                    rep.count("recovery:ok");
                }
            }
        }
        // ---- (c) rejected writes, failed status, unexpected token, SPI errors
        for crc in [true, false] {
            let mut rig = Rig::new(&ctx.model_path, cfg.kind, cfg.csd.clone(), cfg.timing, crc, cfg.retries, rng.next());
            let (r0, l0, d0) = rig.call(&Call::CardType);
            correspond(&mut rep, &mut rig, &Call::CardType, &r0, &l0, d0, &tag);
            let blk = block_pattern(&mut rng);
            // clean write to learn the positions
            let (r, log, d) = rig.call(&Call::Write(1, vec![blk]));
            correspond(&mut rep, &mut rig, &Call::Write(1, vec![blk]), &r, &log, d, &tag);
            let upto_resp: usize = log.iter().take_while(|t| !(t.out.len() == 2)).map(|t| t.out.len()).sum::<usize>() + 2;
            for status in [0x0Bu8, 0x0D, 0x00, 0xFF, 0x1F] {
                let base = rig.bus.borrow().miso_bytes;
                rig.bus.borrow_mut().faults.replace = vec![(base + upto_resp, status)];
                let c = Call::Write(1, vec![blk]);
                let (res, log, delays) = rig.call(&c);
                rig.bus.borrow_mut().faults = Faults::default();
                rep.cases += 1;
                rep.oracle_checks += 1;
                rep.count("write:data-response-replaced");
                if (status & 0x1F) != 0x05 && !res.starts_with("err") {
                    rep.violation("impl-vs-spec", "rejected-write-accepted", &format!("data response {status:#04x} (not 'accepted') and write returned `{res}`"), J::obj(vec![("case", J::s(tag.clone())), ("status", J::i(status as i128))]));
                }
                correspond(&mut rep, &mut rig, &c, &res, &log, delays, &tag);
                // let the card settle
                rig.bus.borrow_mut().model.one(&format!("card x {}", "ff".repeat(80)));
            }
            // SPI error at every transaction of a read and a write
            for c in [Call::Read(1, 1), Call::Write(2, vec![blk]), Call::Read(2, 1)] {
                let (r, log, d) = rig.call(&c);
                correspond(&mut rep, &mut rig, &c, &r, &log, d, &tag);
                let ntx = log.len();
                let stepk = if ctx.thorough { 1 } else { (ntx / 6).max(1) };
                let mut t = 0;
                while t < ntx {
                    let base = rig.bus.borrow().txns;
                    rig.bus.borrow_mut().faults.spi_error_at = Some(base + t);
                    let (res, log, delays) = rig.call(&c);
                    rig.bus.borrow_mut().faults = Faults::default();
                    rep.cases += 1;
                    rep.oracle_checks += 1;
                    rep.count("spi-error");
                    let fired = log.iter().any(|t| t.inp.is_none());
                    if fired && res != "err Transport" {
                        rep.violation("impl-vs-spec", "spi-error-not-transport", &format!("SPI error at transaction {t} of `{}` gave `{}`", c.show(), trunc(&res, 60)), J::obj(vec![("case", J::s(tag.clone())), ("txn", J::i(t as i128)), ("retries", J::i(cfg.retries as i128)), ("mosi", J::s(trunc(&txn_tokens(&log).0, 2500))), ("miso", J::s(trunc(&txn_tokens(&log).1, 2500)))]));
                    }
                    correspond(&mut rep, &mut rig, &c, &res, &log, delays, &tag);
                    // re-synchronise: the card may be mid-transfer
                    rig.bus.borrow_mut().model.one(&format!("card x {}", "ff".repeat(1200)));
                    let (r, l, d) = rig.call(&Call::MarkUninit);
                    correspond(&mut rep, &mut rig, &Call::MarkUninit, &r, &l, d, &tag);
                    t += stepk;
                }
            }
        }
    }
    // ---- (d) every answer byte of the identification, of a write and of a CSD read replaced by other values:
    // drives every error branch of `acquire` (wrong R1 to CMD0 -> retry, CRC not enabled, CMD8 echo mismatch,
    // CMD58 error), of the write status check (CMD13 R2) and of the data tokens; every run is replayed on the
    // Lean driver model, must stay inside the traffic bound, must not panic, and a failed identification must
    // leave the card uninitialised (the next call starts again with CMD0)
    for (k, crc) in [(0usize, true), (1, false), (2, true)] {
        if k == 2 && !ctx.thorough {
            continue;
        }
        let cfg = random_cfg(&mut rng, k);
        let tag = format!("c13r/{}/{k}", ctx.seed);
        let blk = block_pattern(&mut rng);
        let calls = vec![Call::CardType, Call::Write(1, vec![blk]), Call::NumBlocks, Call::Write(2, vec![blk, blk]), Call::Read(2, 1)];
        let retries = cfg.retries.min(2);
        // the clean conversation: which MISO bytes carry information (not 0xFF)
        let mut rig = Rig::new(&ctx.model_path, cfg.kind, cfg.csd.clone(), cfg.timing, crc, retries, rng.next());
        let mut informative: Vec<(usize, usize, u8)> = Vec::new(); // (call index, global MISO index, clean value)
        for (ci, c) in calls.iter().enumerate() {
            let before = rig.bus.borrow().miso_bytes;
            let (_r, log, _d) = rig.call(c);
            let mut g = before;
            for t in &log {
                if let Some(inp) = &t.inp {
                    // answers to a command frame / token bytes; the 512 data bytes of the read are covered by (a)
                    if inp.len() <= 16 {
                        for (j, b) in inp.iter().enumerate() {
                            if *b != 0xFF {
                                informative.push((ci, g + j, *b));
                            }
                        }
                    }
                }
                g += t.out.len();
            }
        }
        let values: Vec<u8> = vec![0x00, 0x01, 0x04, 0x05, 0x0B, 0xAA, 0xC0, 0x7F, 0xFE];
        let stride = if ctx.thorough { 3 } else { 7 };
        for (n, (ci, pos, clean)) in informative.iter().enumerate() {
            if n % stride != (k % stride) {
                continue;
            }
            for v in values.iter().filter(|v| **v != *clean).skip(if ctx.thorough { n % 2 } else { n % 3 }).take(if ctx.thorough { 5 } else { 3 }) {
                let mut rig = Rig::new(&ctx.model_path, cfg.kind, cfg.csd.clone(), cfg.timing, crc, retries, rng.next());
                rig.bus.borrow_mut().faults.replace = vec![(*pos, *v)];
                rep.cases += 1;
                rep.count("replace:answer-byte");
                rep.count(&format!("replace:in-call:{}", calls[*ci].show().split(' ').next().unwrap_or("?")));
                let mut initialised = false;
                // the calls up to the one whose answer is replaced, and the one after it (recovery)
                for c in calls.iter().take(*ci + 2) {
                    let (res, log, delays) = rig.call(c);
                    let bytes: u64 = log.iter().map(|t| t.out.len() as u64).sum();
                    let bound = traffic_bound(c, retries as u64, !initialised);
                    rep.oracle_checks += 2;
                    if rig.bus.borrow().capped || bytes > bound {
                        rep.violation("impl-vs-spec", "sd-traffic-bound", &format!("{} exchanged {bytes} bytes with answer byte {pos} replaced by {v:#04x} (bound {bound})", c.show()), J::obj(vec![("case", J::s(tag.clone())), ("pos", J::i(*pos as i128)), ("value", J::i(*v as i128))]));
                    }
                    if res == "panic" {
                        rep.violation("impl-vs-spec", "sd-panic", &format!("`{}` panicked with answer byte {pos} ({clean:#04x}) replaced by {v:#04x}", c.show()), J::obj(vec![("case", J::s(tag.clone())), ("pos", J::i(*pos as i128)), ("value", J::i(*v as i128)), ("kind", J::s(cfg.kind.token()))]));
                    }
                    let first_frame = log.iter().find(|t| t.out.len() == 6 && (t.out[0] & 0xC0) == 0x40).map(|t| t.out[0] & 0x3F);
                    if !initialised && !matches!(c, Call::MarkUninit) {
                        rep.oracle_checks += 1;
                        if first_frame.is_some() && first_frame != Some(0) {
                            rep.violation("impl-vs-spec", "init-skipped-after-failure", &format!("`{}`: the card was never initialised successfully but the first command is {:?}, not CMD0", c.show(), first_frame), J::obj(vec![("case", J::s(tag.clone())), ("pos", J::i(*pos as i128)), ("value", J::i(*v as i128))]));
                        }
                    }
                    if res.starts_with("err") {
                        rep.count(&format!("replace:res:{}", res.split(' ').nth(1).unwrap_or("?").split('.').next().unwrap_or("?")));
                    }
                    correspond(&mut rep, &mut rig, c, &res, &log, delays, &tag);
                    if matches!(c, Call::CardType) && rig.ctype == "none" {
                        rep.count("replace:identification-failed");
                    }
                    initialised = rig.ctype != "none";
                }
            }
        }
    }
    rep.rule = "fault injection between the Lean card specification and the real driver: every single-bit flip of a data block and its CRC (4112 positions; every 13th in quick; thorough: every position for one configuration per card kind, every 5th for the others) and random bursts up to 16 bits with CRC on must give CrcError; the card going silent / busy forever / returning garbage from every (sampled) byte position of identification, single and multi-block read and write, CSD read, in both CRC modes: every call returns within the traffic bound computed from the retry budgets, never panics, a failed identification is retried from CMD0 by the next call, and after the card recovers and is marked uninitialised it is usable again; data responses other than 'accepted', SPI errors at every transaction; every informative answer byte (R1/R3/R7 responses, tokens, status bytes) of identification, single- and multi-block write and CSD read replaced by a set of other values (all error branches of acquire and of the write status check); every faulty run is also replayed on the Lean driver model; distinct = fault placements".into();
    rep.distinct_nontrivial = rep.cases;
    rep
}
