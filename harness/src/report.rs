//! What a check run found, written as JSON for the `check` script (which merges it with the
//! proof audit into the evidence file and prints VIOLATION / KNOWN-FINDING lines).
use crate::json::J;
use std::collections::BTreeMap;

#[derive(Clone, Debug)]
pub struct Violation {
    /// "impl-vs-spec" (the property fails on a concrete input against the real code) or
    /// "model-vs-impl" (the correspondence is broken and no failing input was found)
    pub kind: String,
    /// property-specific signature, matched against known_findings.json
    pub signature: String,
    pub what: String,
    /// everything needed to replay without the generator
    pub replay: J,
}

#[derive(Default)]
pub struct Report {
    pub property: String,
    pub cases: u64,
    pub ops: u64,
    pub model_requests: u64,
    pub writes_compared: u64,
    pub oracle_checks: u64,
    pub distinct_nontrivial: u64,
    pub exhaustive_parts: Vec<String>,
    pub distribution: BTreeMap<String, u64>,
    pub samples: Vec<J>,
    pub violations: Vec<Violation>,
    pub notes: Vec<String>,
    pub rule: String,
}

impl Report {
    pub fn new(property: &str) -> Report {
        Report { property: property.to_string(), ..Default::default() }
    }
    pub fn count(&mut self, key: &str) {
        *self.distribution.entry(key.to_string()).or_insert(0) += 1;
    }
    pub fn count_n(&mut self, key: &str, n: u64) {
        *self.distribution.entry(key.to_string()).or_insert(0) += n;
    }
    pub fn sample(&mut self, j: J) {
        if self.samples.len() < 6 {
            self.samples.push(j);
        }
    }
    pub fn violation(&mut self, kind: &str, signature: &str, what: &str, replay: J) {
        // keep the first few of each signature
        let same = self.violations.iter().filter(|v| v.signature == signature && v.kind == kind).count();
        if same < 3 && self.violations.len() < 40 {
            self.violations.push(Violation {
                kind: kind.to_string(),
                signature: signature.to_string(),
                what: what.to_string(),
                replay,
            });
        }
        self.count(&format!("violation:{kind}:{signature}"));
    }
    pub fn merge(&mut self, other: Report) {
        self.cases += other.cases;
        self.ops += other.ops;
        self.model_requests += other.model_requests;
        self.writes_compared += other.writes_compared;
        self.oracle_checks += other.oracle_checks;
        self.distinct_nontrivial += other.distinct_nontrivial;
        for (k, v) in other.distribution {
            *self.distribution.entry(k).or_insert(0) += v;
        }
        for s in other.samples {
            self.sample(s);
        }
        for v in other.violations {
            if self.violations.len() < 40 {
                self.violations.push(v);
            }
        }
        for e in other.exhaustive_parts {
            if !self.exhaustive_parts.contains(&e) {
                self.exhaustive_parts.push(e);
            }
        }
        for n in other.notes {
            if !self.notes.contains(&n) && self.notes.len() < 50 {
                self.notes.push(n);
            }
        }
        if self.rule.is_empty() {
            self.rule = other.rule;
        }
    }
    pub fn to_json(&self) -> J {
        J::obj(vec![
            ("property", J::s(self.property.clone())),
            ("cases", J::i(self.cases as i128)),
            ("ops", J::i(self.ops as i128)),
            ("model_requests", J::i(self.model_requests as i128)),
            ("writes_compared", J::i(self.writes_compared as i128)),
            ("oracle_checks", J::i(self.oracle_checks as i128)),
            ("distinct_nontrivial", J::i(self.distinct_nontrivial as i128)),
            ("rule", J::s(self.rule.clone())),
            ("exhaustive_parts", J::Arr(self.exhaustive_parts.iter().map(|s| J::s(s.clone())).collect())),
            (
                "distribution",
                J::Obj(self.distribution.iter().map(|(k, v)| (k.clone(), J::i(*v as i128))).collect()),
            ),
            ("samples", J::Arr(self.samples.clone())),
            ("notes", J::Arr(self.notes.iter().map(|s| J::s(s.clone())).collect())),
            (
                "violations",
                J::Arr(
                    self.violations
                        .iter()
                        .map(|v| {
                            J::obj(vec![
                                ("kind", J::s(v.kind.clone())),
                                ("signature", J::s(v.signature.clone())),
                                ("what", J::s(v.what.clone())),
                                ("replay", v.replay.clone()),
                            ])
                        })
                        .collect(),
                ),
            ),
        ])
    }
}
