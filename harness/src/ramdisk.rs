//! RAM block device: sparse contents, ordered write/read logs, fault injection by device-call index.
use embedded_sdmmc::{Block, BlockCount, BlockDevice, BlockIdx};
use std::cell::RefCell;
use std::collections::{BTreeMap, BTreeSet};
use std::rc::Rc;

pub type Blk = [u8; 512];

#[derive(Default)]
pub struct DiskState {
    pub blocks: BTreeMap<u32, Blk>,
    pub calls: u64,
    /// absolute device-call indices that fail
    pub faults: BTreeSet<u64>,
    pub wlog: Vec<(u32, Blk)>,
    pub rlog: Vec<u32>,
    /// number of multi-block calls seen (the FAT layer only ever issues single-block calls)
    pub multi_block_calls: u64,
    /// number of injected faults that actually fired
    pub fault_hits: u64,
    /// how many of them were WRITE calls
    pub write_fault_hits: u64,
}

impl DiskState {
    pub fn get(&self, i: u32) -> Blk {
        self.blocks.get(&i).copied().unwrap_or([0u8; 512])
    }
}

#[derive(Clone)]
pub struct RamDisk(pub Rc<RefCell<DiskState>>);

impl RamDisk {
    pub fn new(blocks: BTreeMap<u32, Blk>) -> RamDisk {
        RamDisk(Rc::new(RefCell::new(DiskState { blocks, ..Default::default() })))
    }
    pub fn take_logs(&self) -> (Vec<(u32, Blk)>, Vec<u32>) {
        let mut s = self.0.borrow_mut();
        (std::mem::take(&mut s.wlog), std::mem::take(&mut s.rlog))
    }
    pub fn set_faults_rel(&self, rel: &[u64]) {
        let mut s = self.0.borrow_mut();
        let base = s.calls;
        s.faults = rel.iter().map(|r| base + r).collect();
    }
    pub fn calls(&self) -> u64 {
        self.0.borrow().calls
    }
    pub fn fault_hits(&self) -> u64 {
        self.0.borrow().fault_hits
    }
    pub fn write_fault_hits(&self) -> u64 {
        self.0.borrow().write_fault_hits
    }
    pub fn clear_faults(&self) {
        self.0.borrow_mut().faults.clear();
    }
}

#[derive(Debug, Clone, Copy, PartialEq, Eq)]
pub struct DevFault;

impl BlockDevice for RamDisk {
    type Error = DevFault;
    fn read(&self, blocks: &mut [Block], start: BlockIdx) -> Result<(), DevFault> {
        let mut s = self.0.borrow_mut();
        if blocks.len() != 1 {
            s.multi_block_calls += 1;
        }
        let call = s.calls;
        s.calls += 1;
        s.rlog.push(start.0);
        if s.faults.contains(&call) {
            s.fault_hits += 1;
            for b in blocks.iter_mut() {
                b.contents = [0xEE; 512];
            }
            return Err(DevFault);
        }
        for (k, b) in blocks.iter_mut().enumerate() {
            b.contents = s.get(start.0 + k as u32);
        }
        Ok(())
    }
    fn write(&self, blocks: &[Block], start: BlockIdx) -> Result<(), DevFault> {
        let mut s = self.0.borrow_mut();
        if blocks.len() != 1 {
            s.multi_block_calls += 1;
        }
        let call = s.calls;
        s.calls += 1;
        if s.faults.contains(&call) {
            s.fault_hits += 1;
            s.write_fault_hits += 1;
            return Err(DevFault);
        }
        for (k, b) in blocks.iter().enumerate() {
            let idx = start.0 + k as u32;
            s.blocks.insert(idx, b.contents);
            s.wlog.push((idx, b.contents));
        }
        Ok(())
    }
    fn num_blocks(&self) -> Result<BlockCount, DevFault> {
        Ok(BlockCount(u32::MAX))
    }
}
