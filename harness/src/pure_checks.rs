//! Correspondence + oracle checks for the pure codecs: C19 (CRC), C18 (entry / timestamp /
//! 8.3 name codecs), C17 (LfnBuffer), C15 (mount).
use crate::json::J;
use crate::mkfs;
use crate::model::Model;
use crate::ramdisk::RamDisk;
use crate::report::Report;
use crate::util::*;
use crate::Ctx;
use embedded_sdmmc::sdcard::proto::{crc16, crc7};
use embedded_sdmmc::{LfnBuffer, ShortFileName, Timestamp};
use std::collections::BTreeMap;
use std::panic::{catch_unwind, AssertUnwindSafe};

// ---------------------------------------------------------------------------------------------
// C19
// ---------------------------------------------------------------------------------------------

/// SD Physical Layer spec 4.5: remainder of m(x)·x^16 modulo x^16+x^12+x^5+1, bit-serial long division.
pub fn spec_crc16(m: &[u8]) -> u16 {
    let mut r: u32 = 0;
    let total_bits = m.len() * 8 + 16;
    for i in 0..total_bits {
        let bit = if i < m.len() * 8 { (m[i / 8] >> (7 - (i % 8))) & 1 } else { 0 } as u32;
        r = (r << 1) | bit;
        if r & 0x1_0000 != 0 {
            r ^= 0x1_1021;
        }
    }
    r as u16
}

/// remainder of m(x)·x^7 modulo x^7+x^3+1, then `(crc << 1) | 1`.
pub fn spec_crc7(m: &[u8]) -> u8 {
    let mut r: u32 = 0;
    let total_bits = m.len() * 8 + 7;
    for i in 0..total_bits {
        let bit = if i < m.len() * 8 { (m[i / 8] >> (7 - (i % 8))) & 1 } else { 0 } as u32;
        r = (r << 1) | bit;
        if r & 0x80 != 0 {
            r ^= 0x89;
        }
    }
    ((r as u8) << 1) | 1
}

fn crc_case(rep: &mut Report, model_batch: &mut Vec<(String, String, Vec<u8>)>, m: &[u8], to_model: bool) {
    rep.cases += 1;
    let i16 = crc16(m);
    let i7 = crc7(m);
    rep.oracle_checks += 2;
    if i16 != spec_crc16(m) {
        rep.violation(
            "impl-vs-spec",
            "crc16-ne-spec",
            &format!("crc16({}) = {:#06x}, specification remainder = {:#06x}", hex_or_dash(m), i16, spec_crc16(m)),
            J::obj(vec![("fn", J::s("crc16")), ("msg", J::s(hex_or_dash(m)))]),
        );
    }
    if i7 != spec_crc7(m) {
        rep.violation(
            "impl-vs-spec",
            "crc7-ne-spec",
            &format!("crc7({}) = {:#04x}, specification = {:#04x}", hex_or_dash(m), i7, spec_crc7(m)),
            J::obj(vec![("fn", J::s("crc7")), ("msg", J::s(hex_or_dash(m)))]),
        );
    }
    if to_model {
        model_batch.push((format!("crc16 {}", hex_or_dash(m)), i16.to_string(), m.to_vec()));
        model_batch.push((format!("crc7 {}", hex_or_dash(m)), i7.to_string(), m.to_vec()));
    }
}

fn flush_model(rep: &mut Report, model: &mut Model, batch: &mut Vec<(String, String, Vec<u8>)>, what: &str) {
    if batch.is_empty() {
        return;
    }
    let reqs: Vec<String> = batch.iter().map(|b| b.0.clone()).collect();
    let resp = model.batch(&reqs);
    for ((req, expect, _m), got) in batch.iter().zip(resp.iter()) {
        if expect != got {
            rep.violation(
                "model-vs-impl",
                &format!("correspondence:{what}"),
                &format!("request `{}`: implementation {}, model {}", truncate(req, 200), truncate(expect, 200), truncate(got, 200)),
                J::obj(vec![("request", J::s(req.clone())), ("impl", J::s(expect.clone())), ("model", J::s(got.clone()))]),
            );
        }
    }
    batch.clear();
}

fn truncate(s: &str, n: usize) -> String {
    if s.len() <= n {
        s.to_string()
    } else {
        format!("{}…", &s[..n])
    }
}

pub fn c19(ctx: &Ctx) -> Report {
    let mut rep = Report::new("C19");
    rep.rule = "messages: all of length 0..2, length-3 messages (all 2^24 in thorough, a strided+random sample in quick; every (running remainder, next byte) pair is a length-3 message), every single-bit message of lengths 5, 16, 512, random messages up to 2 KiB; distinct = distinct messages; each is compared Impl vs bit-serial specification (Rust) and Impl vs Lean model, a sample also vs the Lean specification".into();
    let mut model = Model::spawn(&ctx.model_path);
    let mut rng = Rng::new(ctx.seed);
    let mut batch = Vec::new();
    // exhaustive 0..2
    crc_case(&mut rep, &mut batch, &[], true);
    for a in 0..=255u8 {
        crc_case(&mut rep, &mut batch, &[a], true);
    }
    flush_model(&mut rep, &mut model, &mut batch, "C19:crc");
    for a in 0..=255u8 {
        for b in 0..=255u8 {
            crc_case(&mut rep, &mut batch, &[a, b], true);
        }
        flush_model(&mut rep, &mut model, &mut batch, "C19:crc");
    }
    rep.exhaustive_parts.push("all messages of length 0, 1, 2 (Impl vs spec vs model)".into());
    rep.distinct_nontrivial += 1 + 256 + 65536;
    // length 3
    if ctx.thorough {
        for v in 0..(1u32 << 24) {
            let m = [(v >> 16) as u8, (v >> 8) as u8, v as u8];
            let to_model = v % 61 == 0;
            crc_case(&mut rep, &mut batch, &m, to_model);
            if batch.len() >= 8192 {
                flush_model(&mut rep, &mut model, &mut batch, "C19:crc");
            }
        }
        rep.exhaustive_parts.push("all 2^24 messages of length 3 = all (remainder, next byte) pairs (Impl vs spec; model on every 61st)".into());
        rep.distinct_nontrivial += 1 << 24;
    } else {
        for k in 0..40_000u32 {
            let v = if k % 2 == 0 { (k.wrapping_mul(2654435761)) & 0xFF_FFFF } else { rng.below(1 << 24) as u32 };
            let m = [(v >> 16) as u8, (v >> 8) as u8, v as u8];
            crc_case(&mut rep, &mut batch, &m, k % 4 == 0);
            if batch.len() >= 8192 {
                flush_model(&mut rep, &mut model, &mut batch, "C19:crc");
            }
        }
        rep.distinct_nontrivial += 30_000;
    }
    flush_model(&mut rep, &mut model, &mut batch, "C19:crc");
    // single-bit basis messages
    for len in [5usize, 16, 512] {
        for bit in 0..len * 8 {
            let mut m = vec![0u8; len];
            m[bit / 8] = 0x80 >> (bit % 8);
            crc_case(&mut rep, &mut batch, &m, len < 512 || bit % 16 == 0 || ctx.thorough);
        }
        flush_model(&mut rep, &mut model, &mut batch, "C19:crc");
        rep.distinct_nontrivial += (len * 8) as u64;
    }
    rep.exhaustive_parts.push("every single-bit message of lengths 5, 16 and 512".into());
    // random messages up to 2 KiB
    let n_rand = if ctx.thorough { 4000 } else { 300 };
    for _ in 0..n_rand {
        let len = match rng.below(4) {
            0 => rng.range(4, 20),
            1 => 512,
            2 => rng.range(1, 2048),
            _ => rng.range(500, 530),
        } as usize;
        let m = rng.bytes(len);
        crc_case(&mut rep, &mut batch, &m, true);
        if batch.len() >= 256 {
            flush_model(&mut rep, &mut model, &mut batch, "C19:crc");
        }
    }
    flush_model(&mut rep, &mut model, &mut batch, "C19:crc");
    rep.distinct_nontrivial += n_rand;
    // Lean specification as the verdict of record on a sample
    let mut reqs = Vec::new();
    let mut expect = Vec::new();
    for _ in 0..(if ctx.thorough { 2000 } else { 200 }) {
        let len = rng.range(0, 40) as usize;
        let m = rng.bytes(len);
        reqs.push(format!("scrc16 {}", hex_or_dash(&m)));
        expect.push(crc16(&m).to_string());
        reqs.push(format!("scrc7 {}", hex_or_dash(&m)));
        expect.push(crc7(&m).to_string());
    }
    let got = model.batch(&reqs);
    for ((r, e), g) in reqs.iter().zip(expect.iter()).zip(got.iter()) {
        rep.oracle_checks += 1;
        if e != g {
            rep.violation(
                "impl-vs-spec",
                "crc-ne-lean-spec",
                &format!("`{r}`: implementation {e}, Lean specification {g}"),
                J::obj(vec![("request", J::s(r.clone())), ("impl", J::s(e.clone())), ("spec", J::s(g.clone()))]),
            );
        }
    }
    // consequences on the Impl: append-self, single/double/burst detection in 512-byte blocks
    let blocks = if ctx.thorough { 40 } else { 3 };
    for bi in 0..blocks {
        let m = rng.bytes(512);
        let c = crc16(&m);
        let mut framed = m.clone();
        framed.extend_from_slice(&c.to_be_bytes());
        rep.oracle_checks += 1;
        if crc16(&framed) != 0 {
            rep.violation("impl-vs-spec", "crc16-append-self", "crc16(m ++ be(crc16 m)) != 0", J::obj(vec![("msg", J::s(hex(&m)))]));
        }
        for bit in 0..4096usize {
            let mut e = m.clone();
            e[bit / 8] ^= 0x80 >> (bit % 8);
            rep.oracle_checks += 1;
            if crc16(&e) == c {
                rep.violation("impl-vs-spec", "crc16-misses-single-bit", &format!("bit {bit} flipped, same crc"), J::obj(vec![("msg", J::s(hex(&m))), ("bit", J::i(bit as i128))]));
            }
        }
        let n_pairs = if ctx.thorough { 20000 } else { 3000 };
        for _ in 0..n_pairs {
            let i = rng.below(4096) as usize;
            let mut j = rng.below(4096) as usize;
            if i == j {
                j = (j + 1) % 4096;
            }
            let mut e = m.clone();
            e[i / 8] ^= 0x80 >> (i % 8);
            e[j / 8] ^= 0x80 >> (j % 8);
            rep.oracle_checks += 1;
            if crc16(&e) == c {
                rep.violation("impl-vs-spec", "crc16-misses-double-bit", &format!("bits {i},{j}"), J::obj(vec![("msg", J::s(hex(&m))), ("bits", J::s(format!("{i},{j}")))]));
            }
        }
        let n_bursts = if ctx.thorough { 20000 } else { 3000 };
        for _ in 0..n_bursts {
            let len = rng.range(1, 16) as usize;
            let off = rng.below((4096 - len + 1) as u64) as usize;
            let mut pat: u32 = rng.below(1 << len) as u32 | 1 | (1 << (len - 1));
            if len == 1 {
                pat = 1;
            }
            let mut e = m.clone();
            for k in 0..len {
                if (pat >> (len - 1 - k)) & 1 == 1 {
                    let b = off + k;
                    e[b / 8] ^= 0x80 >> (b % 8);
                }
            }
            rep.oracle_checks += 1;
            if crc16(&e) == c {
                rep.violation("impl-vs-spec", "crc16-misses-burst", &format!("burst len {len} at {off}"), J::obj(vec![("msg", J::s(hex(&m))), ("off", J::i(off as i128)), ("len", J::i(len as i128)), ("pat", J::i(pat as i128))]));
            }
        }
        if bi == 0 {
            rep.sample(J::obj(vec![("kind", J::s("512-byte block: append-self, 4096 single-bit flips, random double-bit and burst errors")), ("crc16", J::i(c as i128))]));
        }
    }
    rep.sample(J::obj(vec![("msg", J::s("00260032")), ("crc16", J::i(crc16(&[0x00, 0x26, 0x00, 0x32]) as i128)), ("crc7", J::i(crc7(&[0x00, 0x26, 0x00, 0x32]) as i128))]));
    rep.model_requests = model.requests;
    rep
}

// ---------------------------------------------------------------------------------------------
// C18
// ---------------------------------------------------------------------------------------------

fn show_ts(t: &Timestamp) -> String {
    format!(
        "{}.{}.{}.{}.{}.{}",
        t.year_since_1970, t.zero_indexed_month, t.zero_indexed_day, t.hours, t.minutes, t.seconds
    )
}

pub fn show_entry(e: &embedded_sdmmc::DirEntry) -> String {
    format!(
        "{}:{}:{}:{}:{}:{}:{}:{}",
        hex(&sfn_bytes(&e.name)),
        attr_byte(&e.attributes),
        cluster_num(&e.cluster),
        e.size,
        show_ts(&e.mtime),
        show_ts(&e.ctime),
        e.entry_block.0,
        e.entry_offset
    )
}

/// The 11 raw bytes of a `ShortFileName` (its field is private): rebuilt from the checksum-free
/// public accessors is not possible for arbitrary bytes, so use the Debug/Display-free route:
/// `ShortFileName` is `Clone + PartialEq`, and `csum()` is public, but the bytes themselves are only
/// reachable through `base_name()`/`extension()` (which stop at the first space).  For entries
/// parsed from arbitrary bytes we therefore go through the `verif_serialize` hook.
pub fn sfn_bytes(n: &ShortFileName) -> [u8; 11] {
    let e = embedded_sdmmc::DirEntry {
        name: n.clone(),
        mtime: Timestamp::from_fat(0x21, 0),
        ctime: Timestamp::from_fat(0x21, 0),
        attributes: parse_attr(0),
        cluster: parse_cluster(0),
        size: 0,
        entry_block: embedded_sdmmc::BlockIdx(0),
        entry_offset: 0,
    };
    let raw = e.verif_serialize(embedded_sdmmc::fat::FatType::Fat16);
    let mut out = [0u8; 11];
    out.copy_from_slice(&raw[0..11]);
    out
}

fn raw_slot(name: &[u8; 11], attr: u8, ctime: (u16, u16), mtime: (u16, u16), cluster: u32, size: u32) -> [u8; 32] {
    let mut d = [0u8; 32];
    d[0..11].copy_from_slice(name);
    d[11] = attr;
    d[14..16].copy_from_slice(&ctime.1.to_le_bytes());
    d[16..18].copy_from_slice(&ctime.0.to_le_bytes());
    d[20..22].copy_from_slice(&((cluster >> 16) as u16).to_le_bytes());
    d[22..24].copy_from_slice(&mtime.1.to_le_bytes());
    d[24..26].copy_from_slice(&mtime.0.to_le_bytes());
    d[26..28].copy_from_slice(&(cluster as u16).to_le_bytes());
    d[28..32].copy_from_slice(&size.to_le_bytes());
    d
}

pub fn parse_attr(a: u8) -> embedded_sdmmc::Attributes {
    let mut d = [0u8; 32];
    d[0] = b'A';
    d[11] = a;
    embedded_sdmmc::fat::OnDiskDirEntry::new(&d)
        .get_entry(embedded_sdmmc::fat::FatType::Fat32, embedded_sdmmc::BlockIdx(0), 0)
        .attributes
}

pub fn parse_cluster(c: u32) -> embedded_sdmmc::ClusterId {
    let mut d = [0u8; 32];
    d[0] = b'A';
    d[20..22].copy_from_slice(&((c >> 16) as u16).to_le_bytes());
    d[26..28].copy_from_slice(&(c as u16).to_le_bytes());
    embedded_sdmmc::fat::OnDiskDirEntry::new(&d)
        .get_entry(embedded_sdmmc::fat::FatType::Fat32, embedded_sdmmc::BlockIdx(0), 0)
        .cluster
}

pub fn attr_byte(a: &embedded_sdmmc::Attributes) -> u8 {
    let mut v = 0u8;
    if a.is_read_only() {
        v |= 1;
    }
    if a.is_hidden() {
        v |= 2;
    }
    if a.is_system() {
        v |= 4;
    }
    if a.is_volume() {
        v |= 8;
    }
    if a.is_directory() {
        v |= 0x10;
    }
    if a.is_archive() {
        v |= 0x20;
    }
    // bits 6 and 7 are not observable through the accessors; use Debug-free route via serialize where needed
    v
}

pub fn cluster_num(c: &embedded_sdmmc::ClusterId) -> u32 {
    // ClusterId's field is private; Debug prints it in hex or as a (padded) symbolic name
    let s = format!("{:?}", c);
    let inner = s.trim_start_matches("ClusterId(").trim_end_matches(')').trim();
    match inner {
        "INVALID" => 0xFFFF_FFF6,
        "BAD" => 0xFFFF_FFF7,
        "EMPTY" => 0,
        "ROOT" => 0xFFFF_FFFC,
        "EOF" => 0xFFFF_FFFF,
        h => u32::from_str_radix(h, 16).unwrap_or(0xDEAD_BEEF),
    }
}

/// FAT specification: fields of a date/time word pair.
fn spec_fat_fields(date: u16, time: u16) -> (u16, u16, u16, u16, u16, u16) {
    (1980 + (date >> 9), (date >> 5) & 15, date & 31, time >> 11, (time >> 5) & 63, (time & 31) * 2)
}

fn ts_case(rep: &mut Report, batch: &mut Vec<(String, String, Vec<u8>)>, date: u16, time: u16, to_model: bool) {
    rep.cases += 1;
    let t = Timestamp::from_fat(date, time);
    let ser = t.serialize_to_fat();
    let t2 = u16::from_le_bytes([ser[0], ser[1]]);
    let d2 = u16::from_le_bytes([ser[2], ser[3]]);
    let (y, mo, d, h, mi, s) = spec_fat_fields(date, time);
    rep.oracle_checks += 1;
    // decode matches the specification's fields (month/day 0 are tolerated as 1, documented)
    let exp_mo = if mo == 0 { 0 } else { mo - 1 };
    let exp_d = if d == 0 { 0 } else { d - 1 };
    if (t.year_since_1970 as u16 + 1970, t.zero_indexed_month as u16, t.zero_indexed_day as u16, t.hours as u16, t.minutes as u16, t.seconds as u16)
        != (y, exp_mo, exp_d, h, mi, s)
    {
        rep.violation(
            "impl-vs-spec",
            "timestamp-decode",
            &format!("from_fat({date:#06x},{time:#06x}) = {} but the FAT fields are {y}-{mo}-{d} {h}:{mi}:{s}", show_ts(&t)),
            J::obj(vec![("date", J::i(date as i128)), ("time", J::i(time as i128))]),
        );
    }
    if mo != 0 && d != 0 && (t2, d2) != (time, date) {
        rep.violation(
            "impl-vs-spec",
            "timestamp-decode-encode",
            &format!("serialize(from_fat({date:#06x},{time:#06x})) = ({d2:#06x},{t2:#06x})"),
            J::obj(vec![("date", J::i(date as i128)), ("time", J::i(time as i128))]),
        );
    }
    if to_model {
        batch.push((format!("tsdec {date} {time}"), show_ts(&t), vec![]));
        batch.push((format!("tsenc {}", show_ts(&t)), format!("{t2} {d2}"), vec![]));
    }
}

/// Strict 8.3 grammar over ISO-8859-1, written from the Microsoft specification:
/// base 1..8 characters, optionally '.' and 0..3 extension characters; the characters
/// 0x00-0x1F " * + , / : ; < = > ? [ \ ] | and space are not allowed; '.' only as the separator;
/// "." and ".." (and the empty string, by this library's documentation) are the directory names;
/// a first byte of 0xE5 is stored as 0x05.
pub fn spec_sfn(s: &[char]) -> Option<[u8; 11]> {
    let st: String = s.iter().collect();
    if st == ".." {
        return Some(*b"..         ");
    }
    if st.is_empty() || st == "." {
        return Some(*b".          ");
    }
    let bad = |c: char| -> bool {
        (c as u32) <= 0x1F || (c as u32) > 0xFF || "\"*+,/:;<=>?[\\]| ".contains(c)
    };
    let mut parts = st.splitn(2, '.');
    let base: Vec<char> = parts.next().unwrap().chars().collect();
    let ext: Option<Vec<char>> = parts.next().map(|e| e.chars().collect());
    if base.is_empty() || base.len() > 8 {
        return None;
    }
    if base.iter().any(|&c| bad(c)) {
        return None;
    }
    let mut out = [b' '; 11];
    for (i, c) in base.iter().enumerate() {
        out[i] = c.to_ascii_uppercase() as u32 as u8;
    }
    if let Some(ext) = ext {
        if ext.len() > 3 || ext.iter().any(|&c| bad(c) || c == '.') {
            return None;
        }
        for (i, c) in ext.iter().enumerate() {
            out[8 + i] = c.to_ascii_uppercase() as u32 as u8;
        }
    }
    // "If DIR_Name[0] == 0x05, then the actual file name character for this byte is 0xE5" (FAT specification):
    // 0xE5 in the first byte would mark the entry as deleted
    if out[0] == 0xE5 {
        out[0] = 0x05;
    }
    Some(out)
}

fn sfn_case(rep: &mut Report, batch: &mut Vec<(String, String, Vec<u8>)>, s: &[char], to_model: bool) {
    rep.cases += 1;
    let st: String = s.iter().collect();
    let r = catch_unwind(AssertUnwindSafe(|| ShortFileName::create_from_str(&st)));
    let (imp, bytes): (String, Option<[u8; 11]>) = match &r {
        Err(_) => ("panic".into(), None),
        Ok(Ok(n)) => {
            let b = sfn_bytes(n);
            (format!("ok {}", hex(&b)), Some(b))
        }
        Ok(Err(e)) => (format!("err FilenameError.{:?}", e), None),
    };
    rep.oracle_checks += 1;
    let spec = spec_sfn(s);
    if imp == "panic" {
        rep.violation("impl-vs-spec", "sfn-panic", &format!("create_from_str({:?}) panicked", st), J::obj(vec![("name", J::s(name_token(&st)))]));
    } else if spec != bytes {
        let sig = if spec.is_none() { "sfn-accepts-invalid" } else if bytes.is_none() { "sfn-rejects-valid" } else { "sfn-wrong-bytes" };
        rep.violation(
            "impl-vs-spec",
            sig,
            &format!("create_from_str({:?}) = {imp}, 8.3 grammar says {}", st, match spec { Some(b) => hex(&b), None => "invalid".into() }),
            J::obj(vec![("name", J::s(name_token(&st)))]),
        );
    }
    if let (Ok(Ok(n)), Some(b)) = (&r, bytes) {
        // print then parse again
        let printed = format!("{}", n);
        rep.oracle_checks += 1;
        match ShortFileName::create_from_str(&printed) {
            Ok(n2) if sfn_bytes(&n2) == b => {}
            other => {
                // the only names that cannot be re-parsed are those the printer cannot express
                rep.violation(
                    "impl-vs-spec",
                    "sfn-display-parse",
                    &format!("{:?} parsed to {}, printed as {:?}, which parses to {:?}", st, hex(&b), printed, other.map(|n| hex(&sfn_bytes(&n)))),
                    J::obj(vec![("name", J::s(name_token(&st)))]),
                );
            }
        }
        if to_model {
            batch.push((format!("sfnshow {}", hex(&b)), name_token(&printed), vec![]));
            batch.push((format!("csum {}", hex(&b)), n.csum().to_string(), vec![]));
        }
    }
    if to_model {
        batch.push((format!("sfn {}", name_token(&st)), imp, vec![]));
    }
}

pub fn c18(ctx: &Ctx) -> Report {
    use embedded_sdmmc::fat::{FatType, OnDiskDirEntry};
    let mut rep = Report::new("C18");
    rep.rule = "timestamps: every 16-bit date with several times and every 16-bit time with several dates (+ random pairs), every calendar day 1980..2107 at several times of day; directory entries: raw slots over boundary values of every field and all 256 attribute bytes, parsed, serialised (hook H1) and parsed again; names: all strings up to length 3 (4 in thorough) and random strings up to length 13 over an alphabet with every class the parser distinguishes; distinct = distinct inputs".into();
    let mut model = Model::spawn(&ctx.model_path);
    let mut rng = Rng::new(ctx.seed);
    let mut batch: Vec<(String, String, Vec<u8>)> = Vec::new();
    // ---- timestamps
    let times: Vec<u16> = if ctx.thorough { vec![0, 1, 0x7FFF, 0x8000, 0xBF7D, 0xFFFF, 0x5555, 0xAAAA] } else { vec![0, 0xBF7D, 0xFFFF] };
    let dates: Vec<u16> = if ctx.thorough { vec![0x0021, 0, 0xFFFF, 0xFF9F, 0x4A8F, 0x5555, 0xAAAA, 0x0020] } else { vec![0x0021, 0xFF9F, 0] };
    for date in 0..=0xFFFFu16 {
        for &t in &times {
            ts_case(&mut rep, &mut batch, date, t, true);
        }
        if batch.len() > 8000 {
            flush_model(&mut rep, &mut model, &mut batch, "C18:timestamp");
        }
    }
    for time in 0..=0xFFFFu16 {
        for &d in &dates {
            ts_case(&mut rep, &mut batch, d, time, true);
        }
        if batch.len() > 8000 {
            flush_model(&mut rep, &mut model, &mut batch, "C18:timestamp");
        }
    }
    rep.exhaustive_parts.push(format!("all 2^16 dates x {} times and all 2^16 times x {} dates", times.len(), dates.len()));
    rep.distinct_nontrivial += 65536 * (times.len() + dates.len()) as u64;
    let n = if ctx.thorough { 1_000_000 } else { 50_000 };
    for k in 0..n {
        let v = rng.next();
        ts_case(&mut rep, &mut batch, v as u16, (v >> 16) as u16, k % 8 == 0);
        if batch.len() > 8000 {
            flush_model(&mut rep, &mut model, &mut batch, "C18:timestamp");
        }
    }
    flush_model(&mut rep, &mut model, &mut batch, "C18:timestamp");
    rep.distinct_nontrivial += n as u64;
    // calendar encode → decode
    let mdays = [31u8, 29, 31, 30, 31, 30, 31, 31, 30, 31, 30, 31];
    let tods: Vec<(u8, u8, u8)> = if ctx.thorough { vec![(0, 0, 0), (23, 59, 59), (12, 30, 31), (1, 1, 1), (19, 56, 54)] } else { vec![(0, 0, 0), (23, 59, 59), (12, 30, 31)] };
    for year in 1970..=2110u16 {
        for month in 0..=13u8 {
            let dmax = if (1..=12).contains(&month) { mdays[(month - 1) as usize] } else { 1 };
            for day in 0..=dmax + 1 {
                for &(h, mi, s) in &tods {
                    rep.cases += 1;
                    let r = Timestamp::from_calendar(year, month, day, h, mi, s);
                    let valid = (1970..=2225).contains(&year) && (1..=12).contains(&month) && (1..=31).contains(&day);
                    rep.oracle_checks += 1;
                    if r.is_ok() != valid {
                        rep.violation("impl-vs-spec", "from-calendar-range", &format!("from_calendar({year},{month},{day},..) ok={}", r.is_ok()), J::obj(vec![("y", J::i(year as i128)), ("m", J::i(month as i128)), ("d", J::i(day as i128))]));
                    }
                    let imp = match &r {
                        Ok(t) => format!("ok {}", show_ts(t)),
                        Err(e) => format!("err {e}"),
                    };
                    batch.push((format!("tscal {year} {month} {day} {h} {mi} {s}"), imp, vec![]));
                    if let Ok(t) = r {
                        if (1980..=2107).contains(&year) {
                            let ser = t.serialize_to_fat();
                            let back = Timestamp::from_fat(u16::from_le_bytes([ser[2], ser[3]]), u16::from_le_bytes([ser[0], ser[1]]));
                            let mut want = t;
                            want.seconds = t.seconds / 2 * 2;
                            if back != want {
                                rep.violation("impl-vs-spec", "timestamp-encode-decode", &format!("{} encodes to {:02x?} and decodes to {}", show_ts(&t), ser, show_ts(&back)), J::obj(vec![("ts", J::s(show_ts(&t)))]));
                            }
                            // the encoded words carry the calendar fields at the FAT positions
                            let (y, mo, d, hh, mm, ss) = spec_fat_fields(u16::from_le_bytes([ser[2], ser[3]]), u16::from_le_bytes([ser[0], ser[1]]));
                            if (y, mo, d, hh, mm, ss) != (year, month as u16, day as u16, h as u16, mi as u16, (s / 2 * 2) as u16) {
                                rep.violation("impl-vs-spec", "timestamp-encode-layout", &format!("{} encoded as {y}-{mo}-{d} {hh}:{mm}:{ss}", show_ts(&t)), J::obj(vec![("ts", J::s(show_ts(&t)))]));
                            }
                        }
                    }
                }
            }
        }
        if batch.len() > 4000 {
            flush_model(&mut rep, &mut model, &mut batch, "C18:calendar");
        }
    }
    flush_model(&mut rep, &mut model, &mut batch, "C18:calendar");
    rep.exhaustive_parts.push("every calendar day 1970..2110 incl. out-of-range months/days at several times of day".into());
    // ---- directory entries
    let names: Vec<[u8; 11]> = vec![*b"FOO     TXT", *b"A          ", *b"ABCDEFGHIJK", *b".          ", *b"..         ", [0xE5; 11], [0xFF; 11], *b"\x05BC     D  ", *b"a b c d e f"];
    let clusters: Vec<u32> = vec![0, 1, 2, 3, 0xFFFF, 0x10000, 0x10001, 0x0FFF_FFFF, 0x0FFF_FFF8, 0x1234_5678, 0xFFFF_FFFF, 0xFFF7];
    let sizes: Vec<u32> = vec![0, 1, 511, 512, 0xFFFF, 0x10000, 0x7FFF_FFFF, 0x8000_0000, 0xFFFF_FFFF];
    let stamps: Vec<(u16, u16)> = vec![(0x0021, 0), (0x4A8F, 0xBF7D), (0xFF9F, 0xBF7D), (0x5A21, 0x8C3E), (0, 0), (0xFFFF, 0xFFFF)];
    let mut n_entries = 0u64;
    let entry_case = |rep: &mut Report, batch: &mut Vec<(String, String, Vec<u8>)>, name: &[u8; 11], attr: u8, ct: (u16, u16), mt: (u16, u16), cluster: u32, size: u32| {
        for ft in [FatType::Fat16, FatType::Fat32] {
            rep.cases += 1;
            let fts = if ft == FatType::Fat16 { "16" } else { "32" };
            let raw = raw_slot(name, attr, ct, mt, cluster, size);
            let e = OnDiskDirEntry::new(&raw).get_entry(ft, embedded_sdmmc::BlockIdx(7), 96);
            let ser = e.verif_serialize(ft);
            let e2 = OnDiskDirEntry::new(&ser).get_entry(ft, embedded_sdmmc::BlockIdx(7), 96);
            let ode = OnDiskDirEntry::new(&raw);
            let lfn = match ode.lfn_contents() {
                Some((st, sq, cs, fr)) => format!("{}.{}.{}.{}", st, sq, cs, fr.iter().map(|u| u.to_string()).collect::<Vec<_>>().join(".")),
                None => "none".into(),
            };
            batch.push((
                format!("deparse {fts} {} 7 96", hex(&raw)),
                format!("{} {}.{}.{} {}", show_entry_full(&e, raw[11]), ode.is_end(), ode.is_valid(), ode.is_lfn(), lfn),
                vec![],
            ));
            batch.push((
                format!("deser {fts} {} {} {} {} {} {}", hex(name), raw[11], cluster_num(&e.cluster), e.size, show_ts(&e.mtime), show_ts(&e.ctime)),
                hex(&ser),
                vec![],
            ));
            // oracle 0: the decoded start cluster and size are what the FAT layout says the slot holds (the
            // high word counts on FAT32 only; a directory entry with cluster 0 designates the root)
            rep.oracle_checks += 1;
            {
                let lo = u16::from_le_bytes([raw[26], raw[27]]) as u32;
                let hi = u16::from_le_bytes([raw[20], raw[21]]) as u32;
                let full = if ft == FatType::Fat32 { (hi << 16) | lo } else { lo };
                let want_cl = if full == 0 && (raw[11] & 0x10) != 0 { 0xFFFF_FFFC } else { full };
                let want_size = u32::from_le_bytes([raw[28], raw[29], raw[30], raw[31]]);
                if cluster_num(&e.cluster) != want_cl || e.size != want_size {
                    rep.violation("impl-vs-spec", "dirent-decode-fields", &format!("{fts}: slot {} holds start cluster {want_cl:#x} and size {want_size} per the FAT layout but decodes to cluster {:#x}, size {}", hex(&raw), cluster_num(&e.cluster), e.size), J::obj(vec![("ft", J::s(fts)), ("raw", J::s(hex(&raw)))]));
                }
            }
            // oracle 1: decode(encode(e)) == e, except for the documented "cluster 0 + directory = root" reading
            rep.oracle_checks += 1;
            let root_alias = cluster_num(&e.cluster) == 0xFFFF_FFFC;
            let in_range = if ft == FatType::Fat16 { cluster_num(&e.cluster) < 0x1_0000 } else { true };
            if !root_alias && in_range && e2 != e {
                rep.violation("impl-vs-spec", "dirent-roundtrip", &format!("{fts}: {:?} serialises to {} which parses to {:?}", e, hex(&ser), e2), J::obj(vec![("ft", J::s(fts)), ("raw", J::s(hex(&raw)))]));
            }
            // oracle 2: layout of the encoded bytes per the FAT specification
            rep.oracle_checks += 1;
            let cl = cluster_num(&e.cluster);
            let mut want = [0u8; 32];
            want[0..11].copy_from_slice(name);
            want[11] = attr;
            let cts = e.ctime.serialize_to_fat();
            let mts = e.mtime.serialize_to_fat();
            want[14..18].copy_from_slice(&cts);
            want[22..26].copy_from_slice(&mts);
            if ft == FatType::Fat32 {
                want[20..22].copy_from_slice(&((cl >> 16) as u16).to_le_bytes());
            }
            want[26..28].copy_from_slice(&(cl as u16).to_le_bytes());
            want[28..32].copy_from_slice(&size.to_le_bytes());
            if ser != want {
                rep.violation("impl-vs-spec", "dirent-layout", &format!("{fts}: serialised {} but the FAT layout of these fields is {}", hex(&ser), hex(&want)), J::obj(vec![("ft", J::s(fts)), ("raw", J::s(hex(&raw)))]));
            }
            // oracle 3: for valid date fields the original slot's specified bytes are reproduced
            let (_, cmo, cd, _, _, _) = spec_fat_fields(ct.0, ct.1);
            let (_, mmo, md, _, _, _) = spec_fat_fields(mt.0, mt.1);
            if cmo != 0 && cd != 0 && mmo != 0 && md != 0 && !root_alias {
                let mut orig = raw;
                orig[12] = 0;
                orig[13] = 0;
                orig[18] = 0;
                orig[19] = 0;
                if ft == FatType::Fat16 {
                    orig[20] = 0;
                    orig[21] = 0;
                }
                rep.oracle_checks += 1;
                if ser != orig {
                    rep.violation("impl-vs-spec", "dirent-decode-encode", &format!("{fts}: slot {} re-encodes as {}", hex(&raw), hex(&ser)), J::obj(vec![("ft", J::s(fts)), ("raw", J::s(hex(&raw)))]));
                }
            }
        }
    };
    for attr in 0..=255u8 {
        entry_case(&mut rep, &mut batch, &names[0], attr, stamps[1], stamps[3], 0x0012_3456, 1234);
        entry_case(&mut rep, &mut batch, &names[2], attr, stamps[0], stamps[0], 0, 0);
        n_entries += 2;
    }
    for name in &names {
        for &cl in &clusters {
            for &sz in &sizes {
                let ct = *rng.pick(&stamps);
                let mt = *rng.pick(&stamps);
                let attr = *rng.pick(&[0u8, 0x10, 0x20, 0x01, 0x0F, 0x08, 0x30]);
                entry_case(&mut rep, &mut batch, name, attr, ct, mt, cl, sz);
                n_entries += 1;
            }
        }
        flush_model(&mut rep, &mut model, &mut batch, "C18:dirent");
    }
    let n_rand = if ctx.thorough { 60_000 } else { 4_000 };
    for _ in 0..n_rand {
        let mut name = [0u8; 11];
        for b in name.iter_mut() {
            *b = rng.next() as u8;
        }
        let v = rng.next();
        let w = rng.next();
        entry_case(&mut rep, &mut batch, &name, v as u8, ((v >> 8) as u16, (v >> 24) as u16), ((v >> 40) as u16, (w >> 48) as u16), w as u32, (w >> 16) as u32);
        n_entries += 1;
        if batch.len() > 4000 {
            flush_model(&mut rep, &mut model, &mut batch, "C18:dirent");
        }
    }
    flush_model(&mut rep, &mut model, &mut batch, "C18:dirent");
    rep.exhaustive_parts.push("all 256 attribute bytes; boundary values of cluster (to 2^28-1 and beyond) and size (to 2^32-1) for both FAT types".into());
    rep.distinct_nontrivial += n_entries;
    // ---- names
    let alphabet: Vec<char> = vec!['a', 'Z', '7', '.', ' ', '"', '*', '+', ',', '/', ':', ';', '<', '=', '>', '?', '[', '\\', ']', '|', '\u{1f}', '\u{7f}', 'é', 'å', 'ÿ', '\u{100}', '\u{1F600}', '_', '~', '\u{0}'];
    let maxlen = if ctx.thorough { 4 } else { 3 };
    let mut n_names = 0u64;
    for len in 0..=maxlen {
        let total = (alphabet.len() as u64).pow(len as u32);
        for code in 0..total {
            let mut s = Vec::with_capacity(len);
            let mut c = code;
            for _ in 0..len {
                s.push(alphabet[(c % alphabet.len() as u64) as usize]);
                c /= alphabet.len() as u64;
            }
            let to_model = len < 4 || code % 7 == 0;
            sfn_case(&mut rep, &mut batch, &s, to_model);
            n_names += 1;
            if batch.len() > 6000 {
                flush_model(&mut rep, &mut model, &mut batch, "C18:sfn");
            }
        }
    }
    flush_model(&mut rep, &mut model, &mut batch, "C18:sfn");
    rep.exhaustive_parts.push(format!("all strings of length 0..{maxlen} over a {}-character class alphabet", alphabet.len()));
    // mostly-valid longer names
    let good: Vec<char> = vec!['a', 'B', 'c', 'D', '1', '2', '_', '~', 'é', 'å', 'x', 'Y'];
    let n_rand = if ctx.thorough { 200_000 } else { 20_000 };
    for _ in 0..n_rand {
        let len = rng.range(1, 13) as usize;
        let mut s: Vec<char> = (0..len).map(|_| *rng.pick(&good)).collect();
        match rng.below(6) {
            0 | 1 | 2 => {
                // a dot somewhere plausible
                let p = rng.below(len as u64 + 1) as usize;
                s.insert(p.min(s.len()), '.');
            }
            3 => {
                let p = rng.below(len as u64) as usize;
                s[p] = *rng.pick(&alphabet);
            }
            4 => {
                let p = rng.below(len as u64 + 1) as usize;
                s.insert(p.min(s.len()), '.');
                let p = rng.below(s.len() as u64 + 1) as usize;
                s.insert(p.min(s.len()), '.');
            }
            _ => {}
        }
        sfn_case(&mut rep, &mut batch, &s, true);
        n_names += 1;
        if batch.len() > 6000 {
            flush_model(&mut rep, &mut model, &mut batch, "C18:sfn");
        }
    }
    flush_model(&mut rep, &mut model, &mut batch, "C18:sfn");
    rep.distinct_nontrivial += n_names;
    rep.sample(J::obj(vec![("timestamp", J::s("date=0x4a8f time=0xbf7d")), ("decoded", J::s(show_ts(&Timestamp::from_fat(0x4a8f, 0xbf7d))))]));
    rep.sample(J::obj(vec![("name", J::s("hello.txt")), ("parsed", J::s(hex(&sfn_bytes(&ShortFileName::create_from_str("hello.txt").unwrap()))))]));
    rep.model_requests = model.requests;
    rep
}

fn show_entry_full(e: &embedded_sdmmc::DirEntry, raw_attr: u8) -> String {
    // the two top attribute bits are not visible through the accessors; take them from the raw byte
    // only if the visible six agree (otherwise report what the accessors say)
    let vis = attr_byte(&e.attributes);
    let attr = if vis == raw_attr & 0x3F { raw_attr } else { vis };
    format!(
        "{}:{}:{}:{}:{}:{}:{}:{}",
        hex(&sfn_bytes(&e.name)),
        attr,
        cluster_num(&e.cluster),
        e.size,
        show_ts(&e.mtime),
        show_ts(&e.ctime),
        e.entry_block.0,
        e.entry_offset
    )
}

// ---------------------------------------------------------------------------------------------
// C17 (buffer level)
// ---------------------------------------------------------------------------------------------

fn frag_token(f: &[u16; 13]) -> String {
    let mut b = Vec::with_capacity(26);
    for u in f {
        b.extend_from_slice(&u.to_be_bytes());
    }
    hex(&b)
}

/// a buffer reused for several names: `None` = `clear()`, `Some(f)` = `push(f)`
fn lfn_impl_seq(size: usize, items: &[Option<[u16; 13]>]) -> Option<Vec<u8>> {
    let items = items.to_vec();
    catch_unwind(AssertUnwindSafe(move || {
        let mut storage = vec![0u8; size];
        let mut b = LfnBuffer::new(&mut storage);
        for it in &items {
            match it {
                Some(f) => b.push(f),
                None => b.clear(),
            }
        }
        b.as_str().as_bytes().to_vec()
    }))
    .ok()
}

/// C17 with a reused buffer: after `clear()` nothing of the previous name may survive.
fn lfn_clear_case(rep: &mut Report, batch: &mut Vec<(String, String, Vec<u8>)>, size: usize, first: &[[u16; 13]], second: &[[u16; 13]]) {
    rep.cases += 1;
    let mut items: Vec<Option<[u16; 13]>> = first.iter().map(|f| Some(*f)).collect();
    items.push(None);
    items.extend(second.iter().map(|f| Some(*f)));
    let reused = lfn_impl_seq(size, &items);
    let fresh = lfn_impl(size, second);
    rep.oracle_checks += 1;
    rep.count("lfn:clear-then-reuse");
    if reused != fresh {
        rep.violation("impl-vs-spec", "lfn-clear-leaks-state", &format!("size {size}: after clear() the buffer decodes the next name as {:?} but a fresh buffer gives {:?}", reused.as_ref().map(|b| hex_or_dash(b)), fresh.as_ref().map(|b| hex_or_dash(b))),
            J::obj(vec![("size", J::i(size as i128)), ("first", J::s(first.iter().map(frag_token).collect::<Vec<_>>().join(";"))), ("second", J::s(second.iter().map(frag_token).collect::<Vec<_>>().join(";")))]));
    }
    let toks: Vec<String> = items.iter().map(|it| match it { Some(f) => frag_token(f), None => "C".to_string() }).collect();
    let exp = match &reused {
        None => "panic".to_string(),
        Some(b) => format!("ok {}", hex_or_dash(b)),
    };
    batch.push((format!("lfn {size} {}", toks.join(";")), exp, vec![]));
}

/// push the fragments (in the order given = on-disk order) into a buffer of `size` bytes
fn lfn_impl(size: usize, frags: &[[u16; 13]]) -> Option<Vec<u8>> {
    let frags = frags.to_vec();
    catch_unwind(AssertUnwindSafe(move || {
        let mut storage = vec![0u8; size];
        let mut b = LfnBuffer::new(&mut storage);
        for f in &frags {
            b.push(f);
        }
        b.as_str().as_bytes().to_vec()
    }))
    .ok()
}

fn lfn_case(rep: &mut Report, batch: &mut Vec<(String, String, Vec<u8>)>, size: usize, frags: &[[u16; 13]], to_model: bool) {
    rep.cases += 1;
    let imp = lfn_impl(size, frags);
    // name order is the reverse of the push order
    let mut units: Vec<u16> = Vec::new();
    for f in frags.iter().rev() {
        let n = f.iter().position(|&u| u == 0).unwrap_or(13);
        units.extend_from_slice(&f[..n]);
    }
    let lossy = String::from_utf16_lossy(&units);
    rep.oracle_checks += 1;
    match &imp {
        None => {
            rep.count("lfn:panic");
            rep.violation("impl-vs-spec", "lfn-push-panic", &format!("push panicked: size {size}, fragments {:?}", frags.iter().map(frag_token).collect::<Vec<_>>()), J::obj(vec![("size", J::i(size as i128)), ("frags", J::s(frags.iter().map(frag_token).collect::<Vec<_>>().join(";")))]));
        }
        Some(bytes) => {
            if std::str::from_utf8(bytes).is_err() {
                rep.violation("impl-vs-spec", "lfn-invalid-utf8", &format!("as_str is not UTF-8: {}", hex(bytes)), J::obj(vec![("size", J::i(size as i128)), ("frags", J::s(frags.iter().map(frag_token).collect::<Vec<_>>().join(";")))]));
            }
            let want: &[u8] = if lossy.len() <= size { lossy.as_bytes() } else { b"" };
            if bytes.as_slice() != want {
                let leading_unpaired = units.first().map(|&u| (0xD800..=0xDFFF).contains(&u) && {
                    // unpaired at the very start: a low surrogate, or a high one not followed by a low one
                    (0xDC00..=0xDFFF).contains(&u) || !units.get(1).map(|&v| (0xDC00..=0xDFFF).contains(&v)).unwrap_or(false)
                }).unwrap_or(false);
                // does dropping the leading replacement character explain the difference exactly?
                let explained = leading_unpaired && {
                    let rest = &lossy["\u{fffd}".len()..];
                    let want2: &[u8] = if rest.len() <= size { rest.as_bytes() } else { b"" };
                    bytes.as_slice() == want2
                };
                let sig = if explained { "lfn-leading-unpaired-surrogate-dropped" } else { "lfn-ne-lossy" };
                rep.count(&format!("lfn:{sig}"));
                rep.violation("impl-vs-spec", sig, &format!("size {size}: as_str = {} but lossy decoding of the joined fragments is {}", hex_or_dash(bytes), hex_or_dash(want)), J::obj(vec![("size", J::i(size as i128)), ("frags", J::s(frags.iter().map(frag_token).collect::<Vec<_>>().join(";")))]));
            } else if lossy.len() > size {
                rep.count("lfn:overflow-empty");
            } else {
                rep.count("lfn:fits");
            }
        }
    }
    if to_model {
        let fr = if frags.is_empty() { "-".to_string() } else { frags.iter().map(frag_token).collect::<Vec<_>>().join(";") };
        let exp = match &imp {
            None => "panic".to_string(),
            Some(b) => format!("ok {}", hex_or_dash(b)),
        };
        batch.push((format!("lfn {size} {fr}"), exp, vec![]));
    }
}

fn flush_lfn(rep: &mut Report, model: &mut Model, batch: &mut Vec<(String, String, Vec<u8>)>) {
    if batch.is_empty() {
        return;
    }
    let reqs: Vec<String> = batch.iter().map(|b| b.0.clone()).collect();
    let resp = model.batch(&reqs);
    for ((req, expect, _), got) in batch.iter().zip(resp.iter()) {
        // the model reports `ok <str> <free> <overflow> <unpaired>`; only the string is observable on the Impl
        let got_cmp = if got.starts_with("ok ") { got.split(' ').take(2).collect::<Vec<_>>().join(" ") } else { got.clone() };
        if *expect != got_cmp {
            rep.violation("model-vs-impl", "correspondence:C17:lfn-push", &format!("`{}`: implementation {}, model {}", truncate(req, 300), expect, got), J::obj(vec![("request", J::s(req.clone())), ("impl", J::s(expect.clone())), ("model", J::s(got.clone()))]));
        }
    }
    batch.clear();
}

pub fn c17(ctx: &Ctx) -> Report {
    let mut rep = Report::new("C17");
    rep.rule = "fragment sequences: exhaustive over code-unit classes {ASCII, BMP, 3-byte BMP, high surrogate, low surrogate, NUL, 0xFFFF} at fragment positions {0,1,11,12} of up to 2 (3 in thorough) fragments x buffer sizes {0,1,2,3,4,12,13,38,39,40,64,780}; random sequences of 1..20 fragments of arbitrary u16; core decode_utf16/encode_utf8 models against the standard library on all code units / scalar values (thorough) or a dense sample; distinct = distinct (size, fragments) inputs".into();
    let mut model = Model::spawn(&ctx.model_path);
    let mut rng = Rng::new(ctx.seed);
    let mut batch: Vec<(String, String, Vec<u8>)> = Vec::new();
    let classes: [u16; 7] = [0x41, 0x00E9, 0x20AC, 0xD83D, 0xDE00, 0x0000, 0xFFFF];
    let positions = [0usize, 1, 11, 12];
    let sizes = [0usize, 1, 2, 3, 4, 12, 13, 38, 39, 40, 64, 780];
    let nfr = if ctx.thorough { 3 } else { 2 };
    // enumerate assignments of classes to the 4 positions of each fragment; other positions hold 'x'
    let per_frag = 7usize.pow(4);
    let mut count = 0u64;
    let total: u64 = (1..=nfr).map(|n| (per_frag as u64).pow(n as u32)).sum();
    // full product is large for 3 fragments (2401^3); enumerate fully for 1, fully for 2 (5.7M is too many for quick) → stride
    for n in 1..=nfr {
        let space = (per_frag as u64).pow(n as u32);
        let stride = if n == 1 { 1 } else if n == 2 { if ctx.thorough { 7 } else { 97 } } else { 1_000_003 };
        let mut code = 0u64;
        while code < space {
            let mut frags: Vec<[u16; 13]> = Vec::new();
            let mut c = code;
            for _ in 0..n {
                let mut f = [0x78u16; 13];
                let mut cc = c % per_frag as u64;
                c /= per_frag as u64;
                for &p in &positions {
                    f[p] = classes[(cc % 7) as usize];
                    cc /= 7;
                }
                frags.push(f);
            }
            let size = sizes[(count % sizes.len() as u64) as usize];
            lfn_case(&mut rep, &mut batch, size, &frags, true);
            if n == 1 {
                // all sizes for single fragments
                for &s in &sizes {
                    lfn_case(&mut rep, &mut batch, s, &frags, s % 2 == 0);
                }
            }
            count += 1;
            code += stride;
            if batch.len() > 3000 {
                flush_lfn(&mut rep, &mut model, &mut batch);
            }
        }
    }
    let _ = total;
    flush_lfn(&mut rep, &mut model, &mut batch);
    rep.exhaustive_parts.push("single fragments: all 7^4 class assignments at positions {0,1,11,12} x all 12 buffer sizes".into());
    // random
    let n_rand = if ctx.thorough { 60_000 } else { 6_000 };
    for _ in 0..n_rand {
        let nf = rng.range(1, 20) as usize;
        let mut frags = Vec::new();
        let style = rng.below(4);
        for k in 0..nf {
            let mut f = [0u16; 13];
            for u in f.iter_mut() {
                *u = match style {
                    0 => rng.next() as u16,
                    1 => *rng.pick(&[0x41u16, 0x42, 0xE9, 0x20AC, 0xD83D, 0xDE00, 0xD800, 0xDFFF, 0xFFFD]),
                    2 => {
                        if rng.chance(1, 5) { rng.range(0xD800, 0xDFFF) as u16 } else { rng.range(0x20, 0x2FFF) as u16 }
                    }
                    _ => rng.range(0x20, 0x7E) as u16,
                };
            }
            // the first pushed fragment (= end of the name) usually carries the terminator and padding
            if k == 0 && rng.chance(3, 4) {
                let cut = rng.below(13) as usize;
                f[cut] = 0;
                for u in f.iter_mut().skip(cut + 1) {
                    *u = 0xFFFF;
                }
            }
            frags.push(f);
        }
        let size = if rng.chance(1, 3) { *rng.pick(&sizes) } else { rng.range(0, 780) as usize };
        lfn_case(&mut rep, &mut batch, size, &frags, true);
        if batch.len() > 2000 {
            flush_lfn(&mut rep, &mut model, &mut batch);
        }
    }
    flush_lfn(&mut rep, &mut model, &mut batch);
    // a buffer reused across names (what a directory listing does): clear() between them
    let n_clear = if ctx.thorough { 20_000 } else { 2_000 };
    for _ in 0..n_clear {
        let mk = |rng: &mut Rng, n: usize| -> Vec<[u16; 13]> {
            (0..n).map(|_| {
                let mut f = [0u16; 13];
                for u in f.iter_mut() {
                    *u = *rng.pick(&[0x41u16, 0x62, 0xE9, 0x20AC, 0xD83D, 0xDE00, 0xDC00, 0xD800]);
                }
                if rng.chance(1, 2) {
                    let cut = rng.below(13) as usize;
                    f[cut] = 0;
                }
                f
            }).collect()
        };
        let n1 = rng.range(1, 3) as usize;
        let first = mk(&mut rng, n1);
        let n2 = rng.range(1, 3) as usize;
        let second = mk(&mut rng, n2);
        let size = *rng.pick(&[0usize, 4, 13, 40, 64, 255]);
        lfn_clear_case(&mut rep, &mut batch, size, &first, &second);
        if batch.len() > 2000 {
            flush_lfn(&mut rep, &mut model, &mut batch);
        }
    }
    flush_lfn(&mut rep, &mut model, &mut batch);
    // directory level: long-name runs in every order, with gaps, duplicates, checksum mismatches,
    // interleaved deleted slots, unpaired surrogates; listed through iterate_dir_lfn
    let n_dirs = if ctx.thorough { 1500 } else { 120 };
    for k in 0..n_dirs {
        lfn_dir_case(ctx, &mut rng, &mut rep, &mut model, k);
    }
    rep.distinct_nontrivial = rep.cases;
    // the modelled parts of `core`: decode_utf16 on unit sequences, encode_utf8 on scalars
    let mut reqs = Vec::new();
    let mut exp = Vec::new();
    let step = if ctx.thorough { 1 } else { 37 };
    let mut c = 0u32;
    while c < 0x11_0000 {
        if let Some(ch) = char::from_u32(c) {
            let mut b = [0u8; 4];
            reqs.push(format!("enc8 {c}"));
            exp.push(hex(ch.encode_utf8(&mut b).as_bytes()));
        }
        c += step;
        if reqs.len() > 20000 {
            check_pairs(&mut rep, &mut model, &mut reqs, &mut exp, "C17:encode_utf8");
        }
    }
    check_pairs(&mut rep, &mut model, &mut reqs, &mut exp, "C17:encode_utf8");
    let units_of_interest: Vec<u16> = vec![0x41, 0xD7FF, 0xD800, 0xDBFF, 0xDC00, 0xDFFF, 0xE000, 0xFFFF, 0];
    for &a in &units_of_interest {
        for &b in &units_of_interest {
            for &c in &units_of_interest {
                let us = [a, b, c];
                let items: Vec<String> = char::decode_utf16(us.iter().cloned())
                    .map(|r| match r {
                        Ok(ch) => format!("c{}", ch as u32),
                        Err(e) => format!("u{}", e.unpaired_surrogate()),
                    })
                    .collect();
                reqs.push(format!("dec16 {}.{}.{}", a, b, c));
                exp.push(items.join("."));
            }
        }
    }
    let n_dec = if ctx.thorough { 65536 } else { 4096 };
    for k in 0..n_dec {
        let a = if ctx.thorough { k as u16 } else { rng.next() as u16 };
        let b = rng.range(0xD7F0, 0xE010) as u16;
        let us = [a, b];
        let items: Vec<String> = char::decode_utf16(us.iter().cloned())
            .map(|r| match r {
                Ok(ch) => format!("c{}", ch as u32),
                Err(e) => format!("u{}", e.unpaired_surrogate()),
            })
            .collect();
        reqs.push(format!("dec16 {}.{}", a, b));
        exp.push(items.join("."));
    }
    check_pairs(&mut rep, &mut model, &mut reqs, &mut exp, "C17:decode_utf16");
    rep.sample(J::obj(vec![("size", J::i(40)), ("fragments_on_disk_order", J::s("[\"b.txt\\0\" + padding], [\"long name of a \"]")), ("expect", J::s("lossy decoding of name order"))]));
    rep.model_requests = model.requests;
    rep
}

fn check_pairs(rep: &mut Report, model: &mut Model, reqs: &mut Vec<String>, exp: &mut Vec<String>, what: &str) {
    if reqs.is_empty() {
        return;
    }
    let got = model.batch(reqs);
    for ((r, e), g) in reqs.iter().zip(exp.iter()).zip(got.iter()) {
        rep.cases += 1;
        if e != g {
            rep.violation("model-vs-impl", &format!("correspondence:{what}"), &format!("`{r}`: implementation {e}, model {g}"), J::obj(vec![("request", J::s(r.clone())), ("impl", J::s(e.clone())), ("model", J::s(g.clone()))]));
        }
    }
    reqs.clear();
    exp.clear();
}

// ---------------------------------------------------------------------------------------------
// C15
// ---------------------------------------------------------------------------------------------

#[derive(Clone, Copy)]
pub struct Clock;
impl embedded_sdmmc::TimeSource for Clock {
    fn get_timestamp(&self) -> Timestamp {
        Timestamp { year_since_1970: 46, zero_indexed_month: 2, zero_indexed_day: 0, hours: 19, minutes: 56, seconds: 54 }
    }
}
impl std::fmt::Debug for Clock {
    fn fmt(&self, f: &mut std::fmt::Formatter<'_>) -> std::fmt::Result {
        write!(f, "Clock")
    }
}
impl std::fmt::Debug for RamDisk {
    fn fmt(&self, f: &mut std::fmt::Formatter<'_>) -> std::fmt::Result {
        write!(f, "RamDisk")
    }
}

fn dbg_field(s: &str, key: &str) -> Option<String> {
    let i = s.find(&format!("{key}: "))? + key.len() + 2;
    let rest = &s[i..];
    // value ends at the matching ',' at depth 0 or the closing brace
    let mut depth = 0i32;
    let mut out = String::new();
    for ch in rest.chars() {
        match ch {
            '(' | '[' | '{' => depth += 1,
            ')' | ']' | '}' => {
                if depth == 0 {
                    break;
                }
                depth -= 1;
            }
            ',' if depth == 0 => break,
            _ => {}
        }
        out.push(ch);
    }
    Some(out.trim().to_string())
}

fn dbg_num(v: &str) -> Option<u64> {
    // "BlockIdx(1)", "BlockCount(15136)", "Some(BlockCount(3))", "ClusterId(00000002)", "ClusterId(EMPTY   )", "8", "None"
    if let Some(i) = v.find("ClusterId(") {
        let inner = v[i + 10..].split(')').next().unwrap_or("").trim();
        return match inner {
            "INVALID" => Some(0xFFFF_FFF6),
            "BAD" => Some(0xFFFF_FFF7),
            "EMPTY" => Some(0),
            "ROOT" => Some(0xFFFF_FFFC),
            "EOF" => Some(0xFFFF_FFFF),
            h => u64::from_str_radix(h, 16).ok(),
        };
    }
    let digits: String = v.chars().rev().skip_while(|c| *c == ')').take_while(|c| c.is_ascii_alphanumeric()).collect::<String>().chars().rev().collect();
    digits.parse().ok()
}

/// Mount through the real API and describe the resulting volume in the model driver's `showVol` format.
pub fn impl_mount(blocks: &BTreeMap<u32, [u8; 512]>, idx: usize) -> String {
    let blocks = blocks.clone();
    let r = catch_unwind(AssertUnwindSafe(move || {
        let disk = RamDisk::new(blocks);
        let disk2 = disk.clone();
        let mgr: embedded_sdmmc::VolumeManager<RamDisk, Clock, 4, 4, 4> = embedded_sdmmc::VolumeManager::new_with_limits(disk, Clock, 100);
        match mgr.open_raw_volume(embedded_sdmmc::VolumeIdx(idx)) {
            Ok(_) => {
                let s = format!("{:?}", mgr);
                let g = |k: &str| dbg_field(&s, k).unwrap_or_else(|| "?".into());
                let n = |k: &str| dbg_field(&s, k).and_then(|v| dbg_num(&v)).map(|v| v.to_string()).unwrap_or_else(|| "?".into());
                let opt = |k: &str| {
                    let v = g(k);
                    if v == "None" { "none".to_string() } else { dbg_num(&v).map(|x| x.to_string()).unwrap_or_else(|| "?".into()) }
                };
                let fat32 = s.contains("Fat32(");
                // VolumeName(contents) is printed through Display: recover the raw label from the BPB instead
                let lba: u32 = n("lba_start").parse().unwrap_or(0);
                let bpb = disk2.0.borrow().get(lba);
                let label = if fat32 { hex(&bpb[71..82]) } else { hex(&bpb[43..54]) };
                format!(
                    "ft={} lba={} nb={} name={} bpc={} fd={} fs={} f2={} fc={} nf={} cc={} re={} rb={} il={} rc={}",
                    if fat32 { "32" } else { "16" },
                    n("lba_start"), n("num_blocks"), label, n("blocks_per_cluster"), n("first_data_block"), n("fat_start"),
                    opt("second_fat_start"), opt("free_clusters_count"), opt("next_free_cluster"), n("cluster_count"),
                    if fat32 { "0".into() } else { n("root_entries_count") },
                    if fat32 { "0".into() } else { n("first_root_dir_block") },
                    if fat32 { n("info_location") } else { "0".into() },
                    if fat32 { n("first_root_dir_cluster") } else { "0".into() },
                )
            }
            Err(e) => {
                let s = format!("{:?}", e);
                let v = s.split('(').next().unwrap_or("?").to_string();
                if v == "BadBlockSize" {
                    format!("err BadBlockSize.{}", s.trim_start_matches("BadBlockSize(").trim_end_matches(')'))
                } else {
                    format!("err {v}")
                }
            }
        }
    }));
    r.unwrap_or_else(|_| "panic".to_string())
}

fn mount_request(blocks: &BTreeMap<u32, [u8; 512]>, idx: usize) -> String {
    let zero = [0u8; 512];
    let mbr = blocks.get(&0).unwrap_or(&zero);
    let mut req = format!("mount {idx} {}", hex(mbr));
    for (i, b) in blocks {
        if *i != 0 {
            req.push_str(&format!(" {}:{}", i, hex(b)));
        }
    }
    req
}

/// Microsoft FAT specification: what a correct mount must find, from the formatter's own layout record.
fn spec_layout_string(l: &mkfs::Layout, label: &[u8; 11], fc: Option<u32>, nf: Option<u32>) -> String {
    let o = |v: Option<u32>| v.map(|x| x.to_string()).unwrap_or_else(|| "none".into());
    format!(
        "ft={} lba={} nb={} name={} bpc={} fd={} fs={} f2={} fc={} nf={} cc={} re={} rb={} il={} rc={}",
        if l.fat32 { "32" } else { "16" },
        l.lba_start, l.total_blocks, hex(label), l.bpc, l.first_data - l.lba_start, l.fat_start - l.lba_start,
        if l.num_fats == 2 { (l.fat_start - l.lba_start + l.fat_size).to_string() } else { "none".into() },
        o(fc), o(nf), l.clusters,
        if l.fat32 { 0 } else { l.root_entries },
        if l.fat32 { 0 } else { l.root_start - l.lba_start },
        if l.fat32 { l.info_block } else { 0 },
        if l.fat32 { l.root_cluster } else { 0 },
    )
}

pub fn c15(ctx: &Ctx) -> Report {
    let mut rep = Report::new("C15");
    rep.rule = "valid: boot sectors from the independent formatter over blocks-per-cluster 1..128, 1-2 FATs, reserved counts, root entry counts, 16/32-bit total fields, partition slots 0-3 with offsets, cluster counts at the FAT12/16/32 boundaries; invalid: every BPB/MBR/info field set to 0, 1 and max, every PAIR of BPB fields at extreme values, random byte mutations of valid sectors, fully random sectors; each case mounted through the real API (panic = violation) and through the Lean model; distinct = distinct sector triples".into();
    let mut model = Model::spawn(&ctx.model_path);
    let mut rng = Rng::new(ctx.seed);
    let mut reqs: Vec<String> = Vec::new();
    let mut exps: Vec<String> = Vec::new();
    let mut run = |rep: &mut Report, reqs: &mut Vec<String>, exps: &mut Vec<String>, blocks: &BTreeMap<u32, [u8; 512]>, idx: usize, kind: &str, expect: Option<String>| {
        rep.cases += 1;
        rep.count(&format!("kind:{kind}"));
        let imp = impl_mount(blocks, idx);
        rep.oracle_checks += 1;
        if imp == "panic" {
            rep.violation("impl-vs-spec", "mount-panic", &format!("open_raw_volume({idx}) panicked ({kind})"), J::obj(vec![("idx", J::i(idx as i128)), ("request", J::s(mount_request(blocks, idx)))]));
        } else if imp.contains('?') {
            rep.notes.push(format!("could not read a field from the Debug output: {imp}"));
        }
        if let Some(e) = expect {
            rep.oracle_checks += 1;
            if imp != e {
                rep.violation("impl-vs-spec", "mount-layout", &format!("{kind}: mounted as `{imp}`, the FAT specification gives `{e}`"), J::obj(vec![("idx", J::i(idx as i128)), ("request", J::s(mount_request(blocks, idx)))]));
            }
        }
        let key = imp.split(' ').next().unwrap_or("").to_string();
        rep.count(&format!("result:{}", if key.starts_with("ft=") { "ok".to_string() } else { imp.clone() }));
        reqs.push(mount_request(blocks, idx));
        // the model prints `err FormatError` etc.; `ok` results print the volume
        exps.push(imp);
    };
    // ---- valid grid
    let bpcs: Vec<u8> = vec![1, 2, 4, 8, 16, 32, 64, 128];
    let mut grid = 0u64;
    for fat32 in [false, true] {
        for &bpc in &bpcs {
            for num_fats in [1u8, 2] {
                let cluster_opts: Vec<u32> = if fat32 { vec![65525, 65526, 70000] } else { vec![4085, 4086, 65524, 10000] };
                for &clusters in &cluster_opts {
                    if !ctx.thorough && bpc > 8 && clusters > 5000 && !(fat32 && clusters == 65525) {
                        continue;
                    }
                    // keep total size within u32 and the images small (they are sparse)
                    let slot = rng.below(4) as usize;
                    let geom = mkfs::Geometry {
                        fat32,
                        bpc,
                        num_fats,
                        reserved: if fat32 { *rng.pick(&[32u16, 2, 7]) } else { *rng.pick(&[1u16, 4, 8]) },
                        root_entries: *rng.pick(&[512u16, 16, 40, 224]),
                        clusters,
                        fat_extra_sectors: rng.below(3) as u32,
                        lba_start: *rng.pick(&[1u32, 63, 2048, 8192, 1_000_000]),
                        tail_blocks: rng.below(bpc as u64) as u32,
                        root_cluster: if fat32 { *rng.pick(&[2u32, 3, 5, 100]) } else { 0 },
                        info: match rng.below(3) { 0 => mkfs::InfoInit::Correct, 1 => mkfs::InfoInit::Unknown, _ => mkfs::InfoInit::Stale { free: rng.next() as u32, next: rng.next() as u32 } },
                        part_type: if fat32 { *rng.pick(&[0x0Bu8, 0x0C]) } else { *rng.pick(&[0x06u8, 0x0E, 0x04]) },
                        label: *b"VERIF VOL  ",
                        use_total16: rng.chance(1, 2),
                    };
                    let img = mkfs::format(&[mkfs::PartSpec { slot, geom: geom.clone(), tree: vec![], dirty_free: None, keep_free: None }]);
                    let layout = img.layouts[0].1.clone();
                    // only the three sectors mounting reads
                    let mut blocks = BTreeMap::new();
                    for i in [0u32, layout.lba_start, layout.info_block] {
                        if let Some(b) = img.blocks.get(&i) {
                            blocks.insert(i, *b);
                        }
                    }
                    let (fc, nf) = if fat32 {
                        let info = img.blocks.get(&layout.info_block).copied().unwrap_or([0u8; 512]);
                        let f = u32::from_le_bytes([info[488], info[489], info[490], info[491]]);
                        let n = u32::from_le_bytes([info[492], info[493], info[494], info[495]]);
                        (if f == 0xFFFF_FFFF { None } else { Some(f) }, if n == 0xFFFF_FFFF || n == 0 || n == 1 { None } else { Some(n) })
                    } else {
                        (None, None)
                    };
                    let expect = spec_layout_string(&layout, &geom.label, fc, nf);
                    run(&mut rep, &mut reqs, &mut exps, &blocks, slot, "valid-grid", Some(expect));
                    // the other slots are empty: type 0 → unsupported
                    let other = (slot + 1) % 4;
                    run(&mut rep, &mut reqs, &mut exps, &blocks, other, "empty-slot", None);
                    grid += 1;
                    // ---- boundary values of every field of this valid image
                    let fields: Vec<(u32, usize, usize)> = vec![
                        // (block selector: 0 = mbr, 1 = bpb, 2 = info), offset, width
                        (1, 11, 2), (1, 13, 1), (1, 14, 2), (1, 16, 1), (1, 17, 2), (1, 19, 2), (1, 22, 2), (1, 32, 4), (1, 36, 4), (1, 42, 2), (1, 44, 4), (1, 48, 2), (1, 510, 2),
                        (0, 446 + 16 * slot, 1), (0, 446 + 16 * slot + 4, 1), (0, 446 + 16 * slot + 8, 4), (0, 446 + 16 * slot + 12, 4), (0, 510, 2),
                        (2, 0, 4), (2, 484, 4), (2, 488, 4), (2, 492, 4), (2, 508, 4),
                    ];
                    let do_fields = ctx.thorough || grid % 4 == 1;
                    if do_fields {
                        for &(sel, off, w) in &fields {
                            if sel == 2 && !fat32 {
                                continue;
                            }
                            let bi = match sel { 0 => 0, 1 => layout.lba_start, _ => layout.info_block };
                            for val in [0u64, 1, 2, 0xFF, 0xFFFF, 0xFFFF_FFFF, 0x8000_0000, 0x7F] {
                                let mut b2 = blocks.clone();
                                let mut blk = b2.get(&bi).copied().unwrap_or([0u8; 512]);
                                for k in 0..w {
                                    blk[off + k] = (val >> (8 * k)) as u8;
                                }
                                b2.insert(bi, blk);
                                // when the partition start moved, keep the boot sector reachable at the new place too
                                if sel == 0 && off == 446 + 16 * slot + 8 {
                                    let new_lba = u32::from_le_bytes([blk[off], blk[off + 1], blk[off + 2], blk[off + 3]]);
                                    if new_lba != 0 {
                                        let bp = blocks.get(&layout.lba_start).copied().unwrap_or([0u8; 512]);
                                        b2.insert(new_lba, bp);
                                        if fat32 {
                                            if let Some(ni) = new_lba.checked_add(1) {
                                                let inf = blocks.get(&layout.info_block).copied().unwrap_or([0u8; 512]);
                                                b2.insert(ni, inf);
                                            }
                                        }
                                    }
                                }
                                run(&mut rep, &mut reqs, &mut exps, &b2, slot, "field-boundary", None);
                            }
                        }
                    }
                    // ---- PAIRS of boot-sector fields at extreme values (a check on one field may hide unchecked
                    // arithmetic on another: e.g. the 16-bit FAT size non-zero AND the 32-bit one huge)
                    if ctx.thorough && grid % 4 == 1 || grid % 16 == 1 {
                        let bf: Vec<(usize, usize)> = vec![(11, 2), (13, 1), (14, 2), (16, 1), (17, 2), (19, 2), (22, 2), (32, 4), (36, 4), (44, 4), (48, 2)];
                        let vals: [u64; 4] = [1, 0xFFFF_FFFF, 0x8000_0000, 0];
                        for (i, &(o1, w1)) in bf.iter().enumerate() {
                            for &(o2, w2) in bf.iter().skip(i + 1) {
                                for &v1 in &vals {
                                    for &v2 in &vals {
                                        let mut b2 = blocks.clone();
                                        let mut blk = b2.get(&layout.lba_start).copied().unwrap_or([0u8; 512]);
                                        for k in 0..w1 {
                                            blk[o1 + k] = (v1 >> (8 * k)) as u8;
                                        }
                                        for k in 0..w2 {
                                            blk[o2 + k] = (v2 >> (8 * k)) as u8;
                                        }
                                        b2.insert(layout.lba_start, blk);
                                        run(&mut rep, &mut reqs, &mut exps, &b2, slot, "field-pair-boundary", None);
                                    }
                                }
                                if reqs.len() > 300 {
                                    check_pairs_mount(&mut rep, &mut model, &mut reqs, &mut exps);
                                }
                            }
                        }
                    }
                    // ---- random mutations
                    let nm = if ctx.thorough { 60 } else { 12 };
                    for _ in 0..nm {
                        let mut b2 = blocks.clone();
                        let nmut = rng.range(1, 4);
                        for _ in 0..nmut {
                            let bi = *rng.pick(&[0u32, layout.lba_start, layout.lba_start, layout.info_block]);
                            let mut blk = b2.get(&bi).copied().unwrap_or([0u8; 512]);
                            let off = if rng.chance(3, 4) { rng.below(64) as usize } else { rng.below(512) as usize };
                            let off = if bi == 0 { 446 + (off % 66) } else { off };
                            blk[off] = match rng.below(4) { 0 => 0, 1 => 0xFF, 2 => blk[off].wrapping_add(1), _ => rng.next() as u8 };
                            b2.insert(bi, blk);
                        }
                        run(&mut rep, &mut reqs, &mut exps, &b2, slot, "mutation", None);
                    }
                    if reqs.len() > 300 {
                        check_pairs_mount(&mut rep, &mut model, &mut reqs, &mut exps);
                    }
                }
            }
        }
    }
    // FAT12-sized volumes must be rejected, 4085 accepted as FAT16, 65524 FAT16, 65525 FAT32 (covered above: 4085, 65524, 65525)
    {
        // 4084 clusters: build from a 4085 image by shrinking the total-sector field by one cluster
        let geom = mkfs::Geometry { fat32: false, bpc: 1, num_fats: 2, reserved: 1, root_entries: 512, clusters: 4085, fat_extra_sectors: 0, lba_start: 1, tail_blocks: 0, root_cluster: 0, info: mkfs::InfoInit::Unknown, part_type: 0x06, label: *b"BOUNDARY   ", use_total16: true };
        let img = mkfs::format(&[mkfs::PartSpec { slot: 0, geom, tree: vec![], dirty_free: None, keep_free: None }]);
        let l = img.layouts[0].1.clone();
        let mut blocks = BTreeMap::new();
        blocks.insert(0, *img.blocks.get(&0).unwrap());
        let mut bpb = *img.blocks.get(&l.lba_start).unwrap();
        let tot = u16::from_le_bytes([bpb[19], bpb[20]]) - 1;
        bpb[19..21].copy_from_slice(&tot.to_le_bytes());
        blocks.insert(l.lba_start, bpb);
        run(&mut rep, &mut reqs, &mut exps, &blocks, 0, "fat12-boundary-4084", Some("err FormatError".into()));
    }
    // ---- fully random sectors
    let nr = if ctx.thorough { 200_000 } else { 6_000 };
    for k in 0..nr {
        let mut blocks = BTreeMap::new();
        let mut mbr = [0u8; 512];
        let mut bpb = [0u8; 512];
        let mut info = [0u8; 512];
        for b in mbr.iter_mut().skip(440) { *b = rng.next() as u8; }
        for b in bpb.iter_mut().take(96) { *b = rng.next() as u8; }
        for b in info.iter_mut().skip(480) { *b = rng.next() as u8; }
        // make most of them get past the signatures so the arithmetic is exercised
        if k % 8 != 0 {
            mbr[510] = 0x55; mbr[511] = 0xAA;
            bpb[510] = 0x55; bpb[511] = 0xAA;
        }
        let slot = rng.below(5) as usize;
        if slot < 4 && k % 4 != 0 {
            mbr[446 + 16 * slot] = 0;
            mbr[446 + 16 * slot + 4] = *rng.pick(&[0x06u8, 0x0B, 0x0C, 0x0E, 0x04]);
        }
        if k % 3 == 0 {
            // plausible small numbers in the BPB so that some get all the way
            bpb[11] = 0; bpb[12] = 2; bpb[13] = 1 << rng.below(8); bpb[16] = rng.range(0, 3) as u8;
            bpb[14] = rng.below(40) as u8; bpb[15] = 0;
        }
        if k % 5 == 0 {
            info[0..4].copy_from_slice(&0x4161_5252u32.to_le_bytes());
            info[484..488].copy_from_slice(&0x6141_7272u32.to_le_bytes());
            info[508..512].copy_from_slice(&0xAA55_0000u32.to_le_bytes());
        }
        let lba = if slot < 4 { u32::from_le_bytes([mbr[446 + 16 * slot + 8], mbr[446 + 16 * slot + 9], mbr[446 + 16 * slot + 10], mbr[446 + 16 * slot + 11]]) } else { 5 };
        blocks.insert(0, mbr);
        if lba != 0 {
            blocks.insert(lba, bpb);
            let fsinfo = u16::from_le_bytes([bpb[48], bpb[49]]) as u32;
            if let Some(ii) = lba.checked_add(fsinfo) {
                if ii != lba && ii != 0 {
                    blocks.insert(ii, info);
                }
            }
        }
        run(&mut rep, &mut reqs, &mut exps, &blocks, slot, "random-sectors", None);
        if reqs.len() > 300 {
            check_pairs_mount(&mut rep, &mut model, &mut reqs, &mut exps);
        }
    }
    check_pairs_mount(&mut rep, &mut model, &mut reqs, &mut exps);
    rep.distinct_nontrivial = rep.cases;
    rep.exhaustive_parts.push("valid grid: FAT16/FAT32 x blocks-per-cluster {1..128} x 1-2 FATs x boundary cluster counts".into());
    rep.sample(J::obj(vec![("kind", J::s("valid-grid")), ("example", J::s("FAT16, 4085 clusters, 1 block per cluster, slot chosen at random, lba_start from {1,63,2048,8192,1000000}"))]));
    rep.model_requests = model.requests;
    rep
}

fn check_pairs_mount(rep: &mut Report, model: &mut Model, reqs: &mut Vec<String>, exps: &mut Vec<String>) {
    if reqs.is_empty() {
        return;
    }
    let got = model.batch(reqs);
    for ((r, e), g) in reqs.iter().zip(exps.iter()).zip(got.iter()) {
        if e != g {
            rep.violation("model-vs-impl", "correspondence:C15:mount", &format!("implementation `{e}`, model `{g}`"), J::obj(vec![("request", J::s(r.clone())), ("impl", J::s(e.clone())), ("model", J::s(g.clone()))]));
        }
    }
    reqs.clear();
    exps.clear();
}


// ---------------------------------------------------------------------------------------------
// C17 (directory level)
// ---------------------------------------------------------------------------------------------

fn lfn_slot(seq: u8, csum: u8, units: &[u16; 13]) -> [u8; 32] {
    let mut d = [0u8; 32];
    d[0] = seq;
    d[11] = 0x0F;
    d[13] = csum;
    let pos = [1usize, 3, 5, 7, 9, 14, 16, 18, 20, 22, 24, 28, 30];
    for (k, p) in pos.iter().enumerate() {
        d[*p..*p + 2].copy_from_slice(&units[k].to_le_bytes());
    }
    d
}

fn short_slot(name: &[u8; 11], cluster: u16) -> [u8; 32] {
    let mut d = [0u8; 32];
    d[0..11].copy_from_slice(name);
    d[11] = 0x20;
    d[16..18].copy_from_slice(&0x4A8Fu16.to_le_bytes());
    d[24..26].copy_from_slice(&0x4A8Fu16.to_le_bytes());
    d[26..28].copy_from_slice(&cluster.to_le_bytes());
    d
}

/// The FAT long-name rule, written from the specification: the long name of a short entry is carried
/// by the LFN slots directly before it (among the in-use slots), numbered n|0x40, n-1, …, 1 in that
/// order, all with the checksum of the short name.
fn spec_long_name(slots: &[[u8; 32]], idx: usize) -> Option<Vec<u16>> {
    let name: [u8; 11] = slots[idx][0..11].try_into().unwrap();
    let want = mkfs::lfn_checksum(&name);
    // in-use slots before idx, nearest first
    let mut prev: Vec<&[u8; 32]> = slots[..idx].iter().filter(|s| s[0] != 0xE5 && s[0] != 0).collect();
    prev.reverse();
    let mut expect = 1u8;
    let mut frags: Vec<[u16; 13]> = Vec::new();
    for s in prev {
        if s[11] & 0x0F != 0x0F {
            return None;
        }
        let seq = s[0] & 0x1F;
        if seq != expect || s[13] != want {
            return None;
        }
        let pos = [1usize, 3, 5, 7, 9, 14, 16, 18, 20, 22, 24, 28, 30];
        let mut f = [0u16; 13];
        for (k, p) in pos.iter().enumerate() {
            f[k] = u16::from_le_bytes([s[*p], s[*p + 1]]);
        }
        frags.push(f);
        if s[0] & 0x40 != 0 {
            // start of the run: done (name order = frags as collected: seq 1 first)
            let mut units = Vec::new();
            for f in &frags {
                let n = f.iter().position(|&u| u == 0).unwrap_or(13);
                units.extend_from_slice(&f[..n]);
            }
            return Some(units);
        }
        expect += 1;
    }
    None
}

fn lfn_dir_case(ctx: &Ctx, rng: &mut Rng, rep: &mut Report, model: &mut Model, k: usize) {
    use crate::fsrun::*;
    // build the slots of one directory
    let mut slots: Vec<[u8; 32]> = Vec::new();
    let nfiles = rng.range(2, 6) as usize;
    for i in 0..nfiles {
        let short = mkfs::short_name(&format!("L{}N{}.TXT", k % 10, i));
        let csum = mkfs::lfn_checksum(&short);
        let nfrag = rng.range(0, 3) as usize;
        let mut frs: Vec<[u16; 13]> = Vec::new();
        for j in 0..nfrag {
            let mut f = [0u16; 13];
            for (p, u) in f.iter_mut().enumerate() {
                *u = match rng.below(12) {
                    0 => *rng.pick(&[0xD83Du16, 0xDE00, 0xDC00, 0xD800]),
                    1 => 0x20AC,
                    2 => 0xE9,
                    _ => 0x61 + ((i * 7 + j * 3 + p) % 26) as u16,
                };
            }
            if j == nfrag - 1 && rng.chance(3, 4) {
                let cut = rng.range(1, 12) as usize;
                f[cut] = 0;
                for u in f.iter_mut().skip(cut + 1) {
                    *u = 0xFFFF;
                }
            }
            frs.push(f);
        }
        // on disk: last fragment first, numbered n|0x40 … 1
        let mut run: Vec<[u8; 32]> = Vec::new();
        for j in (0..nfrag).rev() {
            let seq = (j as u8 + 1) | if j == nfrag - 1 { 0x40 } else { 0 };
            run.push(lfn_slot(seq, csum, &frs[j]));
        }
        // perturbations
        match rng.below(10) {
            0 if run.len() >= 2 => { run.remove(rng.below(run.len() as u64) as usize); }
            1 if run.len() >= 2 => { run.swap(0, 1); }
            2 if !run.is_empty() => { let d = run[0]; run.insert(0, d); }
            3 if !run.is_empty() => { let j = rng.below(run.len() as u64) as usize; run[j][13] ^= 0x5A; }
            4 if !run.is_empty() => { let j = rng.below(run.len() as u64 + 1) as usize; let mut del = short_slot(b"DELETED TMP", 9); del[0] = 0xE5; run.insert(j, del); }
            5 if !run.is_empty() => { let j = rng.below(run.len() as u64) as usize; run[j][0] = (run[j][0] & 0x40) | 0x15; }
            6 if !run.is_empty() => { run[0][0] &= !0x40; }
            _ => {}
        }
        slots.extend(run);
        slots.push(short_slot(&short, 3 + i as u16));
        // sometimes a short-only entry right behind, with the SAME checksum as the previous one is impossible to
        // force; the inheritance case is exercised by entries without own fragments following a run
    }
    let nodes: Vec<mkfs::Node> = slots.iter().map(|s| mkfs::Node::RawSlot { bytes: *s }).collect();
    let geom = mkfs::Geometry { fat32: k % 3 == 0, bpc: 1, num_fats: 1, reserved: if k % 3 == 0 { 8 } else { 1 }, root_entries: 64, clusters: if k % 3 == 0 { 65525 } else { 4085 }, fat_extra_sectors: 0, lba_start: 1, tail_blocks: 0, root_cluster: 2, info: mkfs::InfoInit::Unknown, part_type: if k % 3 == 0 { 0x0C } else { 0x06 }, label: *b"LFN        ", use_total16: false };
    let tree = vec![mkfs::Node::Dir { name: mkfs::short_name("LFNDIR"), lfn: None, attr: 0x10, children: nodes, ctime: (0x4A8F, 0), mtime: (0x4A8F, 0), extra_clusters: 0 }];
    let img = mkfs::format(&[mkfs::PartSpec { slot: 0, geom, tree, dirty_free: None, keep_free: None }]);
    let mut sess = Session::new(img.blocks.clone(), (4, 4, 1), 100);
    let mut lines = load_image_lines(&img.blocks);
    lines.push("mgr 4 4 1 100".into());
    let mut expect: Vec<Option<String>> = vec![None; lines.len()];
    let mut listing = String::new();
    let bufsize = *rng.pick(&[0usize, 16, 40, 64, 255, 780]);
    for op in [Op::OpenVolume(0), Op::OpenRoot(100), Op::OpenDir(101, "LFNDIR".into()), Op::ListLfn(102, bufsize), Op::ListLfn(102, 255), Op::List(102)] {
        let o = sess.exec(&op);
        lines.push(op.line());
        expect.push(Some(o.line(false)));
        if matches!(op, Op::ListLfn(_, 255)) {
            listing = o.res.clone();
        }
        if o.res == "panic" {
            rep.violation("impl-vs-spec", "lfn-listing-panic", &format!("`{}` panicked on a directory with perturbed long-name runs", op.show()), J::obj(vec![("case", J::s(format!("c17dir/{}/{k}", ctx.seed))), ("slots", J::Arr(slots.iter().map(|s| J::s(hex(s))).collect()))]));
        }
    }
    rep.cases += 1;
    rep.count("lfn:directory-listing");
    // oracle: a long name is reported only for a complete, ordered run with the right checksum
    let body = listing.strip_prefix("ok L ").unwrap_or("");
    let shorts: Vec<usize> = (0..slots.len()).filter(|&i| slots[i][0] != 0xE5 && slots[i][11] & 0x0F != 0x0F).collect();
    // entries 0,1 of the listing are "." and ".."
    let items: Vec<&str> = body.split(';').filter(|s| !s.is_empty()).collect();
    for (n, &si) in shorts.iter().enumerate() {
        if let Some(item) = items.get(n + 2) {
            rep.oracle_checks += 1;
            let reported: Option<Vec<u8>> = item.split_once('=').map(|(_, h)| unhex(h));
            let spec = spec_long_name(&slots, si);
            match (&reported, &spec) {
                (Some(bytes), None) => {
                    rep.violation("impl-vs-spec", "lfn-reported-without-valid-run", &format!("entry {} is reported with long name {:?} although the slots before it are not a complete, ordered run with its checksum", hex(&slots[si][0..11]), String::from_utf8_lossy(bytes)),
                        J::obj(vec![("case", J::s(format!("c17dir/{}/{k}", ctx.seed))), ("slots", J::Arr(slots.iter().map(|s| J::s(hex(s))).collect()))]));
                }
                (Some(bytes), Some(units)) => {
                    let lossy = String::from_utf16_lossy(units);
                    let lead_unpaired = units.first().map(|&u| (0xD800..=0xDFFF).contains(&u)).unwrap_or(false);
                    if bytes.as_slice() != lossy.as_bytes() && !(lead_unpaired && lossy.as_bytes().ends_with(bytes)) && !(lossy.len() > 255 && bytes.is_empty()) {
                        rep.violation("impl-vs-spec", "lfn-wrong-name", &format!("entry {} is reported with long name {:?}, its fragments spell {:?}", hex(&slots[si][0..11]), String::from_utf8_lossy(bytes), lossy),
                            J::obj(vec![("case", J::s(format!("c17dir/{}/{k}", ctx.seed))), ("slots", J::Arr(slots.iter().map(|s| J::s(hex(s))).collect()))]));
                    } else {
                        rep.count("lfn:name-reported");
                    }
                }
                (None, Some(_)) => rep.count("lfn:valid-run-not-reported"),
                (None, None) => rep.count("lfn:no-name"),
            }
        }
    }
    let resp = model.batch(&lines);
    for ((l, e), g) in lines.iter().zip(expect.iter()).zip(resp.iter()) {
        if let Some(e) = e {
            if &strip_reads(g) != e {
                rep.violation("model-vs-impl", "correspondence:C17:list_lfn", &format!("`{}`: implementation `{}`, model `{}`", truncate(l, 60), truncate(e, 400), truncate(g, 400)), J::obj(vec![("case", J::s(format!("c17dir/{}/{k}", ctx.seed))), ("slots", J::Arr(slots.iter().map(|s| J::s(hex(s))).collect()))]));
                break;
            }
        }
    }
}
