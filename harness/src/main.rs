//! vharness: drives the real crate in-process, pipes the same requests to the Lean model
//! driver, diffs the canonical observations, and runs the property oracles on the Impl.
//!
//! usage: vharness <check> --seed N --tier quick|thorough --model PATH --out REPORT.json
//!        [--replay FILE]
//! exit: 0 report written (violations, if any, are inside), 2 tool failure.
mod fschecks;
mod fsgen;
mod fsrun;
mod json;
mod mkfs;
mod model;
mod pure_checks;
mod ramdisk;
mod report;
mod sdchecks;
mod util;

use report::Report;

pub struct Ctx {
    pub seed: u64,
    pub thorough: bool,
    pub model_path: String,
    pub replay: Option<String>,
}

fn main() {
    let args: Vec<String> = std::env::args().collect();
    if args.len() < 2 {
        eprintln!("usage: vharness <check> --seed N --tier quick|thorough --model PATH --out FILE");
        std::process::exit(2);
    }
    let check = args[1].clone();
    let mut seed = 1u64;
    let mut thorough = false;
    let mut model_path = String::from("/verif/lean/.lake/build/bin/sdmodel");
    let mut out = String::new();
    let mut replay = None;
    let mut i = 2;
    while i < args.len() {
        match args[i].as_str() {
            "--seed" => {
                seed = args[i + 1].parse().unwrap_or(1);
                i += 2;
            }
            "--tier" => {
                thorough = args[i + 1] == "thorough";
                i += 2;
            }
            "--model" => {
                model_path = args[i + 1].clone();
                i += 2;
            }
            "--out" => {
                out = args[i + 1].clone();
                i += 2;
            }
            "--replay" => {
                replay = Some(args[i + 1].clone());
                i += 2;
            }
            other => {
                eprintln!("unknown argument {other}");
                std::process::exit(2);
            }
        }
    }
    // keep panic messages of the crate under test out of the way: they are observations
    std::panic::set_hook(Box::new(|info| {
        // panics of the harness itself are bugs of the checker and must be visible
        if let Some(loc) = info.location() {
            if loc.file().starts_with("src/") {
                eprintln!("harness panic at {}:{}: {}", loc.file(), loc.line(), info);
            }
        }
    }));
    if check == "ioprobe" {
        // run in a child process by the checks that use the wrapper layer: a stack overflow / abort inside the
        // crate's glue cannot be caught in-process
        fschecks::io_probe();
        println!("ioprobe ok");
        return;
    }
    let ctx = Ctx { seed, thorough, model_path, replay };
    let report: Report = match check.as_str() {
        "c19" => pure_checks::c19(&ctx),
        "c18" => pure_checks::c18(&ctx),
        "c17" => pure_checks::c17(&ctx),
        "c15" => pure_checks::c15(&ctx),
        "c01" => fschecks::c01(&ctx),
        "c02" => fschecks::c02(&ctx),
        "c03" => fschecks::c03(&ctx),
        "c04" => fschecks::c04(&ctx),
        "c05" => fschecks::c05(&ctx),
        "c06" => fschecks::c06(&ctx),
        "c07" => fschecks::c07(&ctx),
        "c08" => fschecks::c08(&ctx),
        "c09" => fschecks::c09(&ctx),
        "c10" => fschecks::c10(&ctx),
        "c11" => fschecks::c11(&ctx),
        "c16" => fschecks::c16(&ctx),
        "c12" => sdchecks::c12(&ctx),
        "c13" => sdchecks::c13(&ctx),
        "c14" => sdchecks::c14(&ctx),
        other => {
            eprintln!("unknown check {other}");
            std::process::exit(2);
        }
    };
    let text = report.to_json().to_string();
    if out.is_empty() {
        println!("{text}");
    } else if let Err(e) = std::fs::write(&out, text) {
        eprintln!("cannot write {out}: {e}");
        std::process::exit(2);
    }
}
