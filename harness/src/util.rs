//! PRNG (splitmix64), hex, FNV-1a — every random choice derives from one seeded state.

#[derive(Clone)]
pub struct Rng(pub u64);

impl Rng {
    pub fn new(seed: u64) -> Rng {
        Rng(seed ^ 0x9E37_79B9_7F4A_7C15)
    }
    pub fn next(&mut self) -> u64 {
        self.0 = self.0.wrapping_add(0x9E37_79B9_7F4A_7C15);
        let mut z = self.0;
        z = (z ^ (z >> 30)).wrapping_mul(0xBF58_476D_1CE4_E5B9);
        z = (z ^ (z >> 27)).wrapping_mul(0x94D0_49BB_1331_11EB);
        z ^ (z >> 31)
    }
    /// uniform in 0..n (n > 0)
    pub fn below(&mut self, n: u64) -> u64 {
        self.next() % n
    }
    pub fn range(&mut self, lo: u64, hi_incl: u64) -> u64 {
        lo + self.below(hi_incl - lo + 1)
    }
    pub fn chance(&mut self, num: u64, den: u64) -> bool {
        self.below(den) < num
    }
    pub fn pick<'a, T>(&mut self, xs: &'a [T]) -> &'a T {
        &xs[self.below(xs.len() as u64) as usize]
    }
    pub fn bytes(&mut self, n: usize) -> Vec<u8> {
        (0..n).map(|_| self.next() as u8).collect()
    }
    /// derive an independent stream
    pub fn fork(&mut self, tag: u64) -> Rng {
        Rng(self.next() ^ tag.wrapping_mul(0xD6E8_FEB8_6659_FD93))
    }
}

pub fn hex(bs: &[u8]) -> String {
    const D: &[u8; 16] = b"0123456789abcdef";
    let mut s = String::with_capacity(bs.len() * 2);
    for b in bs {
        s.push(D[(b >> 4) as usize] as char);
        s.push(D[(b & 15) as usize] as char);
    }
    s
}

pub fn hex_or_dash(bs: &[u8]) -> String {
    if bs.is_empty() {
        "-".to_string()
    } else {
        hex(bs)
    }
}

pub fn unhex(s: &str) -> Vec<u8> {
    if s == "-" {
        return vec![];
    }
    let b = s.as_bytes();
    (0..b.len() / 2)
        .map(|i| {
            let h = (b[2 * i] as char).to_digit(16).unwrap() as u8;
            let l = (b[2 * i + 1] as char).to_digit(16).unwrap() as u8;
            h * 16 + l
        })
        .collect()
}

pub fn fnv64(bs: &[u8]) -> u64 {
    let mut h: u64 = 14695981039346656037;
    for b in bs {
        h ^= *b as u64;
        h = h.wrapping_mul(1099511628211);
    }
    h
}

/// code points of a string as the protocol's dotted decimal list
pub fn name_token(s: &str) -> String {
    if s.is_empty() {
        "-".to_string()
    } else {
        s.chars().map(|c| (c as u32).to_string()).collect::<Vec<_>>().join(".")
    }
}

pub fn json_escape(s: &str) -> String {
    let mut o = String::new();
    for c in s.chars() {
        match c {
            '"' => o.push_str("\\\""),
            '\\' => o.push_str("\\\\"),
            '\n' => o.push_str("\\n"),
            '\r' => o.push_str("\\r"),
            '\t' => o.push_str("\\t"),
            c if (c as u32) < 0x20 => o.push_str(&format!("\\u{:04x}", c as u32)),
            c => o.push(c),
        }
    }
    o
}
