//! History engine for the file-system properties: runs generated API histories on the real
//! crate, replays them on the Lean model (correspondence), and evaluates the specification
//! oracles (Lean `Spec.Fs` on the implementation's own medium; byte-array model in here).
use crate::fsgen::*;
use crate::fsrun::*;
use crate::json::J;
use crate::mkfs::{self, Layout};
use crate::model::Model;
use crate::ramdisk::Blk;
use crate::report::Report;
use crate::util::*;
use crate::Ctx;
use embedded_sdmmc::Mode;
use std::collections::BTreeMap;

#[derive(Clone, Debug, PartialEq)]
pub enum Expect {
    /// an API call: the model must answer exactly this (correspondence)
    Op(String),
    /// a specification verdict on the implementation's medium: must start with this
    OraclePrefix(String, String),
    /// a specification answer compared by the harness afterwards
    Capture(String),
    /// setup lines: must answer "ok"
    Setup,
}

pub struct Line {
    pub req: String,
    pub expect: Expect,
    /// index of the operation this line belongs to
    pub step: usize,
}

#[derive(Clone, Debug)]
pub struct RunCfg {
    pub nops: usize,
    pub profile: Profile,
    pub fsck_every_op: bool,
    /// C11: after every call only the unique-names clause is demanded (a failed call may leave the file it worked on half done)
    pub fsck_names_only: bool,
    pub mirror_every_op: bool,
    pub crash_prefixes: bool,
    pub flushed_survives: bool,
    pub quiesce_every: usize,
    pub tree_at_quiescent: bool,
    pub leak_at_quiescent: bool,
    pub remount_at_quiescent: bool,
    pub compare_reads: bool,
    pub region_oracle: bool,
    pub info_oracle: bool,
    pub reenter: bool,
    /// (step, relative device-call index) at which the device fails
    pub faults: Vec<(usize, u64)>,
    /// a fixed list of operations instead of generated ones (fault sweeps re-run the same history)
    pub script: Option<Vec<Op>>,
    /// C11 retry oracle: the fault-free results of the scripted operations.  When the FIRST fault of a
    /// run hits a read-only call (read, list, find, length, offset, eof), the same call is issued again
    /// at once and must give exactly the fault-free answer ("a read-only call that failed on a transient
    /// fault gives the correct answer when retried").
    pub retry_expect: Option<Vec<String>>,
}

impl RunCfg {
    pub fn base(nops: usize, profile: Profile) -> RunCfg {
        RunCfg { nops, profile, fsck_every_op: false, fsck_names_only: false, mirror_every_op: false, crash_prefixes: false, flushed_survives: false, quiesce_every: 0, tree_at_quiescent: false, leak_at_quiescent: false, remount_at_quiescent: false, compare_reads: false, region_oracle: false, info_oracle: false, reenter: false, faults: vec![], script: None, retry_expect: None }
    }
}

pub struct CaseResult {
    pub ops: Vec<Op>,
    pub outcomes: Vec<Outcome>,
    pub device_calls: Vec<u64>,
    pub clean: bool,
}

/// Scripted operations may name "the file opened most recently (and still open)" and "the one before it"
/// instead of a literal handle: the enumerated histories do not know which handle values the crate hands out.
pub const LAST_FILE: u32 = 0xFFFF_FF01;
pub const PREV_FILE: u32 = 0xFFFF_FF02;
/// likewise: the directory / volume opened most recently and still open
pub const LAST_DIR: u32 = 0xFFFF_FF03;
pub const LAST_VOL: u32 = 0xFFFF_FF04;

fn resolve_placeholders(op: &Op, gs: &GState) -> Op {
    let r = |h: u32| -> u32 {
        match h {
            LAST_FILE => gs.files.last().map(|f| f.handle).unwrap_or(LAST_FILE),
            PREV_FILE => if gs.files.len() >= 2 { gs.files[gs.files.len() - 2].handle } else { PREV_FILE },
            LAST_DIR => gs.dirs.last().map(|d| d.handle).unwrap_or(LAST_DIR),
            LAST_VOL => gs.vols.last().map(|v| v.handle).unwrap_or(LAST_VOL),
            other => other,
        }
    };
    match op {
        Op::OpenRoot(v) => Op::OpenRoot(r(*v)),
        Op::CloseVolume(v) => Op::CloseVolume(r(*v)),
        Op::Label(v) => Op::Label(r(*v)),
        Op::OpenDir(d, n) => Op::OpenDir(r(*d), n.clone()),
        Op::CloseDir(d) => Op::CloseDir(r(*d)),
        Op::OpenFile(d, n, m) => Op::OpenFile(r(*d), n.clone(), *m),
        Op::Delete(d, n) => Op::Delete(r(*d), n.clone()),
        Op::Mkdir(d, n) => Op::Mkdir(r(*d), n.clone()),
        Op::Find(d, n) => Op::Find(r(*d), n.clone()),
        Op::List(d) => Op::List(r(*d)),
        Op::ListLfn(d, n) => Op::ListLfn(r(*d), *n),
        Op::Read(f, n) => Op::Read(r(*f), *n),
        Op::Write(f, b) => Op::Write(r(*f), b.clone()),
        Op::SeekStart(f, n) => Op::SeekStart(r(*f), *n),
        Op::SeekCur(f, n) => Op::SeekCur(r(*f), *n),
        Op::SeekEnd(f, n) => Op::SeekEnd(r(*f), *n),
        Op::Flush(f) => Op::Flush(r(*f)),
        Op::CloseFile(f) => Op::CloseFile(r(*f)),
        Op::Length(f) => Op::Length(r(*f)),
        Op::Offset(f) => Op::Offset(r(*f)),
        Op::Eof(f) => Op::Eof(r(*f)),
        other => other.clone(),
    }
}

/// The raw call a wrapper-level call stands for, and the wrapper's answer in the raw call's vocabulary: the
/// oracles and the reference state are written for the raw calls.  (`HasOpen` stands for "no call at all".)
fn raw_equivalent(op: &Op, out: &Outcome, gs: &GState) -> (Op, Outcome) {
    let with = |res: String| Outcome { res, writes: out.writes.clone(), reads: out.reads.clone() };
    let unitise = |o: &Outcome| if o.res.starts_with("ok") { with("ok".into()) } else { o.clone() };
    let unpanic = |o: &Outcome| if o.res == "panic" { with("err BadHandle".into()) } else { o.clone() };
    match op {
        Op::IoRead(_, 0) | Op::IoWrite(_, _) if matches!(op, Op::IoRead(_, 0)) || matches!(op, Op::IoWrite(_, b) if b.is_empty()) => (Op::HasOpen, with("ok t".into())),
        Op::IoRead(f, n) => (Op::Read(*f, *n), out.clone()),
        Op::IoWrite(f, b) => (Op::Write(*f, b.clone()), unitise(out)),
        Op::IoFlush(f) => (Op::Flush(*f), out.clone()),
        Op::IoSeekStart(f, n) => (Op::SeekStart(*f, (*n).min(u32::MAX as u64) as u32), unitise(out)),
        Op::IoSeekEnd(f, n) => {
            let back = n.checked_neg().filter(|b| *b >= 0 && *b <= u32::MAX as i64);
            (Op::SeekEnd(*f, back.map(|b| b as u32).unwrap_or(u32::MAX)), unitise(out))
        }
        Op::IoSeekCur(f, n) => (Op::SeekCur(*f, if *n > i32::MAX as i64 { i32::MAX } else if *n < i32::MIN as i64 { i32::MIN } else { *n as i32 }), unitise(out)),
        Op::WEof(f) => (Op::Eof(*f), unpanic(out)),
        Op::WLength(f) => (Op::Length(*f), unpanic(out)),
        Op::WOffset(f) => (Op::Offset(*f), unpanic(out)),
        Op::WCloseFile(f) => (Op::CloseFile(*f), out.clone()),
        // a drop swallows the result: what happened is known from the table (an open file is always removed)
        Op::WDropFile(f) => (Op::CloseFile(*f), with(if gs.files.iter().any(|x| x.handle == *f) { "ok".into() } else { "err BadHandle".to_string() })),
        Op::WCloseDir(d) => (Op::CloseDir(*d), out.clone()),
        Op::WDropDir(d) => (Op::CloseDir(*d), with(if gs.dirs.iter().any(|x| x.handle == *d) || gs.ghost_dirs.contains(d) { "ok".into() } else { "err BadHandle".to_string() })),
        Op::WCloseVolume(v) => (Op::CloseVolume(*v), out.clone()),
        Op::WDropVolume(v) => {
            let open = gs.vols.iter().any(|x| x.handle == *v);
            let busy = gs.files.iter().any(|x| gs.vols.iter().any(|gv| gv.handle == *v && gv.vol == x.vol)) || gs.dirs.iter().any(|x| x.vhandle == *v);
            (Op::CloseVolume(*v), with(if !open { "err BadHandle".into() } else if busy { "err VolumeStillInUse".into() } else { "ok".to_string() }))
        }
        // change_dir = open the new one, then close the old one; only the success case changes the tables
        Op::WChangeDir(d, n) => (Op::OpenDir(*d, n.clone()), unpanic(out)),
        other => (other.clone(), out.clone()),
    }
}

fn region_of(l: &Layout, idx: u32) -> &'static str {
    if idx < l.lba_start || idx >= l.lba_start + l.total_blocks {
        return "outside";
    }
    if idx == l.lba_start {
        return "boot";
    }
    if l.fat32 && idx == l.info_block {
        return "info";
    }
    if idx < l.fat_start {
        return "reserved";
    }
    if idx < l.fat_start + l.fat_size * l.num_fats {
        return "fat";
    }
    if !l.fat32 && idx >= l.root_start && idx < l.root_start + l.root_blocks {
        return "root";
    }
    if idx >= l.first_data && idx < l.first_data + l.clusters * l.bpc {
        return "data";
    }
    "beyond-last-cluster"
}

/// C04: is this device write inside the volume, inside a region a call may write, and does it only
/// change bytes the call may change?  `pre` is the medium just before the write.
fn check_write_region(sc: &Scenario, vol: Option<usize>, op: &Op, idx: u32, blk: &Blk, cur: &BTreeMap<u32, Blk>, pre: &BTreeMap<u32, Blk>) -> Option<(String, String)> {
    // `cur` = the medium just before this write, `pre` = the medium before the call started
    let old = cur.get(&idx).copied().unwrap_or([0u8; 512]);
    let vi = match sc.vols.iter().position(|v| region_of(&v.layout, idx) != "outside") {
        Some(v) => v,
        None => return Some(("write-outside-every-partition".into(), format!("block {idx} is in no partition"))),
    };
    if let Some(v) = vol {
        if v != vi {
            return Some(("write-into-other-volume".into(), format!("block {idx} belongs to volume {vi}, the call operates on volume {v}")));
        }
    }
    let l = &sc.vols[vi].layout;
    let changed: Vec<usize> = (0..512).filter(|&i| old[i] != blk[i]).collect();
    match region_of(l, idx) {
        "boot" | "reserved" | "beyond-last-cluster" => Some((format!("write-to-{}", region_of(l, idx)), format!("block {idx} ({} region) written by {}", region_of(l, idx), op.kind()))),
        "info" => {
            if changed.iter().all(|&i| (488..496).contains(&i)) { None } else { Some(("info-sector-frame".into(), format!("info sector bytes {:?} changed", &changed[..changed.len().min(8)]))) }
        }
        "fat" => {
            let w = if l.fat32 { 4 } else { 2 };
            let rel = (idx - l.fat_start) % l.fat_size;
            for &i in &changed {
                let c = (rel as usize * 512 + i) / w;
                if c < 2 || c >= l.clusters as usize + 2 {
                    return Some(("fat-entry-out-of-range-changed".into(), format!("FAT entry {c} (volume has clusters 2..{}) changed by {}", l.clusters + 1, op.kind())));
                }
                if l.fat32 && i % 4 == 3 && (old[i] & 0xF0) != (blk[i] & 0xF0) {
                    return Some(("fat32-top-nibble-changed".into(), format!("reserved top bits of FAT entry {c} changed")));
                }
            }
            None
        }
        "root" | "data" => {
            // a block of a cluster that was free before this call may be rewritten completely
            if region_of(l, idx) == "data" {
                let c = 2 + (idx - l.first_data) / l.bpc;
                if mkfs::fat_get(pre, l, c) == 0 {
                    return None;
                }
            }
            if changed.is_empty() {
                return None;
            }
            let lo = *changed.first().unwrap();
            let hi = *changed.last().unwrap();
            match op {
                Op::Write(_, data) => {
                    // the changed bytes must be a contiguous piece of the data being written
                    let piece = &blk[lo..=hi];
                    let found = data.len() >= piece.len() && data.windows(piece.len()).any(|w| w == piece);
                    if found { None } else { Some(("data-frame".into(), format!("block {idx}: bytes {lo}..={hi} changed to something that is not a piece of the written data"))) }
                }
                _ => {
                    // directory-slot purposes: one 32-byte slot
                    if lo / 32 == hi / 32 { None } else { Some(("slot-frame".into(), format!("block {idx}: bytes {lo}..={hi} changed by {} (more than one directory slot)", op.kind()))) }
                }
            }
        }
        other => Some((format!("write-to-{other}"), format!("block {idx}"))),
    }
}

fn hexpath(p: &[Name]) -> String {
    p.iter().map(|n| hex(n)).collect::<Vec<_>>().join("/")
}

fn advance(t: &mut embedded_sdmmc::Timestamp, rng: &mut Rng) {
    let add = rng.range(1, 4000) as u32;
    let mut s = t.seconds as u32 + add;
    let mut mi = t.minutes as u32 + s / 60;
    s %= 60;
    let mut h = t.hours as u32 + mi / 60;
    mi %= 60;
    let mut d = t.zero_indexed_day as u32 + h / 24;
    h %= 24;
    let mut mo = t.zero_indexed_month as u32 + d / 28;
    d %= 28;
    let y = (t.year_since_1970 as u32 + mo / 12).min(130);
    mo %= 12;
    *t = ts(y as u8, mo as u8, d as u8, h as u8, mi as u8, s as u8);
}

/// Run one case. Violations are recorded in `rep` under property `prop`.
/// One case; when a GENERATED history exhibits a failing input (impl-vs-spec), the history is shrunk: operations
/// are removed (whole tail first, then one by one, to a fixed point) as long as re-running the remaining ones as a
/// fixed script still produces a violation with the same signature; the minimal operation list is attached to the
/// violation's replay as `shrunk_ops`.
pub fn run_case(rng: &mut Rng, sc: &Scenario, cfg: &RunCfg, model: &mut Model, rep: &mut Report, case_tag: &str) -> CaseResult {
    let v0 = rep.violations.len();
    let res = run_case_inner(rng, sc, cfg, model, rep, case_tag);
    if cfg.script.is_some() || cfg.reenter || res.ops.len() < 3 {
        return res;
    }
    let target = match rep.violations[v0..].iter().position(|v| v.kind == "impl-vs-spec") {
        Some(k) => v0 + k,
        None => return res,
    };
    let sig = rep.violations[target].signature.clone();
    let fails = |ops: &Vec<Op>, model: &mut Model| -> bool {
        let mut cfg2 = cfg.clone();
        cfg2.script = Some(ops.clone());
        cfg2.nops = ops.len();
        cfg2.faults = vec![];
        cfg2.retry_expect = None;
        let mut tmp = Report::new("shrink");
        let mut r = Rng::new(7);
        run_case_inner(&mut r, sc, &cfg2, model, &mut tmp, "shrink");
        tmp.violations.iter().any(|v| v.kind == "impl-vs-spec" && v.signature == sig)
    };
    let mut ops = res.ops.clone();
    // the fault-free scripted replay must reproduce at all (faulted cases are not shrunk)
    if !cfg.faults.is_empty() || !fails(&ops, model) {
        return res;
    }
    let mut budget = 120usize;
    // 1. cut the tail
    let mut hi = ops.len();
    while hi > 1 && budget > 0 {
        let mid = hi / 2;
        let cand: Vec<Op> = ops[..mid].to_vec();
        budget -= 1;
        if fails(&cand, model) {
            hi = mid;
            ops = cand;
        } else {
            break;
        }
    }
    // 2. remove single operations until nothing can be removed
    let mut changed = true;
    while changed && budget > 0 {
        changed = false;
        let mut i = ops.len();
        while i > 0 && budget > 0 {
            i -= 1;
            let mut cand = ops.clone();
            cand.remove(i);
            budget -= 1;
            if !cand.is_empty() && fails(&cand, model) {
                ops = cand;
                changed = true;
            }
        }
    }
    rep.count("shrunk-cases");
    if let J::Obj(kv) = &mut rep.violations[target].replay {
        kv.push(("shrunk_ops".to_string(), J::Arr(ops.iter().map(|o| J::s(o.show())).collect())));
        kv.push(("shrunk_from".to_string(), J::i(res.ops.len() as i128)));
    }
    res
}

fn run_case_inner(rng: &mut Rng, sc: &Scenario, cfg: &RunCfg, model: &mut Model, rep: &mut Report, case_tag: &str) -> CaseResult {
    let mut sess = Session::new(sc.blocks.clone(), sc.limits, sc.id_offset);
    let mut gs = GState::new(sc);
    let mut lines: Vec<Line> = Vec::new();
    for l in load_image_lines(&sc.blocks) {
        lines.push(Line { req: l, expect: Expect::Setup, step: 0 });
    }
    lines.push(Line { req: format!("mgr {} {} {} {}", sc.limits.0, sc.limits.1, sc.limits.2, sc.id_offset), expect: Expect::Setup, step: 0 });
    let mut ops: Vec<Op> = Vec::new();
    let mut outcomes: Vec<Outcome> = Vec::new();
    let mut device_calls: Vec<u64> = Vec::new();
    let mut local_violation = false;
    // C09: (volume, path, flushed length, digest) of files known to be safely on the medium
    let mut flushed: Vec<(usize, Vec<Name>, usize, u64)> = Vec::new();
    if cfg.flushed_survives {
        // files that are on the medium before the history starts are flushed data too: a sample of them,
        // preferring late entries of large directories (they live in later clusters of the chain)
        for (vi, v) in sc.vols.iter().enumerate() {
            fn walk(d: &RefDir, path: &mut Vec<Name>, out: &mut Vec<(Vec<Name>, usize, u64)>) {
                for (n, c) in d.children.iter().rev() {
                    path.push(*n);
                    match c {
                        RefNode::File(f) if !f.opaque && !f.data.is_empty() => out.push((path.clone(), f.data.len(), fnv64(&f.data))),
                        RefNode::Dir(dd) => walk(dd, path, out),
                        _ => {}
                    }
                    path.pop();
                }
            }
            let mut all = Vec::new();
            walk(&v.tree, &mut Vec::new(), &mut all);
            // up to 16 of them, evenly spread over the walk (first and last clusters of the volume, every directory)
            let want = 16usize;
            let n_all = all.len();
            for (j, (p, len, dig)) in all.into_iter().enumerate() {
                if n_all <= want || (j * want) / n_all != ((j + 1) * want) / n_all {
                    flushed.push((vi, p, len, dig));
                }
            }
        }
    }
    let mut free_changed = vec![false; sc.vols.len()];
    let replay_of = |ops: &Vec<Op>, outcomes: &Vec<Outcome>, step: usize, sc: &Scenario, extra: J| -> J {
        J::obj(vec![
            ("case", J::s(case_tag.to_string())),
            ("scenario", J::s(sc.desc.clone())),
            ("limits", J::s(format!("{:?}", sc.limits))),
            ("id_offset", J::i(sc.id_offset as i128)),
            ("failing_step", J::i(step as i128)),
            ("ops", J::Arr(ops.iter().zip(outcomes.iter()).map(|(o, r)| J::s(format!("{}  =>  {}", o.show(), truncate(&r.res, 160)))).collect())),
            ("detail", extra),
        ])
    };

    let mut step = 0usize;
    let mut faults_fired = 0usize;
    let total_steps = cfg.script.as_ref().map(|s| s.len()).unwrap_or(cfg.nops);
    let mut pending_quiesce: Vec<Op> = Vec::new();
    while step < total_steps || !pending_quiesce.is_empty() {
        if sess.dead {
            break;
        }
        // choose the operation
        let from_queue = !pending_quiesce.is_empty();
        let op = if from_queue {
            pending_quiesce.remove(0)
        } else if let Some(script) = &cfg.script {
            resolve_placeholders(&script[step], &gs)
        } else {
            gs.next_op(rng, sc, &cfg.profile)
        };
        // clock
        if cfg.script.is_none() {
            advance(&mut gs.clock, rng);
        } else {
            let mut r2 = Rng::new(step as u64 * 77 + 5);
            advance(&mut gs.clock, &mut r2);
        }
        sess.set_clock(gs.clock);
        let sidx = ops.len();
        lines.push(Line { req: format!("clock {}", show_ts(&gs.clock)), expect: Expect::Setup, step: sidx });
        // fault injection
        let fault_here: Vec<u64> = cfg.faults.iter().filter(|(s, _)| *s == sidx).map(|(_, k)| *k).collect();
        if !fault_here.is_empty() {
            sess.disk.set_faults_rel(&fault_here);
            lines.push(Line { req: format!("faults {}", fault_here.iter().map(|k| k.to_string()).collect::<Vec<_>>().join(",")), expect: Expect::Setup, step: sidx });
        }
        let hits_before = sess.disk.fault_hits();
        let calls_before = sess.disk.calls();
        let pre_image = if cfg.region_oracle { Some(sess.image()) } else { None };
        // which volume does the call operate on (for the C04 oracle)
        let op_for_vol = raw_equivalent(&op, &Outcome { res: String::new(), writes: vec![], reads: vec![] }, &gs).0;
        let op_vol: Option<usize> = match &op_for_vol {
            Op::Read(f, _) | Op::Write(f, _) | Op::Flush(f) | Op::CloseFile(f) => gs.files.iter().find(|x| x.handle == *f).map(|x| x.vol),
            Op::OpenFile(d, ..) | Op::Delete(d, _) | Op::Mkdir(d, _) | Op::OpenDir(d, _) | Op::Find(d, _) | Op::List(d) | Op::ListLfn(d, _) => gs.dirs.iter().find(|x| x.handle == *d).map(|x| x.vol),
            Op::CloseVolume(v) | Op::Label(v) | Op::OpenRoot(v) => gs.vols.iter().find(|x| x.handle == *v).map(|x| x.vol),
            _ => None,
        };
        let pos_before = match &op_for_vol {
            Op::Write(f, _) | Op::Read(f, _) => gs.files.iter().find(|x| x.handle == *f).map(|x| x.pos),
            _ => None,
        };
        let out = sess.exec(&op);
        // wrapper-level calls are judged as the raw calls they stand for; the model sees the call as issued
        let (op_orig, out_orig) = (op.clone(), out.clone());
        let (op, out) = raw_equivalent(&op_orig, &out_orig, &gs);
        let faulted = sess.disk.fault_hits() > hits_before;
        if !fault_here.is_empty() {
            sess.disk.clear_faults();
        }
        device_calls.push(sess.disk.calls() - calls_before);
        rep.ops += 1;
        rep.count(&format!("op:{}", op.kind()));
        let res_key = if out.res.starts_with("ok") { "ok".to_string() } else { out.res.clone() };
        rep.count(&format!("res:{res_key}"));
        rep.writes_compared += out.writes.len() as u64;

        // ---- oracles on the implementation's own answer -------------------------------------------
        // (C11) a failed device call must surface as an error
        if faulted {
            rep.count("fault:fired");
            rep.count(&format!("fault:fired:{}", op_orig.kind()));
            rep.oracle_checks += 1;
            // (a `drop` has no result to report an error in)
            let is_drop = matches!(op_orig, Op::WDropFile(_) | Op::WDropDir(_) | Op::WDropVolume(_));
            if !out.res.starts_with("err") && !is_drop {
                local_violation = true;
                rep.violation("impl-vs-spec", "fault-not-reported", &format!("a device call failed during `{}` but the call returned `{}`", op.show(), truncate(&out.res, 80)),
                    replay_of(&ops, &outcomes, sidx, sc, J::obj(vec![("op", J::s(op.show())), ("fault_rel", J::s(format!("{:?}", fault_here)))])));
            }
        }
        if out.res == "panic" {
            local_violation = true;
            rep.violation("impl-vs-spec", &format!("panic:{}", op.kind()), &format!("`{}` panicked", op.show()),
                replay_of(&ops, &outcomes, sidx, sc, J::obj(vec![("op", J::s(op.show()))])));
        }
        // (C07) a refused call changes nothing on the medium
        {
            let refusal = ["err TooMany", "err BadHandle", "err NotFound", "err FileAlreadyOpen", "err FileAlreadyExists", "err DirAlreadyExists", "err ReadOnly", "err OpenedDirAsFile", "err OpenedFileAsDir", "err DeleteDirAsFile", "err FilenameError", "err VolumeStillInUse", "err VolumeAlreadyOpen", "err InvalidOffset", "err NoSuchVolume", "err LockError"];
            if refusal.iter().any(|r| out.res.starts_with(r)) {
                rep.oracle_checks += 1;
                if !out.writes.is_empty() && !faulted {
                    local_violation = true;
                    rep.violation("impl-vs-spec", &format!("refused-call-wrote:{}", op.kind()), &format!("`{}` was refused with `{}` but issued {} device writes (first to block {})", op.show(), out.res, out.writes.len(), out.writes[0].0),
                        replay_of(&ops, &outcomes, sidx, sc, J::obj(vec![("op", J::s(op.show()))])));
                }
            }
        }
        // (C08) limits are exact: the matching too-many error exactly when the table is full
        {
            let expect_too_many: Option<(&str, bool)> = match &op {
                Op::OpenFile(..) => Some(("err TooManyOpenFiles", gs.files.len() >= sc.limits.1)),
                Op::OpenDir(..) | Op::Mkdir(..) | Op::OpenRoot(_) => Some(("err TooManyOpenDirs", gs.dir_slots_used >= sc.limits.0)),
                Op::OpenVolume(_) => Some(("err TooManyOpenVolumes", gs.vols.len() >= sc.limits.2)),
                _ => None,
            };
            if let Some((err, full)) = expect_too_many {
                rep.oracle_checks += 1;
                // handle errors that are checked before the limit do not exist for these calls, except the lock
                if !faulted && out.res != "panic" && ((full && out.res != err) || (!full && out.res == err)) {
                    local_violation = true;
                    rep.violation("impl-vs-spec", &format!("limit-not-exact:{}", op.kind()), &format!("`{}` returned `{}` with the table {} (limits {:?})", op.show(), truncate(&out.res, 60), if full { "full" } else { "not full" }, sc.limits),
                        replay_of(&ops, &outcomes, sidx, sc, J::obj(vec![("op", J::s(op.show()))])));
                }
                if full {
                    rep.count("limit:reached");
                }
            }
        }
        // (C08) a handle that is open is never rejected as a bad handle (fault-free runs: after a failed close the
        // reference does not know whether the handle survived)
        if cfg.faults.is_empty() && out.res == "err BadHandle" {
            let live = match &op {
                Op::Read(f, _) | Op::Write(f, _) | Op::Flush(f) | Op::CloseFile(f) | Op::Length(f) | Op::Offset(f) | Op::Eof(f) | Op::SeekStart(f, _) | Op::SeekCur(f, _) | Op::SeekEnd(f, _) => gs.files.iter().any(|x| x.handle == *f),
                Op::OpenFile(d, ..) | Op::Delete(d, _) | Op::Mkdir(d, _) | Op::OpenDir(d, _) | Op::Find(d, _) | Op::List(d) | Op::ListLfn(d, _) | Op::CloseDir(d) => gs.dirs.iter().any(|x| x.handle == *d),
                Op::CloseVolume(v) | Op::Label(v) | Op::OpenRoot(v) => gs.vols.iter().any(|x| x.handle == *v),
                _ => false,
            };
            rep.oracle_checks += 1;
            if live {
                local_violation = true;
                rep.violation("impl-vs-spec", &format!("live-handle-rejected:{}", op.kind()), &format!("`{}` was answered BadHandle although the handle is open (returned by an earlier call of this history and not closed since)", op.show()),
                    replay_of(&ops, &outcomes, sidx, sc, J::obj(vec![("op", J::s(op.show()))])));
            }
        }
        // (C08) a handle that has been closed (and not handed out again) is rejected, whatever the other arguments are
        if out.is_ok() && cfg.faults.is_empty() {
            let h: Option<u32> = match &op {
                Op::Read(f, _) | Op::Write(f, _) | Op::Flush(f) | Op::CloseFile(f) | Op::Length(f) | Op::Offset(f) | Op::Eof(f) | Op::SeekStart(f, _) | Op::SeekCur(f, _) | Op::SeekEnd(f, _) => Some(*f),
                Op::OpenFile(d, ..) | Op::Delete(d, _) | Op::Mkdir(d, _) | Op::OpenDir(d, _) | Op::Find(d, _) | Op::List(d) | Op::ListLfn(d, _) | Op::CloseDir(d) => Some(*d),
                Op::CloseVolume(v) | Op::Label(v) => Some(*v),
                _ => None, // open_root_dir on a closed volume handle is the known finding, judged elsewhere
            };
            if let Some(h) = h {
                let live = gs.files.iter().any(|x| x.handle == h) || gs.dirs.iter().any(|x| x.handle == h) || gs.vols.iter().any(|x| x.handle == h) || gs.ghost_dirs.contains(&h);
                if gs.closed_handles.contains(&h) && !live {
                    rep.oracle_checks += 1;
                    local_violation = true;
                    rep.violation("impl-vs-spec", &format!("closed-handle-accepted:{}", op.kind()), &format!("`{}` answered `{}` although handle {h} was closed earlier in this history and has not been handed out since", op.show(), truncate(&out.res, 60)),
                        replay_of(&ops, &outcomes, sidx, sc, J::obj(vec![("op", J::s(op.show()))])));
                }
            }
        }
        // (C07) a file carrying the read-only attribute (whatever other attribute bits it carries) is never opened for writing
        if let Op::OpenFile(d, n, m) = &op {
            if *m != Mode::ReadOnly && out.is_ok() {
                if let Some(gd) = gs.dirs.iter().find(|x| x.handle == *d) {
                    let mut p = gd.path.clone();
                    p.push(sfn(n));
                    if let Some(rf) = gs.trees[gd.vol].file_at(&p) {
                        rep.oracle_checks += 1;
                        // (a file the reference no longer tracks - after a faulted delete it may be gone and re-created - is exempt)
                        if rf.attr & 0x01 != 0 && !rf.opaque {
                            local_violation = true;
                            rep.violation("impl-vs-spec", "read-only-file-opened-for-writing", &format!("`{}` succeeded on a file whose attribute byte is {:#04x} (read-only bit set)", op.show(), rf.attr),
                                replay_of(&ops, &outcomes, sidx, sc, J::obj(vec![("op", J::s(op.show())), ("attr", J::i(rf.attr as i128))])));
                        }
                        rep.count(&format!("open-for-writing:attr-{:#04x}", rf.attr));
                    }
                }
            }
        }
        // (C07 / C03) a file that is open cannot be opened again or deleted, whatever else is open on other volumes
        if out.is_ok() {
            if let Op::OpenFile(d, n, _) | Op::Delete(d, n) = &op {
                if let Some(gd) = gs.dirs.iter().find(|x| x.handle == *d) {
                    let mut p = gd.path.clone();
                    p.push(sfn(n));
                    rep.oracle_checks += 1;
                    if gs.files.iter().any(|f| f.vol == gd.vol && f.path == p) {
                        local_violation = true;
                        rep.violation("impl-vs-spec", &format!("open-file-not-exclusive:{}", op.kind()), &format!("`{}` succeeded although that file is open ({} files open, on {} volumes)", op.show(), gs.files.len(), gs.vols.len()),
                            replay_of(&ops, &outcomes, sidx, sc, J::obj(vec![("op", J::s(op.show()))])));
                    }
                }
            }
        }
        if let Op::OpenFile(d, n, _) | Op::Delete(d, n) = &op {
            if let Some(gd) = gs.dirs.iter().find(|x| x.handle == *d) {
                let mut p = gd.path.clone();
                p.push(sfn(n));
                if gs.files.iter().any(|f| f.vol == gd.vol && f.path == p) {
                    rep.count(&format!("exclusive:{}-of-open-file:{}", op.kind(), if gs.vols.len() > 1 { "several-volumes-open" } else { "one-volume-open" }));
                }
            }
        }
        // (C01) byte-array model
        match &op {
            Op::Read(f, n) => {
                if let Some(gf) = gs.files.iter().find(|x| x.handle == *f) {
                    if let Some(rf) = gs.trees[gf.vol].file_at(&gf.path) {
                        if !rf.opaque && !faulted {
                            rep.oracle_checks += 1;
                            let end = (gf.pos + n).min(rf.data.len());
                            let want = format!("ok b {}", hex_or_dash(&rf.data[gf.pos.min(end)..end]));
                            if out.res != want {
                                local_violation = true;
                                rep.violation("impl-vs-spec", "read-ne-bytearray", &format!("read of {n} at offset {} of a {}-byte file returned {} but the byte-array model holds {}", gf.pos, rf.data.len(), truncate(&out.res, 60), truncate(&want, 60)),
                                    replay_of(&ops, &outcomes, sidx, sc, J::obj(vec![("op", J::s(op.show())), ("offset", J::i(gf.pos as i128))])));
                            }
                            rep.count(if *n == 0 { "read:zero" } else if (gf.pos % 512) + n > 512 { "read:block-crossing" } else { "read:within-block" });
                        }
                    }
                }
            }
            Op::Length(f) | Op::Offset(f) | Op::Eof(f) => {
                if let Some(gf) = gs.files.iter().find(|x| x.handle == *f) {
                    if let Some(rf) = gs.trees[gf.vol].file_at(&gf.path) {
                        if !rf.opaque {
                            rep.oracle_checks += 1;
                            let want = match &op {
                                Op::Length(_) => format!("ok n {}", rf.data.len()),
                                Op::Offset(_) => format!("ok n {}", gf.pos),
                                _ => (if gf.pos == rf.data.len() { "ok t" } else { "ok f" }).to_string(),
                            };
                            if out.res != want {
                                local_violation = true;
                                rep.violation("impl-vs-spec", "length-offset-eof", &format!("`{}` = {} but the byte-array model says {}", op.show(), out.res, want),
                                    replay_of(&ops, &outcomes, sidx, sc, J::obj(vec![("op", J::s(op.show()))])));
                            }
                        }
                    }
                }
            }
            Op::SeekStart(f, _) | Op::SeekCur(f, _) | Op::SeekEnd(f, _) => {
                if let Some(gf) = gs.files.iter().find(|x| x.handle == *f) {
                    if let Some(rf) = gs.trees[gf.vol].file_at(&gf.path) {
                        if !rf.opaque {
                            let len = rf.data.len() as i64;
                            let target: i64 = match &op {
                                Op::SeekStart(_, n) => *n as i64,
                                Op::SeekCur(_, n) => gf.pos as i64 + *n as i64,
                                Op::SeekEnd(_, n) => len - *n as i64,
                                _ => 0,
                            };
                            let want = if target < 0 || target > len { "err InvalidOffset" } else { "ok" };
                            rep.oracle_checks += 1;
                            if out.res != want {
                                local_violation = true;
                                rep.violation("impl-vs-spec", "seek-range", &format!("`{}` on a {}-byte file at offset {} returned {} (expected {want})", op.show(), len, gf.pos, out.res),
                                    replay_of(&ops, &outcomes, sidx, sc, J::obj(vec![("op", J::s(op.show()))])));
                            }
                            if target >= 0 && target < gf.pos as i64 {
                                rep.count("seek:backwards");
                            }
                        }
                    }
                }
            }
            _ => {}
        }
        // (C04) region / frame of every device write.  (Before fix: blockdevice.rs kept a block tagged after a failed
        // write-back, and later read-modify-writes carried the failed call's bytes to the medium; the frame oracle had
        // to be suspended after a failed write.  Since the cache forgets the block, the frame holds under faults too.)
        let frame_ok = true;
        if sess.disk.write_fault_hits() > 0 && pre_image.is_some() {
            rep.count("frame-oracle:armed-after-failed-write");
        }
        if let (Some(pre), true) = (&pre_image, frame_ok) {
            let mut cur = pre.clone();
            for (idx, blk) in &out.writes {
                rep.oracle_checks += 1;
                if let Some((sig, what)) = check_write_region(sc, op_vol, &op, *idx, blk, &cur, pre) {
                    local_violation = true;
                    rep.violation("impl-vs-spec", &sig, &format!("{} during `{}`", what, op.show()),
                        replay_of(&ops, &outcomes, sidx, sc, J::obj(vec![("op", J::s(op.show())), ("block", J::i(*idx as i128))])));
                }
                cur.insert(*idx, *blk);
                for v in &sc.vols {
                    if region_of(&v.layout, *idx) != "outside" {
                        rep.count(&format!("write-region:{}", region_of(&v.layout, *idx)));
                    }
                }
            }
        }

        // ---- lines for the model / the Lean specification --------------------------------------
        lines.push(Line { req: op_orig.line(), expect: Expect::Op(out_orig.line(cfg.compare_reads)), step: sidx });
        if !fault_here.is_empty() {
            lines.push(Line { req: "faults -".to_string(), expect: Expect::Setup, step: sidx });
        }
        ops.push(op_orig.clone());
        outcomes.push(out_orig.clone());
        if op_orig != op {
            rep.count(&format!("wrapper:{}", op_orig.kind()));
        }
        // a failed write: learn how far it got (one more API call, part of the history)
        let mut offset_after = None;
        if let Op::Write(f, _) = &op {
            if !out.is_ok() && out.res != "err BadHandle" && out.res != "err ReadOnly" && out.res != "panic" {
                let q = Op::Offset(*f);
                let qo = sess.exec(&q);
                if let Some(n) = qo.res.strip_prefix("ok n ") {
                    offset_after = n.parse::<usize>().ok();
                }
                lines.push(Line { req: q.line(), expect: Expect::Op(qo.line(cfg.compare_reads)), step: sidx });
                ops.push(q);
                outcomes.push(qo);
                device_calls.push(0);
                if out.res == "err DiskFull" || out.res == "err NotEnoughSpace" {
                    rep.count("space:disk-full-reached");
                }
            }
        }
        // (C11) a close that failed on a device fault: through the wrappers the handle is consumed, so the file must be
        // released (otherwise nobody can ever close it); through the raw call it must be released or still closable
        if faulted && matches!(op_orig, Op::WCloseFile(_) | Op::WDropFile(_) | Op::CloseFile(_)) && out.res != "err BadHandle" && out.res != "panic" {
            if let Op::CloseFile(f) = &op {
                let q = Op::Length(*f);
                let qo = sess.exec(&q);
                rep.count(&format!("fault:close-probe:{}", op_orig.kind()));
                rep.oracle_checks += 1;
                let still_open = qo.res.starts_with("ok");
                lines.push(Line { req: q.line(), expect: Expect::Op(qo.line(cfg.compare_reads)), step: sidx });
                ops.push(q);
                outcomes.push(qo);
                device_calls.push(0);
                if still_open && !matches!(op_orig, Op::CloseFile(_)) {
                    local_violation = true;
                    rep.violation("impl-vs-spec", "handle-leaked-after-failed-close", &format!("`{}` failed on an injected device fault; the wrapper has given up the handle, but the file is still open in the volume manager (nobody can close it any more)", op_orig.show()),
                        replay_of(&ops, &outcomes, sidx, sc, J::obj(vec![("op", J::s(op_orig.show())), ("fault_rel", J::s(format!("{:?}", fault_here)))])));
                } else if still_open {
                    let q2 = Op::CloseFile(*f);
                    let q2o = sess.exec(&q2);
                    lines.push(Line { req: q2.line(), expect: Expect::Op(q2o.line(cfg.compare_reads)), step: sidx });
                    if !q2o.is_ok() {
                        local_violation = true;
                        rep.violation("impl-vs-spec", "handle-not-closable-after-fault", &format!("`{}` failed on an injected device fault and left the file open; closing it again without fault answered `{}`", op_orig.show(), q2o.res),
                            replay_of(&ops, &outcomes, sidx, sc, J::obj(vec![("op", J::s(op_orig.show()))])));
                    }
                    ops.push(q2);
                    outcomes.push(q2o);
                    device_calls.push(0);
                }
            }
        }
        // shadow medium, crash prefixes, flushed-survives
        let vol_for_geom = op_vol.unwrap_or(0);
        if !out.writes.is_empty() {
            if let Some(v) = op_vol {
                if out.writes.iter().any(|(i, _)| region_of(&sc.vols[v].layout, *i) == "fat") {
                    free_changed[v] = true;
                }
            }
            if cfg.crash_prefixes || cfg.flushed_survives {
                lines.push(Line { req: geom_line(&sc.vols[vol_for_geom].layout), expect: Expect::Setup, step: sidx });
            }
            // the file this very call modifies is exempt from the C09 check during the call
            let touched: Option<(usize, Vec<Name>)> = match &op {
                Op::Write(f, _) | Op::Flush(f) | Op::CloseFile(f) => gs.files.iter().find(|x| x.handle == *f).map(|x| (x.vol, x.path.clone())),
                Op::Delete(d, n) | Op::OpenFile(d, n, _) => gs.dirs.iter().find(|x| x.handle == *d).map(|x| {
                    let mut p = x.path.clone();
                    p.push(sfn(n));
                    (x.vol, p)
                }),
                _ => None,
            };
            for (k, (idx, blk)) in out.writes.iter().enumerate() {
                lines.push(Line { req: format!("sw {} {}", idx, hex(blk)), expect: Expect::Setup, step: sidx });
                if cfg.crash_prefixes {
                    rep.count("crash:prefix");
                    lines.push(Line { req: "fsck crash".to_string(), expect: Expect::OraclePrefix("ok".into(), format!("crash-after-write-{}-of-{}:{}", k + 1, out.writes.len(), op.kind())), step: sidx });
                }
                if cfg.flushed_survives {
                    for (v, path, len, dig) in &flushed {
                        if *v != vol_for_geom {
                            continue;
                        }
                        if let Some((tv, tp)) = &touched {
                            if tv == v && tp == path {
                                continue;
                            }
                        }
                        rep.count("flushed:prefix-check");
                        lines.push(Line { req: format!("fcheck {} {}", hexpath(path), len), expect: Expect::Capture(format!("flushed:{}:{}:{}", len, dig, op.kind())), step: sidx });
                    }
                }
            }
        }
        // reference state
        let _ = pos_before;
        gs.apply(sc, &op, &out, offset_after);
        // a successful change_dir has also closed the directory it started from
        if let Op::WChangeDir(d, _) = &op_orig {
            if out_orig.handle().is_some() {
                let mut o2 = out_orig.clone();
                o2.res = "ok".into();
                gs.apply(sc, &Op::CloseDir(*d), &o2, None);
            }
        }
        // (C01, wrapper level) embedded-io: `seek` returns the new position, `write` the number of bytes taken
        match &op_orig {
            Op::IoSeekStart(f, _) | Op::IoSeekEnd(f, _) | Op::IoSeekCur(f, _) => {
                if let (Some(p), Some(gf)) = (out_orig.res.strip_prefix("ok n ").and_then(|x| x.parse::<usize>().ok()), gs.files.iter().find(|x| x.handle == *f)) {
                    rep.oracle_checks += 1;
                    if p != gf.pos {
                        local_violation = true;
                        rep.violation("impl-vs-spec", "io-seek-position", &format!("`{}` returned position {p} but the byte-array cursor is at {}", op_orig.show(), gf.pos), replay_of(&ops, &outcomes, sidx, sc, J::Null));
                    }
                }
            }
            Op::IoWrite(_, b) => {
                if let Some(k) = out_orig.res.strip_prefix("ok n ").and_then(|x| x.parse::<usize>().ok()) {
                    rep.oracle_checks += 1;
                    if k != b.len() {
                        local_violation = true;
                        rep.violation("impl-vs-spec", "io-write-count", &format!("`{}` returned {k} for a {}-byte buffer", op_orig.show(), b.len()), replay_of(&ops, &outcomes, sidx, sc, J::Null));
                    }
                }
            }
            _ => {}
        }
        // (C09) bookkeeping: what is known to be on the medium
        match &op {
            Op::Flush(f) if out.is_ok() => {
                if let Some(gf) = gs.files.iter().find(|x| x.handle == *f) {
                    if let Some(rf) = gs.trees[gf.vol].file_at(&gf.path) {
                        if !rf.opaque {
                            flushed.retain(|(v, p, _, _)| !(*v == gf.vol && p == &gf.path));
                            flushed.push((gf.vol, gf.path.clone(), rf.data.len(), fnv64(&rf.data)));
                        }
                    }
                }
            }
            Op::Write(f, _) => {
                // the file is being modified: no longer covered until flushed again
                if let Some(gf) = gs.files.iter().find(|x| x.handle == *f) {
                    flushed.retain(|(v, p, _, _)| !(*v == gf.vol && p == &gf.path));
                }
            }
            Op::OpenFile(d, n, m) if out.is_ok() && *m != Mode::ReadOnly => {
                if let Some(gd) = gs.dirs.iter().find(|x| x.handle == *d) {
                    let mut p = gd.path.clone();
                    p.push(sfn(n));
                    if matches!(m, Mode::ReadWriteTruncate | Mode::ReadWriteCreateOrTruncate) {
                        flushed.retain(|(v, q, _, _)| !(*v == gd.vol && q == &p));
                    }
                }
            }
            Op::Delete(d, n) if out.is_ok() => {
                if let Some(gd) = gs.dirs.iter().find(|x| x.handle == *d) {
                    let mut p = gd.path.clone();
                    p.push(sfn(n));
                    flushed.retain(|(v, q, _, _)| !(*v == gd.vol && q == &p));
                }
            }
            _ => {}
        }
        // per-op specification verdicts
        if cfg.fsck_every_op || cfg.mirror_every_op {
            for (vi, v) in sc.vols.iter().enumerate() {
                if sc.vols.len() > 1 && Some(vi) != op_vol {
                    continue;
                }
                lines.push(Line { req: geom_line(&v.layout), expect: Expect::Setup, step: sidx });
                if cfg.fsck_every_op {
                    lines.push(Line { req: (if cfg.fsck_names_only { "fsck names" } else { "fsck live" }).to_string(), expect: Expect::OraclePrefix("ok".into(), format!("after:{}:{}", op.kind(), res_key)), step: sidx });
                }
                if cfg.mirror_every_op && v.layout.num_fats > 1 {
                    lines.push(Line { req: "mirror".to_string(), expect: Expect::OraclePrefix("ok".into(), format!("fat-mirror-after:{}", op.kind())), step: sidx });
                }
            }
        }
        // (C05) a refused write means the volume is really full
        if let Op::Write(f, _) = &op {
            if (out.res == "err DiskFull" || out.res == "err NotEnoughSpace") && !faulted {
                if let Some(v) = op_vol {
                    lines.push(Line { req: geom_line(&sc.vols[v].layout), expect: Expect::Setup, step: sidx });
                    lines.push(Line { req: "free".to_string(), expect: Expect::OraclePrefix("0".into(), "disk-full-with-free-clusters".into()), step: sidx });
                    let cb = (sc.vols[v].layout.bpc * 512) as usize;
                    if let Some(gf) = gs.files.iter().find(|x| x.handle == *f) {
                        rep.oracle_checks += 1;
                        if gf.pos % cb != 0 {
                            local_violation = true;
                            rep.violation("impl-vs-spec", "disk-full-mid-cluster", &format!("write refused with {} at offset {} which is not a cluster boundary ({} bytes per cluster)", out.res, gf.pos, cb),
                                replay_of(&ops, &outcomes, sidx, sc, J::Null));
                        }
                    }
                }
            }
        }
        // (C11) retry oracle: the first fault of the run hit a read-only call -> the same call again, now
        // fault-free, must give the fault-free answer of the base run
        if faulted {
            faults_fired += 1;
        }
        if faulted && faults_fired == 1 && !from_queue && matches!(op, Op::Read(..) | Op::List(_) | Op::ListLfn(..) | Op::Find(..) | Op::Length(_) | Op::Offset(_) | Op::Eof(_)) {
            if let Some(want) = cfg.retry_expect.as_ref().and_then(|w| w.get(step)) {
                let ro = sess.exec(&op);
                rep.ops += 1;
                rep.count("fault:retry-readonly");
                rep.count(&format!("fault:retry:{}", op.kind()));
                rep.oracle_checks += 1;
                device_calls.push(0);
                if &ro.res != want {
                    local_violation = true;
                    rep.violation("impl-vs-spec", &format!("retry-after-fault-differs:{}", op.kind()), &format!("`{}` failed on an injected device fault (`{}`); retried at once without fault it returned `{}` but the fault-free answer is `{}`", op.show(), truncate(&out.res, 40), truncate(&ro.res, 120), truncate(want, 120)),
                        replay_of(&ops, &outcomes, sidx, sc, J::obj(vec![("op", J::s(op.show())), ("fault_rel", J::s(format!("{:?}", fault_here))), ("retry", J::s(truncate(&ro.res, 600))), ("fault_free", J::s(truncate(want, 600)))])));
                }
                lines.push(Line { req: op.line(), expect: Expect::Op(ro.line(cfg.compare_reads)), step: ops.len() });
                ops.push(op.clone());
                outcomes.push(ro.clone());
                gs.apply(sc, &op, &ro, None);
            }
        }
        if !from_queue {
            step += 1;
        }
        // quiescent point: close everything, compare the medium with the reference tree, remount
        let at_end = step >= total_steps && pending_quiesce.is_empty();
        let due = cfg.quiesce_every > 0 && !from_queue && step % cfg.quiesce_every == 0;
        if (due || at_end) && pending_quiesce.is_empty() && (cfg.tree_at_quiescent || cfg.leak_at_quiescent || cfg.remount_at_quiescent || cfg.info_oracle) && !sess.dead {
            if !gs.files.is_empty() {
                for f in gs.files.clone() {
                    pending_quiesce.push(Op::CloseFile(f.handle));
                }
                continue;
            }
            rep.count("quiescent-point");
            for (vi, v) in sc.vols.iter().enumerate() {
                lines.push(Line { req: geom_line(&v.layout), expect: Expect::Setup, step: ops.len() });
                if cfg.leak_at_quiescent {
                    lines.push(Line { req: "fsck quiesced".to_string(), expect: Expect::Capture("leak-check".into()), step: ops.len() });
                }
                if cfg.tree_at_quiescent {
                    let mut want = Vec::new();
                    gs.trees[vi].dump("/", &mut want);
                    lines.push(Line { req: "tree".to_string(), expect: Expect::Capture(format!("tree:{}", want.join("#"))), step: ops.len() });
                }
            }
            if cfg.remount_at_quiescent {
                remount_check(&sess, sc, &gs, rep, &ops, &outcomes, case_tag);
            }
        }
    }

    // ---- talk to the model ------------------------------------------------------------------------
    rep.cases += 1;
    let reqs: Vec<String> = lines.iter().map(|l| l.req.clone()).collect();
    let resp = model.batch(&reqs);
    let mut clean = !local_violation;
    let mut diverged = false;
    for (l, got) in lines.iter().zip(resp.iter()) {
        match &l.expect {
            Expect::Setup => {
                if got != "ok" {
                    rep.notes.push(format!("setup line `{}` answered `{}`", truncate(&l.req, 60), truncate(got, 60)));
                }
            }
            Expect::Op(want) => {
                let g = if cfg.compare_reads { got.clone() } else { strip_reads(got) };
                if &g != want && !diverged {
                    diverged = true;
                    clean = false;
                    rep.violation("model-vs-impl", &format!("correspondence:{}:{}", rep.property.clone(), l.req.split(' ').nth(1).unwrap_or("?")),
                        &format!("step {}: `{}`: implementation `{}`, model `{}`", l.step, truncate(&l.req, 80), truncate(want, 300), truncate(&g, 300)),
                        replay_of(&ops, &outcomes, l.step, sc, J::obj(vec![("request", J::s(truncate(&l.req, 400))), ("impl", J::s(truncate(want, 2000))), ("model", J::s(truncate(&g, 2000)))])));
                }
            }
            Expect::OraclePrefix(prefix, what) => {
                // after a divergence only the verdicts that do not depend on the model's state count
                if diverged && l.req == "fsck live" {
                    continue;
                }
                rep.oracle_checks += 1;
                if !got.starts_with(prefix.as_str()) {
                    clean = false;
                    let clause = got.split(' ').nth(1).unwrap_or("?").split(':').next().unwrap_or("?").to_string();
                    let sig = if l.req.starts_with("fsck") { format!("fsck:{}:{}", clause, what.split(':').last().unwrap_or("")) } else { what.clone() };
                    rep.violation("impl-vs-spec", &sig, &format!("step {} ({}): specification verdict on the implementation's medium: {}", l.step, what, truncate(got, 300)),
                        replay_of(&ops, &outcomes, l.step, sc, J::obj(vec![("oracle", J::s(l.req.clone())), ("verdict", J::s(truncate(got, 600))), ("context", J::s(what.clone()))])));
                }
            }
            Expect::Capture(what) => {
                rep.oracle_checks += 1;
                if what == "leak-check" {
                    // "ok dirs=.. files=.. used=U reach=R leaked=N:..."
                    if !got.starts_with("ok") {
                        clean = false;
                        let clause = got.split(' ').nth(1).unwrap_or("?").split(':').next().unwrap_or("?").to_string();
                        rep.violation("impl-vs-spec", &format!("fsck:{clause}:quiescent"), &format!("at a quiescent point: {}", truncate(got, 300)), replay_of(&ops, &outcomes, l.step, sc, J::s(truncate(got, 600))));
                    } else if !got.contains("leaked=0:") {
                        clean = false;
                        rep.violation("impl-vs-spec", "clusters-leaked", &format!("with no file open, clusters are marked in use that no chain owns: {}", truncate(got, 200)), replay_of(&ops, &outcomes, l.step, sc, J::s(truncate(got, 600))));
                    }
                } else if let Some(want) = what.strip_prefix("tree:") {
                    let mut w: Vec<&str> = want.split('#').filter(|s| !s.is_empty()).collect();
                    let mut g: Vec<String> = got.split('#').filter(|s| !s.is_empty()).map(|s| s.to_string()).collect();
                    // opaque files: digest not compared
                    w.sort();
                    g.sort();
                    let norm = |s: &str| -> String {
                        let mut parts: Vec<&str> = s.split(' ').collect();
                        if parts.first() == Some(&"F") && (parts.last() == Some(&"*") || parts.last().map(|x| x.starts_with("big")).unwrap_or(false)) {
                            parts.pop();
                            // size / stamps of the filler are not tracked either
                            return format!("F {} opaque", parts.get(1).unwrap_or(&""));
                        }
                        s.to_string()
                    };
                    let opaque: Vec<String> = w.iter().filter(|s| s.ends_with(" *")).map(|s| s.split(' ').nth(1).unwrap_or("").to_string()).collect();
                    let wn: Vec<String> = w.iter().map(|s| norm(s)).collect();
                    let gn: Vec<String> = g.iter().map(|s| { let p = s.split(' ').nth(1).unwrap_or(""); if opaque.iter().any(|o| o == p) { format!("F {p} opaque") } else { s.clone() } }).collect();
                    if wn != gn {
                        clean = false;
                        let missing: Vec<&String> = wn.iter().filter(|x| !gn.contains(x)).collect();
                        let extra: Vec<&String> = gn.iter().filter(|x| !wn.contains(x)).collect();
                        let sig = if missing.iter().chain(extra.iter()).any(|s| s.starts_with('!')) { "tree:unreadable" } else { "tree-ne-reference" };
                        rep.violation("impl-vs-spec", sig, &format!("an independent FAT reader sees a different tree than the history produced: expected-but-absent {:?}, present-but-unexpected {:?}", &missing[..missing.len().min(3)], &extra[..extra.len().min(3)]),
                            replay_of(&ops, &outcomes, l.step, sc, J::obj(vec![("expected", J::Arr(wn.iter().map(|s| J::s(s.clone())).collect())), ("found", J::Arr(gn.iter().map(|s| J::s(s.clone())).collect()))])));
                    }
                } else if let Some(rest) = what.strip_prefix("flushed:") {
                    // "len:digest:opkind"; got: "found <size> <digest> <n>"
                    let mut it = rest.split(':');
                    let len: usize = it.next().unwrap_or("0").parse().unwrap_or(0);
                    let dig = it.next().unwrap_or("");
                    let opk = it.next().unwrap_or("");
                    let parts: Vec<&str> = got.split(' ').collect();
                    let ok = parts.len() == 4 && parts[0] == "found" && parts[1].parse::<usize>().map(|s| s >= len).unwrap_or(false) && parts[2] == dig && parts[3].parse::<usize>().ok() == Some(len);
                    if !ok {
                        clean = false;
                        rep.violation("impl-vs-spec", &format!("flushed-data-lost-during:{opk}"), &format!("step {}: after a prefix of the writes of `{}`, a file flushed earlier ({} bytes) reads back as `{}` (`{}`)", l.step, opk, len, truncate(got, 80), l.req),
                            replay_of(&ops, &outcomes, l.step, sc, J::obj(vec![("check", J::s(l.req.clone())), ("answer", J::s(got.clone()))])));
                    }
                }
            }
        }
    }
    // After a divergence the model's open-file state cannot be trusted for `fsck live`: run the
    // history again with the crash variant (no pending state, sizes not required to be current),
    // which depends on the implementation's medium only, from the diverging step on.
    if diverged && lines.iter().any(|l| l.req == "fsck live") {
        let reqs2: Vec<String> = lines.iter().map(|l| if l.req == "fsck live" { "fsck crash".to_string() } else { l.req.clone() }).collect();
        let resp2 = model.batch(&reqs2);
        let mut past = false;
        let mut reported = false;
        for (l, got) in lines.iter().zip(resp2.iter()) {
            if let Expect::Op(want) = &l.expect {
                let g = if cfg.compare_reads { got.clone() } else { strip_reads(got) };
                if &g != want {
                    past = true;
                }
            }
            if past && l.req == "fsck live" && !reported {
                if let Expect::OraclePrefix(prefix, what) = &l.expect {
                    rep.oracle_checks += 1;
                    if !got.starts_with(prefix.as_str()) {
                        reported = true;
                        let clause = got.split(' ').nth(1).unwrap_or("?").split(':').next().unwrap_or("?").to_string();
                        rep.violation("impl-vs-spec", &format!("fsck:{}:{}", clause, what.split(':').last().unwrap_or("")), &format!("step {} ({}): specification verdict (crash variant: medium only) on the implementation's medium: {}", l.step, what, truncate(got, 300)),
                            replay_of(&ops, &outcomes, l.step, sc, J::obj(vec![("oracle", J::s("fsck crash")), ("verdict", J::s(truncate(got, 600))), ("context", J::s(what.clone()))])));
                    }
                }
            }
        }
    }
    if rep.samples.len() < 3 {
        rep.sample(J::obj(vec![("scenario", J::s(sc.desc.clone())), ("limits", J::s(format!("{:?}", sc.limits))), ("ops", J::Arr(ops.iter().take(25).zip(outcomes.iter()).map(|(o, r)| J::s(format!("{} => {}", o.show(), truncate(&r.res, 40)))).collect()))]));
    }
    CaseResult { ops, outcomes, device_calls, clean }
}

pub fn truncate(s: &str, n: usize) -> String {
    if s.len() <= n {
        s.to_string()
    } else {
        let mut k = n;
        while !s.is_char_boundary(k) {
            k -= 1;
        }
        format!("{}…", &s[..k])
    }
}

/// C02 "a completely fresh mount by this library": a new manager on the same medium lists and
/// reads what the reference tree holds.
fn remount_check(sess: &Session, sc: &Scenario, gs: &GState, rep: &mut Report, ops: &Vec<Op>, outcomes: &Vec<Outcome>, case_tag: &str) {
    let mut fresh = sess.remount();
    for (vi, v) in sc.vols.iter().enumerate() {
        if sc.limits.2 <= vi {
            // fewer volume slots than volumes: mount one at a time
        }
        let vo = fresh.exec(&Op::OpenVolume(v.slot));
        let vh = match vo.handle() {
            Some(h) => h,
            None => {
                rep.violation("impl-vs-spec", "remount-fails", &format!("fresh mount of volume {} failed: {}", v.slot, vo.res), J::obj(vec![("case", J::s(case_tag.to_string())), ("ops", J::Arr(ops.iter().zip(outcomes.iter()).map(|(o, r)| J::s(format!("{} => {}", o.show(), truncate(&r.res, 60)))).collect()))]));
                continue;
            }
        };
        let root = match fresh.exec(&Op::OpenRoot(vh)).handle() {
            Some(h) => h,
            None => continue,
        };
        // walk the reference tree (depth first, one directory handle at a time beyond the root)
        let mut stack: Vec<(Vec<Name>, u32, bool)> = vec![(vec![], root, false)];
        while let Some((path, dh, close)) = stack.pop() {
            let dir = match gs.trees[vi].dir_at(&path) {
                Some(d) => d,
                None => continue,
            };
            // listing contains exactly the reference names
            let lo = fresh.exec(&Op::List(dh));
            rep.oracle_checks += 1;
            let mut listed: Vec<String> = lo.res.strip_prefix("ok l ").unwrap_or("").split(';').filter(|s| !s.is_empty()).map(|e| e.split(':').next().unwrap_or("").to_string()).filter(|n| n != &hex(b".          ") && n != &hex(b"..         ")).collect();
            // volume labels are listed by iterate_dir but are not objects
            let labels: Vec<String> = lo.res.strip_prefix("ok l ").unwrap_or("").split(';').filter(|s| !s.is_empty()).filter(|e| e.split(':').nth(1).and_then(|a| a.parse::<u8>().ok()).map(|a| a & 0x08 != 0).unwrap_or(false)).map(|e| e.split(':').next().unwrap_or("").to_string()).collect();
            listed.retain(|n| !labels.contains(n));
            listed.sort();
            let mut want: Vec<String> = dir.children.keys().map(|n| hex(n)).collect();
            want.sort();
            if listed != want {
                rep.violation("impl-vs-spec", "remount-listing", &format!("after a fresh mount, directory {:?} lists {:?} but the history produced {:?}", hexpath(&path), listed, want),
                    J::obj(vec![("case", J::s(case_tag.to_string())), ("ops", J::Arr(ops.iter().zip(outcomes.iter()).map(|(o, r)| J::s(format!("{} => {}", o.show(), truncate(&r.res, 60)))).collect()))]));
            }
            for (name, node) in &dir.children {
                let nm: String = {
                    let base: String = name[..8].iter().filter(|b| **b != b' ').map(|b| *b as char).collect();
                    let ext: String = name[8..].iter().filter(|b| **b != b' ').map(|b| *b as char).collect();
                    if ext.is_empty() { base } else { format!("{base}.{ext}") }
                };
                match node {
                    RefNode::File(f) if !f.opaque => {
                        let fo = fresh.exec(&Op::OpenFile(dh, nm.clone(), Mode::ReadOnly));
                        if let Some(fh) = fo.handle() {
                            let ro = fresh.exec(&Op::Read(fh, f.data.len() + 16));
                            rep.oracle_checks += 1;
                            let want = format!("ok b {}", hex_or_dash(&f.data));
                            if ro.res != want {
                                rep.violation("impl-vs-spec", "remount-content", &format!("after a fresh mount, {} reads {} bytes differently from what was written ({} bytes)", nm, ro.res.len() / 2, f.data.len()),
                                    J::obj(vec![("case", J::s(case_tag.to_string())), ("file", J::s(nm.clone())), ("ops", J::Arr(ops.iter().zip(outcomes.iter()).map(|(o, r)| J::s(format!("{} => {}", o.show(), truncate(&r.res, 60)))).collect()))]));
                            }
                            fresh.exec(&Op::CloseFile(fh));
                        } else {
                            rep.violation("impl-vs-spec", "remount-open", &format!("after a fresh mount, {} cannot be opened: {}", nm, fo.res), J::obj(vec![("case", J::s(case_tag.to_string())), ("file", J::s(nm.clone()))]));
                        }
                    }
                    RefNode::Dir(_) => {
                        let d2 = fresh.exec(&Op::OpenDir(dh, nm.clone()));
                        if let Some(h2) = d2.handle() {
                            let mut p2 = path.clone();
                            p2.push(*name);
                            // process immediately to keep at most a few handles open
                            stack.push((p2, h2, true));
                        } else if d2.res != "err TooManyOpenDirs" {
                            rep.violation("impl-vs-spec", "remount-opendir", &format!("after a fresh mount, directory {} cannot be opened: {}", nm, d2.res), J::obj(vec![("case", J::s(case_tag.to_string()))]));
                        }
                    }
                    _ => {}
                }
            }
            if close {
                fresh.exec(&Op::CloseDir(dh));
            }
        }
        fresh.exec(&Op::CloseDir(root));
        fresh.exec(&Op::CloseVolume(vh));
    }
}

// ------------------------------------------------------------------------------------------------
// Property entry points
// ------------------------------------------------------------------------------------------------

fn budget(ctx: &Ctx, quick: usize, thorough: usize) -> usize {
    if ctx.thorough { thorough } else { quick }
}

fn finish(mut rep: Report, model: &Model, rule: &str) -> Report {
    rep.rule = rule.to_string();
    rep.model_requests = model.requests;
    rep.distinct_nontrivial = rep.cases;
    rep
}

/// The wrapper layer exercised once on a fresh medium, with nothing around it (run in a CHILD process: an
/// infinite recursion in the glue ends in a stack overflow, which aborts the process).
pub fn io_probe() {
    let mut rng = Rng::new(0x10);
    let sc = make_scenario(&mut rng, &ScOpts { fat32: Some(false), big_tree: false, limits: Some((4, 4, 1)), ..Default::default() });
    let mut sess = Session::new(sc.blocks.clone(), sc.limits, sc.id_offset);
    let v = sess.exec(&Op::OpenVolume(sc.vols[0].slot)).handle().expect("open_volume");
    let d = sess.exec(&Op::OpenRoot(v)).handle().expect("open_root");
    let f = sess.exec(&Op::OpenFile(d, "PROBE.BIN".into(), Mode::ReadWriteCreate)).handle().expect("create");
    let steps = [Op::IoWrite(f, vec![1, 2, 3, 4, 5]), Op::IoFlush(f), Op::IoSeekStart(f, 1), Op::IoRead(f, 3), Op::IoSeekEnd(f, -2), Op::IoSeekCur(f, 1), Op::WLength(f), Op::WOffset(f), Op::WEof(f), Op::IoWrite(f, vec![]), Op::IoRead(f, 0), Op::WCloseFile(f), Op::WChangeDir(d, ".".into())];
    let want = ["ok n 5", "ok", "ok n 1", "ok b 020304", "ok n 3", "ok n 4", "ok n 5", "ok n 4", "ok f", "ok n 0", "ok b -", "ok", ""];
    for (op, w) in steps.iter().zip(want.iter()) {
        let o = sess.exec(op);
        println!("ioprobe {} => {}", op.show(), o.res);
        if !w.is_empty() && o.res != *w {
            println!("ioprobe MISMATCH: `{}` answered `{}`, expected `{}`", op.show(), o.res, w);
            std::process::exit(3);
        }
    }
}

/// Runs `io_probe` in a child process and turns a crash or a wrong answer into a failing input; `false` = the
/// wrapper layer must not be used in-process.
fn io_probe_guard(rep: &mut Report) -> bool {
    rep.oracle_checks += 1;
    let exe = match std::env::current_exe() { Ok(e) => e, Err(_) => return false };
    match std::process::Command::new(exe).arg("ioprobe").output() {
        Ok(out) if out.status.success() => {
            rep.count("wrapper:io-probe-ok");
            true
        }
        Ok(out) => {
            let so = String::from_utf8_lossy(&out.stdout).to_string();
            let se = String::from_utf8_lossy(&out.stderr).to_string();
            let last = so.lines().last().unwrap_or("").to_string();
            let crashed = out.status.code().is_none() || se.contains("overflowed its stack");
            rep.violation("impl-vs-spec", if crashed { "io-glue-crash" } else { "io-glue-wrong-answer" },
                &format!("the embedded-io / RAII wrapper layer, exercised on a fresh file (write 5 bytes, flush, seek, read 3, …): {}; last completed step: `{}`", if crashed { format!("the process was killed ({})", truncate(se.trim(), 120)) } else { truncate(&last, 160) }, truncate(&last, 120)),
                J::obj(vec![("ops", J::Arr(so.lines().map(|l| J::s(l.to_string())).collect())), ("stderr", J::s(truncate(&se, 600)))]));
            false
        }
        Err(_) => false,
    }
}

/// Bounded-exhaustive part of the correspondence: EVERY sequence of `len` operations over a small alphabet
/// (create / reopen in several modes, short and cluster-crossing writes, seek, read, flush, close, delete,
/// mkdir, list, on two names in the root of a tiny volume with `free` free clusters) is run on the crate and
/// on the Lean model, with the byte-array oracle, fsck after every call and the leak / tree oracles at the end.
fn enumerate_histories(ctx: &Ctx, rep: &mut Report, model: &mut Model, prop: &str, fat32: bool, free: Option<u32>, len: usize, stride: usize, phase: usize) {
    let mut rng = Rng::new(0xE0E0 + fat32 as u64 * 7 + free.unwrap_or(99) as u64);
    let o = ScOpts { fat32: Some(fat32), keep_free: free.map(|f| vec![f]), big_tree: false, small_root: false, bpc_choices: vec![1], limits: Some((5, 2, 1)), dirty: true, ..Default::default() };
    let sc = make_scenario(&mut rng, &o);
    let cb = (sc.vols[0].layout.bpc * 512) as usize;
    let (v, d) = (sc.id_offset, sc.id_offset.wrapping_add(1));
    let big: Vec<u8> = (0..cb + 3).map(|i| (i * 13 + 5) as u8).collect();
    let alphabet: Vec<Op> = vec![
        Op::OpenFile(d, "A.TXT".into(), Mode::ReadWriteCreateOrTruncate),
        Op::OpenFile(d, "A.TXT".into(), Mode::ReadWriteCreateOrAppend),
        Op::OpenFile(d, "F0.DAT".into(), Mode::ReadWriteAppend),
        Op::OpenFile(d, "A.TXT".into(), Mode::ReadOnly),
        Op::Write(LAST_FILE, big.clone()),
        Op::Write(LAST_FILE, vec![0xA1, 0xA2, 0xA3]),
        Op::Write(PREV_FILE, vec![0xB1; 600]),
        Op::SeekStart(LAST_FILE, 1),
        Op::Read(LAST_FILE, cb + 9),
        Op::Flush(LAST_FILE),
        Op::CloseFile(LAST_FILE),
        Op::Delete(d, "A.TXT".into()),
        Op::Delete(d, "F0.DAT".into()),
        Op::Mkdir(d, "A.TXT".into()),
        Op::List(d),
    ];
    let n = alphabet.len();
    let total = n.pow(len as u32);
    let mut idx = phase % stride.max(1);
    let mut ran = 0u64;
    while idx < total {
        let mut script = vec![Op::OpenVolume(sc.vols[0].slot), Op::OpenRoot(v)];
        let mut x = idx;
        for _ in 0..len {
            script.push(alphabet[x % n].clone());
            x /= n;
        }
        let mut cfg = RunCfg::base(script.len(), Profile::general());
        cfg.script = Some(script);
        cfg.fsck_every_op = true;
        cfg.leak_at_quiescent = true;
        cfg.tree_at_quiescent = true;
        cfg.region_oracle = true;
        cfg.mirror_every_op = true;
        let mut r = Rng::new(idx as u64);
        run_case(&mut r, &sc, &cfg, model, rep, &format!("{prop}/enum/{}/{}/{idx}", if fat32 { 32 } else { 16 }, len));
        ran += 1;
        idx += stride.max(1);
    }
    rep.count_n("enum:histories", ran);
    rep.exhaustive_parts.push(format!("{} of the {} operation sequences of length {} over a {}-letter alphabet on a {} volume with {:?} free clusters (stride {})", ran, total, len, n, if fat32 { "FAT32" } else { "FAT16" }, free, stride));
    let _ = ctx;
}

/// Scripted histories on THREE volumes that are open at the same time (C03 / C07 / C08): records of different
/// volumes sit side by side in the tables, a volume in the middle of the table is closed (the table is reordered)
/// and the others are used afterwards, an open file of one volume is deleted / re-opened while files of the other
/// volumes are open (must be refused), everything is closed and the volumes are opened again.
fn multi_volume_scripts(ctx: &Ctx, rng: &mut Rng, model: &mut Model, rep: &mut Report, tag: &str, fsck: bool) {
    for k in 0..budget(ctx, 3, 12) {
        let mut sc = make_scenario(rng, &ScOpts { multi_volume: true, fat32: Some(k % 3 == 2), big_tree: true, bpc_choices: vec![1, 2], limits: Some(if k % 2 == 0 { (6, 7, 5) } else { (8, 8, 4) }), ..Default::default() });
        for _ in 0..8 {
            if sc.vols.len() == 3 {
                break;
            }
            sc = make_scenario(rng, &ScOpts { multi_volume: true, fat32: Some(k % 3 == 2), big_tree: true, bpc_choices: vec![1, 2], limits: Some(if k % 2 == 0 { (6, 7, 5) } else { (8, 8, 4) }), ..Default::default() });
        }
        if sc.vols.len() != 3 {
            continue;
        }
        let h = |i: u32| sc.id_offset.wrapping_add(i);
        let cb = (sc.vols[1].layout.bpc * 512) as usize;
        // the volume closed first: the first, the middle or the last record of the table
        let order: [usize; 3] = [[0, 1, 2], [1, 0, 2], [2, 0, 1]][k % 3];
        let (va, vb, vc) = (h(order[0] as u32), h(order[1] as u32), h(order[2] as u32));
        let (da, db, dc) = (h(3 + order[0] as u32), h(3 + order[1] as u32), h(3 + order[2] as u32));
        // files of different volumes side by side; the new, dirty file of b is the second or the first record
        let (fc, fb, fa) = if k % 2 == 0 { (h(6), h(7), h(8)) } else { (h(7), h(6), h(8)) };
        let open_c = Op::OpenFile(dc, "F0.DAT".into(), Mode::ReadOnly);
        let open_b = Op::OpenFile(db, "MV.BIN".into(), Mode::ReadWriteCreate);
        let script = vec![
            Op::OpenVolume(sc.vols[0].slot), Op::OpenVolume(sc.vols[1].slot), Op::OpenVolume(sc.vols[2].slot),
            Op::OpenRoot(h(0)), Op::OpenRoot(h(1)), Op::OpenRoot(h(2)),
            if k % 2 == 0 { open_c.clone() } else { open_b.clone() }, if k % 2 == 0 { open_b } else { open_c }, Op::OpenFile(da, "F2.DAT".into(), Mode::ReadOnly),
            Op::Write(fb, (0..cb + 300).map(|i| (i * 3 + k) as u8).collect()),
            // the open file of b: delete and every kind of re-open must be refused, whatever sits before it in the table
            Op::Delete(db, "MV.BIN".into()), Op::OpenFile(db, "MV.BIN".into(), Mode::ReadWriteTruncate), Op::OpenFile(db, "MV.BIN".into(), Mode::ReadOnly), Op::OpenFile(db, "mv.bin".into(), Mode::ReadWriteCreateOrAppend),
            Op::Delete(dc, "F0.DAT".into()), Op::Delete(da, "F2.DAT".into()),
            Op::Write(fb, vec![0x5A; 700]), Op::OpenFile(db, "MV2.BIN".into(), Mode::ReadWriteCreate), Op::Write(LAST_FILE, vec![0xC3; cb + 1]), Op::CloseFile(LAST_FILE),
            Op::Read(fc, 100), Op::Read(fa, 100), Op::HasOpen,
            // close volume a (first its file and directory); the table of volumes is reordered
            Op::CloseVolume(va), Op::CloseFile(fa), Op::CloseVolume(va), Op::CloseDir(da), Op::CloseVolume(va), Op::CloseVolume(va),
            // the other two are used afterwards, through every kind of handle
            Op::List(db), Op::List(dc), Op::Find(dc, "F0.DAT".into()), Op::Label(vb), Op::Label(vc), Op::Read(fc, 50), Op::SeekStart(fb, 10), Op::Read(fb, 20), Op::Length(fb),
            Op::OpenRoot(vb), Op::OpenRoot(vc), Op::CloseDir(LAST_DIR), Op::CloseDir(LAST_DIR),
            Op::Mkdir(dc, "MVDIR".into()), Op::OpenDir(dc, "MVDIR".into()), Op::CloseDir(LAST_DIR),
            Op::Flush(fb), Op::CloseFile(fb), Op::CloseFile(fc),
            // volume a again (a new handle), then b is closed from the middle / front
            Op::OpenVolume(sc.vols[order[0]].slot), Op::OpenVolume(sc.vols[order[1]].slot), Op::OpenRoot(LAST_VOL), Op::List(LAST_DIR), Op::OpenFile(LAST_DIR, "F1.DAT".into(), Mode::ReadOnly), Op::Read(LAST_FILE, 30), Op::CloseFile(LAST_FILE), Op::CloseDir(LAST_DIR),
            Op::CloseDir(db), Op::CloseVolume(vb), Op::List(dc), Op::Label(vc), Op::Label(LAST_VOL), Op::OpenRoot(LAST_VOL), Op::List(LAST_DIR), Op::CloseDir(LAST_DIR),
            Op::OpenFile(dc, "MV.BIN".into(), Mode::ReadOnly), Op::OpenFile(dc, "F0.DAT".into(), Mode::ReadWriteAppend), Op::Write(LAST_FILE, vec![1, 2, 3]), Op::CloseFile(LAST_FILE),
            Op::CloseDir(dc), Op::CloseVolume(vc), Op::CloseVolume(LAST_VOL), Op::HasOpen,
        ];
        let mut cfg = RunCfg::base(script.len(), Profile::general());
        cfg.script = Some(script);
        cfg.fsck_every_op = fsck;
        cfg.region_oracle = true;
        rep.count("scripted:three-volumes-open");
        run_case(rng, &sc, &cfg, model, rep, &format!("{tag}/mv{k}"));
    }
}

pub fn c01(ctx: &Ctx) -> Report {
    let mut rep = Report::new("C01");
    let wrap_ok = io_probe_guard(&mut rep);
    let mut model = Model::spawn(&ctx.model_path);
    let mut rng = Rng::new(ctx.seed ^ 0xC01);
    let n = budget(ctx, 60, 1500);
    for k in 0..n {
        let o = ScOpts { multi_volume: k % 4 == 3, fat32: if k % 3 == 0 { Some(true) } else { Some(false) }, keep_free: if k % 5 == 4 { Some(vec![3, 6, 40]) } else { None }, ..Default::default() };
        let sc = make_scenario(&mut rng, &o);
        let mut cfg = RunCfg::base(budget(ctx, 60, 90), Profile::rw());
        cfg.quiesce_every = 0;
        // every second history goes (for a third of its calls) through the RAII wrappers and the embedded-io traits
        cfg.profile.wrap = wrap_ok && k % 2 == 1;
        cfg.profile.all_volumes = o.multi_volume && k % 8 == 7;
        run_case(&mut rng, &sc, &cfg, &mut model, &mut rep, &format!("c01/{}/{k}", ctx.seed));
    }
    max_file_size_case(&mut rep, "C01");
    if ctx.thorough {
        enumerate_histories(ctx, &mut rep, &mut model, "c01", false, None, 3, 2, ctx.seed as usize);
        enumerate_histories(ctx, &mut rep, &mut model, "c01", true, Some(1), 4, 45, ctx.seed as usize);
    } else {
        enumerate_histories(ctx, &mut rep, &mut model, "c01", ctx.seed % 2 == 0, Some(1), 2, 1, 0);
    }
    finish(rep, &model, "histories of open/seek/read/write/flush/close over up to MAX_FILES files on 1-3 volumes (FAT16 and FAT32, 1-8 blocks per cluster, 1-2 FATs, several partition offsets), lengths and seek targets from {0,1,511,512,513,cluster-1,cluster,cluster+1,multi-cluster,random}; every read/length/offset/eof/seek result is compared with a byte-array model per file and the whole history is replayed on the Lean model; distinct = histories")
}

pub fn c02(ctx: &Ctx) -> Report {
    let mut rep = Report::new("C02");
    let mut model = Model::spawn(&ctx.model_path);
    let mut rng = Rng::new(ctx.seed ^ 0xC02);
    let n = budget(ctx, 40, 1200);
    for k in 0..n {
        let o = ScOpts { fat32: Some(k % 3 == 0), multi_volume: k % 7 == 6, full_dir: k % 4 == 1, dirty: k % 8 == 1 || k % 5 == 2, bpc_choices: vec![1, 1, 2, 4], ..Default::default() };
        let sc = make_scenario(&mut rng, &o);
        // alternate: namespace-heavy histories with frequent quiescent points, and data-heavy ones
        // (seeks back and forth, appends across cluster boundaries) with rarer ones
        let mut cfg = RunCfg::base(budget(ctx, 45, 70), if k % 2 == 0 { Profile::namespace() } else { Profile::rw() });
        if k % 2 == 0 {
            cfg.profile.w_write = 10;
        }
        cfg.quiesce_every = if k % 2 == 0 { 15 } else { 30 };
        cfg.tree_at_quiescent = true;
        cfg.remount_at_quiescent = true;
        run_case(&mut rng, &sc, &cfg, &mut model, &mut rep, &format!("c02/{}/{k}", ctx.seed));
    }
    // a directory that grows by a cluster whose previous contents look like directory entries, and is then
    // filled past the first block of the new cluster: a fresh mount must show exactly the files created
    for k in 0..budget(ctx, 2, 10) {
        let o = ScOpts { fat32: Some(k % 2 == 1), bpc_choices: vec![2, 4], big_tree: false, full_dir: true, dirty: true, limits: Some((4, 4, 1)), ..Default::default() };
        let sc = make_scenario(&mut rng, &o);
        let (v, d) = (sc.id_offset, sc.id_offset.wrapping_add(1));
        let sub = sc.id_offset.wrapping_add(2);
        let mut script = vec![Op::OpenVolume(sc.vols[0].slot), Op::OpenRoot(v), Op::OpenDir(d, "FULLDIR".into())];
        for i in 0..20 {
            script.push(Op::OpenFile(sub, format!("N{i:03}.TXT"), Mode::ReadWriteCreate));
            if i % 5 == 0 {
                script.push(Op::Write(LAST_FILE, vec![i as u8; 40 + i]));
            }
            script.push(Op::CloseFile(LAST_FILE));
        }
        script.push(Op::List(sub));
        let mut cfg = RunCfg::base(script.len(), Profile::namespace());
        cfg.script = Some(script);
        cfg.tree_at_quiescent = true;
        cfg.remount_at_quiescent = true;
        rep.count("directory-grown-into-stale-cluster");
        run_case(&mut rng, &sc, &cfg, &mut model, &mut rep, &format!("c02/{}/grow{k}", ctx.seed));
    }
    // appending to files whose length is an exact multiple of the cluster size (the chain has to be extended from its
    // last cluster while the handle's cluster cursor is on an earlier one): re-open in append mode, and seek back /
    // read / seek to the end within one handle; remount and compare
    for k in 0..budget(ctx, 3, 12) {
        let o = ScOpts { fat32: Some(k % 3 == 2), bpc_choices: vec![1, 2, 4], big_tree: k % 2 == 0, limits: Some((4, 4, 1)), dirty: k % 2 == 1, ..Default::default() };
        let sc = make_scenario(&mut rng, &o);
        let (v, d) = (sc.id_offset, sc.id_offset.wrapping_add(1));
        let cb = (sc.vols[0].layout.bpc * 512) as usize;
        let pat = |n: usize, t: usize| -> Vec<u8> { (0..n).map(|i| (i * 5 + t + (i >> 9)) as u8).collect() };
        let script = vec![
            Op::OpenVolume(sc.vols[0].slot), Op::OpenRoot(v),
            Op::OpenFile(d, "AP.BIN".into(), Mode::ReadWriteCreate), Op::Write(LAST_FILE, pat(2 * cb, k)), Op::CloseFile(LAST_FILE),
            Op::OpenFile(d, "AP.BIN".into(), Mode::ReadWriteAppend), Op::Write(LAST_FILE, pat(100, 7)), Op::CloseFile(LAST_FILE),
            Op::OpenFile(d, "AP2.BIN".into(), Mode::ReadWriteCreate), Op::Write(LAST_FILE, pat(3 * cb, 9)), Op::SeekStart(LAST_FILE, 5), Op::Read(LAST_FILE, 10), Op::SeekEnd(LAST_FILE, 0), Op::Write(LAST_FILE, pat(cb + 3, 11)),
            Op::SeekStart(LAST_FILE, (cb + 1) as u32), Op::Read(LAST_FILE, 4), Op::SeekEnd(LAST_FILE, 0), Op::Write(LAST_FILE, pat(2 * cb - 3, 13)), Op::Flush(LAST_FILE), Op::CloseFile(LAST_FILE),
            Op::OpenFile(d, "AP2.BIN".into(), Mode::ReadWriteCreateOrAppend), Op::Write(LAST_FILE, pat(cb, 15)), Op::CloseFile(LAST_FILE),
            Op::OpenFile(d, "AP.BIN".into(), Mode::ReadOnly), Op::Read(LAST_FILE, 3 * cb), Op::CloseFile(LAST_FILE), Op::List(d),
        ];
        let mut cfg = RunCfg::base(script.len(), Profile::rw());
        cfg.script = Some(script);
        cfg.tree_at_quiescent = true;
        cfg.remount_at_quiescent = true;
        rep.count("scripted:append-at-cluster-multiple");
        run_case(&mut rng, &sc, &cfg, &mut model, &mut rep, &format!("c02/{}/append{k}", ctx.seed));
    }
    kf_e5_name(&mut rep, &mut rng, &mut model);
    finish(rep, &model, "histories of create/write/truncate/append/delete/mkdir over pre-populated trees (nested directories, long-name entries, deleted slots, fragmented chains); every 15 operations and at the end all files are closed, the medium is dumped by the independent Lean FAT reader and compared entry for entry (names, attributes, sizes, raw creation and write stamps, content digests) with the reference tree, and a fresh VolumeManager lists and reads everything back; distinct = histories")
}

pub fn c03(ctx: &Ctx) -> Report {
    let mut rep = Report::new("C03");
    let mut model = Model::spawn(&ctx.model_path);
    let mut rng = Rng::new(ctx.seed ^ 0xC03);
    let n = budget(ctx, 40, 1200);
    for k in 0..n {
        // every fifth history works on two or three volumes at once (all opened first, files of different volumes side
        // by side in the tables)
        let o = ScOpts { fat32: Some(k % 4 == 0), multi_volume: k % 5 == 3, keep_free: if k % 2 == 0 { Some(vec![0, 1, 2, 5]) } else { None }, small_root: k % 3 == 1, big_tree: k % 3 != 1, full_dir: k % 3 == 2, dirty: k % 2 == 1 || k % 6 == 2, stale_info: k % 8 == 4, hint_in_use: k % 16 == 8, bpc_choices: vec![1, 1, 2, 4], ..Default::default() };
        let sc = make_scenario(&mut rng, &o);
        let mut cfg = RunCfg::base(budget(ctx, 40, 60), if k % 2 == 0 { Profile::space() } else { Profile::namespace() });
        cfg.profile.all_volumes = o.multi_volume;
        cfg.fsck_every_op = true;
        run_case(&mut rng, &sc, &cfg, &mut model, &mut rep, &format!("c03/{}/{k}", ctx.seed));
    }
    multi_volume_scripts(ctx, &mut rng, &mut model, &mut rep, &format!("c03/{}", ctx.seed), true);
    if ctx.thorough {
        enumerate_histories(ctx, &mut rep, &mut model, "c03", false, Some(2), 3, 1, 0);
        enumerate_histories(ctx, &mut rep, &mut model, "c03", true, None, 3, 3, ctx.seed as usize);
        enumerate_histories(ctx, &mut rep, &mut model, "c03", false, Some(1), 4, 40, ctx.seed as usize);
    } else {
        enumerate_histories(ctx, &mut rep, &mut model, "c03", false, None, 2, 1, 0);
        enumerate_histories(ctx, &mut rep, &mut model, "c03", true, Some(2), 3, 15, ctx.seed as usize);
    }
    finish(rep, &model, "bounded-exhaustive: every sequence of 2 (thorough: 3 on FAT16, every 3rd of length 3 on FAT32 and every 40th of length 4) operations over a 15-letter alphabet (create / reopen / write short and cluster-crossing / seek / read / flush / close / delete / mkdir / list on two names) on tiny FAT16 and FAT32 volumes; then histories including failing calls (disk full, name clashes, limit errors, bad handles and names) on volumes with 0,1,2,5 free clusters, small FAT16 roots, FAT32; after every single call the Lean fsck (chains in range / acyclic / terminated / unshared / long enough, unique names, dot entries, nothing after the end marker, with the pending state of open files) runs on the implementation's medium; distinct = histories")
}

pub fn c04(ctx: &Ctx) -> Report {
    let mut rep = Report::new("C04");
    let mut model = Model::spawn(&ctx.model_path);
    let mut rng = Rng::new(ctx.seed ^ 0xC04);
    let n = budget(ctx, 50, 1500);
    let only_k: Option<usize> = std::env::var("VERIF_ONLY_K").ok().and_then(|x| x.parse().ok());
    for k in 0..n {
        if only_k.map(|m| k > m).unwrap_or(false) {
            break;
        }
        let o = ScOpts { fat32: Some(k % 3 == 0), multi_volume: k % 2 == 0, keep_free: if k % 3 == 1 { Some(vec![0, 1, 3]) } else { None }, ..Default::default() };
        let sc = make_scenario(&mut rng, &o);
        let mut cfg = RunCfg::base(budget(ctx, 50, 70), if k % 2 == 0 { Profile::general() } else { Profile::space() });
        cfg.region_oracle = true;
        cfg.profile.all_volumes = o.multi_volume && k % 4 == 0;
        let base = run_case(&mut rng, &sc, &cfg, &mut model, &mut rep, &format!("c04/{}/{k}", ctx.seed));
        // the same history with a device failure at a few call indices: what is written after a failed call must
        // still be inside the frame (a block must never be rewritten from a buffer a failed read left behind)
        if k % 3 == 2 && base.clean {
            for m in 0..budget(ctx, 6, 20) {
                let mut cfg2 = cfg.clone();
                cfg2.script = Some(base.ops.clone());
                cfg2.compare_reads = true;
                let i = rng.below(base.ops.len() as u64) as usize;
                if base.device_calls[i] == 0 {
                    continue;
                }
                cfg2.faults = vec![(i, rng.below(base.device_calls[i]))];
                let mut r2 = Rng::new(3);
                run_case(&mut r2, &sc, &cfg2, &mut model, &mut rep, &format!("c04/{}/{k}/fault{m}", ctx.seed));
            }
        }
    }
    finish(rep, &model, "every block write of every call in generated histories on single- and multi-partition devices (other partitions hold live volumes), full and nearly full volumes, FATs with slack entries: block index inside the partition and inside FAT / root / data / info regions, never MBR, boot sector, reserved area, other volume or beyond the last cluster; changed bytes within the written data / one directory slot / in-range FAT entries (FAT32 top nibble kept) / info bytes 488..495; distinct = histories")
}

pub fn c05(ctx: &Ctx) -> Report {
    let mut rep = Report::new("C05");
    let mut model = Model::spawn(&ctx.model_path);
    let mut rng = Rng::new(ctx.seed ^ 0xC05);
    let n = budget(ctx, 40, 1000);
    for k in 0..n {
        let o = ScOpts { fat32: Some(k % 4 == 0), keep_free: Some(vec![0, 1, 2, 3, 7, 20]), big_tree: k % 2 == 0, full_dir: k % 5 == 3, bpc_choices: vec![1, 1, 2, 4], ..Default::default() };
        let sc = make_scenario(&mut rng, &o);
        let mut cfg = RunCfg::base(budget(ctx, 50, 80), Profile::space());
        cfg.quiesce_every = 12;
        cfg.leak_at_quiescent = true;
        run_case(&mut rng, &sc, &cfg, &mut model, &mut rep, &format!("c05/{}/{k}", ctx.seed));
    }
    max_file_size_case(&mut rep, "C05");
    if ctx.thorough {
        enumerate_histories(ctx, &mut rep, &mut model, "c05", false, Some(1), 3, 2, ctx.seed as usize);
        enumerate_histories(ctx, &mut rep, &mut model, "c05", true, Some(2), 4, 45, ctx.seed as usize);
    } else {
        enumerate_histories(ctx, &mut rep, &mut model, "c05", ctx.seed % 2 == 1, Some(1), 3, 11, ctx.seed as usize);
    }
    finish(rep, &model, "histories mixing create, extend, truncate, delete and mkdir on volumes with 0..20 free clusters (driven to exactly full and back), cluster counts with and without FAT slack; at every quiescent point the Lean spec compares the set of clusters marked in use with the union of all chains (no leak, nothing invented), a refused write requires zero free clusters and a cluster-aligned offset, everything written reads back; distinct = histories")
}

pub fn c06(ctx: &Ctx) -> Report {
    let mut rep = Report::new("C06");
    let mut model = Model::spawn(&ctx.model_path);
    let mut rng = Rng::new(ctx.seed ^ 0xC06);
    let n = budget(ctx, 50, 1500);
    for k in 0..n {
        let o = ScOpts { fat32: Some(k % 2 == 0), small_root: k % 4 == 1, full_dir: k % 3 == 0, dirty: k % 3 == 0 && k % 2 == 1, stale_info: k % 4 == 2, bpc_choices: vec![1, 1, 2, 4], ..Default::default() };
        let sc = make_scenario(&mut rng, &o);
        let mut cfg = RunCfg::base(budget(ctx, 40, 60), Profile::namespace());
        cfg.profile.w_list = 14;
        cfg.profile.w_find = 12;
        cfg.profile.w_open_dir = 10;
        cfg.quiesce_every = 20;
        cfg.tree_at_quiescent = true;
        run_case(&mut rng, &sc, &cfg, &mut model, &mut rep, &format!("c06/{}/{k}", ctx.seed));
    }
    // a sub-directory whose start cluster has a zero LOW word (cluster 0x10000 on a FAT32 volume with more than
    // 65536 clusters: the FSInfo hint steers the next allocation there): listing, lookup, open_dir and a create
    // inside must treat it as the directory the entry designates (the full 28-bit cluster number counts)
    for k in 0..budget(ctx, 2, 12) {
        let o = ScOpts { fat32: Some(true), bpc_choices: vec![1, 2], big_tree: k % 2 == 0, limits: Some((4, 4, 1)), ..Default::default() };
        let mut sc = make_scenario(&mut rng, &o);
        let l = sc.vols[0].layout.clone();
        if l.clusters + 2 <= 0x1_0000 || mkfs::fat_get(&sc.blocks, &l, 0x1_0000) != 0 {
            continue;
        }
        let mut info = sc.blocks.get(&l.info_block).copied().unwrap_or([0u8; 512]);
        info[492..496].copy_from_slice(&0x1_0000u32.to_le_bytes());
        sc.blocks.insert(l.info_block, info);
        let (v, d) = (sc.id_offset, sc.id_offset.wrapping_add(1));
        let sub = sc.id_offset.wrapping_add(2);
        let mut cfg = RunCfg::base(0, Profile::namespace());
        cfg.script = Some(vec![Op::OpenVolume(sc.vols[0].slot), Op::OpenRoot(v), Op::Mkdir(d, "HIGH".into()), Op::List(d), Op::Find(d, "HIGH".into()), Op::OpenDir(d, "HIGH".into()),
            Op::List(sub), Op::OpenFile(sub, "IN.TXT".into(), Mode::ReadWriteCreate), Op::Write(LAST_FILE, vec![7u8; 700]), Op::CloseFile(LAST_FILE), Op::List(sub), Op::List(d),
            Op::Find(sub, "IN.TXT".into()), Op::OpenDir(sub, "..".into()), Op::CloseDir(sub)]);
        cfg.nops = 15;
        cfg.tree_at_quiescent = true;
        cfg.fsck_every_op = true;
        rep.count("dir-at-cluster-0x10000");
        run_case(&mut rng, &sc, &cfg, &mut model, &mut rep, &format!("c06/{}/high{k}", ctx.seed));
    }
    kf_e5_name(&mut rep, &mut rng, &mut model);
    kf_lookup_past_end(&mut rep, &mut rng);
    // the name of a volume-label entry in the root (a slot with attribute 0x08 is an entry like any other for lookup,
    // create, mkdir and delete: what a listing shows must be what a lookup finds)
    {
        let mut r2 = Rng::new(ctx.seed ^ 0xC06_1ABE1);
        let mut done = 0;
        for k in 0..40 {
            if done >= budget(ctx, 3, 12) {
                break;
            }
            let sc = make_scenario(&mut r2, &ScOpts { fat32: Some(k % 2 == 0), big_tree: k % 3 != 0, limits: Some((4, 4, 1)), ..Default::default() });
            // the label entry as the crate's own listing shows it
            let label: [u8; 11] = {
                let mut probe = Session::new(sc.blocks.clone(), sc.limits, sc.id_offset);
                probe.exec(&Op::OpenVolume(sc.vols[0].slot));
                probe.exec(&Op::OpenRoot(sc.id_offset));
                let lo = probe.exec(&Op::List(sc.id_offset.wrapping_add(1)));
                let found = lo.res.strip_prefix("ok l ").unwrap_or("").split(';').filter(|e| !e.is_empty()).find(|e| e.split(':').nth(1).and_then(|a| a.parse::<u8>().ok()).map(|a| a & 0x08 != 0 && a & 0x0F != 0x0F).unwrap_or(false)).map(|e| e.split(':').next().unwrap_or("").to_string());
                match found.map(|h| unhex(&h)) {
                    Some(b) if b.len() == 11 => { let mut n = [0u8; 11]; n.copy_from_slice(&b); n }
                    _ => continue,
                }
            };
            done += 1;
            let base: String = label[..8].iter().filter(|b| **b != b' ').map(|b| *b as char).collect();
            let ext: String = label[8..].iter().filter(|b| **b != b' ').map(|b| *b as char).collect();
            if label[..8].iter().skip_while(|b| **b != b' ').any(|b| *b != b' ') {
                // a space inside the base name cannot be written as an 8.3 string
                continue;
            }
            let name = if ext.is_empty() { base } else { format!("{base}.{ext}") };
            let (v, d) = (sc.id_offset, sc.id_offset.wrapping_add(1));
            let script = vec![Op::OpenVolume(sc.vols[0].slot), Op::OpenRoot(v), Op::List(d), Op::Find(d, name.clone()), Op::OpenDir(d, name.clone()), Op::OpenFile(d, name.clone(), Mode::ReadWriteCreate),
                Op::Mkdir(d, name.clone()), Op::OpenFile(d, name.clone(), Mode::ReadWriteCreateOrAppend), Op::List(d), Op::Find(d, name.to_lowercase()), Op::Delete(d, name.clone()), Op::List(d), Op::Find(d, name.clone()), Op::Label(v)];
            let mut cfg = RunCfg::base(script.len(), Profile::namespace());
            cfg.script = Some(script);
            cfg.fsck_every_op = true;
            rep.count("scripted:label-entry-name");
            let res = run_case(&mut r2, &sc, &cfg, &mut model, &mut rep, &format!("c06/{}/label{k}", ctx.seed));
            // model-independent: the name is in the listing (that is where it was taken from), so the lookup finds it,
            // a create / mkdir of it is refused, and the listing never shows it twice
            rep.oracle_checks += 3;
            let hexname = hex(&label);
            let count_in = |o: &Outcome| o.res.strip_prefix("ok l ").unwrap_or("").split(';').filter(|e| e.split(':').next() == Some(hexname.as_str())).count();
            if res.outcomes.len() >= 9 {
                if !res.outcomes[3].res.starts_with("ok e") {
                    rep.violation("impl-vs-spec", "listed-name-not-found", &format!("the root listing shows the entry {} (attribute 0x08) but `find {}` answered `{}`", hexname, name, truncate(&res.outcomes[3].res, 60)),
                        J::obj(vec![("case", J::s(format!("c06/{}/label{k}", ctx.seed))), ("scenario", J::s(sc.desc.clone())), ("ops", J::Arr(res.ops.iter().zip(res.outcomes.iter()).map(|(o, r)| J::s(format!("{}  =>  {}", o.show(), truncate(&r.res, 120)))).collect()))]));
                }
                if res.outcomes[5].is_ok() || res.outcomes[6].is_ok() || count_in(&res.outcomes[8]) > 1 {
                    rep.violation("impl-vs-spec", "duplicate-of-listed-name", &format!("the root listing shows the entry {} but create / mkdir of that name answered `{}` / `{}`; the listing afterwards shows it {} times", hexname, truncate(&res.outcomes[5].res, 40), truncate(&res.outcomes[6].res, 40), count_in(&res.outcomes[8])),
                        J::obj(vec![("case", J::s(format!("c06/{}/label{k}", ctx.seed))), ("scenario", J::s(sc.desc.clone())), ("ops", J::Arr(res.ops.iter().zip(res.outcomes.iter()).map(|(o, r)| J::s(format!("{}  =>  {}", o.show(), truncate(&r.res, 120)))).collect()))]));
                }
            }
        }
    }
    finish(rep, &model, "directories built by the independent formatter (live / deleted / long-name / label slots, 1-3 clusters with fragmented chains, FAT16 roots of 16..512 entries, FAT32 roots at clusters 2,5,9) before and after histories of create/delete/mkdir; every listing (with and without long names), lookup and open_dir result is compared with the Lean model, and the independent Lean reader's view of the medium with the reference tree; distinct = histories")
}

pub fn c07(ctx: &Ctx) -> Report {
    let mut rep = Report::new("C07");
    let mut model = Model::spawn(&ctx.model_path);
    let mut rng = Rng::new(ctx.seed ^ 0xC07);
    let n = budget(ctx, 50, 1500);
    for k in 0..n {
        let o = ScOpts { fat32: Some(k % 2 == 0), multi_volume: k % 4 == 1, ..Default::default() };
        let sc = make_scenario(&mut rng, &o);
        let mut cfg = RunCfg::base(budget(ctx, 50, 70), Profile::general());
        cfg.profile.all_volumes = o.multi_volume;
        cfg.profile.w_open_file = 30;
        cfg.profile.w_delete = 10;
        cfg.profile.w_mkdir = 8;
        cfg.profile.w_bad = 8;
        cfg.region_oracle = true;
        run_case(&mut rng, &sc, &cfg, &mut model, &mut rep, &format!("c07/{}/{k}", ctx.seed));
    }
    multi_volume_scripts(ctx, &mut rng, &mut model, &mut rep, &format!("c07/{}", ctx.seed), false);
    finish(rep, &model, "the six open modes x {missing, existing file, read-only file (F1.DAT carries the attribute), directory, already-open file} x valid and invalid 8.3 names at random points of random histories, writes through read-only handles, delete/mkdir guards; results compared with the Lean model (whose decision logic the theorems characterise), refused calls must issue no device write; distinct = histories")
}

pub fn c08(ctx: &Ctx) -> Report {
    let mut rep = Report::new("C08");
    let wrap_ok = io_probe_guard(&mut rep);
    let mut model = Model::spawn(&ctx.model_path);
    let mut rng = Rng::new(ctx.seed ^ 0xC08);
    let n = budget(ctx, 84, 2800);
    for k in 0..n {
        let o = ScOpts { fat32: Some(k % 5 == 0), multi_volume: k % 2 == 0, limits: Some(LIMITS[k % LIMITS.len()]), big_tree: true, ..Default::default() };
        let sc = make_scenario(&mut rng, &o);
        let mut cfg = RunCfg::base(budget(ctx, 60, 120), Profile::handles());
        // every third history closes / drops / changes directory through the RAII wrappers
        cfg.profile.wrap = wrap_ok && k % 3 == 2;
        // every fourth history opens all its volumes first and keeps working on all of them (closing one in the
        // middle of the table reorders it)
        cfg.profile.all_volumes = o.multi_volume && k % 4 == 0;
        run_case(&mut rng, &sc, &cfg, &mut model, &mut rep, &format!("c08/{}/{k}", ctx.seed));
        reenter_case(&mut rng, &sc, &mut model, &mut rep, &format!("c08r/{}/{k}", ctx.seed));
    }
    multi_volume_scripts(ctx, &mut rng, &mut model, &mut rep, &format!("c08/{}", ctx.seed), false);
    kf_open_root_stale(&mut rep, &mut rng);
    finish(rep, &model, "open/close histories over 14 limit configurations covering every value 1..8 for volumes, directories and files, with stale and never-issued handles passed to every call, id offsets near the u32 wrap; every handle value, error variant and has_open_handles answer compared with the Lean model; every public Result-returning method invoked from inside iterate_dir and iterate_dir_lfn callbacks must answer LockError and write nothing; distinct = histories")
}

/// C08: every public `Result`-returning method called from inside a directory-iteration callback.
fn reenter_case(rng: &mut Rng, sc: &Scenario, model: &mut Model, rep: &mut Report, tag: &str) {
    let mut sess = Session::new(sc.blocks.clone(), sc.limits, sc.id_offset);
    let mut lines: Vec<String> = load_image_lines(&sc.blocks);
    lines.push(format!("mgr {} {} {} {}", sc.limits.0, sc.limits.1, sc.limits.2, sc.id_offset));
    let mut expect: Vec<Option<String>> = vec![None; lines.len()];
    let mut run = |sess: &mut Session, op: Op, lines: &mut Vec<String>, expect: &mut Vec<Option<String>>| -> Outcome {
        let o = sess.exec(&op);
        lines.push(op.line());
        expect.push(Some(o.line(false)));
        o
    };
    let v = match run(&mut sess, Op::OpenVolume(sc.vols[0].slot), &mut lines, &mut expect).handle() { Some(h) => h, None => return };
    let d = match run(&mut sess, Op::OpenRoot(v), &mut lines, &mut expect).handle() { Some(h) => h, None => return };
    let f = if sc.limits.1 >= 1 { run(&mut sess, Op::OpenFile(d, "F0.DAT".into(), Mode::ReadOnly), &mut lines, &mut expect).handle() } else { None };
    let fh = f.unwrap_or(77);
    let probes: Vec<Op> = vec![
        Op::OpenVolume(1), Op::CloseVolume(v), Op::OpenRoot(v), Op::OpenDir(d, "SUB".into()), Op::CloseDir(d), Op::Find(d, "F0.DAT".into()),
        Op::List(d), Op::ListLfn(d, 64), Op::OpenFile(d, "NEW.DAT".into(), Mode::ReadWriteCreate), Op::Delete(d, "F2.DAT".into()), Op::Label(v),
        Op::Read(fh, 10), Op::Write(fh, vec![1, 2, 3]), Op::CloseFile(fh), Op::Flush(fh), Op::Eof(fh), Op::SeekStart(fh, 0), Op::SeekCur(fh, 1), Op::SeekEnd(fh, 0),
        Op::Length(fh), Op::Offset(fh), Op::Mkdir(d, "DIRX".into()),
        // degenerate arguments take no short-cut around the lock: zero-length transfers, the empty name
        Op::Read(fh, 0), Op::Write(fh, vec![]), Op::Find(d, "".into()), Op::OpenDir(d, ".".into()),
    ];
    let lfn = rng.chance(1, 2);
    let _ = sess.disk.take_logs();
    let results = sess.vm.reenter(d, lfn, &probes);
    let (w, _) = sess.disk.take_logs();
    rep.cases += 1;
    rep.count("reenter:callback-run");
    rep.oracle_checks += results.len() as u64;
    if !w.is_empty() {
        rep.violation("impl-vs-spec", "reentrant-call-wrote", &format!("{} device writes happened during re-entrant calls", w.len()), J::obj(vec![("case", J::s(tag.to_string()))]));
    }
    lines.push("lock 1".into());
    expect.push(None);
    for (p, r) in probes.iter().zip(results.iter()) {
        if r != "err LockError" {
            rep.violation("impl-vs-spec", &format!("reentrant-not-lockerror:{}", p.kind()), &format!("`{}` called from inside a directory-iteration callback returned `{}`", p.show(), truncate(r, 80)), J::obj(vec![("case", J::s(tag.to_string())), ("probe", J::s(p.show())), ("scenario", J::s(sc.desc.clone()))]));
        }
        lines.push(p.line());
        expect.push(Some(format!("{}|W:", r)));
    }
    lines.push("lock 0".into());
    expect.push(None);
    // afterwards everything still works
    let o = run(&mut sess, Op::List(d), &mut lines, &mut expect);
    if !o.is_ok() {
        rep.violation("impl-vs-spec", "list-after-reentrancy", &format!("listing after the re-entrant calls: {}", o.res), J::obj(vec![("case", J::s(tag.to_string()))]));
    }
    let resp = model.batch(&lines);
    for ((l, e), g) in lines.iter().zip(expect.iter()).zip(resp.iter()) {
        if let Some(e) = e {
            if &strip_reads(g) != e {
                rep.violation("model-vs-impl", "correspondence:C08:reenter", &format!("`{}`: implementation `{}`, model `{}`", truncate(l, 80), truncate(e, 200), truncate(g, 200)), J::obj(vec![("case", J::s(tag.to_string())), ("request", J::s(truncate(l, 300)))]));
                break;
            }
        }
    }
}

pub fn c09(ctx: &Ctx) -> Report {
    let mut rep = Report::new("C09");
    let mut model = Model::spawn(&ctx.model_path);
    let mut rng = Rng::new(ctx.seed ^ 0xC09);
    let n = budget(ctx, 30, 1000);
    for k in 0..n {
        let o = ScOpts { fat32: Some(k % 3 == 0), dirty: k % 2 == 0, keep_free: if k % 4 == 0 { Some(vec![2, 5, 30]) } else { None }, small_root: k % 5 == 1, bpc_choices: vec![1, 2, 4], full_dir: k % 2 == 1, stale_info: k % 6 == 3, hint_in_use: k % 12 == 9 || k % 12 == 0, ..Default::default() };
        let sc = make_scenario(&mut rng, &o);
        let mut cfg = RunCfg::base(budget(ctx, 40, 60), Profile::namespace());
        cfg.profile.w_flush = 10;
        cfg.profile.w_write = 10;
        cfg.flushed_survives = true;
        run_case(&mut rng, &sc, &cfg, &mut model, &mut rep, &format!("c09/{}/{k}", ctx.seed));
    }
    // FAT32 volumes with more than 65536 clusters: the FSInfo hint steers the next allocation to cluster 0x10000 + c,
    // where c is the first cluster of a file that is on the medium; a directory made there, then files created in
    // it - the flushed files must survive every write of that (the full 28-bit cluster number has to reach the entry)
    for k in 0..budget(ctx, 3, 12) {
        let o = ScOpts { fat32: Some(true), bpc_choices: vec![1, 2], big_tree: k % 2 == 1, limits: Some((4, 4, 1)), ..Default::default() };
        let mut sc = make_scenario(&mut rng, &o);
        let l = sc.vols[0].layout.clone();
        let victims: Vec<([u8; 11], u32)> = mkfs::spec_list_dir(&sc.blocks, &l, &[]).unwrap_or_default().iter().filter(|e| e.1 & 0x18 == 0 && e.3 >= 64 && e.2 >= 2).map(|e| (e.0, e.2)).filter(|(_, c)| 0x1_0000 + c < l.clusters + 2 && mkfs::fat_get(&sc.blocks, &l, 0x1_0000 + c) == 0).collect();
        if victims.is_empty() {
            rep.count("high-cluster-directory:no-candidate");
            continue;
        }
        let (vname, c) = victims[k % victims.len()];
        // the file's bytes 32..64 are zero (a run of zeros is ordinary file content; read as a directory slot it is a
        // free slot): image and reference tree alike
        {
            let b0 = mkfs::cluster_to_block(&l, c);
            let mut blk = sc.blocks.get(&b0).copied().unwrap_or([0u8; 512]);
            for x in blk[32..64].iter_mut() {
                *x = 0;
            }
            sc.blocks.insert(b0, blk);
            if let Some(RefNode::File(f)) = sc.vols[0].tree.children.get_mut(&vname) {
                for x in f.data[32..64].iter_mut() {
                    *x = 0;
                }
            }
        }
        let mut info = sc.blocks.get(&l.info_block).copied().unwrap_or([0u8; 512]);
        info[492..496].copy_from_slice(&(0x1_0000u32 + c).to_le_bytes());
        sc.blocks.insert(l.info_block, info);
        let (v, d) = (sc.id_offset, sc.id_offset.wrapping_add(1));
        let sub = sc.id_offset.wrapping_add(2);
        let mut cfg = RunCfg::base(0, Profile::namespace());
        let script = vec![Op::OpenVolume(sc.vols[0].slot), Op::OpenRoot(v), Op::Mkdir(d, "HI9".into()), Op::OpenDir(d, "HI9".into()),
            Op::OpenFile(sub, "IN.TXT".into(), Mode::ReadWriteCreate), Op::Write(LAST_FILE, vec![9u8; 700]), Op::CloseFile(LAST_FILE),
            Op::OpenFile(sub, "IN2.TXT".into(), Mode::ReadWriteCreate), Op::CloseFile(LAST_FILE), Op::Mkdir(sub, "DEEPER".into()), Op::List(sub), Op::Delete(sub, "IN2.TXT".into()), Op::CloseDir(sub), Op::List(d)];
        cfg.nops = script.len();
        cfg.script = Some(script);
        cfg.flushed_survives = true;
        rep.count("high-cluster-directory");
        run_case(&mut rng, &sc, &cfg, &mut model, &mut rep, &format!("c09/{}/high{k}", ctx.seed));
    }
    finish(rep, &model, "after every successful flush the file (path, length, digest) is recorded; for every later operation on other files, directories or the volume, after EVERY prefix of that operation's block writes the independent Lean reader must still find the file with at least the flushed length and exactly the flushed bytes (until the file itself is written, truncated or deleted); distinct = histories")
}

pub fn c10(ctx: &Ctx) -> Report {
    let mut rep = Report::new("C10");
    let mut model = Model::spawn(&ctx.model_path);
    let mut rng = Rng::new(ctx.seed ^ 0xC10);
    let n = budget(ctx, 30, 1000);
    for k in 0..n {
        let o = ScOpts { fat32: Some(k % 3 == 0), dirty: true, keep_free: if k % 3 == 1 { Some(vec![1, 2, 4, 9]) } else { None }, small_root: k % 4 == 1, bpc_choices: vec![1, 2, 4], big_tree: k % 2 == 0, full_dir: k % 3 == 2, ..Default::default() };
        let sc = make_scenario(&mut rng, &o);
        let mut cfg = RunCfg::base(budget(ctx, 35, 50), if k % 2 == 0 { Profile::namespace() } else { Profile::space() });
        cfg.crash_prefixes = true;
        run_case(&mut rng, &sc, &cfg, &mut model, &mut rep, &format!("c10/{}/{k}", ctx.seed));
    }
    // a fixed gallery of the mutating operations in their less usual forms (zero-length writes on a truncated file,
    // truncation closed without a write, flush twice, append after truncation, delete, nested create / delete), a
    // crash after every single block write of each
    for k in 0..budget(ctx, 4, 24) {
        let o = ScOpts { fat32: Some(k % 2 == 0), dirty: true, bpc_choices: vec![1, 2], big_tree: k % 4 >= 2, limits: Some((4, 4, 1)), stale_info: k % 4 == 1, ..Default::default() };
        let sc = make_scenario(&mut rng, &o);
        let (v, d) = (sc.id_offset, sc.id_offset.wrapping_add(1));
        let cb = (sc.vols[0].layout.bpc * 512) as usize;
        let script = vec![
            Op::OpenVolume(sc.vols[0].slot), Op::OpenRoot(v),
            Op::OpenFile(d, "CG.BIN".into(), Mode::ReadWriteCreate), Op::Write(LAST_FILE, vec![0x11; 2 * cb + 7]), Op::CloseFile(LAST_FILE),
            Op::OpenFile(d, "CG.BIN".into(), Mode::ReadWriteTruncate), Op::Write(LAST_FILE, vec![]), Op::Flush(LAST_FILE), Op::Flush(LAST_FILE), Op::CloseFile(LAST_FILE),
            Op::OpenFile(d, "CG.BIN".into(), Mode::ReadWriteAppend), Op::Write(LAST_FILE, vec![0x22; cb]), Op::Flush(LAST_FILE), Op::Write(LAST_FILE, vec![]), Op::CloseFile(LAST_FILE),
            Op::OpenFile(d, "CG.BIN".into(), Mode::ReadWriteCreateOrTruncate), Op::CloseFile(LAST_FILE),
            Op::OpenFile(d, "CG.BIN".into(), Mode::ReadWriteTruncate), Op::Write(LAST_FILE, vec![0x33]), Op::SeekStart(LAST_FILE, 0), Op::Write(LAST_FILE, vec![]), Op::CloseFile(LAST_FILE),
            Op::OpenFile(d, "CG.BIN".into(), Mode::ReadWriteTruncate), Op::Write(LAST_FILE, vec![]), Op::CloseFile(LAST_FILE),
            Op::OpenFile(d, "CG2.BIN".into(), Mode::ReadWriteCreate), Op::Write(LAST_FILE, vec![]), Op::CloseFile(LAST_FILE),
            Op::Delete(d, "CG.BIN".into()), Op::Mkdir(d, "CGD".into()), Op::OpenDir(d, "CGD".into()),
            Op::OpenFile(LAST_DIR, "X.BIN".into(), Mode::ReadWriteCreate), Op::Write(LAST_FILE, vec![0x44; cb + 1]), Op::CloseFile(LAST_FILE), Op::Delete(LAST_DIR, "X.BIN".into()),
            Op::CloseDir(LAST_DIR), Op::Delete(d, "CG2.BIN".into()), Op::CloseDir(d), Op::CloseVolume(v),
        ];
        let mut cfg = RunCfg::base(script.len(), Profile::space());
        cfg.script = Some(script);
        cfg.crash_prefixes = true;
        rep.count("scripted:crash-gallery");
        run_case(&mut rng, &sc, &cfg, &mut model, &mut rep, &format!("c10/{}/gallery{k}", ctx.seed));
    }
    finish(rep, &model, "every prefix of the block-write sequence of every mutating operation (create, write and extend, flush, close, truncate-open, delete, mkdir, directory growth, volume close) in generated histories and in a fixed gallery of their unusual forms (zero-length writes, truncation closed without a write), on images whose free clusters are filled with plausible stale directory entries: the Lean fsck (crash variant: lost clusters and a stale size allowed) runs on the medium after each single write; distinct = histories")
}

pub fn c16(ctx: &Ctx) -> Report {
    let mut rep = Report::new("C16");
    let mut model = Model::spawn(&ctx.model_path);
    let mut rng = Rng::new(ctx.seed ^ 0xC16);
    let n = budget(ctx, 40, 1200);
    for k in 0..n {
        let o = ScOpts { fat32: Some(k % 2 == 0), stale_info: k % 4 == 2, hint_in_use: k % 8 == 4, keep_free: if k % 3 == 0 { Some(vec![1, 3, 10]) } else { None }, ..Default::default() };
        let sc = make_scenario(&mut rng, &o);
        let mut cfg = RunCfg::base(budget(ctx, 40, 60), Profile::space());
        cfg.mirror_every_op = true;
        let res = run_case(&mut rng, &sc, &cfg, &mut model, &mut rep, &format!("c16/{}/{k}", ctx.seed));
        info_accounting(&sc, &res, &mut model, &mut rep, &format!("c16/{}/{k}", ctx.seed));
    }
    // a chain grown one cluster per call across FAT-sector boundaries (entry 256 / 512 on FAT16, 128 / 256 on FAT32):
    // the copies are compared after every call, so an update that reaches only one copy for the first or last
    // entry of a FAT sector shows while that entry is still the end of the chain
    for k in 0..budget(ctx, 2, 6) {
        let o = ScOpts { fat32: Some(k % 2 == 1), bpc_choices: vec![1], big_tree: false, limits: Some((4, 4, 1)), ..Default::default() };
        let mut sc = make_scenario(&mut rng, &o);
        for _ in 0..6 {
            if sc.vols[0].layout.num_fats == 2 {
                break;
            }
            sc = make_scenario(&mut rng, &o);
        }
        if sc.vols[0].layout.num_fats != 2 {
            continue;
        }
        let (v, d) = (sc.id_offset, sc.id_offset.wrapping_add(1));
        let mut script = vec![Op::OpenVolume(sc.vols[0].slot), Op::OpenRoot(v), Op::OpenFile(d, "GROW.BIN".into(), Mode::ReadWriteCreate)];
        for i in 0..300usize {
            script.push(Op::Write(LAST_FILE, vec![(i % 251) as u8; 512]));
        }
        script.push(Op::CloseFile(LAST_FILE));
        script.push(Op::Delete(d, "GROW.BIN".into()));
        let mut cfg = RunCfg::base(script.len(), Profile::space());
        cfg.script = Some(script);
        cfg.mirror_every_op = true;
        rep.count("scripted:chain-across-fat-sectors");
        run_case(&mut rng, &sc, &cfg, &mut model, &mut rep, &format!("c16/{}/grow{k}", ctx.seed));
    }
    finish(rep, &model, "histories of allocation, truncation and deletion on volumes with 1 and 2 FATs: after every call all FAT copies are compared byte for byte by the Lean spec; on FAT32 with correct / unknown (0xFFFFFFFF) / stale (0, random, out-of-range hint) information sectors the stored free count after flush/close changes by exactly the change in free FAT entries, unknown stays unknown, a hint written after an allocation is inside the volume, and no stale record makes a call fail or panic; distinct = histories")
}

/// C16: after the history, close everything through the API (flushes + close_volume write the info
/// sector) and compare the stored record with the FAT.
fn info_accounting(sc: &Scenario, res: &CaseResult, model: &mut Model, rep: &mut Report, tag: &str) {
    // re-run the history on a fresh session so that we can close everything at the end
    let mut sess = Session::new(sc.blocks.clone(), sc.limits, sc.id_offset);
    let mut open_files: Vec<u32> = vec![];
    let mut open_dirs: Vec<u32> = vec![];
    let mut open_vols: Vec<(u32, usize)> = vec![];
    let mut clock = ts(46, 2, 0, 19, 56, 54);
    for (i, op) in res.ops.iter().enumerate() {
        let mut r2 = Rng::new(i as u64);
        advance(&mut clock, &mut r2);
        sess.set_clock(clock);
        let o = sess.exec(op);
        if sess.dead {
            return;
        }
        match op {
            Op::OpenFile(..) => { if let Some(h) = o.handle() { open_files.push(h) } }
            Op::CloseFile(f) => open_files.retain(|x| x != f),
            Op::OpenDir(..) | Op::OpenRoot(_) => { if let Some(h) = o.handle() { open_dirs.push(h) } }
            Op::CloseDir(d) if o.is_ok() => open_dirs.retain(|x| x != d),
            Op::OpenVolume(s) => { if let Some(h) = o.handle() { open_vols.push((h, *s)) } }
            Op::CloseVolume(v) if o.is_ok() => open_vols.retain(|x| x.0 != *v),
            _ => {}
        }
    }
    for f in open_files { sess.exec(&Op::CloseFile(f)); }
    for d in open_dirs { sess.exec(&Op::CloseDir(d)); }
    for (v, _) in &open_vols {
        let o = sess.exec(&Op::CloseVolume(*v));
        if !o.is_ok() && o.res != "err VolumeStillInUse" {
            rep.violation("impl-vs-spec", "close-volume-fails", &format!("close_volume: {}", o.res), J::obj(vec![("case", J::s(tag.to_string())), ("scenario", J::s(sc.desc.clone()))]));
        }
    }
    let img = sess.image();
    for v in &sc.vols {
        let l = &v.layout;
        if !l.fat32 {
            continue;
        }
        let free_now = (2..l.clusters + 2).filter(|&c| mkfs::fat_get(&img, l, c) == 0).count() as i64;
        let info0 = sc.blocks.get(&l.info_block).copied().unwrap_or([0u8; 512]);
        let info1 = img.get(&l.info_block).copied().unwrap_or([0u8; 512]);
        let rd = |b: &Blk, o: usize| u32::from_le_bytes([b[o], b[o + 1], b[o + 2], b[o + 3]]);
        let (c0, n0) = (rd(&info0, 488), rd(&info0, 492));
        let (c1, n1) = (rd(&info1, 488), rd(&info1, 492));
        rep.oracle_checks += 1;
        rep.count(&format!("info:start-{}", if c0 == 0xFFFF_FFFF { "unknown" } else if c0 as i64 == v.free_at_start as i64 { "correct" } else { "stale" }));
        let delta = free_now - v.free_at_start as i64;
        if c0 == 0xFFFF_FFFF {
            if c1 != 0xFFFF_FFFF {
                rep.violation("impl-vs-spec", "info-unknown-became-known", &format!("free count was unknown at mount, stored {} afterwards", c1), J::obj(vec![("case", J::s(tag.to_string())), ("scenario", J::s(sc.desc.clone())), ("ops", J::Arr(res.ops.iter().map(|o| J::s(o.show())).collect()))]));
            }
        } else {
            let want = c0 as i64 + delta;
            // saturating arithmetic at the ends of u32 is allowed for stale records
            if (0..=0xFFFF_FFFEi64).contains(&want) && (c0 as i64) >= -delta.min(0) && c1 as i64 != want {
                let sig = if c0 as i64 == v.free_at_start as i64 { "info-free-count-drift" } else { "info-free-count-drift-stale" };
                // only a record that saturated at zero may differ: then want computed from a clamped path is unknowable
                let saturated = res.ops.len() > 0 && (c0 as i64) < (v.free_at_start as i64 - free_now).max(0) + 1 && c0 as i64 != v.free_at_start as i64;
                if !saturated {
                    rep.violation("impl-vs-spec", sig, &format!("stored free count {} -> {} but the number of free FAT entries changed by {} ({} -> {})", c0, c1, delta, v.free_at_start, free_now), J::obj(vec![("case", J::s(tag.to_string())), ("scenario", J::s(sc.desc.clone())), ("ops", J::Arr(res.ops.iter().map(|o| J::s(o.show())).collect()))]));
                }
            }
        }
        if delta != 0 || n1 != n0 {
            if !(n1 == 0xFFFF_FFFF || (n1 >= 2 && n1 < l.clusters + 2)) && n1 != n0 {
                rep.violation("impl-vs-spec", "info-hint-out-of-range", &format!("next-free hint {} written; the volume has clusters 2..{}", n1, l.clusters + 1), J::obj(vec![("case", J::s(tag.to_string())), ("scenario", J::s(sc.desc.clone())), ("ops", J::Arr(res.ops.iter().map(|o| J::s(o.show())).collect()))]));
            }
        }
    }
    let _ = model;
}

pub fn c11(ctx: &Ctx) -> Report {
    let mut rep = Report::new("C11");
    let wrap_ok = io_probe_guard(&mut rep);
    let mut model = Model::spawn(&ctx.model_path);
    let mut rng = Rng::new(ctx.seed ^ 0xC11);
    let n = budget(ctx, 8, 150);
    let mut sweeps = 0u64;
    let only_k: Option<usize> = std::env::var("VERIF_ONLY_K").ok().and_then(|x| x.parse().ok());
    for k in 0..n {
        let o = ScOpts { fat32: Some(k % 2 == 0), bpc_choices: vec![1, 2], small_root: k % 3 == 2, keep_free: if k % 4 == 3 { Some(vec![2, 6]) } else { None }, limits: Some((4, 4, 1)), ..Default::default() };
        let sc = make_scenario(&mut rng, &o);
        if let Some(m) = only_k {
            // development aid: stop after case m (the cases before it are run so that the random stream is the same)
            if k > m {
                break;
            }
        }
        // 1) a fault-free history
        // namespace-heavy and data-heavy (long reads over multi-cluster files) histories alternate; the
        // third kind is a fixed script: one read call over a whole fragmented multi-cluster file, a read
        // from the middle, listing and lookup - every device call of each of them gets its fault
        let mut cfg = RunCfg::base(budget(ctx, 14, 20), if k % 3 == 1 { Profile::rw() } else { Profile::namespace() });
        if k % 3 != 1 {
            cfg.profile.w_read = 8;
            cfg.profile.w_list = 8;
        }
        cfg.compare_reads = true;
        // half of the generated histories close / drop / flush / read through the RAII wrappers and embedded-io
        cfg.profile.wrap = wrap_ok && k % 2 == 1;
        if k % 3 == 2 {
            let cb = (sc.vols[0].layout.bpc * 512) as usize;
            let (v, d, f) = (sc.id_offset, sc.id_offset.wrapping_add(1), sc.id_offset.wrapping_add(2));
            let data: Vec<u8> = (0..3 * cb + 100).map(|i| (i * 7 + k) as u8).collect();
            cfg.script = Some(vec![Op::OpenVolume(sc.vols[0].slot), Op::OpenRoot(v), Op::OpenFile(d, "RT.BIN".into(), Mode::ReadWriteCreateOrTruncate), Op::Write(f, data),
                Op::SeekStart(f, 0), Op::Read(f, 3 * cb + 100), Op::SeekStart(f, 10), Op::Read(f, cb + 5), Op::Length(f), Op::SeekStart(f, (2 * cb - 3) as u32), Op::Read(f, 700),
                Op::List(d), Op::Find(d, "RT.BIN".into()), Op::ListLfn(d, 64), Op::Flush(f), Op::SeekStart(f, 0), Op::Read(f, 2 * cb), Op::SeekEnd(f, 0), Op::Write(f, vec![7; 30]), if wrap_ok && k % 2 == 1 { Op::WCloseFile(f) } else { Op::CloseFile(f) }, Op::Find(d, "RT.BIN".into()),
                Op::OpenFile(d, "RT.BIN".into(), Mode::ReadOnly), Op::Length(LAST_FILE), Op::CloseFile(LAST_FILE)]);
            // the directory is then grown past a cluster boundary (empty files: one slot each), so that the listing
            // and the lookup follow the directory's chain through the FAT - the device call between two clusters
            // of a directory walk gets its fault like every other one
            let mut ops = cfg.script.take().unwrap();
            let nfill = 16 * sc.vols[0].layout.bpc as usize + 1;
            for i in 0..nfill {
                ops.push(Op::OpenFile(d, format!("FL{i:03}.E"), Mode::ReadWriteCreate));
                ops.push(Op::CloseFile(LAST_FILE));
            }
            ops.extend([Op::List(d), Op::Find(d, format!("FL{:03}.E", nfill - 1)), Op::ListLfn(d, 64), Op::Find(d, "NOSUCH.X".into()), Op::CloseDir(d), Op::CloseVolume(v), Op::HasOpen]);
            cfg.script = Some(ops);
        }
        let mut r1 = rng.fork(k as u64);
        let base = run_case(&mut r1, &sc, &cfg, &mut model, &mut rep, &format!("c11/{}/{k}/base", ctx.seed));
        if !base.clean {
            continue;
        }
        // the fault-free answers the retry oracle compares with come from a SCRIPTED fault-free run of the same
        // operations: a scripted run advances the clock per step in a fixed way, a generated one draws it from
        // the random stream, so the two give different time stamps for entries created on the way
        let expect = {
            let mut cfg1 = cfg.clone();
            cfg1.script = Some(base.ops.clone());
            let mut tmp = Report::new("expect");
            let mut r = Rng::new(1);
            let b2 = run_case(&mut r, &sc, &cfg1, &mut model, &mut tmp, "expect");
            if b2.ops.len() != base.ops.len() {
                continue;
            }
            b2
        };
        cfg.retry_expect = Some(expect.outcomes.iter().map(|o| o.res.clone()).collect());
        // 2) the same history with a failure at every single device-call index
        let mut points: Vec<(usize, u64)> = Vec::new();
        for (i, &calls) in base.device_calls.iter().enumerate() {
            for c in 0..calls {
                points.push((i, c));
            }
        }
        let max_points = budget(ctx, 70, 400);
        if points.len() > max_points {
            // keep an even spread
            let stride = points.len() as f64 / max_points as f64;
            let all = points.clone();
            points = (0..max_points).map(|j| points[(j as f64 * stride) as usize]).collect();
            // every device call of the read-only directory calls (listing, lookup) gets its fault whatever the
            // spread keeps: a failure between two clusters of a directory walk is one call among hundreds
            let mut extra = 0usize;
            for pt in all {
                if matches!(base.ops[pt.0], Op::List(..) | Op::ListLfn(..) | Op::Find(..)) && !points.contains(&pt) && extra < budget(ctx, 120, 600) {
                    points.push(pt);
                    extra += 1;
                }
            }
        }
        for (pi, pt) in points.iter().enumerate() {
            let mut cfg2 = cfg.clone();
            cfg2.script = Some(base.ops.clone());
            cfg2.faults = vec![*pt];
            cfg2.fsck_every_op = true;
            cfg2.fsck_names_only = true; // the unique-names clause after the faulty call and after the continuation
            let mut r2 = Rng::new(1);
            run_case(&mut r2, &sc, &cfg2, &mut model, &mut rep, &format!("c11/{}/{k}/fault@{}:{}", ctx.seed, pt.0, pt.1));
            sweeps += 1;
            let _ = pi;
        }
        // 3) random multi-fault sequences
        for m in 0..budget(ctx, 6, 40) {
            let mut cfg3 = cfg.clone();
            cfg3.script = Some(base.ops.clone());
            cfg3.retry_expect = None;
            let nf = rng.range(2, 4);
            cfg3.faults = (0..nf).map(|_| { let i = rng.below(base.ops.len() as u64) as usize; (i, rng.below(base.device_calls[i].max(1))) }).collect();
            cfg3.fsck_every_op = true;
            cfg3.fsck_names_only = true;
            let mut r3 = Rng::new(2);
            run_case(&mut r3, &sc, &cfg3, &mut model, &mut rep, &format!("c11/{}/{k}/multi{m}", ctx.seed));
        }
    }
    rep.count_n("fault:single-fault-runs", sweeps);
    finish(rep, &model, "for each base history (FAT16 and FAT32, multi-cluster directories), the same history is re-run with a device failure injected at every single device-call index (read or write; a failed read scribbles the buffer), plus random multi-fault sequences; the faulty call must return an error (never Ok, never panic), the history then continues fault-free: every later result is compared with the byte-array model and the Lean model (which sees the same faults at the same call indices, reads compared too), fsck incl. unique names after every call; distinct = (history, fault placement) pairs")
}


// ------------------------------------------------------------------------------------------------
// Scripted cases for the known findings (so that each run shows whether they are still present)
// ------------------------------------------------------------------------------------------------

/// C08: `open_root_dir` accepts a volume handle that is not open.
pub fn kf_open_root_stale(rep: &mut Report, rng: &mut Rng) {
    let sc = make_scenario(rng, &ScOpts { fat32: Some(false), big_tree: false, limits: Some((4, 4, 1)), ..Default::default() });
    let mut sess = Session::new(sc.blocks.clone(), sc.limits, sc.id_offset);
    let v = match sess.exec(&Op::OpenVolume(sc.vols[0].slot)).handle() { Some(h) => h, None => return };
    sess.exec(&Op::CloseVolume(v));
    let o = sess.exec(&Op::OpenRoot(v));
    rep.cases += 1;
    rep.oracle_checks += 1;
    if o.res != "err BadHandle" {
        rep.violation("impl-vs-spec", "open-root-on-closed-volume", &format!("open_root_dir on a volume handle that has been closed returned `{}` (expected BadHandle)", o.res),
            J::obj(vec![("ops", J::Arr(vec![J::s("open_volume"), J::s(format!("close_volume {v}")), J::s(format!("open_root {v}  =>  {}", o.res))]))]));
    }
}

/// C02 / C06: a name whose first character is U+00E5 is stored with first byte 0xE5 = "deleted".
pub fn kf_e5_name(rep: &mut Report, rng: &mut Rng, model: &mut Model) {
    let sc = make_scenario(rng, &ScOpts { fat32: Some(false), big_tree: false, limits: Some((4, 4, 1)), ..Default::default() });
    let mut sess = Session::new(sc.blocks.clone(), sc.limits, sc.id_offset);
    let v = match sess.exec(&Op::OpenVolume(sc.vols[0].slot)).handle() { Some(h) => h, None => return };
    let d = match sess.exec(&Op::OpenRoot(v)).handle() { Some(h) => h, None => return };
    let name = "\u{e5}BC.TXT".to_string();
    let f = match sess.exec(&Op::OpenFile(d, name.clone(), Mode::ReadWriteCreate)).handle() { Some(h) => h, None => return };
    sess.exec(&Op::Write(f, vec![1, 2, 3, 4]));
    let c = sess.exec(&Op::CloseFile(f));
    let l = sess.exec(&Op::List(d));
    rep.cases += 1;
    rep.oracle_checks += 1;
    // on the medium the name's first byte is 0x05 (the FAT specification's substitute for 0xE5); the file must be
    // listed, found under its name again, readable, and a second create of the name must be refused
    let shown = l.res.to_lowercase().contains("0542432020202020545854");
    let found = sess.exec(&Op::Find(d, name.clone()));
    let again = sess.exec(&Op::OpenFile(d, name.clone(), Mode::ReadWriteCreate));
    let back = match sess.exec(&Op::OpenFile(d, name.clone(), Mode::ReadOnly)).handle() { Some(h) => sess.exec(&Op::Read(h, 10)).res, None => "not opened".into() };
    if c.is_ok() && !(shown && found.is_ok() && again.res == "err FileAlreadyExists" && back == "ok b 01020304") {
        rep.violation("impl-vs-spec", "name-starting-0xE5-invisible", &format!("a file created as {:?}, written and closed successfully, is not in the directory listing (its first name byte 0xE5 marks the slot as deleted)", name),
            J::obj(vec![("ops", J::Arr(vec![J::s("open_file <U+00E5>BC.TXT create"), J::s("write 4 bytes"), J::s("close_file => ok"), J::s(format!("list => {}", truncate(&l.res, 200))), J::s(format!("find => {}", truncate(&found.res, 80))), J::s(format!("create again => {}", again.res)), J::s(format!("open + read => {}", truncate(&back, 40)))]))]));
    }
    let _ = model;
}

/// C01 / C05: a file just below the FAT size limit (4 GiB - 1).  A write that would pass the limit
/// cannot be stored; it must not be reported as a success ("a write that does not fit reports an
/// out-of-space error, everything reported as written is readable"; the byte-array model of C01 has
/// no short writes).  The volume is a sparse FAT32 image with 64 KiB clusters whose FAT holds a
/// 65536-cluster chain; only the last cluster is ever touched.
pub fn max_file_size_case(rep: &mut Report, prop: &str) {
    use crate::mkfs::{compute_layout, format, Geometry, InfoInit, PartSpec};
    let geom = Geometry { fat32: true, bpc: 128, num_fats: 2, reserved: 32, root_entries: 0, clusters: 66000, fat_extra_sectors: 0, lba_start: 2048, tail_blocks: 0, root_cluster: 2,
        info: InfoInit::Unknown, part_type: 0x0C, label: *b"BIG        ", use_total16: false };
    let l = compute_layout(&geom);
    let mut img = format(&[PartSpec { slot: 0, geom, tree: vec![], dirty_free: None, keep_free: None }]).blocks;
    // chain 3 -> 4 -> ... -> 65538 (65536 clusters = 4 GiB), both FAT copies
    let first = 3u32;
    let last = first + 65535;
    for c in first..=last {
        let v: u32 = if c == last { 0x0FFF_FFFF } else { c + 1 };
        for k in 0..l.num_fats {
            let b = l.fat_start + k * l.fat_size + (c * 4) / 512;
            let mut blk = img.get(&b).copied().unwrap_or([0u8; 512]);
            let o = ((c * 4) % 512) as usize;
            blk[o..o + 4].copy_from_slice(&v.to_le_bytes());
            img.insert(b, blk);
        }
    }
    // root entry BIG.BIN, 10 bytes below the limit
    let size: u32 = u32::MAX - 10;
    let rootb = crate::mkfs::cluster_to_block(&l, 2);
    let mut blk = img.get(&rootb).copied().unwrap_or([0u8; 512]);
    let slot = (0..16).find(|i| blk[i * 32] == 0).unwrap_or(0) * 32;
    blk[slot..slot + 11].copy_from_slice(b"BIG     BIN");
    blk[slot + 11] = 0x20;
    blk[slot + 20..slot + 22].copy_from_slice(&((first >> 16) as u16).to_le_bytes());
    blk[slot + 26..slot + 28].copy_from_slice(&(first as u16).to_le_bytes());
    blk[slot + 28..slot + 32].copy_from_slice(&size.to_le_bytes());
    img.insert(rootb, blk);
    let mut sess = Session::new(img, (4, 4, 1), 100);
    let v = match sess.exec(&Op::OpenVolume(0)).handle() { Some(h) => h, None => { rep.notes.push("max-file-size case: volume did not mount".into()); return } };
    let d = match sess.exec(&Op::OpenRoot(v)).handle() { Some(h) => h, None => return };
    let f = match sess.exec(&Op::OpenFile(d, "BIG.BIN".into(), Mode::ReadWriteAppend)).handle() { Some(h) => h, None => { rep.notes.push("max-file-size case: BIG.BIN did not open".into()); return } };
    rep.cases += 1;
    rep.count("max-file-size");
    let data: Vec<u8> = (1..=20u8).collect();
    let w = sess.exec(&Op::Write(f, data.clone()));
    let len = sess.exec(&Op::Length(f));
    rep.ops += 2;
    rep.oracle_checks += 1;
    if w.is_ok() {
        // reported as written: then all 20 bytes must be readable
        let back = if sess.exec(&Op::SeekStart(f, size)).is_ok() { sess.exec(&Op::Read(f, 20)).res } else { "seek failed".into() };
        if back != format!("ok b {}", hex(&data)) {
            rep.violation("impl-vs-spec", "write-past-max-size-reported-ok", &format!("a 20-byte write at offset 4 GiB - 11 of a file (the FAT limit is 4 GiB - 1) returned Ok; length is now `{}` and reading the written range back gives `{}`: bytes were dropped without an error", len.res, truncate(&back, 80)),
                J::obj(vec![("property", J::s(prop.to_string())), ("ops", J::Arr(vec![J::s("image: FAT32, 64 KiB clusters, BIG.BIN of 4294967285 bytes on a 65536-cluster chain"), J::s("open_file BIG.BIN ReadWriteAppend"), J::s(format!("write 20 bytes => {}", w.res)), J::s(format!("length => {}", len.res)), J::s(format!("seek 4294967285; read 20 => {}", truncate(&back, 80)))]))]));
        }
    }
    // embedded-io `seek` on this > 2 GiB file: every target inside the file is a legitimate seek, also when the
    // relative offset does not fit an i32 (positions are u32, `SeekFrom::Current` carries an i64)
    if prop == "C01" {
        let flen: i64 = match sess.exec(&Op::Length(f)).res.strip_prefix("ok n ").and_then(|x| x.parse().ok()) { Some(n) => n, None => return };
        for (start, delta) in [(0i64, 1i64 << 31), (0, 3_000_000_000), (flen, -(1i64 << 31) - 1), (10, (1i64 << 31) + 5), (flen, -flen), (5, 7), (flen - 1, 1), (0, flen + 1), (3, -4)] {
            if sess.exec(&Op::IoSeekStart(f, start as u64)).res != format!("ok n {start}") {
                continue;
            }
            let o = sess.exec(&Op::IoSeekCur(f, delta));
            rep.ops += 2;
            rep.oracle_checks += 1;
            rep.count("io-seek:big-file");
            let target = start + delta;
            let want = if (0..=flen).contains(&target) { format!("ok n {target}") } else { "err InvalidOffset".to_string() };
            if o.res != want {
                rep.violation("impl-vs-spec", "io-seek-current-refused", &format!("`seek(SeekFrom::Current({delta}))` at offset {start} of a {flen}-byte file returned `{}`; the target {target} is {} the file, so the byte-array cursor answers `{want}`", o.res, if (0..=flen).contains(&target) { "inside" } else { "outside" }),
                    J::obj(vec![("property", J::s(prop.to_string())), ("ops", J::Arr(vec![J::s("image: FAT32, 64 KiB clusters, BIG.BIN on a 65536-cluster chain, opened ReadWriteAppend"), J::s(format!("io_seek_start {start}")), J::s(format!("io_seek_cur {delta} => {}", o.res))]))]));
            }
        }
    }
    let _ = sess.exec(&Op::CloseFile(f));
}

/// C06: lookup continues into later blocks after the end-of-directory marker.
pub fn kf_lookup_past_end(rep: &mut Report, rng: &mut Rng) {
    let mut sc = make_scenario(rng, &ScOpts { fat32: Some(false), big_tree: false, limits: Some((4, 4, 1)), ..Default::default() });
    // put a plausible stale entry into the second block of the FAT16 root, behind the end marker of block 0
    let l = sc.vols[0].layout.clone();
    if l.root_blocks < 2 {
        return;
    }
    let mut blk = [0u8; 512];
    blk[0..11].copy_from_slice(b"GHOST   BIN");
    blk[11] = 0x20;
    blk[26] = 3;
    blk[28] = 9;
    // block 0 must end with zero slots for the end marker to be in block 0: the sample tree is small
    sc.blocks.insert(l.root_start + 1, blk);
    let mut sess = Session::new(sc.blocks.clone(), sc.limits, sc.id_offset);
    let v = match sess.exec(&Op::OpenVolume(sc.vols[0].slot)).handle() { Some(h) => h, None => return };
    let d = match sess.exec(&Op::OpenRoot(v)).handle() { Some(h) => h, None => return };
    let listing = sess.exec(&Op::List(d));
    let found = sess.exec(&Op::Find(d, "GHOST.BIN".into()));
    rep.cases += 1;
    rep.oracle_checks += 1;
    if found.is_ok() && !listing.res.contains(&hex(b"GHOST   BIN")) {
        rep.violation("impl-vs-spec", "lookup-past-end-marker", "the listing stops at the end-of-directory marker in the first block but lookup finds a stale entry in the next block: a name the listing does not contain is found",
            J::obj(vec![("ops", J::Arr(vec![J::s("image: root block 0 ends with 0x00 slots, root block 1 holds a stale entry GHOST.BIN"), J::s(format!("list => {}", truncate(&listing.res, 120))), J::s(format!("find GHOST.BIN => {}", truncate(&found.res, 120)))]))]));
    }
}
