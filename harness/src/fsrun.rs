//! Running API histories on the real `VolumeManager` (in-process, on the RAM disk) and printing
//! every result in the canonical form the Lean model driver uses.
use crate::mkfs;
use crate::model::Model;
use crate::ramdisk::{Blk, RamDisk};
use crate::util::*;
use embedded_sdmmc::{
    DirEntry, Error, LfnBuffer, Mode, RawDirectory, RawFile, RawVolume, TimeSource, Timestamp, VolumeIdx, VolumeManager,
};
use std::cell::Cell;
use std::collections::BTreeMap;
use std::panic::{catch_unwind, AssertUnwindSafe};
use std::rc::Rc;

#[derive(Clone)]
pub struct TestClock(pub Rc<Cell<Timestamp>>);
impl TimeSource for TestClock {
    fn get_timestamp(&self) -> Timestamp {
        self.0.get()
    }
}
impl std::fmt::Debug for TestClock {
    fn fmt(&self, f: &mut std::fmt::Formatter<'_>) -> std::fmt::Result {
        write!(f, "TestClock")
    }
}

pub fn ts(y: u8, mo: u8, d: u8, h: u8, mi: u8, s: u8) -> Timestamp {
    Timestamp { year_since_1970: y, zero_indexed_month: mo, zero_indexed_day: d, hours: h, minutes: mi, seconds: s }
}

pub fn show_ts(t: &Timestamp) -> String {
    format!("{}.{}.{}.{}.{}.{}", t.year_since_1970, t.zero_indexed_month, t.zero_indexed_day, t.hours, t.minutes, t.seconds)
}

#[derive(Clone, Debug, PartialEq)]
pub enum Op {
    OpenVolume(usize),
    CloseVolume(u32),
    OpenRoot(u32),
    OpenDir(u32, String),
    CloseDir(u32),
    OpenFile(u32, String, Mode),
    Read(u32, usize),
    Write(u32, Vec<u8>),
    SeekStart(u32, u32),
    SeekCur(u32, i32),
    SeekEnd(u32, u32),
    Flush(u32),
    CloseFile(u32),
    Delete(u32, String),
    Mkdir(u32, String),
    Find(u32, String),
    List(u32),
    ListLfn(u32, usize),
    Length(u32),
    Offset(u32),
    Eof(u32),
    HasOpen,
    Label(u32),
    // ---- the same calls through the RAII wrappers (`File`, `Directory`, `Volume`) and the embedded-io traits
    IoRead(u32, usize),
    IoWrite(u32, Vec<u8>),
    IoFlush(u32),
    IoSeekStart(u32, u64),
    IoSeekEnd(u32, i64),
    IoSeekCur(u32, i64),
    WEof(u32),
    WLength(u32),
    WOffset(u32),
    WDropFile(u32),
    WCloseFile(u32),
    WDropDir(u32),
    WCloseDir(u32),
    WChangeDir(u32, String),
    WDropVolume(u32),
    WCloseVolume(u32),
}

pub fn mode_token(m: Mode) -> &'static str {
    match m {
        Mode::ReadOnly => "ro",
        Mode::ReadWriteAppend => "a",
        Mode::ReadWriteTruncate => "t",
        Mode::ReadWriteCreate => "c",
        Mode::ReadWriteCreateOrTruncate => "ct",
        Mode::ReadWriteCreateOrAppend => "ca",
    }
}

pub const ALL_MODES: [Mode; 6] = [
    Mode::ReadOnly,
    Mode::ReadWriteAppend,
    Mode::ReadWriteTruncate,
    Mode::ReadWriteCreate,
    Mode::ReadWriteCreateOrTruncate,
    Mode::ReadWriteCreateOrAppend,
];

impl Op {
    /// the request line for the model driver
    pub fn line(&self) -> String {
        match self {
            Op::OpenVolume(i) => format!("op open_volume {i}"),
            Op::CloseVolume(v) => format!("op close_volume {v}"),
            Op::OpenRoot(v) => format!("op open_root {v}"),
            Op::OpenDir(d, n) => format!("op open_dir {d} {}", name_token(n)),
            Op::CloseDir(d) => format!("op close_dir {d}"),
            Op::OpenFile(d, n, m) => format!("op open_file {d} {} {}", name_token(n), mode_token(*m)),
            Op::Read(f, n) => format!("op read {f} {n}"),
            Op::Write(f, b) => format!("op write {f} {}", hex_or_dash(b)),
            Op::SeekStart(f, n) => format!("op seek_start {f} {n}"),
            Op::SeekCur(f, n) => format!("op seek_cur {f} {n}"),
            Op::SeekEnd(f, n) => format!("op seek_end {f} {n}"),
            Op::Flush(f) => format!("op flush {f}"),
            Op::CloseFile(f) => format!("op close_file {f}"),
            Op::Delete(d, n) => format!("op delete {d} {}", name_token(n)),
            Op::Mkdir(d, n) => format!("op mkdir {d} {}", name_token(n)),
            Op::Find(d, n) => format!("op find {d} {}", name_token(n)),
            Op::List(d) => format!("op list {d}"),
            Op::ListLfn(d, n) => format!("op list_lfn {d} {n}"),
            Op::Length(f) => format!("op length {f}"),
            Op::Offset(f) => format!("op offset {f}"),
            Op::Eof(f) => format!("op eof {f}"),
            Op::HasOpen => "op has_open".to_string(),
            Op::Label(v) => format!("op label {v}"),
            Op::IoRead(f, n) => format!("op io_read {f} {n}"),
            Op::IoWrite(f, b) => format!("op io_write {f} {}", hex_or_dash(b)),
            Op::IoFlush(f) => format!("op io_flush {f}"),
            Op::IoSeekStart(f, n) => format!("op io_seek_start {f} {n}"),
            Op::IoSeekEnd(f, n) => format!("op io_seek_end {f} {n}"),
            Op::IoSeekCur(f, n) => format!("op io_seek_cur {f} {n}"),
            Op::WEof(f) => format!("op w_eof {f}"),
            Op::WLength(f) => format!("op w_length {f}"),
            Op::WOffset(f) => format!("op w_offset {f}"),
            Op::WDropFile(f) => format!("op w_drop_file {f}"),
            Op::WCloseFile(f) => format!("op w_close_file {f}"),
            Op::WDropDir(d) => format!("op w_drop_dir {d}"),
            Op::WCloseDir(d) => format!("op w_close_dir {d}"),
            Op::WChangeDir(d, n) => format!("op w_change_dir {d} {}", name_token(n)),
            Op::WDropVolume(v) => format!("op w_drop_volume {v}"),
            Op::WCloseVolume(v) => format!("op w_close_volume {v}"),
        }
    }
    /// short human-readable form for replay files
    pub fn show(&self) -> String {
        match self {
            Op::Write(f, b) if b.len() > 24 => format!("write {f} <{} bytes fnv {:x}>", b.len(), fnv64(b)),
            Op::IoWrite(f, b) if b.len() > 24 => format!("io_write {f} <{} bytes fnv {:x}>", b.len(), fnv64(b)),
            other => other.line()[3..].to_string(),
        }
    }
    pub fn kind(&self) -> &'static str {
        match self {
            Op::OpenVolume(_) => "open_volume",
            Op::CloseVolume(_) => "close_volume",
            Op::OpenRoot(_) => "open_root",
            Op::OpenDir(..) => "open_dir",
            Op::CloseDir(_) => "close_dir",
            Op::OpenFile(..) => "open_file",
            Op::Read(..) => "read",
            Op::Write(..) => "write",
            Op::SeekStart(..) => "seek_start",
            Op::SeekCur(..) => "seek_cur",
            Op::SeekEnd(..) => "seek_end",
            Op::Flush(_) => "flush",
            Op::CloseFile(_) => "close_file",
            Op::Delete(..) => "delete",
            Op::Mkdir(..) => "mkdir",
            Op::Find(..) => "find",
            Op::List(_) => "list",
            Op::ListLfn(..) => "list_lfn",
            Op::Length(_) => "length",
            Op::Offset(_) => "offset",
            Op::Eof(_) => "eof",
            Op::HasOpen => "has_open",
            Op::Label(_) => "label",
            Op::IoRead(..) => "io_read",
            Op::IoWrite(..) => "io_write",
            Op::IoFlush(_) => "io_flush",
            Op::IoSeekStart(..) => "io_seek_start",
            Op::IoSeekEnd(..) => "io_seek_end",
            Op::IoSeekCur(..) => "io_seek_cur",
            Op::WEof(_) => "w_eof",
            Op::WLength(_) => "w_length",
            Op::WOffset(_) => "w_offset",
            Op::WDropFile(_) => "w_drop_file",
            Op::WCloseFile(_) => "w_close_file",
            Op::WDropDir(_) => "w_drop_dir",
            Op::WCloseDir(_) => "w_close_dir",
            Op::WChangeDir(..) => "w_change_dir",
            Op::WDropVolume(_) => "w_drop_volume",
            Op::WCloseVolume(_) => "w_close_volume",
        }
    }
}

// Handles are opaque newtypes over `u32`; the harness needs to name stale and never-issued ones.
fn rv(x: u32) -> RawVolume {
    assert_eq!(std::mem::size_of::<RawVolume>(), 4);
    unsafe { std::mem::transmute::<u32, RawVolume>(x) }
}
fn rd(x: u32) -> RawDirectory {
    assert_eq!(std::mem::size_of::<RawDirectory>(), 4);
    unsafe { std::mem::transmute::<u32, RawDirectory>(x) }
}
fn rf(x: u32) -> RawFile {
    assert_eq!(std::mem::size_of::<RawFile>(), 4);
    unsafe { std::mem::transmute::<u32, RawFile>(x) }
}
fn vnum(h: RawVolume) -> u32 {
    unsafe { std::mem::transmute::<RawVolume, u32>(h) }
}
fn dnum(h: RawDirectory) -> u32 {
    unsafe { std::mem::transmute::<RawDirectory, u32>(h) }
}
fn fnum(h: RawFile) -> u32 {
    unsafe { std::mem::transmute::<RawFile, u32>(h) }
}

pub fn show_err<E: std::fmt::Debug>(e: &Error<E>) -> String {
    let s = format!("{:?}", e);
    let v = s.split('(').next().unwrap_or("?").to_string();
    match v.as_str() {
        "FilenameError" => format!("err FilenameError.{}", s.trim_start_matches("FilenameError(").trim_end_matches(')')),
        "BadBlockSize" => format!("err BadBlockSize.{}", s.trim_start_matches("BadBlockSize(").trim_end_matches(')')),
        _ => format!("err {v}"),
    }
}

pub fn show_entry(e: &DirEntry) -> String {
    let raw = e.verif_serialize(embedded_sdmmc::fat::FatType::Fat32);
    format!(
        "{}:{}:{}:{}:{}:{}:{}:{}",
        hex(&raw[0..11]),
        raw[11],
        crate::pure_checks::cluster_num(&e.cluster),
        e.size,
        show_ts(&e.mtime),
        show_ts(&e.ctime),
        e.entry_block.0,
        e.entry_offset
    )
}

/// Object-safe face of `VolumeManager<RamDisk, TestClock, D, F, V>` for any limits.
pub trait Vm {
    fn exec_raw(&self, op: &Op) -> String;
    /// call every `Result`-returning method from inside an `iterate_dir` (or `iterate_dir_lfn`) callback
    /// of directory `d`; returns one canonical result per (callback invocation, method)
    fn reenter(&self, d: u32, lfn: bool, probes: &[Op]) -> Vec<String>;
}

impl<const D: usize, const F: usize, const V: usize> Vm for VolumeManager<RamDisk, TestClock, D, F, V> {
    fn exec_raw(&self, op: &Op) -> String {
        fn unit<E: std::fmt::Debug>(r: Result<(), Error<E>>) -> String {
            match r {
                Ok(()) => "ok".into(),
                Err(e) => show_err(&e),
            }
        }
        match op {
            Op::OpenVolume(i) => match self.open_raw_volume(VolumeIdx(*i)) {
                Ok(h) => format!("ok h {}", vnum(h)),
                Err(e) => show_err(&e),
            },
            Op::CloseVolume(v) => unit(self.close_volume(rv(*v))),
            Op::OpenRoot(v) => match self.open_root_dir(rv(*v)) {
                Ok(h) => format!("ok h {}", dnum(h)),
                Err(e) => show_err(&e),
            },
            Op::OpenDir(d, n) => match self.open_dir(rd(*d), n.as_str()) {
                Ok(h) => format!("ok h {}", dnum(h)),
                Err(e) => show_err(&e),
            },
            Op::CloseDir(d) => unit(self.close_dir(rd(*d))),
            Op::OpenFile(d, n, m) => match self.open_file_in_dir(rd(*d), n.as_str(), *m) {
                Ok(h) => format!("ok h {}", fnum(h)),
                Err(e) => show_err(&e),
            },
            Op::Read(f, n) => {
                let mut buf = vec![0u8; *n];
                match self.read(rf(*f), &mut buf) {
                    Ok(k) => format!("ok b {}", hex_or_dash(&buf[..k])),
                    Err(e) => show_err(&e),
                }
            }
            Op::Write(f, b) => unit(self.write(rf(*f), b)),
            Op::SeekStart(f, n) => unit(self.file_seek_from_start(rf(*f), *n)),
            Op::SeekCur(f, n) => unit(self.file_seek_from_current(rf(*f), *n)),
            Op::SeekEnd(f, n) => unit(self.file_seek_from_end(rf(*f), *n)),
            Op::Flush(f) => unit(self.flush_file(rf(*f))),
            Op::CloseFile(f) => unit(self.close_file(rf(*f))),
            Op::Delete(d, n) => unit(self.delete_file_in_dir(rd(*d), n.as_str())),
            Op::Mkdir(d, n) => unit(self.make_dir_in_dir(rd(*d), n.as_str())),
            Op::Find(d, n) => match self.find_directory_entry(rd(*d), n.as_str()) {
                Ok(e) => format!("ok e {}", show_entry(&e)),
                Err(e) => show_err(&e),
            },
            Op::List(d) => {
                let mut es: Vec<String> = Vec::new();
                match self.iterate_dir(rd(*d), |e| es.push(show_entry(e))) {
                    Ok(()) => format!("ok l {}", es.join(";")),
                    Err(e) => show_err(&e),
                }
            }
            Op::ListLfn(d, n) => {
                let mut es: Vec<String> = Vec::new();
                let mut storage = vec![0u8; *n];
                let mut lfn = LfnBuffer::new(&mut storage);
                match self.iterate_dir_lfn(rd(*d), &mut lfn, |e, name| {
                    es.push(format!(
                        "{}{}",
                        show_entry(e),
                        match name {
                            Some(s) => format!("={}", hex_or_dash(s.as_bytes())),
                            None => "~".to_string(),
                        }
                    ))
                }) {
                    Ok(()) => format!("ok L {}", es.join(";")),
                    Err(e) => show_err(&e),
                }
            }
            Op::Length(f) => match self.file_length(rf(*f)) {
                Ok(n) => format!("ok n {n}"),
                Err(e) => show_err(&e),
            },
            Op::Offset(f) => match self.file_offset(rf(*f)) {
                Ok(n) => format!("ok n {n}"),
                Err(e) => show_err(&e),
            },
            Op::Eof(f) => match self.file_eof(rf(*f)) {
                Ok(b) => (if b { "ok t" } else { "ok f" }).to_string(),
                Err(e) => show_err(&e),
            },
            Op::HasOpen => (if self.has_open_handles() { "ok t" } else { "ok f" }).to_string(),
            Op::Label(v) => match self.get_root_volume_label(rv(*v)) {
                Ok(Some(n)) => format!("ok v {}", hex_or_dash(n.name())),
                Ok(None) => "ok v none".to_string(),
                Err(e) => show_err(&e),
            },
            // ---- wrappers: a `File` / `Directory` / `Volume` is made from the raw handle for the one call and
            // turned back into the raw handle afterwards (so that its `Drop` does not run), except for the drops
            Op::IoRead(f, n) => {
                let mut file = rf(*f).to_file(self);
                let mut buf = vec![0u8; *n];
                let r = embedded_io::Read::read(&mut file, &mut buf);
                let _ = file.to_raw_file();
                match r {
                    Ok(k) => format!("ok b {}", hex_or_dash(&buf[..k])),
                    Err(e) => show_err(&e),
                }
            }
            Op::IoWrite(f, b) => {
                let mut file = rf(*f).to_file(self);
                let r = embedded_io::Write::write(&mut file, b);
                let _ = file.to_raw_file();
                match r {
                    Ok(k) => format!("ok n {k}"),
                    Err(e) => show_err(&e),
                }
            }
            Op::IoFlush(f) => {
                let mut file = rf(*f).to_file(self);
                let r = embedded_io::Write::flush(&mut file);
                let _ = file.to_raw_file();
                unit(r)
            }
            Op::IoSeekStart(..) | Op::IoSeekEnd(..) | Op::IoSeekCur(..) => {
                let (f, pos) = match op {
                    Op::IoSeekStart(f, n) => (*f, embedded_io::SeekFrom::Start(*n)),
                    Op::IoSeekEnd(f, n) => (*f, embedded_io::SeekFrom::End(*n)),
                    Op::IoSeekCur(f, n) => (*f, embedded_io::SeekFrom::Current(*n)),
                    _ => unreachable!(),
                };
                let mut file = rf(f).to_file(self);
                let r = embedded_io::Seek::seek(&mut file, pos);
                let _ = file.to_raw_file();
                match r {
                    Ok(p) => format!("ok n {p}"),
                    Err(e) => show_err(&e),
                }
            }
            Op::WEof(f) | Op::WLength(f) | Op::WOffset(f) => {
                // these panic on a handle that is not open ("Corrupt file ID"); the wrapper must not be dropped
                // during the unwinding (its Drop would be a second call), so the panic is caught here
                let file = std::mem::ManuallyDrop::new(rf(*f).to_file(self));
                let r = catch_unwind(AssertUnwindSafe(|| match op {
                    Op::WEof(_) => (if file.is_eof() { "ok t" } else { "ok f" }).to_string(),
                    Op::WLength(_) => format!("ok n {}", file.length()),
                    _ => format!("ok n {}", file.offset()),
                }));
                r.unwrap_or_else(|_| "panic".to_string())
            }
            Op::WDropFile(f) => {
                drop(rf(*f).to_file(self));
                "ok".into()
            }
            Op::WCloseFile(f) => unit(rf(*f).to_file(self).close()),
            Op::WDropDir(d) => {
                drop(rd(*d).to_directory(self));
                "ok".into()
            }
            Op::WCloseDir(d) => unit(rd(*d).to_directory(self).close()),
            Op::WChangeDir(d, n) => {
                let mut dir = std::mem::ManuallyDrop::new(rd(*d).to_directory(self));
                let r = catch_unwind(AssertUnwindSafe(|| dir.change_dir(n.as_str())));
                match r {
                    Ok(Ok(())) => {
                        let dir = std::mem::ManuallyDrop::into_inner(dir);
                        format!("ok h {}", dnum(dir.to_raw_directory()))
                    }
                    Ok(Err(e)) => show_err(&e),
                    Err(_) => "panic".to_string(),
                }
            }
            Op::WDropVolume(v) => {
                drop(rv(*v).to_volume(self));
                "ok".into()
            }
            Op::WCloseVolume(v) => unit(rv(*v).to_volume(self).close()),
        }
    }

    fn reenter(&self, d: u32, lfn: bool, probes: &[Op]) -> Vec<String> {
        let mut out: Vec<String> = Vec::new();
        let mut first = true;
        let mut body = |out: &mut Vec<String>| {
            if first {
                first = false;
                for p in probes {
                    let r = catch_unwind(AssertUnwindSafe(|| self.exec_raw(p))).unwrap_or_else(|_| "panic".to_string());
                    out.push(r);
                }
            }
        };
        if lfn {
            let mut storage = vec![0u8; 64];
            let mut b = LfnBuffer::new(&mut storage);
            let _ = self.iterate_dir_lfn(rd(d), &mut b, |_, _| body(&mut out));
        } else {
            let _ = self.iterate_dir(rd(d), |_| body(&mut out));
        }
        out
    }
}

/// The limit configurations the harness can instantiate (const generics): every value 1..8 occurs
/// for every kind.
pub const LIMITS: [(usize, usize, usize); 14] = [
    (4, 4, 1), (1, 1, 1), (2, 2, 2), (4, 4, 2), (8, 8, 4), (1, 8, 1), (8, 1, 2), (3, 5, 3), (2, 1, 4), (5, 2, 1), (6, 7, 5), (7, 6, 8), (5, 3, 6), (3, 4, 7),
];

pub fn make_vm(disk: RamDisk, clock: TestClock, limits: (usize, usize, usize), id_offset: u32) -> Box<dyn Vm> {
    macro_rules! pick {
        ($(($d:literal, $f:literal, $v:literal)),*) => {
            match limits {
                $(($d, $f, $v) => Box::new(VolumeManager::<RamDisk, TestClock, $d, $f, $v>::new_with_limits(disk, clock, id_offset)) as Box<dyn Vm>,)*
                other => panic!("limits {:?} not instantiated", other),
            }
        };
    }
    pick!((4, 4, 1), (1, 1, 1), (2, 2, 2), (4, 4, 2), (8, 8, 4), (1, 8, 1), (8, 1, 2), (3, 5, 3), (2, 1, 4), (5, 2, 1), (6, 7, 5), (7, 6, 8), (5, 3, 6), (3, 4, 7))
}

/// One manager on one disk.
pub struct Session {
    pub disk: RamDisk,
    pub clock: TestClock,
    pub vm: Box<dyn Vm>,
    pub limits: (usize, usize, usize),
    pub id_offset: u32,
    pub dead: bool,
}

/// The outcome of one call as both sides print it.
#[derive(Clone, Debug)]
pub struct Outcome {
    pub res: String,
    pub writes: Vec<(u32, Blk)>,
    pub reads: Vec<u32>,
}

impl Outcome {
    pub fn line(&self, with_reads: bool) -> String {
        let w: Vec<String> = self.writes.iter().map(|(i, b)| format!("{}:{}", i, fnv64(b))).collect();
        if with_reads {
            let r: Vec<String> = self.reads.iter().map(|i| i.to_string()).collect();
            format!("{}|W:{}|R:{}", self.res, w.join(","), r.join(","))
        } else {
            format!("{}|W:{}", self.res, w.join(","))
        }
    }
    pub fn is_ok(&self) -> bool {
        self.res.starts_with("ok")
    }
    pub fn handle(&self) -> Option<u32> {
        self.res.strip_prefix("ok h ").and_then(|s| s.parse().ok())
    }
}

impl Session {
    pub fn new(blocks: BTreeMap<u32, Blk>, limits: (usize, usize, usize), id_offset: u32) -> Session {
        let disk = RamDisk::new(blocks);
        let clock = TestClock(Rc::new(Cell::new(ts(46, 2, 0, 19, 56, 54))));
        let vm = make_vm(disk.clone(), clock.clone(), limits, id_offset);
        Session { disk, clock, vm, limits, id_offset, dead: false }
    }
    /// a fresh manager on the same medium (what a remount after power loss / reboot sees)
    pub fn remount(&self) -> Session {
        let blocks = self.disk.0.borrow().blocks.clone();
        Session::new(blocks, self.limits, self.id_offset)
    }
    pub fn exec(&mut self, op: &Op) -> Outcome {
        let _ = self.disk.take_logs();
        let vm = &self.vm;
        let res = match catch_unwind(AssertUnwindSafe(|| vm.exec_raw(op))) {
            Ok(s) => s,
            Err(_) => {
                self.dead = true;
                "panic".to_string()
            }
        };
        let (writes, reads) = self.disk.take_logs();
        Outcome { res, writes, reads }
    }
    pub fn set_clock(&self, t: Timestamp) {
        self.clock.0.set(t);
    }
    pub fn image(&self) -> BTreeMap<u32, Blk> {
        self.disk.0.borrow().blocks.clone()
    }
}

/// Strip the `|R:...` part of a model response when reads are not compared.
pub fn strip_reads(line: &str) -> String {
    match line.rfind("|R:") {
        Some(i) => line[..i].to_string(),
        None => line.to_string(),
    }
}

/// Requests that load an image into the model driver (model disk and shadow disk alike).
pub fn load_image_lines(blocks: &BTreeMap<u32, Blk>) -> Vec<String> {
    let mut out = vec!["reset".to_string()];
    // run-length: consecutive identical blocks are sent once
    let mut it = blocks.iter().peekable();
    while let Some((&i, b)) = it.next() {
        let mut n = 1u32;
        while let Some((&j, b2)) = it.peek() {
            if j == i + n && *b2 == b {
                n += 1;
                it.next();
            } else {
                break;
            }
        }
        if b.iter().all(|x| *x == 0) {
            continue;
        }
        if n == 1 {
            out.push(format!("blk {} {}", i, hex(b)));
        } else {
            out.push(format!("blkrep {} {} {}", i, n, hex(b)));
        }
    }
    out
}

pub fn geom_line(l: &mkfs::Layout) -> String {
    format!(
        "geom {} {} {} {} {} {} {} {} {} {} {} {} {}",
        if l.fat32 { "32" } else { "16" },
        l.lba_start, l.total_blocks, l.bpc, l.fat_start, l.fat_size, l.num_fats, l.root_start, l.root_blocks, l.first_data, l.clusters, l.root_cluster, l.info_block
    )
}

pub fn shadow_lines(writes: &[(u32, Blk)]) -> Vec<String> {
    writes.iter().map(|(i, b)| format!("sw {} {}", i, hex(b))).collect()
}

/// Send setup + ops to the model and return its response per op.
pub fn model_history(model: &mut Model, setup: &[String], ops: &[String]) -> Vec<String> {
    let mut all: Vec<String> = setup.to_vec();
    all.extend_from_slice(ops);
    let resp = model.batch(&all);
    resp[setup.len()..].to_vec()
}
