//! The compiled Lean model driver (`sdmodel`) as a child process speaking the line protocol.
use std::io::{BufRead, BufReader, Write};
use std::process::{Child, ChildStdin, ChildStdout, Command, Stdio};

pub struct Model {
    child: Child,
    stdin: ChildStdin,
    stdout: BufReader<ChildStdout>,
    pub requests: u64,
}

impl Model {
    pub fn spawn(path: &str) -> Model {
        let mut child = Command::new(path)
            .stdin(Stdio::piped())
            .stdout(Stdio::piped())
            .spawn()
            .unwrap_or_else(|e| {
                eprintln!("cannot start model driver {path}: {e}");
                std::process::exit(2)
            });
        let stdin = child.stdin.take().unwrap();
        let stdout = BufReader::with_capacity(1 << 20, child.stdout.take().unwrap());
        Model { child, stdin, stdout, requests: 0 }
    }
    /// Send a batch of request lines; returns one response per request.
    /// Requests go out in chunks small enough to fit the pipe, each followed by a `sync`
    /// barrier, so that neither side can block on a full pipe while the other is writing.
    pub fn batch(&mut self, lines: &[String]) -> Vec<String> {
        let mut out = Vec::with_capacity(lines.len());
        let mut i = 0;
        while i < lines.len() {
            let mut buf = String::new();
            let mut n = 0;
            while i < lines.len() && (n == 0 || buf.len() + lines[i].len() < 40_000) {
                buf.push_str(&lines[i]);
                buf.push('\n');
                i += 1;
                n += 1;
            }
            buf.push_str("sync\n");
            self.stdin.write_all(buf.as_bytes()).expect("model driver died (write)");
            self.stdin.flush().unwrap();
            for k in 0..n + 1 {
                let mut l = String::new();
                let got = self.stdout.read_line(&mut l).expect("model driver died (read)");
                if got == 0 {
                    eprintln!("model driver closed its output");
                    std::process::exit(2);
                }
                if k < n {
                    out.push(l.trim_end().to_string());
                }
            }
        }
        self.requests += lines.len() as u64;
        out
    }
    pub fn one(&mut self, line: &str) -> String {
        self.batch(&[line.to_string()]).pop().unwrap()
    }
}

impl Drop for Model {
    fn drop(&mut self) {
        let _ = self.child.kill();
        let _ = self.child.wait();
    }
}
