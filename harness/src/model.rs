//! The compiled Lean model driver (`sdmodel`) as a child process speaking the line protocol.
use std::io::{BufRead, BufReader, Write};
use std::process::{Child, ChildStdin, ChildStdout, Command, Stdio};

pub struct Model {
    child: Child,
    stdin: ChildStdin,
    stdout: BufReader<ChildStdout>,
    pub requests: u64,
}

impl Model {
    pub fn spawn(path: &str) -> Model {
        let mut child = Command::new(path)
            .stdin(Stdio::piped())
            .stdout(Stdio::piped())
            .spawn()
            .unwrap_or_else(|e| {
                eprintln!("cannot start model driver {path}: {e}");
                std::process::exit(2)
            });
        let stdin = child.stdin.take().unwrap();
        let stdout = BufReader::with_capacity(1 << 20, child.stdout.take().unwrap());
        Model { child, stdin, stdout, requests: 0 }
    }
    /// Send a batch of request lines; returns one response per request.
    pub fn batch(&mut self, lines: &[String]) -> Vec<String> {
        let mut buf = String::new();
        for l in lines {
            buf.push_str(l);
            buf.push('\n');
        }
        buf.push_str("sync\n");
        self.stdin.write_all(buf.as_bytes()).expect("model driver died (write)");
        self.stdin.flush().unwrap();
        let mut out = Vec::with_capacity(lines.len());
        for _ in 0..lines.len() + 1 {
            let mut l = String::new();
            let n = self.stdout.read_line(&mut l).expect("model driver died (read)");
            if n == 0 {
                eprintln!("model driver closed its output");
                std::process::exit(2);
            }
            out.push(l.trim_end().to_string());
        }
        out.pop();
        self.requests += lines.len() as u64;
        out
    }
    pub fn one(&mut self, line: &str) -> String {
        self.batch(&[line.to_string()]).pop().unwrap()
    }
}

impl Drop for Model {
    fn drop(&mut self) {
        let _ = self.child.kill();
        let _ = self.child.wait();
    }
}
