//! Independent FAT16/FAT32 + MBR formatter producing sparse in-memory disk
//! images, written from the Microsoft FAT specification ("fatgen103",
//! "FAT: General Overview of On-Disk Format", v1.03).  It deliberately does
//! not depend on, and is not derived from, the crate under test.
//!
//! * A block absent from `Image::blocks` is all-zero.
//! * Everything is deterministic: same inputs, same image.
//! * The FAT is kept as a `Vec<u32>` while building and serialised once.
//!
//! Section references below ("spec p.N") are to fatgen103.
#![allow(dead_code)]

use std::collections::BTreeMap;

pub type Blk = [u8; 512];

const SEC: u32 = 512;

/// FAT32 FSInfo free count / next free hint.
#[derive(Clone, Debug)]
pub enum InfoInit {
    Correct,
    Unknown,
    Stale { free: u32, next: u32 },
}

#[derive(Clone, Debug)]
pub struct Geometry {
    pub fat32: bool,
    /// sectors per cluster: 1,2,4,...,128
    pub bpc: u8,
    /// 1 or 2
    pub num_fats: u8,
    /// reserved sectors (>=1; FAT32 typically 32; must be > info sector index for FAT32)
    pub reserved: u16,
    /// FAT16 only (may be a non-multiple of 16)
    pub root_entries: u16,
    /// number of data clusters wanted (FAT16: 4085..=65524; FAT32: >= 65525)
    pub clusters: u32,
    /// extra sectors added to each FAT beyond the minimum (creates slack entries)
    pub fat_extra_sectors: u32,
    /// partition start (absolute)
    pub lba_start: u32,
    /// unused sectors in the partition after the last cluster
    pub tail_blocks: u32,
    /// FAT32: cluster of root dir (>=2)
    pub root_cluster: u32,
    /// FAT32 only
    pub info: InfoInit,
    /// MBR partition type byte
    pub part_type: u8,
    /// BPB volume label field
    pub label: [u8; 11],
    /// if true and total sectors < 65536, put total in the 16-bit field (else 32-bit field)
    pub use_total16: bool,
}

#[derive(Clone, Debug)]
pub enum Node {
    /// `ctime`/`mtime` are `(date, time)` raw FAT words.
    File {
        name: [u8; 11],
        lfn: Option<Vec<u16>>,
        attr: u8,
        content: Vec<u8>,
        ctime: (u16, u16),
        mtime: (u16, u16),
        fragmented: bool,
    },
    /// `extra_clusters`: extra zeroed clusters appended to the directory chain
    /// (not adjacent to the previous cluster of the chain when possible).
    Dir {
        name: [u8; 11],
        lfn: Option<Vec<u16>>,
        attr: u8,
        children: Vec<Node>,
        ctime: (u16, u16),
        mtime: (u16, u16),
        extra_clusters: u32,
    },
    /// a 0xE5 slot (rest of the slot plausible junk)
    Deleted { name: [u8; 11] },
    /// volume-label entry (attr 0x08), root only
    Label { name: [u8; 11] },
    /// arbitrary 32-byte slot placed verbatim
    RawSlot { bytes: [u8; 32] },
}

/// Everything absolute unless noted; computed from the spec formulas.
#[derive(Clone, Debug)]
pub struct Layout {
    pub fat32: bool,
    pub lba_start: u32,
    pub total_blocks: u32,
    pub bpc: u32,
    pub num_fats: u32,
    /// absolute
    pub fat_start: u32,
    pub fat_size: u32,
    /// absolute, FAT16 fixed root; 0 on FAT32
    pub root_start: u32,
    pub root_blocks: u32,
    /// absolute
    pub first_data: u32,
    pub clusters: u32,
    /// FAT32 root cluster; 0 on FAT16
    pub root_cluster: u32,
    /// absolute, FAT32; 0 on FAT16
    pub info_block: u32,
    /// FAT16 root entry count; 0 on FAT32
    pub root_entries: u32,
}

pub struct Image {
    pub blocks: BTreeMap<u32, Blk>,
    /// `(mbr slot 0..3, layout)`, in the order of the `PartSpec`s given
    pub layouts: Vec<(usize, Layout)>,
}

pub struct PartSpec {
    pub slot: usize,
    pub geom: Geometry,
    pub tree: Vec<Node>,
    /// if Some(seed): fill every FREE data cluster with plausible stale
    /// directory entries ("STALEnnn", in-range cluster numbers, non-zero first
    /// byte in every slot).
    pub dirty_free: Option<u8>,
    /// if Some(k): after placing the tree, allocate all but k free clusters to
    /// one big file "FILLER.BIN" in the root (last root entry).  The filler
    /// takes the lowest free clusters in ascending order, so the k clusters
    /// left free are the k highest free ones.
    pub keep_free: Option<u32>,
}

// ---------------------------------------------------------------------------
// little helpers
// ---------------------------------------------------------------------------

fn put16(b: &mut [u8], off: usize, v: u16) {
    b[off..off + 2].copy_from_slice(&v.to_le_bytes());
}
fn put32(b: &mut [u8], off: usize, v: u32) {
    b[off..off + 4].copy_from_slice(&v.to_le_bytes());
}
fn get16(b: &[u8], off: usize) -> u16 {
    u16::from_le_bytes([b[off], b[off + 1]])
}
fn get32(b: &[u8], off: usize) -> u32 {
    u32::from_le_bytes([b[off], b[off + 1], b[off + 2], b[off + 3]])
}
fn div_ceil(a: u64, b: u64) -> u64 {
    (a + b - 1) / b
}

/// "FOO.TXT" -> b"FOO     TXT" (upper-cases ASCII, pads with spaces, truncates
/// over-long parts; "." and ".." handled).
pub fn short_name(s: &str) -> [u8; 11] {
    let mut out = [b' '; 11];
    if s == "." {
        out[0] = b'.';
        return out;
    }
    if s == ".." {
        out[0] = b'.';
        out[1] = b'.';
        return out;
    }
    let bytes = s.as_bytes();
    let (base, ext) = match bytes.iter().rposition(|&c| c == b'.') {
        Some(p) => (&bytes[..p], &bytes[p + 1..]),
        None => (bytes, &bytes[0..0]),
    };
    for (i, &c) in base.iter().take(8).enumerate() {
        out[i] = c.to_ascii_uppercase();
    }
    for (i, &c) in ext.iter().take(3).enumerate() {
        out[8 + i] = c.to_ascii_uppercase();
    }
    out
}

/// Spec p.28 `ChkSum`: rotate right by one, add next byte.
pub fn lfn_checksum(name: &[u8; 11]) -> u8 {
    let mut sum: u8 = 0;
    for &c in name.iter() {
        sum = (if sum & 1 != 0 { 0x80u8 } else { 0 })
            .wrapping_add(sum >> 1)
            .wrapping_add(c);
    }
    sum
}

/// Spec p.25: bits 15-9 years since 1980, 8-5 month, 4-0 day.
pub fn fat_date(y: u16, m: u16, d: u16) -> u16 {
    (y.wrapping_sub(1980) & 0x7F) << 9 | (m & 0x0F) << 5 | (d & 0x1F)
}

/// Spec p.25: bits 15-11 hours, 10-5 minutes, 4-0 two-second count.
pub fn fat_time(h: u16, mi: u16, s: u16) -> u16 {
    (h & 0x1F) << 11 | (mi & 0x3F) << 5 | ((s / 2) & 0x1F)
}

/// Absolute first block of cluster `c` (spec p.13 FirstSectorofCluster).
pub fn cluster_to_block(l: &Layout, c: u32) -> u32 {
    l.first_data + (c - 2) * l.bpc
}

fn blk_of(img: &BTreeMap<u32, Blk>, b: u32) -> Blk {
    img.get(&b).copied().unwrap_or([0u8; 512])
}

/// Read FAT#1 entry for cluster `c` (FAT32 masked to 28 bits).
pub fn fat_get(img: &BTreeMap<u32, Blk>, l: &Layout, c: u32) -> u32 {
    let esz: u64 = if l.fat32 { 4 } else { 2 };
    let off = c as u64 * esz;
    let b = l.fat_start + (off / SEC as u64) as u32;
    let o = (off % SEC as u64) as usize;
    match img.get(&b) {
        None => 0,
        Some(blk) => {
            if l.fat32 {
                get32(blk, o) & 0x0FFF_FFFF
            } else {
                get16(blk, o) as u32
            }
        }
    }
}

// ---------------------------------------------------------------------------
// layout
// ---------------------------------------------------------------------------

fn check_geometry(g: &Geometry) {
    assert!(
        g.bpc.is_power_of_two(),
        "mkfs: bpc must be a power of two in 1..=128"
    );
    assert!(g.num_fats >= 1, "mkfs: num_fats must be >= 1");
    assert!(g.reserved >= 1, "mkfs: reserved must be >= 1");
    assert!(g.lba_start >= 1, "mkfs: partition may not cover the MBR");
    assert!(
        g.tail_blocks < g.bpc as u32,
        "mkfs: tail_blocks must be < bpc or CountofClusters would exceed `clusters`"
    );
    if g.fat32 {
        assert!(
            g.reserved >= 2,
            "mkfs: FAT32 needs reserved > FSInfo sector index (1)"
        );
        assert!(
            g.clusters >= 65525 && g.clusters <= 0x0FFF_FFF5,
            "mkfs: FAT32 needs 65525 <= clusters <= 0x0FFFFFF5"
        );
        assert!(
            g.root_cluster >= 2 && g.root_cluster < g.clusters + 2,
            "mkfs: root_cluster out of range"
        );
    } else {
        assert!(
            (4085..=65524).contains(&g.clusters),
            "mkfs: FAT16 needs 4085 <= clusters <= 65524"
        );
    }
}

/// Compute the on-disk layout for a geometry (spec p.13/14 formulas).
pub fn compute_layout(g: &Geometry) -> Layout {
    check_geometry(g);
    let esz: u64 = if g.fat32 { 4 } else { 2 };
    let root_entries: u32 = if g.fat32 { 0 } else { g.root_entries as u32 };
    // RootDirSectors = ((RootEntCnt * 32) + (BytsPerSec - 1)) / BytsPerSec
    let root_blocks = (root_entries * 32 + (SEC - 1)) / SEC;
    let fat_size64 =
        div_ceil((g.clusters as u64 + 2) * esz, SEC as u64) + g.fat_extra_sectors as u64;
    if !g.fat32 {
        assert!(fat_size64 <= 0xFFFF, "mkfs: FAT16 FATSz16 overflow");
    }
    let total64 = g.reserved as u64
        + g.num_fats as u64 * fat_size64
        + root_blocks as u64
        + g.clusters as u64 * g.bpc as u64
        + g.tail_blocks as u64;
    assert!(
        g.lba_start as u64 + total64 <= u32::MAX as u64,
        "mkfs: volume does not fit in 32-bit LBA space"
    );
    let fat_size = fat_size64 as u32;
    let fat_start = g.lba_start + g.reserved as u32;
    let after_fats = fat_start + g.num_fats as u32 * fat_size;
    Layout {
        fat32: g.fat32,
        lba_start: g.lba_start,
        total_blocks: total64 as u32,
        bpc: g.bpc as u32,
        num_fats: g.num_fats as u32,
        fat_start,
        fat_size,
        root_start: if g.fat32 { 0 } else { after_fats },
        root_blocks,
        first_data: after_fats + root_blocks,
        clusters: g.clusters,
        root_cluster: if g.fat32 { g.root_cluster } else { 0 },
        info_block: if g.fat32 { g.lba_start + 1 } else { 0 },
        root_entries,
    }
}

// ---------------------------------------------------------------------------
// directory slot builders
// ---------------------------------------------------------------------------

type Slot = [u8; 32];

fn short_entry(
    fat32: bool,
    name: &[u8; 11],
    attr: u8,
    ctime: (u16, u16),
    mtime: (u16, u16),
    cluster: u32,
    size: u32,
) -> Slot {
    let mut e = [0u8; 32];
    e[0..11].copy_from_slice(name);
    e[11] = attr;
    e[12] = 0; // NTRes
    e[13] = 0; // CrtTimeTenth
    put16(&mut e, 14, ctime.1); // CrtTime
    put16(&mut e, 16, ctime.0); // CrtDate
    put16(&mut e, 18, mtime.0); // LstAccDate
    put16(&mut e, 20, if fat32 { (cluster >> 16) as u16 } else { 0 }); // FstClusHI
    put16(&mut e, 22, mtime.1); // WrtTime
    put16(&mut e, 24, mtime.0); // WrtDate
    put16(&mut e, 26, (cluster & 0xFFFF) as u16); // FstClusLO
    put32(&mut e, 28, size);
    e
}

/// Byte offsets of the 13 UTF-16 units inside a long-name slot (spec p.27).
const LFN_OFFS: [usize; 13] = [1, 3, 5, 7, 9, 14, 16, 18, 20, 22, 24, 28, 30];

fn lfn_frag_count(units: &[u16]) -> usize {
    (units.len() + 12) / 13
}

/// Long-name slots in on-disk order (last fragment first, with 0x40).
fn lfn_slots(units: &[u16], cksum: u8) -> Vec<Slot> {
    let n = lfn_frag_count(units);
    assert!(n <= 0x3F, "mkfs: long name too long");
    let mut out = Vec::with_capacity(n);
    for ord in (1..=n).rev() {
        let mut e = [0u8; 32];
        e[0] = ord as u8 | if ord == n { 0x40 } else { 0 };
        e[11] = 0x0F; // ATTR_LONG_NAME
        e[12] = 0; // type
        e[13] = cksum;
        // 26..28 FstClusLO = 0
        for (k, &off) in LFN_OFFS.iter().enumerate() {
            let idx = (ord - 1) * 13 + k;
            let u = if idx < units.len() {
                units[idx]
            } else if idx == units.len() {
                0x0000 // NUL terminator
            } else {
                0xFFFF // padding
            };
            put16(&mut e, off, u);
        }
        out.push(e);
    }
    out
}

fn node_slot_count(n: &Node) -> usize {
    match n {
        Node::File { lfn, .. } | Node::Dir { lfn, .. } => {
            1 + lfn.as_ref().map_or(0, |u| lfn_frag_count(u))
        }
        _ => 1,
    }
}

fn nodes_slot_count(nodes: &[Node]) -> usize {
    nodes.iter().map(node_slot_count).sum()
}

const JUNK_DATE: u16 = (2001 - 1980) << 9 | 2 << 5 | 3; // 2001-02-03
const JUNK_TIME: u16 = 4 << 11 | 5 << 5 | 3; // 04:05:06

// ---------------------------------------------------------------------------
// volume builder
// ---------------------------------------------------------------------------

struct Vol<'a> {
    l: Layout,
    eoc: u32,
    fat: Vec<u32>,
    /// every cluster number below `low` is in use
    low: u32,
    blocks: &'a mut BTreeMap<u32, Blk>,
}

impl<'a> Vol<'a> {
    fn limit(&self) -> u32 {
        self.l.clusters + 2
    }

    fn cluster_bytes(&self) -> usize {
        (self.l.bpc * SEC) as usize
    }

    /// Allocate the lowest free cluster.
    fn take_lowest(&mut self) -> u32 {
        let lim = self.limit();
        while self.low < lim && self.fat[self.low as usize] != 0 {
            self.low += 1;
        }
        assert!(self.low < lim, "mkfs: volume full");
        let c = self.low;
        self.fat[c as usize] = self.eoc;
        c
    }

    /// Allocate the first free cluster at or after `start`; wrap to the
    /// lowest free cluster if there is none.
    fn take_from(&mut self, start: u32) -> u32 {
        let lim = self.limit();
        let mut c = start.max(2);
        while c < lim && self.fat[c as usize] != 0 {
            c += 1;
        }
        if c < lim {
            self.fat[c as usize] = self.eoc;
            c
        } else {
            self.take_lowest()
        }
    }

    fn link(&mut self, chain: &[u32]) {
        for w in chain.windows(2) {
            self.fat[w[0] as usize] = w[1];
        }
        if let Some(&last) = chain.last() {
            self.fat[last as usize] = self.eoc;
        }
    }

    /// Allocate and link a chain of `n` clusters.  Non-fragmented: the `n`
    /// lowest free clusters in ascending order.  Fragmented: clusters picked
    /// leaving a one-cluster gap after each, then adjacent pairs swapped so
    /// the chain also jumps backwards (p1,p0,p3,p2,...).
    fn alloc_chain(&mut self, n: usize, fragmented: bool) -> Vec<u32> {
        let mut chain = Vec::with_capacity(n);
        for i in 0..n {
            let c = if fragmented && i > 0 {
                let prev: u32 = chain[i - 1];
                self.take_from(prev.saturating_add(2))
            } else {
                self.take_lowest()
            };
            chain.push(c);
        }
        if fragmented {
            for pair in chain.chunks_mut(2) {
                if pair.len() == 2 {
                    pair.swap(0, 1);
                }
            }
        }
        self.link(&chain);
        chain
    }

    /// Write `data` starting at absolute block `first`, skipping all-zero
    /// 512-byte chunks (absent == zero).
    fn write_abs(&mut self, first: u32, data: &[u8]) {
        for (i, chunk) in data.chunks(512).enumerate() {
            if chunk.iter().all(|&b| b == 0) {
                continue;
            }
            let mut b = [0u8; 512];
            b[..chunk.len()].copy_from_slice(chunk);
            self.blocks.insert(first + i as u32, b);
        }
    }

    fn write_chain(&mut self, chain: &[u32], data: &[u8]) {
        let cb = self.cluster_bytes();
        assert!(data.len() <= chain.len() * cb);
        for (i, chunk) in data.chunks(cb).enumerate() {
            let first = cluster_to_block(&self.l, chain[i]);
            self.write_abs(first, chunk);
        }
    }

    fn write_slots_chain(&mut self, chain: &[u32], slots: &[Slot]) {
        let mut bytes = Vec::with_capacity(slots.len() * 32);
        for s in slots {
            bytes.extend_from_slice(s);
        }
        self.write_chain(chain, &bytes);
    }

    /// Place the children of a directory (allocating and writing everything
    /// they own) and return the directory's slots, `dots` first.
    /// `self_for_children` is what the children's ".." must point at
    /// (0 when this directory is the root).
    fn place_dir(
        &mut self,
        children: &[Node],
        self_for_children: u32,
        dots: Option<[Slot; 2]>,
    ) -> Vec<Slot> {
        let fat32 = self.l.fat32;
        let cb = self.cluster_bytes();
        let mut slots: Vec<Slot> = Vec::new();
        if let Some(d) = dots {
            slots.push(d[0]);
            slots.push(d[1]);
        }
        for child in children {
            match child {
                Node::File {
                    name,
                    lfn,
                    attr,
                    content,
                    ctime,
                    mtime,
                    fragmented,
                } => {
                    assert!(content.len() as u64 <= u32::MAX as u64);
                    let n = (content.len() + cb - 1) / cb;
                    let chain = self.alloc_chain(n, *fragmented);
                    self.write_chain(&chain, content);
                    let first = chain.first().copied().unwrap_or(0);
                    if let Some(u) = lfn {
                        slots.extend(lfn_slots(u, lfn_checksum(name)));
                    }
                    slots.push(short_entry(
                        fat32,
                        name,
                        *attr,
                        *ctime,
                        *mtime,
                        first,
                        content.len() as u32,
                    ));
                }
                Node::Dir {
                    name,
                    lfn,
                    attr,
                    children: sub,
                    ctime,
                    mtime,
                    extra_clusters,
                } => {
                    let nslots = 2 + nodes_slot_count(sub);
                    let n = ((nslots * 32 + cb - 1) / cb).max(1);
                    // own chain first, then the extra clusters, then children
                    let mut chain = self.alloc_chain(n, false);
                    for _ in 0..*extra_clusters {
                        let last = *chain.last().unwrap();
                        let c = self.take_from(last.saturating_add(2));
                        chain.push(c);
                    }
                    self.link(&chain);
                    let own = chain[0];
                    let dot = short_entry(fat32, &short_name("."), 0x10, *ctime, *mtime, own, 0);
                    let dotdot = short_entry(
                        fat32,
                        &short_name(".."),
                        0x10,
                        *ctime,
                        *mtime,
                        self_for_children,
                        0,
                    );
                    let sub_slots = self.place_dir(sub, own, Some([dot, dotdot]));
                    debug_assert_eq!(sub_slots.len(), nslots);
                    self.write_slots_chain(&chain, &sub_slots);
                    if let Some(u) = lfn {
                        slots.extend(lfn_slots(u, lfn_checksum(name)));
                    }
                    slots.push(short_entry(
                        fat32,
                        name,
                        *attr | 0x10,
                        *ctime,
                        *mtime,
                        own,
                        0,
                    ));
                }
                Node::Deleted { name } => {
                    let mut nm = *name;
                    nm[0] = 0xE5;
                    slots.push(short_entry(
                        fat32,
                        &nm,
                        0x20,
                        (JUNK_DATE, JUNK_TIME),
                        (JUNK_DATE, JUNK_TIME),
                        3,
                        0x1234,
                    ));
                }
                Node::Label { name } => {
                    slots.push(short_entry(
                        fat32,
                        name,
                        0x08,
                        (0, 0),
                        (JUNK_DATE, JUNK_TIME),
                        0,
                        0,
                    ));
                }
                Node::RawSlot { bytes } => slots.push(*bytes),
            }
        }
        slots
    }

    fn free_count(&self) -> u32 {
        self.fat[2..].iter().filter(|&&e| e == 0).count() as u32
    }

    fn lowest_free(&self) -> Option<u32> {
        self.fat[2..]
            .iter()
            .position(|&e| e == 0)
            .map(|p| p as u32 + 2)
    }

    fn serialise_fat(&mut self) {
        let esz = if self.l.fat32 { 4 } else { 2 };
        let per = 512 / esz;
        let nsec = (self.fat.len() + per - 1) / per;
        debug_assert!(nsec as u32 <= self.l.fat_size);
        for s in 0..nsec {
            let ents = &self.fat[s * per..((s + 1) * per).min(self.fat.len())];
            if ents.iter().all(|&e| e == 0) {
                continue;
            }
            let mut b = [0u8; 512];
            for (i, &e) in ents.iter().enumerate() {
                if self.l.fat32 {
                    put32(&mut b, i * 4, e & 0x0FFF_FFFF);
                } else {
                    put16(&mut b, i * 2, e as u16);
                }
            }
            for copy in 0..self.l.num_fats {
                self.blocks
                    .insert(self.l.fat_start + copy * self.l.fat_size + s as u32, b);
            }
        }
    }

    fn dirty_free(&mut self, seed: u8) {
        let mut rng: u32 = (seed as u32).wrapping_mul(0x9E37_79B9) ^ 0xA5A5_5A5A;
        if rng == 0 {
            rng = 1;
        }
        let mut next = move || {
            // xorshift32
            rng ^= rng << 13;
            rng ^= rng >> 17;
            rng ^= rng << 5;
            rng
        };
        let mut counter: u32 = seed as u32;
        for c in 2..self.limit() {
            if self.fat[c as usize] != 0 {
                continue;
            }
            let first = cluster_to_block(&self.l, c);
            for b in 0..self.l.bpc {
                let mut blk = [0u8; 512];
                for s in 0..16 {
                    let r = next();
                    let r2 = next();
                    let mut name = [b' '; 11];
                    let txt = format!("STALE{:03}", counter % 1000);
                    name[..8].copy_from_slice(txt.as_bytes());
                    counter = counter.wrapping_add(1);
                    let is_dir = r % 4 == 0;
                    if !is_dir && r % 4 != 1 {
                        name[8..11].copy_from_slice(if r % 4 == 2 { b"TXT" } else { b"BIN" });
                    }
                    let cluster = 2 + (r >> 8) % self.l.clusters;
                    let size = if is_dir { 0 } else { 1 + r2 % 100_000 };
                    let date = fat_date(
                        2010 + (r2 >> 20) as u16 % 10,
                        1 + (r2 >> 8) as u16 % 12,
                        1 + (r2 >> 12) as u16 % 28,
                    );
                    let time = fat_time(
                        (r2 >> 16) as u16 % 24,
                        (r2 >> 4) as u16 % 60,
                        (r2 >> 2) as u16 % 60,
                    );
                    let e = short_entry(
                        self.l.fat32,
                        &name,
                        if is_dir { 0x10 } else { 0x20 },
                        (date, time),
                        (date, time),
                        cluster,
                        size,
                    );
                    blk[s * 32..s * 32 + 32].copy_from_slice(&e);
                }
                self.blocks.insert(first + b, blk);
            }
        }
    }
}

fn boot_sector(g: &Geometry, l: &Layout) -> Blk {
    let mut b = [0u8; 512];
    b[0] = 0xEB;
    b[1] = if g.fat32 { 0x58 } else { 0x3C };
    b[2] = 0x90;
    b[3..11].copy_from_slice(b"MSWIN4.1");
    put16(&mut b, 11, SEC as u16); // BytsPerSec
    b[13] = g.bpc; // SecPerClus
    put16(&mut b, 14, g.reserved); // RsvdSecCnt
    b[16] = g.num_fats; // NumFATs
    put16(&mut b, 17, l.root_entries as u16); // RootEntCnt
    if g.use_total16 && l.total_blocks < 0x10000 {
        put16(&mut b, 19, l.total_blocks as u16); // TotSec16
        put32(&mut b, 32, 0);
    } else {
        put16(&mut b, 19, 0);
        put32(&mut b, 32, l.total_blocks); // TotSec32
    }
    b[21] = 0xF8; // Media
    put16(&mut b, 22, if g.fat32 { 0 } else { l.fat_size as u16 }); // FATSz16
    put16(&mut b, 24, 63); // SecPerTrk
    put16(&mut b, 26, 255); // NumHeads
    put32(&mut b, 28, g.lba_start); // HiddSec
    let vol_id: u32 = 0x1234_0000 ^ g.clusters ^ (g.lba_start << 8);
    if g.fat32 {
        put32(&mut b, 36, l.fat_size); // FATSz32
        put16(&mut b, 40, 0); // ExtFlags
        put16(&mut b, 42, 0); // FSVer
        put32(&mut b, 44, g.root_cluster); // RootClus
        put16(&mut b, 48, 1); // FSInfo
        put16(&mut b, 50, if g.reserved > 6 { 6 } else { 0 }); // BkBootSec
        b[64] = 0x80; // DrvNum
        b[65] = 0;
        b[66] = 0x29; // BootSig
        put32(&mut b, 67, vol_id);
        b[71..82].copy_from_slice(&g.label);
        b[82..90].copy_from_slice(b"FAT32   ");
    } else {
        b[36] = 0x80; // DrvNum
        b[37] = 0;
        b[38] = 0x29; // BootSig
        put32(&mut b, 39, vol_id);
        b[43..54].copy_from_slice(&g.label);
        b[54..62].copy_from_slice(b"FAT16   ");
    }
    b[510] = 0x55;
    b[511] = 0xAA;
    b
}

fn fsinfo_sector(free: u32, next: u32) -> Blk {
    let mut b = [0u8; 512];
    put32(&mut b, 0, 0x4161_5252); // LeadSig "RRaA"
    put32(&mut b, 484, 0x6141_7272); // StrucSig "rrAa"
    put32(&mut b, 488, free);
    put32(&mut b, 492, next);
    put32(&mut b, 508, 0xAA55_0000); // TrailSig
    b
}

fn format_part(blocks: &mut BTreeMap<u32, Blk>, p: &PartSpec) -> Layout {
    let g = &p.geom;
    let l = compute_layout(g);
    let media: u32 = 0xF8;
    let eoc: u32 = if g.fat32 { 0x0FFF_FFFF } else { 0xFFFF };
    let mut fat = vec![0u32; g.clusters as usize + 2];
    fat[0] = if g.fat32 {
        0x0FFF_FF00 | media
    } else {
        0xFF00 | media
    };
    fat[1] = eoc;
    let mut v = Vol {
        l: l.clone(),
        eoc,
        fat,
        low: 2,
        blocks,
    };
    let cb = v.cluster_bytes();

    // Root directory: reserve its storage first, then place the tree.
    let filler_slots = if p.keep_free.is_some() { 1 } else { 0 };
    let root_slot_count = nodes_slot_count(&p.tree) + filler_slots;
    let root_chain: Vec<u32> = if g.fat32 {
        let n = ((root_slot_count * 32 + cb - 1) / cb).max(1);
        let mut chain = vec![g.root_cluster];
        v.fat[g.root_cluster as usize] = eoc;
        for _ in 1..n {
            let c = v.take_lowest();
            chain.push(c);
        }
        v.link(&chain);
        chain
    } else {
        assert!(
            root_slot_count <= l.root_entries as usize,
            "mkfs: FAT16 root directory too small for the tree"
        );
        Vec::new()
    };

    let mut root_slots = v.place_dir(&p.tree, 0, None);

    if let Some(k) = p.keep_free {
        let free = v.free_count();
        assert!(free >= k, "mkfs: keep_free larger than the free space left");
        let n = (free - k) as usize;
        let chain = v.alloc_chain(n, false);
        let size = (n as u64 * cb as u64).min(u32::MAX as u64) as u32;
        root_slots.push(short_entry(
            g.fat32,
            &short_name("FILLER.BIN"),
            0x20,
            (JUNK_DATE, JUNK_TIME),
            (JUNK_DATE, JUNK_TIME),
            chain.first().copied().unwrap_or(0),
            size,
        ));
        debug_assert_eq!(v.free_count(), k);
    }
    debug_assert_eq!(root_slots.len(), root_slot_count);

    if g.fat32 {
        v.write_slots_chain(&root_chain, &root_slots);
    } else {
        let mut bytes = Vec::with_capacity(root_slots.len() * 32);
        for s in &root_slots {
            bytes.extend_from_slice(s);
        }
        v.write_abs(l.root_start, &bytes);
    }

    // Reserved area.
    let bs = boot_sector(g, &l);
    v.blocks.insert(l.lba_start, bs);
    if g.fat32 {
        let (free, next) = match g.info {
            InfoInit::Correct => (v.free_count(), v.lowest_free().unwrap_or(0xFFFF_FFFF)),
            InfoInit::Unknown => (0xFFFF_FFFF, 0xFFFF_FFFF),
            InfoInit::Stale { free, next } => (free, next),
        };
        let fi = fsinfo_sector(free, next);
        v.blocks.insert(l.info_block, fi);
        if g.reserved > 6 {
            v.blocks.insert(l.lba_start + 6, bs);
        }
        if g.reserved > 7 {
            v.blocks.insert(l.lba_start + 7, fi);
        }
    }

    if let Some(seed) = p.dirty_free {
        v.dirty_free(seed);
    }
    v.serialise_fat();
    l
}

/// Build an image: MBR in block 0 plus one formatted volume per `PartSpec`.
pub fn format(parts: &[PartSpec]) -> Image {
    let mut blocks: BTreeMap<u32, Blk> = BTreeMap::new();
    let mut mbr = [0u8; 512];
    let mut layouts: Vec<(usize, Layout)> = Vec::new();
    for p in parts {
        assert!(p.slot < 4, "mkfs: MBR slot out of range");
        assert!(
            layouts.iter().all(|(s, _)| *s != p.slot),
            "mkfs: MBR slot used twice"
        );
        let l = format_part(&mut blocks, p);
        for (_, o) in &layouts {
            let a0 = l.lba_start as u64;
            let a1 = a0 + l.total_blocks as u64;
            let b0 = o.lba_start as u64;
            let b1 = b0 + o.total_blocks as u64;
            assert!(a1 <= b0 || b1 <= a0, "mkfs: partitions overlap");
        }
        let e = 446 + 16 * p.slot;
        mbr[e] = 0x00; // status
        mbr[e + 4] = p.geom.part_type;
        put32(&mut mbr, e + 8, l.lba_start);
        put32(&mut mbr, e + 12, l.total_blocks);
        layouts.push((p.slot, l));
    }
    mbr[510] = 0x55;
    mbr[511] = 0xAA;
    blocks.insert(0, mbr);
    Image { blocks, layouts }
}

// ---------------------------------------------------------------------------
// minimal spec-following reader (for self-test and as an oracle)
// ---------------------------------------------------------------------------

fn is_eoc(l: &Layout, v: u32) -> bool {
    if l.fat32 {
        v >= 0x0FFF_FFF8
    } else {
        v >= 0xFFF8
    }
}

/// Follow FAT#1 from `first` to end-of-chain.  `None` on a free entry, an
/// out-of-range number, a bad-cluster mark or a loop.
pub fn spec_chain(img: &BTreeMap<u32, Blk>, l: &Layout, first: u32) -> Option<Vec<u32>> {
    let mut out = Vec::new();
    let mut c = first;
    loop {
        if c < 2 || c >= l.clusters + 2 {
            return None;
        }
        out.push(c);
        if out.len() > l.clusters as usize {
            return None;
        }
        let n = fat_get(img, l, c);
        if is_eoc(l, n) {
            return Some(out);
        }
        c = n;
    }
}

fn read_chain_bytes(img: &BTreeMap<u32, Blk>, l: &Layout, first: u32) -> Option<Vec<u8>> {
    let chain = spec_chain(img, l, first)?;
    let mut out = Vec::with_capacity(chain.len() * (l.bpc * SEC) as usize);
    for c in chain {
        let b0 = cluster_to_block(l, c);
        for b in 0..l.bpc {
            out.extend_from_slice(&blk_of(img, b0 + b));
        }
    }
    Some(out)
}

/// `None` = the root directory.
fn dir_bytes(img: &BTreeMap<u32, Blk>, l: &Layout, dir: Option<u32>) -> Option<Vec<u8>> {
    match dir {
        Some(c) => read_chain_bytes(img, l, c),
        None if l.fat32 => read_chain_bytes(img, l, l.root_cluster),
        None => {
            let mut out = Vec::new();
            for b in 0..l.root_blocks {
                out.extend_from_slice(&blk_of(img, l.root_start + b));
            }
            out.truncate(l.root_entries as usize * 32);
            Some(out)
        }
    }
}

fn parse_dir(l: &Layout, bytes: &[u8]) -> Vec<([u8; 11], u8, u32, u32)> {
    let mut out = Vec::new();
    for s in bytes.chunks_exact(32) {
        if s[0] == 0x00 {
            break;
        }
        if s[0] == 0xE5 {
            continue;
        }
        let attr = s[11];
        if attr & 0x0F == 0x0F {
            continue;
        }
        if attr & 0x08 != 0 {
            continue;
        }
        let mut name = [0u8; 11];
        name.copy_from_slice(&s[0..11]);
        let lo = get16(s, 26) as u32;
        let hi = if l.fat32 { get16(s, 20) as u32 } else { 0 };
        out.push((name, attr, hi << 16 | lo, get32(s, 28)));
    }
    out
}

/// Resolve a path of directory names from the root. `Some(None)` = root.
fn walk(img: &BTreeMap<u32, Blk>, l: &Layout, path: &[[u8; 11]]) -> Option<Option<u32>> {
    let mut cur: Option<u32> = None;
    for comp in path {
        let ents = parse_dir(l, &dir_bytes(img, l, cur)?);
        let e = ents
            .iter()
            .find(|e| &e.0 == comp && e.1 & 0x10 != 0)?;
        cur = if e.2 == 0 { None } else { Some(e.2) };
    }
    Some(cur)
}

/// All raw 32-byte slots of the directory at `path` (empty path = root),
/// including free/deleted/LFN slots, up to the end of its storage.
pub fn spec_dir_raw(
    img: &BTreeMap<u32, Blk>,
    layout: &Layout,
    path: &[[u8; 11]],
) -> Option<Vec<[u8; 32]>> {
    let dir = walk(img, layout, path)?;
    let bytes = dir_bytes(img, layout, dir)?;
    Some(
        bytes
            .chunks_exact(32)
            .map(|s| {
                let mut a = [0u8; 32];
                a.copy_from_slice(s);
                a
            })
            .collect(),
    )
}

/// List the directory at `path` (empty path = root): `(name, attr, cluster,
/// size)` of every short entry, "." and ".." included; stops at the first
/// 0x00 slot, skips 0xE5, LFN and volume-label slots.
pub fn spec_list_dir(
    img: &BTreeMap<u32, Blk>,
    layout: &Layout,
    path: &[[u8; 11]],
) -> Option<Vec<([u8; 11], u8, u32, u32)>> {
    let dir = walk(img, layout, path)?;
    Some(parse_dir(layout, &dir_bytes(img, layout, dir)?))
}

/// Read the file named by the last component of `path` (the preceding
/// components are directories from the root).
pub fn spec_read_file(
    img: &BTreeMap<u32, Blk>,
    layout: &Layout,
    path: &[[u8; 11]],
) -> Option<Vec<u8>> {
    let (fname, dirs) = path.split_last()?;
    let ents = spec_list_dir(img, layout, dirs)?;
    let e = ents.iter().find(|e| &e.0 == fname && e.1 & 0x10 == 0)?;
    let size = e.3 as usize;
    if e.2 == 0 {
        return if size == 0 { Some(Vec::new()) } else { None };
    }
    let mut data = read_chain_bytes(img, layout, e.2)?;
    if data.len() < size {
        return None;
    }
    data.truncate(size);
    Some(data)
}

// ---------------------------------------------------------------------------
// tests
// ---------------------------------------------------------------------------

#[cfg(test)]
mod tests {
    use super::*;

    fn utf16(s: &str) -> Vec<u16> {
        s.encode_utf16().collect()
    }

    fn pattern(len: usize, seed: u8) -> Vec<u8> {
        (0..len)
            .map(|i| ((i as u32).wrapping_mul(31).wrapping_add(seed as u32 * 7 + 1) % 251) as u8 + 1)
            .collect()
    }

    fn file(name: &str, len: usize, seed: u8, fragmented: bool) -> Node {
        Node::File {
            name: short_name(name),
            lfn: None,
            attr: 0x20,
            content: pattern(len, seed),
            ctime: (fat_date(2020, 1, 2), fat_time(3, 4, 6)),
            mtime: (fat_date(2021, 5, 6), fat_time(7, 8, 10)),
            fragmented,
        }
    }

    fn geom16(clusters: u32, bpc: u8, num_fats: u8, root_entries: u16) -> Geometry {
        Geometry {
            fat32: false,
            bpc,
            num_fats,
            reserved: 1,
            root_entries,
            clusters,
            fat_extra_sectors: 0,
            lba_start: 63,
            tail_blocks: 0,
            root_cluster: 0,
            info: InfoInit::Correct,
            part_type: 0x06,
            label: *b"TESTVOL    ",
            use_total16: true,
        }
    }

    fn geom32(clusters: u32, bpc: u8, root_cluster: u32) -> Geometry {
        Geometry {
            fat32: true,
            bpc,
            num_fats: 2,
            reserved: 32,
            root_entries: 0,
            clusters,
            fat_extra_sectors: 0,
            lba_start: 2048,
            tail_blocks: 0,
            root_cluster,
            info: InfoInit::Correct,
            part_type: 0x0C,
            label: *b"TESTVOL32  ",
            use_total16: false,
        }
    }

    fn tree(cb: usize) -> Vec<Node> {
        let mut many: Vec<Node> = Vec::new();
        many.push(file("INSUB.TXT", 700, 9, false));
        many.push(Node::Deleted {
            name: short_name("GONE.TXT"),
        });
        for i in 0..20 {
            many.push(file(&format!("F{:02}.DAT", i), 10 + i, i as u8, false));
        }
        many.push(Node::Dir {
            name: short_name("NESTED"),
            lfn: None,
            attr: 0x10,
            children: vec![
                file("DEEP.BIN", 3 * cb + 1, 11, true),
                file("DEEP0.BIN", 0, 0, false),
                Node::Dir {
                    name: short_name("LEAF"),
                    lfn: None,
                    attr: 0x10,
                    children: vec![],
                    ctime: (0, 0),
                    mtime: (0, 0),
                    extra_clusters: 0,
                },
            ],
            ctime: (fat_date(2022, 2, 2), 0),
            mtime: (fat_date(2022, 2, 3), 0),
            extra_clusters: 1,
        });
        vec![
            Node::Label {
                name: *b"TESTVOL    ",
            },
            file("EMPTY.BIN", 0, 1, false),
            file("ONE.BIN", 1, 2, false),
            Node::Deleted {
                name: short_name("DEL.TXT"),
            },
            file("A511.BIN", 511, 3, false),
            file("A512.BIN", 512, 4, true),
            file("A513.BIN", 513, 5, false),
            file("BIG.BIN", 3 * cb + 1, 6, true),
            Node::File {
                name: short_name("FRAGME~1.BIN"),
                lfn: Some(utf16("Fragmented file two.bin")),
                attr: 0x20,
                content: pattern(2 * cb + 5, 7),
                ctime: (fat_date(2020, 1, 2), fat_time(3, 4, 6)),
                mtime: (fat_date(2021, 5, 6), fat_time(7, 8, 10)),
                fragmented: true,
            },
            Node::Dir {
                name: short_name("ALONGD~1"),
                lfn: Some(utf16("A long directory name.d")),
                attr: 0x10,
                children: many,
                ctime: (fat_date(2019, 9, 9), fat_time(9, 9, 8)),
                mtime: (fat_date(2019, 9, 10), fat_time(9, 9, 8)),
                extra_clusters: 2,
            },
            file("LAST.BIN", cb, 8, false),
        ]
    }

    /// Every (path, content) in the tree, and every (dir path, names).
    fn expect_files(nodes: &[Node], prefix: &[[u8; 11]], out: &mut Vec<(Vec<[u8; 11]>, Vec<u8>)>) {
        for n in nodes {
            match n {
                Node::File { name, content, .. } => {
                    let mut p = prefix.to_vec();
                    p.push(*name);
                    out.push((p, content.clone()));
                }
                Node::Dir { name, children, .. } => {
                    let mut p = prefix.to_vec();
                    p.push(*name);
                    expect_files(children, &p, out);
                }
                _ => {}
            }
        }
    }

    fn expect_dirs(
        nodes: &[Node],
        prefix: &[[u8; 11]],
        out: &mut Vec<(Vec<[u8; 11]>, Vec<[u8; 11]>, u32)>,
        extra: u32,
    ) {
        let mut names = Vec::new();
        for n in nodes {
            match n {
                Node::File { name, .. } => names.push(*name),
                Node::Dir {
                    name,
                    children,
                    extra_clusters,
                    ..
                } => {
                    names.push(*name);
                    let mut p = prefix.to_vec();
                    p.push(*name);
                    expect_dirs(children, &p, out, *extra_clusters);
                }
                _ => {}
            }
        }
        out.push((prefix.to_vec(), names, extra));
    }

    /// CountofClusters and FAT type exactly as the spec determines them
    /// (p.14), from the written BPB only.
    fn bpb_count_of_clusters(bs: &Blk) -> (u32, bool, u32, u32) {
        let byts = get16(bs, 11) as u32;
        let spc = bs[13] as u32;
        let rsvd = get16(bs, 14) as u32;
        let nfats = bs[16] as u32;
        let rootent = get16(bs, 17) as u32;
        let root_dir_sectors = ((rootent * 32) + (byts - 1)) / byts;
        let fatsz = if get16(bs, 22) != 0 {
            get16(bs, 22) as u32
        } else {
            get32(bs, 36)
        };
        let totsec = if get16(bs, 19) != 0 {
            get16(bs, 19) as u32
        } else {
            get32(bs, 32)
        };
        let first_data = rsvd + nfats * fatsz + root_dir_sectors;
        let datasec = totsec - first_data;
        let count = datasec / spc;
        (count, count >= 65525, first_data, totsec)
    }

    fn check_volume(img: &Image, idx: usize, spec: &PartSpec) {
        let (slot, l) = &img.layouts[idx];
        let g = &spec.geom;
        let b = &img.blocks;
        assert_eq!(*slot, spec.slot);

        // MBR
        let mbr = blk_of(b, 0);
        assert_eq!((mbr[510], mbr[511]), (0x55, 0xAA));
        let e = 446 + 16 * slot;
        assert_eq!(mbr[e], 0);
        assert_eq!(mbr[e + 4], g.part_type);
        assert_eq!(get32(&mbr, e + 8), g.lba_start);
        assert_eq!(get32(&mbr, e + 12), l.total_blocks);

        // BPB
        let bs = blk_of(b, g.lba_start);
        assert_eq!((bs[510], bs[511]), (0x55, 0xAA));
        let (count, is32, first_data_rel, totsec) = bpb_count_of_clusters(&bs);
        assert_eq!(count, g.clusters, "CountofClusters");
        assert_eq!(is32, g.fat32);
        assert!(count >= 4085);
        assert_eq!(first_data_rel + g.lba_start, l.first_data);
        assert_eq!(totsec, l.total_blocks);
        assert_eq!(bs[21], 0xF8);
        if g.fat32 {
            assert_eq!(get16(&bs, 17), 0);
            assert_eq!(get16(&bs, 19), 0);
            assert_eq!(get16(&bs, 22), 0);
            assert_eq!(get32(&bs, 44), g.root_cluster);
            assert_eq!(get16(&bs, 48), 1);
            assert_eq!(&bs[82..90], b"FAT32   ");
            assert_eq!(&bs[71..82], &g.label);
        } else {
            assert_eq!(&bs[54..62], b"FAT16   ");
            assert_eq!(&bs[43..54], &g.label);
            if g.use_total16 && l.total_blocks < 65536 {
                assert_eq!(get16(&bs, 19) as u32, l.total_blocks);
                assert_eq!(get32(&bs, 32), 0);
            } else {
                assert_eq!(get16(&bs, 19), 0);
            }
        }
        // FAT must hold clusters+2 entries
        let esz = if g.fat32 { 4 } else { 2 };
        assert!(l.fat_size as u64 * 512 >= (g.clusters as u64 + 2) * esz);
        assert!(
            (l.fat_size - g.fat_extra_sectors - 1) as u64 * 512 < (g.clusters as u64 + 2) * esz,
            "FAT not minimal"
        );

        // FAT[0], FAT[1], copies identical, slack zero
        assert_eq!(
            fat_get(b, l, 0),
            if g.fat32 { 0x0FFF_FFF8 } else { 0xFFF8 }
        );
        assert_eq!(fat_get(b, l, 1), if g.fat32 { 0x0FFF_FFFF } else { 0xFFFF });
        for s in 0..l.fat_size {
            let first = blk_of(b, l.fat_start + s);
            for copy in 1..l.num_fats {
                assert!(
                    first == blk_of(b, l.fat_start + copy * l.fat_size + s),
                    "FAT copy {} differs at sector {}",
                    copy,
                    s
                );
            }
        }
        let per = 512 / esz as u32;
        for c in g.clusters + 2..l.fat_size * per {
            assert_eq!(fat_get(b, l, c), 0, "slack entry {} not zero", c);
        }

        // every FAT entry is free, EOC, or an in-range link; each cluster has
        // at most one predecessor
        let mut pred = vec![false; g.clusters as usize + 2];
        let mut free = 0u32;
        let mut lowest_free = None;
        for c in 2..g.clusters + 2 {
            let v = fat_get(b, l, c);
            if v == 0 {
                free += 1;
                if lowest_free.is_none() {
                    lowest_free = Some(c);
                }
            } else if !is_eoc(l, v) {
                assert!(v >= 2 && v < g.clusters + 2, "link out of range");
                assert!(!pred[v as usize], "cluster {} has two predecessors", v);
                pred[v as usize] = true;
            }
        }
        if let Some(k) = spec.keep_free {
            assert_eq!(free, k, "keep_free");
        }

        // FSInfo
        if g.fat32 {
            let fi = blk_of(b, l.info_block);
            assert_eq!(l.info_block, g.lba_start + 1);
            assert_eq!(get32(&fi, 0), 0x4161_5252);
            assert_eq!(get32(&fi, 484), 0x6141_7272);
            assert_eq!(get32(&fi, 508), 0xAA55_0000);
            match g.info {
                InfoInit::Correct => {
                    assert_eq!(get32(&fi, 488), free);
                    assert_eq!(get32(&fi, 492), lowest_free.unwrap_or(0xFFFF_FFFF));
                }
                InfoInit::Unknown => {
                    assert_eq!(get32(&fi, 488), 0xFFFF_FFFF);
                    assert_eq!(get32(&fi, 492), 0xFFFF_FFFF);
                }
                InfoInit::Stale { free, next } => {
                    assert_eq!(get32(&fi, 488), free);
                    assert_eq!(get32(&fi, 492), next);
                }
            }
        }

        // files read back
        let mut files = Vec::new();
        expect_files(&spec.tree, &[], &mut files);
        assert!(!files.is_empty());
        let cb = (l.bpc * 512) as usize;
        let mut used = vec![false; g.clusters as usize + 2];
        for (path, content) in &files {
            let got = spec_read_file(b, l, path).unwrap_or_else(|| panic!("read {:?}", path));
            assert!(&got == content, "content mismatch {:?}", path);
            // chain length is exactly ceil(len / cluster bytes)
            let (fname, dirs) = path.split_last().unwrap();
            let ents = spec_list_dir(b, l, dirs).unwrap();
            let e = ents.iter().find(|e| &e.0 == fname).unwrap();
            assert_eq!(e.3 as usize, content.len());
            if content.is_empty() {
                assert_eq!(e.2, 0);
            } else {
                let ch = spec_chain(b, l, e.2).unwrap();
                assert_eq!(ch.len(), (content.len() + cb - 1) / cb);
                for c in ch {
                    assert!(!used[c as usize], "cluster {} shared", c);
                    used[c as usize] = true;
                }
            }
        }

        // directories list back, with dots, chain sizes and zero tails
        let mut dirs = Vec::new();
        expect_dirs(&spec.tree, &[], &mut dirs, 0);
        for (path, names, extra) in &dirs {
            let ents = spec_list_dir(b, l, path).unwrap();
            let mut got: Vec<[u8; 11]> = ents.iter().map(|e| e.0).collect();
            let mut want = names.clone();
            if !path.is_empty() {
                assert_eq!(got[0], short_name("."));
                assert_eq!(got[1], short_name(".."));
                assert_eq!(ents[0].1, 0x10);
                assert_eq!(ents[1].1, 0x10);
                let own = walk(b, l, path).unwrap().unwrap();
                assert_eq!(ents[0].2, own);
                let parent = walk(b, l, &path[..path.len() - 1]).unwrap();
                assert_eq!(ents[1].2, parent.unwrap_or(0));
                got.drain(0..2);
                let raw = spec_dir_raw(b, l, path).unwrap();
                let ch = spec_chain(b, l, own).unwrap();
                let used_slots = raw.iter().position(|s| s[0] == 0).unwrap_or(raw.len());
                let need = ((used_slots * 32 + cb - 1) / cb).max(1);
                assert_eq!(ch.len(), need + *extra as usize, "dir chain len {:?}", path);
                for c in ch {
                    assert!(!used[c as usize], "cluster {} shared", c);
                    used[c as usize] = true;
                }
            } else if spec.keep_free.is_some() {
                want.push(short_name("FILLER.BIN"));
            }
            assert_eq!(got, want, "listing of {:?}", path);
            // after the first 0x00 slot everything is zero
            let raw = spec_dir_raw(b, l, path).unwrap();
            if let Some(p) = raw.iter().position(|s| s[0] == 0) {
                assert!(raw[p..].iter().all(|s| s.iter().all(|&x| x == 0)));
            }
        }
        if g.fat32 {
            for c in spec_chain(b, l, g.root_cluster).unwrap() {
                assert!(!used[c as usize]);
                used[c as usize] = true;
            }
        } else {
            assert_eq!(l.root_start, l.fat_start + l.num_fats * l.fat_size);
            assert_eq!(l.root_blocks, (g.root_entries as u32 * 32 + 511) / 512);
            assert_eq!(l.first_data, l.root_start + l.root_blocks);
        }
        if spec.keep_free.is_some() {
            let root = spec_list_dir(b, l, &[]).unwrap();
            let f = root
                .iter()
                .find(|e| e.0 == short_name("FILLER.BIN"))
                .unwrap();
            if f.2 != 0 {
                let ch = spec_chain(b, l, f.2).unwrap();
                assert_eq!(f.3 as u64, ch.len() as u64 * cb as u64);
                for c in ch {
                    assert!(!used[c as usize]);
                    used[c as usize] = true;
                }
            }
        }
        // used set == non-free set (no leaked / lost clusters)
        for c in 2..g.clusters + 2 {
            assert_eq!(
                used[c as usize],
                fat_get(b, l, c) != 0,
                "cluster {} accounting",
                c
            );
        }

        // no block outside the partition (except the MBR)
        for (&k, _) in b.iter() {
            assert!(
                k == 0
                    || img
                        .layouts
                        .iter()
                        .any(|(_, l)| k >= l.lba_start && k < l.lba_start + l.total_blocks),
                "stray block {}",
                k
            );
        }
    }

    fn check_lfn(img: &Image, idx: usize, path: &[[u8; 11]], short: [u8; 11], long: &str) {
        let l = &img.layouts[idx].1;
        let raw = spec_dir_raw(&img.blocks, l, path).unwrap();
        let pos = raw
            .iter()
            .position(|s| s[0..11] == short && s[11] & 0x0F != 0x0F)
            .unwrap();
        let units = utf16(long);
        let n = (units.len() + 12) / 13;
        assert!(pos >= n);
        let mut got: Vec<u16> = Vec::new();
        for ord in 1..=n {
            let s = &raw[pos - ord];
            assert_eq!(s[11], 0x0F);
            assert_eq!(s[12], 0);
            assert_eq!(s[13], lfn_checksum(&short));
            assert_eq!(get16(s, 26), 0);
            assert_eq!(s[0] & 0x3F, ord as u8);
            assert_eq!(s[0] & 0x40 != 0, ord == n);
            for &o in LFN_OFFS.iter() {
                got.push(get16(s, o));
            }
        }
        assert_eq!(&got[..units.len()], &units[..]);
        if units.len() % 13 != 0 {
            assert_eq!(got[units.len()], 0);
            assert!(got[units.len() + 1..].iter().all(|&u| u == 0xFFFF));
        }
    }

    fn is_fragmented(img: &Image, idx: usize, path: &[[u8; 11]]) -> bool {
        let l = &img.layouts[idx].1;
        let (f, d) = path.split_last().unwrap();
        let ents = spec_list_dir(&img.blocks, l, d).unwrap();
        let e = ents.iter().find(|e| &e.0 == f).unwrap();
        let ch = spec_chain(&img.blocks, l, e.2).unwrap();
        ch.windows(2).any(|w| w[1] != w[0] + 1)
    }

    fn full_check(spec: PartSpec) {
        let img = format(std::slice::from_ref(&spec));
        check_volume(&img, 0, &spec);
        check_lfn(
            &img,
            0,
            &[],
            short_name("FRAGME~1.BIN"),
            "Fragmented file two.bin",
        );
        check_lfn(
            &img,
            0,
            &[],
            short_name("ALONGD~1"),
            "A long directory name.d",
        );
        assert!(is_fragmented(&img, 0, &[short_name("BIG.BIN")]));
        assert!(is_fragmented(&img, 0, &[short_name("FRAGME~1.BIN")]));
        assert!(is_fragmented(
            &img,
            0,
            &[
                short_name("ALONGD~1"),
                short_name("NESTED"),
                short_name("DEEP.BIN")
            ]
        ));
        // determinism
        let img2 = format(std::slice::from_ref(&spec));
        assert!(img.blocks == img2.blocks);

        // dirty_free touches only free clusters, and all of them
        if spec.dirty_free.is_some() {
            let clean_spec = PartSpec {
                slot: spec.slot,
                geom: spec.geom.clone(),
                tree: spec.tree.clone(),
                dirty_free: None,
                keep_free: spec.keep_free,
            };
            let clean = format(std::slice::from_ref(&clean_spec));
            let l = &img.layouts[0].1;
            let mut touched = std::collections::BTreeSet::new();
            for (&k, v) in img.blocks.iter() {
                if blk_of(&clean.blocks, k) != *v {
                    assert!(k >= l.first_data, "dirty_free touched metadata block {}", k);
                    let c = 2 + (k - l.first_data) / l.bpc;
                    assert!(c < l.clusters + 2);
                    assert_eq!(fat_get(&img.blocks, l, c), 0, "dirty_free touched used cluster {}", c);
                    touched.insert(k);
                }
            }
            for (&k, _) in clean.blocks.iter() {
                assert!(img.blocks.contains_key(&k));
            }
            for c in 2..l.clusters + 2 {
                if fat_get(&img.blocks, l, c) == 0 {
                    for bb in 0..l.bpc {
                        let k = cluster_to_block(l, c) + bb;
                        assert!(touched.contains(&k));
                        let blk = blk_of(&img.blocks, k);
                        for s in blk.chunks(32) {
                            assert_eq!(&s[0..5], b"STALE");
                            let cl = get16(s, 26) as u32 | (get16(s, 20) as u32) << 16;
                            assert!(cl >= 2 && cl < l.clusters + 2);
                        }
                    }
                }
            }
        }
    }

    #[test]
    fn mkfs_fat16_variants() {
        for &bpc in &[1u8, 4] {
            for &nf in &[1u8, 2] {
                for &re in &[512u16, 40] {
                    for &(keep, dirty) in &[(None, None), (Some(7u32), Some(3u8)), (Some(0), None)] {
                        let mut g = geom16(4085, bpc, nf, re);
                        if bpc == 4 {
                            g.tail_blocks = 3;
                            g.fat_extra_sectors = 3;
                            g.reserved = 4;
                            g.use_total16 = nf == 1;
                        }
                        full_check(PartSpec {
                            slot: (bpc as usize + nf as usize) % 4,
                            geom: g,
                            tree: tree(bpc as usize * 512),
                            dirty_free: dirty,
                            keep_free: keep,
                        });
                    }
                }
            }
        }
    }

    #[test]
    fn mkfs_fat16_dirty_whole_volume_and_max() {
        full_check(PartSpec {
            slot: 0,
            geom: geom16(4085, 1, 2, 512),
            tree: tree(512),
            dirty_free: Some(0),
            keep_free: None,
        });
        full_check(PartSpec {
            slot: 3,
            geom: geom16(65524, 2, 2, 512),
            tree: tree(1024),
            dirty_free: None,
            keep_free: Some(1),
        });
    }

    #[test]
    fn mkfs_fat32_variants() {
        for &rc in &[2u32, 5] {
            for (i, info) in [
                InfoInit::Correct,
                InfoInit::Unknown,
                InfoInit::Stale { free: 0, next: 2 },
            ]
            .iter()
            .enumerate()
            {
                let mut g = geom32(65525, 1, rc);
                g.info = info.clone();
                let (keep, dirty) = match i {
                    0 => (None, None),
                    1 => (Some(9), Some(200)),
                    _ => (Some(0), None),
                };
                full_check(PartSpec {
                    slot: 1,
                    geom: g,
                    tree: tree(512),
                    dirty_free: dirty,
                    keep_free: keep,
                });
            }
        }
        // a root directory that needs several clusters around root_cluster 5
        let mut t = tree(512);
        for i in 0..40 {
            t.push(file(&format!("R{:03}.X", i), 5, i as u8, false));
        }
        let mut g = geom32(70000, 2, 5);
        g.tail_blocks = 1;
        g.fat_extra_sectors = 2;
        g.reserved = 9;
        let spec = PartSpec {
            slot: 2,
            geom: g,
            tree: t,
            dirty_free: None,
            keep_free: Some(100),
        };
        let img = format(std::slice::from_ref(&spec));
        check_volume(&img, 0, &spec);
        let l = &img.layouts[0].1;
        let rc = spec_chain(&img.blocks, l, 5).unwrap();
        assert!(rc.len() >= 2 && rc[0] == 5);
        // backup boot sector
        assert!(blk_of(&img.blocks, l.lba_start + 6) == blk_of(&img.blocks, l.lba_start));
    }

    #[test]
    fn mkfs_two_partitions() {
        let a = PartSpec {
            slot: 0,
            geom: geom16(5000, 1, 2, 512),
            tree: tree(512),
            dirty_free: None,
            keep_free: None,
        };
        let la = compute_layout(&a.geom);
        let mut gb = geom32(65525, 1, 2);
        gb.lba_start = la.lba_start + la.total_blocks + 5;
        let b = PartSpec {
            slot: 2,
            geom: gb,
            tree: tree(512),
            dirty_free: None,
            keep_free: Some(3),
        };
        let img = format(&[a, b]);
        let specs = [
            PartSpec {
                slot: 0,
                geom: geom16(5000, 1, 2, 512),
                tree: tree(512),
                dirty_free: None,
                keep_free: None,
            },
            PartSpec {
                slot: 2,
                geom: img_geom(&img, 1),
                tree: tree(512),
                dirty_free: None,
                keep_free: Some(3),
            },
        ];
        check_volume(&img, 0, &specs[0]);
        check_volume(&img, 1, &specs[1]);
        let mbr = blk_of(&img.blocks, 0);
        assert!(mbr[446 + 16..446 + 32].iter().all(|&x| x == 0));
        assert!(mbr[446 + 48..446 + 64].iter().all(|&x| x == 0));
    }

    fn img_geom(img: &Image, idx: usize) -> Geometry {
        let mut g = geom32(65525, 1, 2);
        g.lba_start = img.layouts[idx].1.lba_start;
        g
    }

    #[test]
    fn mkfs_helpers() {
        assert_eq!(&short_name("foo.txt"), b"FOO     TXT");
        assert_eq!(&short_name("."), b".          ");
        assert_eq!(&short_name(".."), b"..         ");
        assert_eq!(&short_name("README"), b"README     ");
        assert_eq!(&short_name("a.b.c"), b"A.B     C  ");
        assert_eq!(&short_name("FRAGME~1.BIN"), b"FRAGME~1BIN");
        assert_eq!(fat_date(1980, 1, 1), 0x0021);
        assert_eq!(fat_date(2107, 12, 31), 0xFF9F);
        assert_eq!(fat_time(23, 59, 58), 0xBF7D);
        // checksum, computed by hand from the spec's algorithm for a simple case
        let mut s: u32 = 0;
        for &c in b"FOO     TXT" {
            s = (((s & 1) << 7) + (s >> 1) + c as u32) & 0xFF;
        }
        assert_eq!(lfn_checksum(b"FOO     TXT") as u32, s);
        // LFN of exactly 13 units: one fragment, no terminator
        let u: Vec<u16> = utf16("abcdefghijklm");
        let sl = lfn_slots(&u, 0x42);
        assert_eq!(sl.len(), 1);
        assert_eq!(sl[0][0], 0x41);
        assert_eq!(get16(&sl[0], 30), b'm' as u16);
        // 14 units: two fragments; first on disk is #2|0x40 with 1 unit, NUL, pad
        let u: Vec<u16> = utf16("abcdefghijklmn");
        let sl = lfn_slots(&u, 0x42);
        assert_eq!(sl.len(), 2);
        assert_eq!(sl[0][0], 0x42);
        assert_eq!(sl[1][0], 0x01);
        assert_eq!(get16(&sl[0], 1), b'n' as u16);
        assert_eq!(get16(&sl[0], 3), 0);
        assert_eq!(get16(&sl[0], 5), 0xFFFF);
        assert_eq!(get16(&sl[0], 30), 0xFFFF);
    }

    #[test]
    fn mkfs_fat32_speed() {
        let spec = PartSpec {
            slot: 0,
            geom: geom32(65525, 1, 2),
            tree: tree(512),
            dirty_free: None,
            keep_free: Some(10),
        };
        let _ = format(std::slice::from_ref(&spec)); // warm up
        let t = std::time::Instant::now();
        let n = 20;
        for _ in 0..n {
            let img = format(std::slice::from_ref(&spec));
            assert!(img.blocks.len() > 500);
        }
        let per = t.elapsed() / n;
        eprintln!("mkfs: FAT32 65525 clusters format: {:?} per image", per);
        assert!(per.as_millis() < 50, "FAT32 format too slow: {:?}", per);
    }
}
