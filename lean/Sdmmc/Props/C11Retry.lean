/-
C11, the retry clause — "a read-only call that failed on a transient fault gives the correct answer
when retried … and files not involved in the failed call are intact on the medium."

Property theorems only; the proofs are in `Sdmmc.Lemmas.Retry*`:
`RetryAgree` (fault erasure: a run that hit no scheduled fault IS the fault-free run),
`RetryRead` (`read` under any fault schedule, the cluster cursor stays on the chain),
`RetryDir` (the directory calls and the observers),
`RetryWriteF` / `RetryWriteA` (one FAT update / one allocation / one block write when any device call
may fail), `RetryWriteM` / `RetryWriteL` / `RetryWriteTop` (`locate`, the loop and the call `write`).
Builds on `Props/C11.lean` (every fault surfaces as an error), `Props/C01Read.lean`,
`Props/C01Write.lean`, `Props/C06.lean`, `Props/C02Reopen.lean` (vocabulary `DirOn`, `dirSlotsOf`,
`dirLookup`).

The device model: `s.dev.faults : List Nat` lists the indices (in `s.dev.calls` numbering) of the
device calls that fail; `s.dev.failed` counts the calls that failed.  All theorems hold for EVERY
schedule.  `withFaults L s` is `s` with the schedule `L` (the retry is issued from the state the
failed call left, with the schedule of the retry).

STATUS: A1, A2, A3 PROVED (none `_partial`).  A4 (no duplicate names after a failed create) and
the `OwnsLoose` stretch of A3 are NOT stated here.

What is proved
* `no_hit_is_fault_free_*` — erasure: if no device call of a read-only call failed, the call is,
  outcome and end state, the call on the same state without any fault scheduled.
* `read_under_faults` — `read` under any schedule: always only device bookkeeping, the cache and
  the offset / cursor of the file read move, medium and write log are untouched, the cache stays
  coherent, the record stays consistent (`FileOK`: the cursor only ever moves along the chain);
  no device failure ⇒ the byte-array model's answer; a device failure ⇒ `DeviceError`, offset as
  before.
* `read_retry_correct`, `read_retry_clean` — the retry of a failed `read` returns EXACTLY what the
  byte-array model answers on the original state.
* `find_retry_correct`, `list_retry_correct`, `list_lfn_retry_correct` — the same for
  `find_directory_entry`, `iterate_dir`, `iterate_dir_lfn` on a directory that is on the medium
  (`DirOn`): nothing but device bookkeeping and the cache changes, and the retry returns the
  function of the medium that C06 specifies.
* `observers_ignore_faults` — `length` / `offset` / `eof` never touch the device.
* `failed_write_keeps_others` — `write` under any schedule, whatever device call failed: every
  other chain of the volume is still a chain and holds the same bytes, every block that is neither a
  FAT block nor a block of the written file's own (possibly extended) chain is the same, every table
  entry other than file slot `i` and the bookkeeping of volume slot `vi` is the same, and the cache is
  COHERENT again.
* `alloc_under_faults` — the engine fact behind it: an allocation in which any device call may
  fail changes no data block and, in the FAT, at most the entry of a cluster that was FREE and the
  entry of the predecessor.

FORMER FINDING, REPAIRED (`Example.no_stale_cache_after_failed_write`): `BlockCache::write_back` used to leave the
modified block TAGGED when the device write failed, so a `read` issued next could be served from that block and
return bytes that were not on the medium.  The crate now clears the tag on a failed device write (as it always did on
a failed device read); the model (`Model/Dev.lean`, `writeBack` / `writeBackWithDuplicate`) follows.  Hence EVERY
call, failed or not, keeps the cache coherent (`Props/C11.cache_coherent_after_any_call`), and
`failed_write_keeps_others` now also concludes a coherent cache: the state a failed `write` leaves satisfies the
cache hypothesis of every theorem of this file again.
-/
import Sdmmc.Lemmas.RetryWriteTop
import Sdmmc.Lemmas.RetryDir
import Sdmmc.Lemmas.FaultCohApi
import Sdmmc.Props.C11
import Sdmmc.Props.C01Write
import Sdmmc.Props.C02Reopen

namespace Sdmmc.Props.C11Retry
open Sdmmc.Model Sdmmc.Model.Fat Sdmmc.Spec
open Sdmmc.Props.C06 (Slot live decode listing)
open Sdmmc.Props.C02Reopen (DirOn dirSlotsOf dirLookup)

/-! ### Vocabulary -/

/-- `s` with the fault schedule `L`. -/
def withFaults (L : List Nat) (s : Mgr) : Mgr := { s with dev := { s.dev with faults := L } }

/-- The standing hypothesis WITHOUT the "no fault scheduled" clause of `MgrOK`: coherent cache,
512-byte blocks, not inside a directory-iteration callback. -/
def MgrOKF (s : Mgr) : Prop :=
  (∀ i, s.cache.tag = some i → s.cache.blk = s.dev.disk.get i) ∧ (∀ i, (s.dev.disk.get i).length = 512) ∧ s.locked = false

/-- Only device bookkeeping and the cache differ: every table is the same, medium, write log and
fault schedule are the same, and a coherent cache is still coherent. -/
def OnlyCacheMoved (s s' : Mgr) : Prop :=
  s' = { s with dev := s'.dev, cache := s'.cache } ∧ s'.dev.disk = s.dev.disk ∧ s'.dev.wlog = s.dev.wlog ∧
  s'.dev.faults = s.dev.faults ∧
  ((∀ i, s.cache.tag = some i → s.cache.blk = s.dev.disk.get i) → ∀ i, s'.cache.tag = some i → s'.cache.blk = s'.dev.disk.get i)

/-- What `iterate_dir_lfn` hands its callback for the slot sequence `ss`: the long-name assembly
(`lfnFold`, C17) over the live slots. -/
def lfnListing (ft : FatType) (bufSize : Nat) (ss : List Slot) : Res (List (DirEntry × Option Bytes)) :=
  lfnFold .Waiting (Lfn.new (zeros bufSize)) ((live ss).map fun x => (decode ft x, x.2.2))

/-! ### 1. Erasure -/

/-- If no device call of a `read` failed, the call is the call without any fault scheduled. -/
theorem no_hit_is_fault_free_read (h n : Nat) (s : Mgr) (hq : (read h n s).2.dev.failed = s.dev.failed) :
    (read h n s).1 = (read h n (withFaults [] s)).1 ∧ withFaults [] (read h n s).2 = (read h n (withFaults [] s)).2 :=
  (Lemmas.Retry.read_magree h n).run s hq

/-- The same for the directory calls. -/
theorem no_hit_is_fault_free_dir (d n : Nat) (name : List Nat) (s : Mgr) :
    ((findDirectoryEntry d name s).2.dev.failed = s.dev.failed →
      (findDirectoryEntry d name s).1 = (findDirectoryEntry d name (withFaults [] s)).1) ∧
    ((iterateDir d s).2.dev.failed = s.dev.failed → (iterateDir d s).1 = (iterateDir d (withFaults [] s)).1) ∧
    ((iterateDirLfn d n s).2.dev.failed = s.dev.failed → (iterateDirLfn d n s).1 = (iterateDirLfn d n (withFaults [] s)).1) :=
  ⟨fun hq => ((Lemmas.Retry.findDirectoryEntry_magree d name).run s hq).1,
   fun hq => ((Lemmas.Retry.iterateDir_magree d).run s hq).1,
   fun hq => ((Lemmas.Retry.iterateDirLfn_magree d n).run s hq).1⟩

/-- With no fault scheduled, no device call of a read-only call fails. -/
theorem clean_run_is_quiet (op : Op) (hop : Lemmas.Fault.readOnlyOp op = true) (s : Mgr) :
    (runOp op (withFaults [] s)).2.dev.failed = s.dev.failed :=
  Lemmas.Retry.quiet_of_clean op hop s

/-! ### 2. `read` -/

/-- **`read` under any fault schedule.**  `s` has an ARBITRARY fault schedule; otherwise the
hypotheses are those of `read_refines`.  With `(r, s1) = read h n s` there is a record `f1` such that

* `s1` is `s` except for device bookkeeping, the cache and file slot `i`, which holds `f1`; medium,
  write log and schedule are the same; the cache is coherent (`MgrOKF s1`);
* `f1` is `f` except for offset and cluster cursor, and is consistent with the medium (`FileOK`):
  whatever failed, the cursor is on the chain;
* if no device call failed: `r` is what the byte-array model answers and `f1` is the model's
  position;
* if a device call failed: `r = DeviceError` and the offset is where it was. -/
theorem read_under_faults (s : Mgr) (h n i vi : Nat) (f : FileInfo) (v : VolInfo) (cs : List Nat)
    (hs : MgrOKF s)
    (hh : s.files.findIdx? (·.rawFile = h) = some i) (hf : s.files[i]? = some f)
    (hv : s.vols.findIdx? (·.rawVolume = f.rawVolume) = some vi) (hvi : s.vols[vi]? = some v)
    (hg : WFGeom v.vol) (hok : FileOK v.vol s.dev.disk f cs) :
    ∃ f1, (read h n s).2 = { s with dev := (read h n s).2.dev, cache := (read h n s).2.cache, files := s.files.set i f1 } ∧
      (read h n s).2.dev.disk = s.dev.disk ∧ (read h n s).2.dev.wlog = s.dev.wlog ∧
      (read h n s).2.dev.faults = s.dev.faults ∧ MgrOKF (read h n s).2 ∧
      f1 = { f with currentOffset := f1.currentOffset, curClusterOff := f1.curClusterOff, curCluster := f1.curCluster } ∧
      FileOK v.vol (read h n s).2.dev.disk f1 cs ∧
      ((read h n s).2.dev.failed = s.dev.failed →
        (read h n s).1 = .ok ((absFile v.vol s.dev.disk f cs).read n).1 ∧
        absFile v.vol s.dev.disk f1 cs = ((absFile v.vol s.dev.disk f cs).read n).2) ∧
      ((read h n s).2.dev.failed ≠ s.dev.failed →
        (read h n s).1 = .err .DeviceError ∧ f1.currentOffset = f.currentOffset) := by
  obtain ⟨f1, hstep, hsame, hfl, hsF, hok1, hA, hB⟩ :=
    Lemmas.Retry.read_under_faults s h n i vi f v cs hs hh hf hv hvi hg hok
  exact ⟨f1, hstep.eq, hstep.disk, hstep.wlog, hfl, hsF, hsame.eq, hok1, hA, hB⟩

/-- **The retry gives the correct answer.**  A `read` that returned an error is issued again from
the state it left, the retry running under ANY schedule `L'`: if no device call of the retry fails,
the retry answers exactly what the byte-array model answers on the original state — the answer the
first call would have given without the fault — and the medium is still the original one. -/
theorem read_retry_correct (s : Mgr) (h n i vi : Nat) (f : FileInfo) (v : VolInfo) (cs : List Nat)
    (hs : MgrOKF s)
    (hh : s.files.findIdx? (·.rawFile = h) = some i) (hf : s.files[i]? = some f)
    (hv : s.vols.findIdx? (·.rawVolume = f.rawVolume) = some vi) (hvi : s.vols[vi]? = some v)
    (hg : WFGeom v.vol) (hok : FileOK v.vol s.dev.disk f cs)
    (e : Err) (hfail : (read h n s).1 = .err e) (L' : List Nat)
    (hquiet : (read h n (withFaults L' (read h n s).2)).2.dev.failed = (read h n s).2.dev.failed) :
    (read h n (withFaults L' (read h n s).2)).1 = .ok ((absFile v.vol s.dev.disk f cs).read n).1 ∧
    (read h n (withFaults L' (read h n s).2)).2.dev.disk = s.dev.disk :=
  Lemmas.Retry.read_retry_correct s h n i vi f v cs hs hh hf hv hvi hg hok e hfail L' hquiet

/-- The retry once the transient fault is gone (`L' = []`): nothing to assume about the retry. -/
theorem read_retry_clean (s : Mgr) (h n i vi : Nat) (f : FileInfo) (v : VolInfo) (cs : List Nat)
    (hs : MgrOKF s)
    (hh : s.files.findIdx? (·.rawFile = h) = some i) (hf : s.files[i]? = some f)
    (hv : s.vols.findIdx? (·.rawVolume = f.rawVolume) = some vi) (hvi : s.vols[vi]? = some v)
    (hg : WFGeom v.vol) (hok : FileOK v.vol s.dev.disk f cs)
    (e : Err) (hfail : (read h n s).1 = .err e) :
    (read h n (withFaults [] (read h n s).2)).1 = .ok ((absFile v.vol s.dev.disk f cs).read n).1 ∧
    (read h n (withFaults [] (read h n s).2)).2.dev.disk = s.dev.disk :=
  Lemmas.Retry.read_retry_clean s h n i vi f v cs hs hh hf hv hvi hg hok e hfail

/-- The cluster walk of `find_data_on_disk` under any fault schedule: from a cluster of a chain it
ends on a cluster of the chain, at the matching byte position — whatever the outcome. -/
theorem cursor_stays_on_chain {c : Nat} {cs : List Nat} (bpc n k o x : Nat) (s : FS)
    (hc : ∀ i, s.cache.tag = some i → s.cache.blk = s.dev.disk.get i) (hg : WFGeom s.vol)
    (hch : Chain s.vol s.dev.disk c cs) (hx : cs[k]? = some x) :
    ∃ j z r s', walkClusters bpc n (o, x) s = (.ok ((o + j * bpc, z), r), s') ∧ cs[k + j]? = some z ∧
      s'.dev.disk = s.dev.disk := by
  obtain ⟨j, z, r, s', h1, h2, h3⟩ := Lemmas.Retry.walk_on_chain bpc n k o x s hc hg hch hx
  exact ⟨j, z, r, s', h1, h2, h3.disk⟩

/-! ### 3. The directory calls and the observers -/

/-- **`find_directory_entry`: the retry gives the correct answer.**  The handle `d` resolves (slot
`di`, record `dir`, volume slot `vi`, record `v`), the name converts to `sfn`, the directory is on
the medium (`DirOn`: nothing to ask of the FAT16 fixed root, otherwise `dcs` is its chain).  Under
ANY fault schedule: only device bookkeeping and the cache change; if no device call failed the
answer is the lookup `dirLookup` read off the medium (C06), otherwise `DeviceError`; and the call
issued again from the state the first one left, under any schedule in which no device call of the
retry fails, gives that lookup. -/
theorem find_retry_correct (s : Mgr) (d di vi : Nat) (dir : DirInfo) (v : VolInfo) (name : List Nat) (sfn : Bytes)
    (dcs : List Nat) (hc : ∀ i, s.cache.tag = some i → s.cache.blk = s.dev.disk.get i)
    (hd : s.dirs.findIdx? (·.rawDirectory = d) = some di) (hdi : s.dirs[di]? = some dir)
    (hv : s.vols.findIdx? (·.rawVolume = dir.rawVolume) = some vi) (hvi : s.vols[vi]? = some v)
    (hname : Sfn.createFromStr name = .ok sfn) (hdir : DirOn v.vol s.dev.disk dir.cluster dcs) :
    OnlyCacheMoved s (findDirectoryEntry d name s).2 ∧
    ((findDirectoryEntry d name s).2.dev.failed = s.dev.failed →
      (findDirectoryEntry d name s).1 = (dirLookup v.vol s.dev.disk dir.cluster dcs sfn).elim (.err .NotFound) .ok) ∧
    ((findDirectoryEntry d name s).2.dev.failed ≠ s.dev.failed → (findDirectoryEntry d name s).1 = .err .DeviceError) ∧
    (∀ L', (findDirectoryEntry d name (withFaults L' (findDirectoryEntry d name s).2)).2.dev.failed =
        (findDirectoryEntry d name s).2.dev.failed →
      (findDirectoryEntry d name (withFaults L' (findDirectoryEntry d name s).2)).1 =
        (dirLookup v.vol s.dev.disk dir.cluster dcs sfn).elim (.err .NotFound) .ok) := by
  obtain ⟨h1, h2, h3, h4⟩ := Lemmas.Retry.find_under_faults s d di vi dir v name sfn dcs hc ⟨hd, hdi, hv, hvi⟩ hname hdir
  exact ⟨⟨h1.eq, h1.disk, h1.wlog, h1.faults, h1.coh⟩, h2, h3, h4⟩

/-- **`iterate_dir`: the retry gives the correct answer** — the listing of the directory's slots
(`Props.C06.listing`: live, non-fragment slots, decoded, in on-disk order). -/
theorem list_retry_correct (s : Mgr) (d di vi : Nat) (dir : DirInfo) (v : VolInfo) (dcs : List Nat)
    (hc : ∀ i, s.cache.tag = some i → s.cache.blk = s.dev.disk.get i)
    (hd : s.dirs.findIdx? (·.rawDirectory = d) = some di) (hdi : s.dirs[di]? = some dir)
    (hv : s.vols.findIdx? (·.rawVolume = dir.rawVolume) = some vi) (hvi : s.vols[vi]? = some v)
    (hdir : DirOn v.vol s.dev.disk dir.cluster dcs) :
    OnlyCacheMoved s (iterateDir d s).2 ∧
    ((iterateDir d s).2.dev.failed = s.dev.failed →
      (iterateDir d s).1 = .ok (listing v.vol.fatType (dirSlotsOf v.vol s.dev.disk dir.cluster dcs))) ∧
    ((iterateDir d s).2.dev.failed ≠ s.dev.failed → (iterateDir d s).1 = .err .DeviceError) ∧
    (∀ L', (iterateDir d (withFaults L' (iterateDir d s).2)).2.dev.failed = (iterateDir d s).2.dev.failed →
      (iterateDir d (withFaults L' (iterateDir d s).2)).1 =
        .ok (listing v.vol.fatType (dirSlotsOf v.vol s.dev.disk dir.cluster dcs))) := by
  obtain ⟨h1, h2, h3, h4⟩ := Lemmas.Retry.iterateDir_under_faults s d di vi dir v dcs hc ⟨hd, hdi, hv, hvi⟩ hdir
  exact ⟨⟨h1.eq, h1.disk, h1.wlog, h1.faults, h1.coh⟩, h2, h3, h4⟩

/-- **`iterate_dir_lfn`: the retry gives the correct answer** — the long-name assembly over the
directory's live slots. -/
theorem list_lfn_retry_correct (s : Mgr) (d di vi n : Nat) (dir : DirInfo) (v : VolInfo) (dcs : List Nat)
    (hc : ∀ i, s.cache.tag = some i → s.cache.blk = s.dev.disk.get i)
    (hd : s.dirs.findIdx? (·.rawDirectory = d) = some di) (hdi : s.dirs[di]? = some dir)
    (hv : s.vols.findIdx? (·.rawVolume = dir.rawVolume) = some vi) (hvi : s.vols[vi]? = some v)
    (hdir : DirOn v.vol s.dev.disk dir.cluster dcs) :
    OnlyCacheMoved s (iterateDirLfn d n s).2 ∧
    ((iterateDirLfn d n s).2.dev.failed = s.dev.failed →
      (iterateDirLfn d n s).1 = lfnListing v.vol.fatType n (dirSlotsOf v.vol s.dev.disk dir.cluster dcs)) ∧
    ((iterateDirLfn d n s).2.dev.failed ≠ s.dev.failed → (iterateDirLfn d n s).1 = .err .DeviceError) ∧
    (∀ L', (iterateDirLfn d n (withFaults L' (iterateDirLfn d n s).2)).2.dev.failed = (iterateDirLfn d n s).2.dev.failed →
      (iterateDirLfn d n (withFaults L' (iterateDirLfn d n s).2)).1 =
        lfnListing v.vol.fatType n (dirSlotsOf v.vol s.dev.disk dir.cluster dcs)) := by
  obtain ⟨h1, h2, h3, h4⟩ := Lemmas.Retry.iterateDirLfn_under_faults s d di vi n dir v dcs hc ⟨hd, hdi, hv, hvi⟩ hdir
  exact ⟨⟨h1.eq, h1.disk, h1.wlog, h1.faults, h1.coh⟩, h2, h3, h4⟩

/-- `length`, `offset`, `eof` never touch the device: they leave the state alone and answer the same
under every fault schedule. -/
theorem observers_ignore_faults (h : Nat) (s : Mgr) (L : List Nat) :
    (fileLength h s).2 = s ∧ (fileOffset h s).2 = s ∧ (fileEof h s).2 = s ∧
    (fileLength h (withFaults L s)).1 = (fileLength h s).1 ∧
    (fileOffset h (withFaults L s)).1 = (fileOffset h s).1 ∧
    (fileEof h (withFaults L s)).1 = (fileEof h s).1 :=
  Lemmas.Retry.observers_ignore_faults h s L

/-! ### 4. A failed `write` and the other files -/

/-- **Files not involved in a `write` are intact on the medium — whatever device call failed.**
`s` has an ARBITRARY fault schedule; otherwise the hypotheses are those of `write_refines`
(`Props/C01Write.lean`).  Whatever the outcome of `write h data` — a device error at ANY call index
included:

* tables: only device, cache, file slot `i` and the two bookkeeping fields of the volume record in
  slot `vi` differ; the fault schedule is the same;
* there is a chain `cs'` extending `cs` — the written file's own, possibly extended, chain — such
  that every chain `X` of `A ++ B` is still a chain of the FAT, shares no cluster with `cs'` and holds
  exactly the bytes it held; and every block that is neither a FAT block of the volume nor a block of
  a cluster of `cs'` is the same;
* the cache is coherent and the lock is open: of `MgrOKF` only the 512-byte block length of the medium is not
  re-established here. -/
theorem failed_write_keeps_others (s : Mgr) (h i vi : Nat) (data : Bytes) (f : FileInfo) (v : VolInfo) (cs : List Nat)
    (A B : List (List Nat)) (hs : MgrOKF s)
    (hh : s.files.findIdx? (·.rawFile = h) = some i) (hf : s.files[i]? = some f)
    (hv : s.vols.findIdx? (·.rawVolume = f.rawVolume) = some vi) (hvi : s.vols[vi]? = some v)
    (hmode : f.mode ≠ .ReadOnly) (hg : WFGeom v.vol) (hhint : HintOK v.vol)
    (hok : FileOK v.vol s.dev.disk f cs) (hcur : cs = [] → f.curCluster < 2)
    (hown : Owns v.vol s.dev.disk (withChain A cs B)) :
    (∃ f' v', (write h data s).2 = { s with dev := (write h data s).2.dev, cache := (write h data s).2.cache, files := s.files.set i f', vols := s.vols.set vi v' } ∧
      v' = { v with vol := v'.vol } ∧ SameGeom v.vol v'.vol) ∧
    (write h data s).2.dev.faults = s.dev.faults ∧
    (∃ cs', cs <+: cs' ∧
      (∀ X, X ∈ A ++ B → Chain v.vol (write h data s).2.dev.disk (X.headD 0) X ∧ (∀ x, x ∈ X → x ∉ cs') ∧
        chainBytes v.vol (write h data s).2.dev.disk X = chainBytes v.vol s.dev.disk X) ∧
      (∀ b, ¬ IsFatBlock v.vol b → ¬ IsClusterBlock v.vol cs' b → (write h data s).2.dev.disk.get b = s.dev.disk.get b)) ∧
    (∀ i, (write h data s).2.cache.tag = some i → (write h data s).2.cache.blk = (write h data s).2.dev.disk.get i) ∧
    (write h data s).2.locked = false := by
  obtain ⟨h1, h2, h3⟩ := Lemmas.Retry.write_keeps_others s h i vi data f v cs A B hs hh hf hv hvi hmode hg hhint hok hcur hown
  refine ⟨h1, h2, h3, Lemmas.FaultCoh.write_mcoh h data s hs.1, ?_⟩
  obtain ⟨f', v', heq, _, _⟩ := h1
  rw [heq]; exact hs.2.2

/-- The open files behind it: another open file `g` (slot `j ≠ i`) of the volume with chain
`X ∈ A ++ B`, consistent with the medium before the call, is the same record in the same slot, still
consistent, with the same byte-array view — whatever device call of the `write` failed. -/
theorem failed_write_keeps_other_file (s : Mgr) (h i vi : Nat) (data : Bytes) (f : FileInfo) (v : VolInfo) (cs : List Nat)
    (A B : List (List Nat)) (hs : MgrOKF s)
    (hh : s.files.findIdx? (·.rawFile = h) = some i) (hf : s.files[i]? = some f)
    (hv : s.vols.findIdx? (·.rawVolume = f.rawVolume) = some vi) (hvi : s.vols[vi]? = some v)
    (hmode : f.mode ≠ .ReadOnly) (hg : WFGeom v.vol) (hhint : HintOK v.vol)
    (hok : FileOK v.vol s.dev.disk f cs) (hcur : cs = [] → f.curCluster < 2)
    (hown : Owns v.vol s.dev.disk (withChain A cs B))
    (j : Nat) (hj : j ≠ i) (g : FileInfo) (hgj : s.files[j]? = some g) (X : List Nat) (hX : X ∈ A ++ B)
    (hokg : FileOK v.vol s.dev.disk g X) :
    (write h data s).2.files[j]? = some g ∧ FileOK v.vol (write h data s).2.dev.disk g X ∧
    absFile v.vol (write h data s).2.dev.disk g X = absFile v.vol s.dev.disk g X := by
  obtain ⟨⟨f', v', heq, _, _⟩, _, cs', _, hch, _⟩ :=
    Lemmas.Retry.write_keeps_others s h i vi data f v cs A B hs hh hf hv hvi hmode hg hhint hok hcur hown
  obtain ⟨hchX, _, hbytes⟩ := hch X hX
  refine ⟨?_, ?_, ?_⟩
  · rw [heq]; show (s.files.set i f')[j]? = _; rw [List.getElem?_set_ne (Ne.symm hj)]; exact hgj
  · refine ⟨.inr ?_, hokg.size_fits, hokg.pos_le, hokg.cursor⟩
    rcases hokg.chain with ⟨_, h1, _⟩ | h1
    · exact absurd h1 (Lemmas.ChainL.chain_ne_nil hchX)
    · rw [← Lemmas.ForestBase.chain_head_eq h1]; exact hchX
  · show ({ bytes := (chainBytes v.vol _ X).take g.entry.size, pos := g.currentOffset } : ByteFile) =
      { bytes := (chainBytes v.vol s.dev.disk X).take g.entry.size, pos := g.currentOffset }
    rw [hbytes]

/-- The engine fact: `alloc_cluster(prev, false)` from a coherent state, ANY device call of it
failing or not.  No block outside the FAT changes; in the FAT (copy 1) the entry of every cluster
that was not free and is not the predecessor is the same; the volume record keeps its geometry. -/
theorem alloc_under_faults (s : FS) (prev : Option Nat)
    (hc : ∀ i, s.cache.tag = some i → s.cache.blk = s.dev.disk.get i) (hb : ∀ i, (s.dev.disk.get i).length = 512)
    (hg : WFGeom s.vol) (hh : HintOK s.vol) (hp : ∀ p, prev = some p → p < endCluster s.vol) :
    (∀ b, ¬ IsFatBlock s.vol b → (allocCluster prev false s).2.dev.disk.get b = s.dev.disk.get b) ∧
    (∀ x, x < endCluster s.vol → ¬ isFree s.vol s.dev.disk x → prev ≠ some x →
      fatRaw s.vol (allocCluster prev false s).2.dev.disk x = fatRaw s.vol s.dev.disk x) ∧
    SameGeom s.vol (allocCluster prev false s).2.vol := by
  obtain ⟨hu, hsg, _⟩ := Lemmas.Retry.alloc_any s prev hc hb hg hh hp
  exact ⟨hu.nonfat, fun x hx hnf hnp => hu.entries x hx (fun hk => hk.elim hnf hnp), hsg⟩

/-- A block write of `write` that does not return `Ok` has not reached the medium. -/
theorem failed_block_write_not_on_medium (b o : Nat) (data : Bytes) (whole : Bool) (s : FS)
    (h : (writeBlockPart b o data whole s).1 ≠ .ok ()) :
    (writeBlockPart b o data whole s).2.dev.disk = s.dev.disk ∧ (writeBlockPart b o data whole s).2.dev.wlog = s.dev.wlog :=
  ⟨(Lemmas.Retry.writeBlockPart_fail b o data whole s h).1, (Lemmas.Retry.writeBlockPart_fail b o data whole s h).2.1⟩

/-! ### Non-vacuity (tests, evaluated by the kernel)

The state of `Props/C01Write.lean`: a FAT16 volume, a 1300-byte file in the chain 5 → 2 → 7 at offset
1000, a one-cluster file in cluster 3, an empty file — now with faults scheduled. -/
namespace Example
open Sdmmc.Props.C01Read.Example Sdmmc.Props.C01Write.Example

theorem mgrOKF : MgrOKF mgrW := ⟨(fun i h => by cases h), blocksOK, rfl⟩

/-- The model's answer to "read 400 bytes at 1000". -/
def answer : Bytes := List.replicate 24 0xBB ++ List.replicate 276 0xCC

example : ((absFile vol disk fileW [5, 2, 7]).read 400).1 = answer := by decide +kernel

/-- The first device call (the FAT read of the cluster walk) fails: `DeviceError`; nothing is
written, the offset is where it was, the cache tag is empty. -/
example : (read 1 400 (withFaults [0] mgrW)).1 = .err .DeviceError ∧
    (read 1 400 (withFaults [0] mgrW)).2.dev.wlog = [] ∧
    (read 1 400 (withFaults [0] mgrW)).2.files.map (·.currentOffset) = [1000, 0, 0] ∧
    (read 1 400 (withFaults [0] mgrW)).2.cache.tag = none := by decide +kernel

/-- The third device call (a data block, in the middle of the read) fails: the bytes copied so far
are discarded, the offset is restored — and the cursor has moved along the chain. -/
example : (read 1 400 (withFaults [2] mgrW)).1 = .err .DeviceError ∧
    (read 1 400 (withFaults [2] mgrW)).2.files.map (fun f => (f.currentOffset, f.curClusterOff, f.curCluster)) =
      [(1000, 512, 2), (0, 0, 3), (0, 0, 0)] := by decide +kernel

/-- The retry (fault gone) returns the model's answer, in both cases. -/
example : (read 1 400 (withFaults [] (read 1 400 (withFaults [0] mgrW)).2)).1 = .ok answer ∧
    (read 1 400 (withFaults [] (read 1 400 (withFaults [2] mgrW)).2)).1 = .ok answer := by decide +kernel

/-- … as the theorem says (its hypotheses are satisfiable with a non-empty schedule). -/
example : (read 1 400 (withFaults [] (read 1 400 (withFaults [2] mgrW)).2)).1 =
      .ok ((absFile vinfo.vol (withFaults [2] mgrW).dev.disk fileW [5, 2, 7]).read 400).1 ∧
    (read 1 400 (withFaults [] (read 1 400 (withFaults [2] mgrW)).2)).2.dev.disk = (withFaults [2] mgrW).dev.disk :=
  read_retry_clean (withFaults [2] mgrW) 1 400 0 0 fileW vinfo [5, 2, 7] mgrOKF C01Write.Example.handle_found rfl C01Write.Example.volume_found rfl
    wfgeom fileOKW .DeviceError (by decide +kernel)

/-- A schedule that is not hit (index 7; the read makes 4 device calls) changes nothing. -/
example : (read 1 400 (withFaults [7] mgrW)).1 = .ok answer ∧ (read 1 400 (withFaults [7] mgrW)).2.dev.calls = 4 := by
  decide +kernel

/-! #### A directory: the FAT16 root (block 9) holding `FOO.TXT` -/

def diskD : Disk := disk.set 9 (C06.Example.foo ++ zeros 480)
def rootDir : DirInfo := { rawDirectory := 9, rawVolume := 0, cluster := Gen.CLUSTER_ROOT_DIR }
def mgrD : Mgr := { mgrW with dev := { disk := diskD }, dirs := [rootDir] }

theorem dirOn : DirOn vol diskD rootDir.cluster [] := fun hno => absurd ⟨rfl, rfl⟩ hno

/-- The listing the specification reads off the medium: one entry, `FOO.TXT`, cluster 5, 100 bytes. -/
example : (listing vol.fatType (dirSlotsOf vol diskD rootDir.cluster [])).map (fun e => (e.name, e.cluster, e.size)) =
    [(C06.Example.foo.take 11, 5, 100)] := by decide +kernel

/-- The listing fails on the first device call, and the retry gives the specification's listing. -/
example : (iterateDir 9 (withFaults [0] mgrD)).1 = .err .DeviceError ∧
    (iterateDir 9 (withFaults [] (iterateDir 9 (withFaults [0] mgrD)).2)).1 =
      .ok (listing vol.fatType (dirSlotsOf vol diskD rootDir.cluster [])) := by decide +kernel

/-- The theorem applies. -/
example : OnlyCacheMoved (withFaults [0] mgrD) (iterateDir 9 (withFaults [0] mgrD)).2 ∧
    ((iterateDir 9 (withFaults [0] mgrD)).2.dev.failed ≠ (withFaults [0] mgrD).dev.failed →
      (iterateDir 9 (withFaults [0] mgrD)).1 = .err .DeviceError) :=
  have h := list_retry_correct (withFaults [0] mgrD) 9 0 0 rootDir vinfo [] (fun i h => by cases h)
    (by decide) rfl (by decide) rfl dirOn
  ⟨h.1, h.2.2.1⟩

/-- Lookup of `FOO.TXT`: fails on the fault, found on the retry; a name that is not there: `NotFound`
on the retry (not a fabricated answer on the failed attempt). -/
example : (findDirectoryEntry 9 [70, 79, 79, 46, 84, 88, 84] (withFaults [0] mgrD)).1 = .err .DeviceError ∧
    ((findDirectoryEntry 9 [70, 79, 79, 46, 84, 88, 84]
      (withFaults [] (findDirectoryEntry 9 [70, 79, 79, 46, 84, 88, 84] (withFaults [0] mgrD)).2)).1.bind
        fun e => .ok (e.cluster, e.size)) = .ok (5, 100) := by decide +kernel

/-! #### A `write` that fails at any device call -/

/-- The extending write of `Props/C01Write.lean` (700 bytes at offset 1000; ten device calls) with
the fault at call `k`, for every `k`: the second file's cluster (block 11) and its FAT entry are
untouched, and the second file reads back what it held. -/
theorem other_file_intact_all_k : ∀ k, k < 12 →
    (write 1 data700 (withFaults [k] mgrW)).2.dev.disk.get 11 = disk.get 11 ∧
    fatRaw vol (write 1 data700 (withFaults [k] mgrW)).2.dev.disk 3 = fatRaw vol disk 3 ∧
    (read 2 10 (withFaults [] (write 1 data700 (withFaults [k] mgrW)).2)).1 = .ok (List.replicate 10 0xDD) := by
  decide +kernel

/-- The outcomes, call by call: `DeviceError` from the reads and the block writes, `DiskFull` when
the allocation fails (its error is converted), `Ok` when the schedule is not hit. -/
example : (List.range 12).map (fun k => match (write 1 data700 (withFaults [k] mgrW)).1 with
      | .ok _ => 0 | .err .DeviceError => 1 | .err .DiskFull => 2 | _ => 3) =
    [1, 1, 1, 1, 1, 1, 2, 2, 1, 1, 0, 0] := by decide +kernel

/-- Fault at call 7 (the link `7 → 4` of the allocation): cluster 4 is marked end-of-chain but not
linked — a lost cluster, nothing worse: the chain 5 → 2 → 7 is as before. -/
example : ((write 1 data700 (withFaults [7] mgrW)).2.dev.disk.get 1).take 16 =
    [0, 0, 0, 0, 7, 0, 0xFF, 0xFF, 0xFF, 0xFF, 2, 0, 0, 0, 0xFF, 0xFF] := by decide +kernel

/-- The theorem applies (to every schedule; here the one above). -/
example : ∃ cs', [5, 2, 7] <+: cs' ∧
    (∀ X, X ∈ [] ++ [[3]] → Chain vinfo.vol (write 1 data700 (withFaults [7] mgrW)).2.dev.disk (X.headD 0) X ∧
      (∀ x, x ∈ X → x ∉ cs') ∧
      chainBytes vinfo.vol (write 1 data700 (withFaults [7] mgrW)).2.dev.disk X =
        chainBytes vinfo.vol (withFaults [7] mgrW).dev.disk X) ∧
    (∀ b, ¬ IsFatBlock vinfo.vol b → ¬ IsClusterBlock vinfo.vol cs' b →
      (write 1 data700 (withFaults [7] mgrW)).2.dev.disk.get b = (withFaults [7] mgrW).dev.disk.get b) :=
  (failed_write_keeps_others (withFaults [7] mgrW) 1 0 0 data700 fileW vinfo [5, 2, 7] [] [[3]] mgrOKF
    C01Write.Example.handle_found rfl C01Write.Example.volume_found rfl (by decide) wfgeom hintOK fileOKW
    (fun h => by cases h) owns).2.2.1

/-! #### A failed write does not leave a stale block in the cache

(Before the repair of `BlockCache::write_back` — the cache kept its tag when the device write failed — this
example was the FINDING `stale_cache_after_failed_write`: the `read` issued next was served from the cache and
returned the ten bytes that are not on the medium.) -/

/-- Ten bytes written at offset 100 (block 13, first cluster — no FAT access needed): the block is
read (call 0), patched in the cache, and the device write (call 1) fails.  The call answers
`DeviceError`; the medium still holds 0xAA; the cache has FORGOTTEN the patched block (tag `none`), so
the state is coherent again (`MgrOKF`); the `read` issued next goes to the device (one more device
call) and returns the medium's bytes. -/
theorem no_stale_cache_after_failed_write :
    let s1 := (fileSeekFromStart 1 100 mgrW).2
    let s2 := (write 1 (List.replicate 10 0x11) (withFaults [1] s1)).2
    let s3 := (read 1 12 (withFaults [] s2)).2
    (write 1 (List.replicate 10 0x11) (withFaults [1] s1)).1 = .err .DeviceError ∧
    ((s2.dev.disk.get 13).drop 100).take 12 = List.replicate 12 0xAA ∧
    s2.cache.tag = none ∧ MgrOKF s2 ∧
    (read 1 12 (withFaults [] s2)).1 = .ok (List.replicate 12 0xAA) ∧
    s3.dev.calls = s2.dev.calls + 1 := by
  refine ⟨by decide +kernel, by decide +kernel, by decide +kernel, ?_, by decide +kernel, by decide +kernel⟩
  refine ⟨fun i hi => ?_, ?_, by decide +kernel⟩
  · have : (write 1 (List.replicate 10 0x11) (withFaults [1] (fileSeekFromStart 1 100 mgrW).2)).2.cache.tag = none := by
      decide +kernel
    rw [this] at hi; cases hi
  · intro i
    have hb : ∀ i, ((write 1 (List.replicate 10 0x11) (withFaults [1] (fileSeekFromStart 1 100 mgrW).2)).2.dev.disk.get i).length = 512 := by
      have : (write 1 (List.replicate 10 0x11) (withFaults [1] (fileSeekFromStart 1 100 mgrW).2)).2.dev.disk = mgrW.dev.disk := by
        rfl
      intro i; rw [this]; exact mgrOKF.2.1 i
    exact hb i

end Example

end Sdmmc.Props.C11Retry
