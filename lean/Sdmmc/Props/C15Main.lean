/-
C15 — HEADLINE THEOREM.

PROPERTY (verbatim from `properties.jsonl`).
statement:
  "For every well-formed partition table and boot sector, opening the volume succeeds and locates the FATs, root
  directory and data area where the specification puts them, so files placed by an independent formatter are found
  and read correctly. For any other contents of the partition table, boot sector or FAT32 information sector -
  arbitrary bytes included - opening the volume returns an error or a volume, and never panics, divides by zero or
  overflows."
quantifier:
  "valid: all combinations of blocks per cluster (1..128), reserved blocks, 1-2 FATs, root entry counts, 16/32-bit
  total-block fields, partition slots 0-3 and offsets, FAT16/FAT32 cluster-count boundaries (4085, 65525); invalid:
  every field set to its boundary values (0, 1, max), random mutations of valid sectors, and fully random sectors"

HOW TO READ `C15_main`.
* `step s (.openVolume idx) = (s', out)`: the API call `open_raw_volume(idx)` on the manager `s` (`Model/Mgr.lean`);
  `out.result` its answer, `out.writes` the device writes it made, `s'.vols` the table of open volumes afterwards — a mounted
  volume is a record `{ rawVolume := handle, idx := partition, vol := v }`, `v : FatVolume` (`Model/Fat.lean`) saying where
  the FATs (`fatStart`, `secondFatStart`), the FAT16 root directory (`firstRootDirBlock`, `rootEntriesCount`), the FAT32 root
  (`firstRootDirCluster`), the FSInfo sector (`infoLocation`) and the data area (`firstDataBlock`, `blocksPerCluster`,
  `clusterCount`) are, and which FAT type it is.
* `WellFormedTables d idx` (`Spec/MainWellFormed.lean`) — "a well-formed partition table and boot sector", from the
  specification: block 0 an MBR with signature whose record `idx ≤ 3` has status `0x00`/`0x80` and a FAT type byte; the first
  block of the partition a boot sector with signature and `FatLayout.WFBpb` fields (512-byte sectors, 1..128 blocks per
  cluster, 1–2 FATs, any reserved count, any root entry count, 16- or 32-bit total field, ≥ 4085 clusters: `Spec/FatLayout.lean`);
  on FAT32 (≥ 65525 clusters) the three FSInfo signatures.  ANY partition offset.
* `layoutOn d idx` (`Spec/Formatted.lean`) — "where the specification puts them": the record the Microsoft formulas give for
  the boot sector of partition `idx`, spelled out field by field in `layoutOn_fields` below.  `SameGeom v v'`: the records
  are equal except for the two bookkeeping fields free count / next-free hint (which come from the FSInfo sector).
* `Formatted d idx gh` (`Spec/Formatted.lean`) — "an independent formatter's product": `WellFormedTables` plus a structurally
  sound volume (`Spec.Volume.MedInv`, the medium part of the invariant of C03) AS LOCATED BY `layoutOn`; `gh.G` the cluster
  chains and `gh.dirs` the sub-directories the formatter placed.
* The tree the formatter placed, `(absOf0 t1 gh1).slots h'` (`Lemmas.AbsFs.absOf0`): directory `h'` (0 = root) as a list of
  slots of the byte-array model of C01 (`Spec/AbsFs.lean`): `.file meta bytes`, `.dir meta id`, `.deleted`, `.frag _`.  Clause
  (tree) says what it is in terms of the MEDIUM BEFORE THE MOUNT and the formatter's chains only.  `lookup slots sfn`: index
  of the first live entry with the short name `sfn`; `listing slots`: the live entries in order; `view e`: name, attributes,
  size, timestamps of a directory entry (`Spec/AbsFs.lean`).
* `mountPure mbr idx fetch` (`Model/Mount.lean`): the parser alone — block 0, the partition index, and a function giving
  the contents of any other block.

CLAUSES (in the order of the sentence).
  (locate) ANY manager with a healthy device, room for a volume and partition `idx` not open, over ANY medium with
           well-formed tables: `open_volume idx` answers the handle, writes nothing, and appends a record that is
           `layoutOn` up to the bookkeeping fields — FATs, root directory, data area where the formulas put them;
  (found)  a fresh manager over a formatted medium: the mount succeeds, the invariant of C03 holds of the state after it
           for the formatter's chains and directories; (tree) the model's tree is the formatter's medium; (read) for every
           name whose first match in the root is a file with contents `bytes`: `open_root_dir; open_file_in_dir name
           ReadOnly; read n` answer the two handles and `bytes.take n`; (list) `open_root_dir; iterate_dir` answer the live
           entries of the formatter's root directory in slot order;
  (total)  for ARBITRARY bytes as block 0, boot sector and FSInfo sector, any index: the parser answers a volume or an error —
           not a panic (no overflow, underflow, division by zero, index out of range), not divergence;
  (totalApi) for ANY manager with a healthy device — whatever is open, whatever the medium holds —: the API call answers a
           handle (the record `mountPure` computes appended) or an error (volume table unchanged); nothing is written.

HYPOTHESES.
* `s.dev.faults = []`, cache coherent, `BlocksOK` (every block has 512 bytes: what a block device delivers), `s.locked =
  false` — a healthy device and no callback running; device faults are C11.  Hold of a fresh manager.
* (found) only: `FreshMgr t0` (`Lemmas.Mounted.FreshMgr`: nothing open, `maxVols = 1` — the crate's default —, healthy),
  room for one directory and one file.  The single-volume invariant `VolInv` is what C03 / C01 start from
  (`Props.C15Fs.formatted_then_any_history`: then ANY history of calls refines the byte-array model started from this
  tree); several volumes: `Props.C03Multi` (`CoveredNRun` takes the soundness of each mounted record as hypothesis).
The arithmetic is the source's: `Props.C15Gen.create_from_bytes_eq` (the translated `Bpb::create_from_bytes`, with the
4085 / 65525 boundaries, equals the model's for every sector) and `Props.C15GenLayout.parse_volume_layout` (the positions the
model records are the values of the translated `let`s of `parse_volume`).

STATUS: PROVED IN FULL.  (found) is stated for a fresh manager with the default `MAX_VOLUMES = 1`; (locate), (total),
(totalApi) for every manager.  Not claimed: anything about a medium that mounts but is not `Formatted`.
-/
import Sdmmc.Lemmas.MainC15Fs
import Sdmmc.Props.C15GenM
import Sdmmc.Props.C15Gen

namespace Sdmmc.Props.C15Main
open Sdmmc.Model Sdmmc.Model.Fat Sdmmc.Spec.Volume
open Sdmmc.Spec hiding run step NoFault Coherent
open Sdmmc.Spec.FatLayout Sdmmc.Spec.Formatted
open Sdmmc.Spec.AbsFs (view lookup listing)
open Sdmmc.Lemmas.AbsFs (absOf0)
open Sdmmc.Lemmas.Mounted (FreshMgr)

/-- **Where the specification puts them**: `layoutOn d idx`, field by field.  `lba` / the length are the little-endian
words at offsets 8 / 12 of the 16-byte record at `446 + 16·idx` of block 0; `b` the BPB fields of the boot sector at their
offsets (`Spec.Formatted.fieldsOf`); `fatSz`, `firstDataSector`, `countOfClusters`, `kind` the formulas of `Spec/FatLayout.lean`
(`kind`: FAT32 from 65525 clusters on). -/
theorem layoutOn_fields (d : Disk) (idx : Nat) (lba : Nat) (b : BpbFields) (hl : lba = partStart (d.get 0) idx)
    (hb : b = fieldsOf (d.get lba)) :
    (layoutOn d idx).lbaStart = lba ∧ (layoutOn d idx).numBlocks = partLen (d.get 0) idx ∧
    (layoutOn d idx).blocksPerCluster = b.secPerClus ∧
    (layoutOn d idx).fatStart = b.rsvdSecCnt ∧
    (layoutOn d idx).secondFatStart = (if b.numFATs = 2 then some (b.rsvdSecCnt + fatSz b) else none) ∧
    (layoutOn d idx).firstDataBlock = firstDataSector b ∧
    (layoutOn d idx).clusterCount = countOfClusters b ∧
    (layoutOn d idx).fatType = (if kind b = .fat32 then .fat32 else .fat16) ∧
    (layoutOn d idx).rootEntriesCount = (if kind b = .fat32 then 0 else b.rootEntCnt) ∧
    (layoutOn d idx).firstRootDirBlock = (if kind b = .fat32 then 0 else b.rsvdSecCnt + b.numFATs * fatSz b) ∧
    (layoutOn d idx).firstRootDirCluster = (if kind b = .fat32 then b.rootClus else 0) ∧
    (layoutOn d idx).infoLocation = (if kind b = .fat32 then lba + b.fsInfo else 0) := by
  subst hb; subst hl
  exact ⟨rfl, rfl, rfl, rfl, rfl, rfl, rfl, rfl, rfl, rfl, rfl, rfl⟩

/-- **C15.**  See the header. -/
theorem C15_main :
    -- (locate)
    (∀ (s : Mgr) (idx : Nat), s.dev.faults = [] → (∀ i, s.cache.tag = some i → s.cache.blk = s.dev.disk.get i) →
      BlocksOK s.dev.disk → s.locked = false → s.vols.length < s.maxVols → idx ∉ s.vols.map (·.idx) →
      WellFormedTables s.dev.disk idx →
      ∃ v, (step s (.openVolume idx)).2.result = .ok (.handle s.nextId) ∧
        (step s (.openVolume idx)).1.vols = s.vols ++ [{ rawVolume := s.nextId, idx := idx, vol := v }] ∧
        SameGeom (layoutOn s.dev.disk idx) v ∧
        (step s (.openVolume idx)).1.dev.disk = s.dev.disk ∧ (step s (.openVolume idx)).2.writes = []) ∧
    -- (found)
    (∀ (t0 : Mgr) (idx : Nat) (gh : Ghost), FreshMgr t0 → Formatted t0.dev.disk idx gh → 0 < t0.maxDirs → 0 < t0.maxFiles →
      ∃ t1 gh1, (step t0 (.openVolume idx)).1 = t1 ∧ (step t0 (.openVolume idx)).2.result = .ok (.handle t0.nextId) ∧
        VolInv t1 gh1 ∧ gh1.G = gh.G ∧ gh1.dirs = gh.dirs ∧ SameGeom (layoutOn t0.dev.disk idx) gh1.vol ∧
        t1.vols = [{ rawVolume := t0.nextId, idx := idx, vol := gh1.vol }] ∧ t1.dev.disk = t0.dev.disk ∧
        -- (tree)
        (∀ h', (absOf0 t1 gh1).slots h' =
          (beforeEnd (dirSlots gh1.vol t0.dev.disk gh.G h')).map
            (Lemmas.AbsFs.absSlot gh1.vol.fatType (Lemmas.AbsFs.contentOf gh1.vol t0.dev.disk gh.G []))) ∧
        -- (read)
        (∀ (name : List Nat) (sfn : Bytes) (i n : Nat) (m : Spec.AbsFs.Meta) (bytes : Bytes),
          Sfn.createFromStr name = .ok sfn → lookup ((absOf0 t1 gh1).slots 0) sfn = some i →
          ((absOf0 t1 gh1).slots 0)[i]? = some (.file m bytes) →
          (run t1 [.openRoot t0.nextId, .openFile t1.nextId name .ReadOnly, .read ((t1.nextId + 1) % 4294967296) n]).2.map
              (·.result) =
            [.ok (.handle t1.nextId), .ok (.handle ((t1.nextId + 1) % 4294967296)), .ok (.bytes (bytes.take n))]) ∧
        -- (list)
        ∃ es, (run t1 [.openRoot t0.nextId, .list t1.nextId]).2.map (·.result) =
            [.ok (.handle t1.nextId), .ok (.entries es)] ∧
          es.map view = listing ((absOf0 t1 gh1).slots 0)) ∧
    -- (total)
    (∀ (mbr : Bytes) (idx : Nat) (fetch : Nat → Bytes),
      (∃ v, mountPure mbr idx fetch = .ok v) ∨ (∃ e, mountPure mbr idx fetch = .err e)) ∧
    -- (totalApi)
    (∀ (s : Mgr) (idx : Nat), s.dev.faults = [] → (∀ i, s.cache.tag = some i → s.cache.blk = s.dev.disk.get i) →
      BlocksOK s.dev.disk → s.locked = false →
      (∃ v, mountPure (s.dev.disk.get 0) idx s.dev.disk.get = .ok v ∧
        (step s (.openVolume idx)).2.result = .ok (.handle s.nextId) ∧
        (step s (.openVolume idx)).1.vols = s.vols ++ [{ rawVolume := s.nextId, idx := idx, vol := v }] ∧
        (step s (.openVolume idx)).1.dev.disk = s.dev.disk ∧ (step s (.openVolume idx)).2.writes = []) ∨
      (∃ e, (step s (.openVolume idx)).2.result = .err e ∧ (step s (.openVolume idx)).1.vols = s.vols ∧
        (step s (.openVolume idx)).1.dev.disk = s.dev.disk ∧ (step s (.openVolume idx)).2.writes = [])) := by
  refine ⟨fun s idx hf hc hb hl hroom hnot hW => ?_, fun t0 idx gh hfr hF hD hFl => ?_, C15.mount_total,
    fun s idx hf hc hb hl => Lemmas.MainC15.open_volume_total s idx ⟨hf, hc, hb, hl⟩⟩
  · obtain ⟨v, h1, h2, h3, _, h5, h6⟩ := Lemmas.MainC15.open_volume_locates s idx ⟨hf, hc, hb, hl⟩ hroom hnot hW
    exact ⟨v, h1, h2, h3, h5, h6⟩
  · exact Lemmas.MainC15.formatted_found hfr hF hD hFl

/-- **The functions `C15_main` speaks about are the source's.**  `open_raw_volume`, WHOLE (partition-table parse, boot-sector
parse, FSInfo parse, table bookkeeping), as REGENERATED FROM THE SOURCE (`Gen.FunsMgr`), is the model's `openRawVolume` as a
function of the manager state (no callback running); and `Bpb::create_from_bytes` (with the 4085 / 65525 cluster-count
boundaries) is the model's for every sector. -/
theorem C15_main_source :
    (∀ (idx : Nat) (s : Mgr), s.locked = false → Gen.FunsMgr.VolumeManager_open_raw_volume idx s = openRawVolume idx s) ∧
    (∀ d : Bytes, some (Gen.Funs.Bpb_create_from_bytes d) = C15Gen.ofRes (Bpb.createFromBytes d)) :=
  ⟨C15GenM.open_raw_volume_eq, C15Gen.create_from_bytes_eq⟩

/-! ### Non-vacuity -/

namespace Example
open Sdmmc.Props.C15Fs.Example16 (fresh16 formatted16 blank_rejected)
open Sdmmc.Props.C02Reopen.Example (disk1 fresh)

/-- The smallest FAT16 volume (4085 clusters, `Props.C15Fs.Example16`): a fresh manager over a medium that is `Formatted`
— all hypotheses of (found) hold; its tables are `WellFormedTables`, its blocks have 512 bytes — those of (locate). -/
example := C15_main.2.1 fresh 0 _ fresh16 formatted16 (by decide) (by decide)
example : WellFormedTables disk1 0 := Lemmas.MainC15.wellFormed_of_formatted formatted16
example := C15_main.1 fresh 0 fresh16.noFault fresh16.coherent formatted16.med.blocksOK fresh16.unlocked
  (by rw [fresh16.vols, fresh16.maxVols]; decide) (by rw [fresh16.vols]; exact List.not_mem_nil)
  (Lemmas.MainC15.wellFormed_of_formatted formatted16)

/-- A blank medium (no partition table): `open_raw_volume 0` answers an error, mounts nothing, writes nothing
(`Props.C15Fs.Example16.blank_rejected`). -/
example := blank_rejected

end Example

end Sdmmc.Props.C15Main
