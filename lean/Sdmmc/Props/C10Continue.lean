/-
CONTINUATION AFTER A CRASH — from the crash-consistency invariant of C10 (`Props.C10Inv`: at every crash point of every
call of every history the medium satisfies `CrashInv`, mounts, and the crash variant of fsck is clean) to USING the file
system again: a fresh manager mounts the crashed medium and starts in `FaultInv s gh X` (`Spec/VolumeFault.lean`), the
invariant of histories under device faults — a crash residue and a fault residue are the same kind of thing.

Property theorems only.  Vocabulary: `Spec/VolumeCrash.lean` (`CrashInv`), `Spec/VolumeFault.lean` (`FaultInv`, `Clean`),
`Spec/VolumeResidue.lean` (READ ITS HEADER: `EmptyNoCluster`, `CrashInvX`, `SizesFit`, the proposed `FaultInvL`),
`Lemmas.Mounted.FreshMgr`, `Lemmas.CrashCont.Mounted` (what a successful mount leaves, spelled out by `mounted_def`),
`Lemmas.CrashCont.VolInvLost` (`VolInv` with lost chains; `volInvLost_def`), `Props.C11Inv.Covered`,
`Props.C11Hist.CoveredRun`.  Proofs: `Lemmas/CrashCont.lean`.

1. THE MOUNT (PROVED, with two clauses that `CrashInv` does not provide — FINDING).
   `crash_mount_establishes_faultinv`: fresh manager `t0` over a medium with `CrashInvX v d gh X` that mounts (partition
   `idx`) to a record `vm` of the geometry of `v`: `open_raw_volume idx` answers the handle, writes nothing, and the
   state satisfies `FaultInv t1 { gh with vol := vm } X` — explicit ghost, explicit lost chains, tables empty, cache
   coherent, no fault pending.  `CrashInvX` = `CrashInv` ∧ `Owns (gh.G ++ X)` ∧ `EmptyNoCluster`.  The two extra clauses
   are NOT consequences of `CrashInv` (nor of `CrashInv ∧ FatEntriesOK`, the conclusion of `Props.C10Inv`) and they are
   exactly what `FaultInv` kept of what `CrashInv` dropped:
   * `Owns (gh.G ++ X)`: `FaultInv` wants the lost clusters grouped into CHAINS; `CrashInv` lets a lost cluster link to
     anything legal.  `Example.lost_cluster_without_chain` (evaluated + proved): a medium with `CrashInv`, valid FAT
     entries and a clean crash-fsck on which NO `X` exists.  The library copes with it (evaluated: mount, create, write
     through the cluster the lost one links to) — the clause is a limit of `FaultInv`'s vocabulary, not a defect:
     `crash_mount_establishes_faultinvL` gives the PROPOSED generalisation `FaultInvL` (`OwnsLoose gh.G` in place of
     `Owns (gh.G ++ X)`) from `CrashInv ∧ EmptyNoCluster` alone; `faultInvL_of_faultInv`: it is implied by `FaultInv`.
   * `EmptyNoCluster` ("a file entry without a cluster is empty"): `CrashInv` drops the clause `sizes` wholesale.
     `Example.sized_entry_without_cluster` (evaluated): a medium with `CrashInv`, valid FAT entries, clean crash-fsck, an
     entry `E.DAT` with cluster 0 and size 5 — after the mount, `read` through `E.DAT` returns the first five bytes of
     ANOTHER file's cluster (the model computes "cluster 0" as the first data cluster; the crate's `cluster - 2`
     underflows).  This clause cannot be given up; it has to come from the crash side.
   NEITHER residue is produced by a crash of the library — every cut-off or not-yet-linked piece is a chain, and every
   slot the library writes carries the (cluster, size) pair of a record that is empty when it has no cluster; at all
   crash points of the evaluated examples `CrashInvX` holds (`Example.crash_points_checked`) — but `Props.C10Inv` does
   not STATE it.  REQUIRED STRENGTHENING of C10Inv (not done here: it means re-walking the per-call proofs
   `Lemmas/VolCrash{Flush,Write,WriteFat,Delete,Open,Mkdir,Dir}.lean` with `Owns (R ++ X')` in place of `OwnsLoose R` in
   `VolCrashStep.ci_of_record`, and carrying the raw size next to the raw cluster in `RawOK`): "from `VolInvC`, at every
   crash point of every call, `CrashInvX gh.vol dk gh' X'` for some `gh'`, `X'`".  `crash_point_continues` is the
   composition with what C10Inv does prove (`crash_mounts`), the residue clauses as the explicit hypothesis.
   NOT TRUE, although one might expect it: `Mirror` after the mount.  A crash between the two device writes of one
   `update_fat` leaves FAT copy 2 one sector behind copy 1 (`Props.C10Crash`: `MirrorBut`); `FaultInv` reads copy 1 only.
   `SizesFit` (third, optional clause): then `crash_mount_establishes_volInvLost` — `VolInv` with lost chains and
   NOTHING else weakened.  It fails only at the crash points of a truncating open between the cut and the slot rewrite
   (`Example.truncate_crash_point`).

2. READING BACK (PROVED by composition; NOTHING of `Props.C11Hist` applies as it stands — DEVIATION).
   The class-A theorems of `Props.C11Hist` (`history_under_faults_partial` …) start from `VolInvF` = `VolInv` up to the
   fault schedule: NO lost cluster, sizes fitting.  A crashed medium satisfies that only when the crash left no
   residue; in general the mounted state satisfies `FaultInv … X` with `X ≠ []`, for which `Props.C11Hist` proves no
   preservation, not even by read-only calls.  What IS available: `Props.C09Hist.flushed_file_survives` clause (c)
   already proves, WITHOUT any invariant of the mounted state, that ordinary API calls find and read a surviving file.
   `crashed_medium_readable` composes the two: at every crash point of every history that does not target a flushed
   file — of ANY directory —, any fresh manager mounts INTO `FaultInv` (given the residue clauses at that crash point),
   and then `open_root_dir`, `open_dir` along the path, `open_file_in_dir(ReadOnly)`, `file_length`, `read` answer the
   flushed length and bytes, writing nothing.

3. ANY HISTORY AFTER THE CRASH (PROVED relative to ONE named hypothesis per statement).
   `FaultInvPreserved`: every covered call issued fault-free in a state with `FaultInv` leaves `FaultInv` (some ghost of
   the same geometry, some lost chains).  `FaultInvClean`: it answers `Ok` or an error.  `history_after_faultinv`,
   `history_after_crash`: under them, mount + ANY covered history (creates, writes, deletes, mkdirs …) keeps `FaultInv`
   after every prefix, every answer clean.  (Lost clusters are marked in use: the allocator never hands them out;
   nothing references them: they are never walked or freed.)
   WHO DISCHARGES THE HYPOTHESES:
   * `LostChainsPreserved`, `LostChainsClean` — the versions for `VolInvLost X` (sizes NOT weakened), the SAME `X`
     afterwards — are DISCHARGED here (`lostChainsPreserved`: proofW's `Lemmas.VolX.covered_step_invX`; `lostChainsClean`:
     `Props.C11HistB.call_under_faults` with no fault scheduled), so `history_after_volInvLost` and
     `history_after_crash_fit` are UNCONDITIONAL: for every crash point with `SizesFit` — all but those inside a
     truncating open — ANY history after the mount keeps the invariant of C03 up to the lost chains of the crash.
     (`…_of`: the versions relative to the hypotheses.)
   * `FaultInvPreserved` / `FaultInvClean` proper (sizes weakened: `∃ cb` in `TreeOK`, `FileLoose`) remain hypotheses:
     proofW's next item; they matter only for media crashed inside a truncating open.
   VALIDATION OF THE SHAPE: `delete_preserves_faultinv` — both hypotheses DISCHARGED for `delete_file_in_dir`, from the
   weak invariant itself (lost chains AND stale sizes), same `X` afterwards; and evaluated
   (`Example.history_after_crash_checked`, in `Props/C10ContinueExample.lean`): mount a medium crashed inside `make_dir`, then create / write / close /
   delete / mkdir — `FaultInv` holds after every call (sound checker `Lemmas.FaultHist.checkFaultInv`), the lost cluster
   stays lost.

4. EVALUATED EXAMPLE (`Props/C10ContinueExample.lean`, namespace `Example`; a file of its own: the kernel evaluation
   over 4085 FAT entries takes minutes): the smallest FAT16 volume of `Props.C02Reopen` / `Props.C15Fs` (4085 clusters,
   `A.TXT` = 600 bytes) crashed at every write of `make_dir` and of a truncating `open_file_in_dir`, mounted, listed,
   `A.TXT` read back.
-/
import Sdmmc.Lemmas.CrashContCheck
import Sdmmc.Lemmas.CrashContDelete
import Sdmmc.Props.C10Inv
import Sdmmc.Props.C09Hist
import Sdmmc.Props.C11Hist
import Sdmmc.Props.C11HistB

namespace Sdmmc.Props.C10Continue
open Sdmmc.Model Sdmmc.Model.Fat Sdmmc.Spec.Volume
open Sdmmc.Spec hiding run step NoFault Coherent
open Sdmmc.Lemmas.Mounted (FreshMgr)
open Sdmmc.Lemmas.CrashCont (Mounted VolInvLost)
open Sdmmc.Props.C11Inv (Covered)
open Sdmmc.Props.C11Hist (CoveredRun)

/-! ### Vocabulary, spelled out -/

theorem crashInvX_def (v : FatVolume) (d : Disk) (gh : Ghost) (X : List (List Nat)) :
    CrashInvX v d gh X ↔ CrashInv v d gh ∧ Owns v d (gh.G ++ X) ∧ EmptyNoCluster v.fatType gh.dirs (dirSlots v d gh.G) :=
  ⟨fun h => ⟨h.inv, h.lost, h.empty⟩, fun h => ⟨h.1, h.2.1, h.2.2⟩⟩

/-- What `Mounted t0 idx vm t1` says: `open_raw_volume idx` of `t0` answered the handle `t0.nextId` and left `t1`: the
medium and the write log as they were, no fault pending, the cache coherent, the lock open, ONE volume record — handle,
partition index, the mounted record `vm` —, no directory and no file open, the generator advanced, limits and clock
unchanged. -/
theorem mounted_def (t0 : Mgr) (idx : Nat) (vm : FatVolume) (t1 : Mgr) :
    Mounted t0 idx vm t1 ↔
      openRawVolume idx t0 = (.ok t0.nextId, t1) ∧ t1.dev.disk = t0.dev.disk ∧ t1.dev.wlog = t0.dev.wlog ∧
      t1.dev.faults = [] ∧ (∀ i, t1.cache.tag = some i → t1.cache.blk = t1.dev.disk.get i) ∧ t1.locked = false ∧
      t1.vols = [{ rawVolume := t0.nextId, idx := idx, vol := vm }] ∧ t1.dirs = [] ∧ t1.files = [] ∧
      t1.nextId = (t0.nextId + 1) % 4294967296 ∧ t1.maxVols = 1 ∧ t1.maxDirs = t0.maxDirs ∧ t1.maxFiles = t0.maxFiles ∧
      t1.clock = t0.clock :=
  ⟨fun h => ⟨h.run, h.disk, h.wlog, h.noFault, h.coherent, h.unlocked, h.vols, h.dirs, h.files, h.nextId, h.maxVols,
      h.maxDirs, h.maxFiles, h.clock⟩,
   fun ⟨a, b, c, d, e, f, g, h, i, j, k, l, m, n⟩ => ⟨a, b, c, d, e, f, g, h, i, j, k, l, m, n⟩⟩

/-- `VolInvLost X s gh`: `VolInv` (C03) whose medium clause is taken up to the lost chains `X` — `Owns (gh.G ++ X)` —
and NOTHING else weakened. -/
theorem volInvLost_def (X : List (List Nat)) (s : Mgr) (gh : Ghost) :
    VolInvLost X s gh ↔ s.dev.faults = [] ∧ (∀ i, s.cache.tag = some i → s.cache.blk = s.dev.disk.get i) ∧
      s.locked = false ∧ s.maxVols = 1 ∧ (s.vols = [] ∨ ∃ vi, s.vols = [vi] ∧ vi.vol = gh.vol) ∧
      Lemmas.VolMed.MedX gh.vol s.dev.disk s.files gh X ∧
      (∀ f, f ∈ s.files → ∃ vi, s.vols = [vi] ∧ f.rawVolume = vi.rawVolume) ∧
      (∀ di, di ∈ s.dirs → ValidDir gh.dirs di.cluster) :=
  ⟨fun h => ⟨h.noFault, h.coherent, h.unlocked, h.maxVols, h.vols, h.med, h.fileVols, h.openDirs⟩,
   fun ⟨a, b, c, d, e, f, g, h⟩ => ⟨a, b, c, d, e, f, g, h⟩⟩

/-- With no lost chain it is `VolInv`. -/
theorem volInvLost_nil {s : Mgr} {gh : Ghost} : VolInvLost [] s gh ↔ VolInv s gh :=
  ⟨fun h => ⟨h.noFault, h.coherent, h.unlocked, h.maxVols, h.vols, Lemmas.VolMed.med_of_medX h.med, h.fileVols, h.openDirs⟩,
   fun h => ⟨h.noFault, h.coherent, h.unlocked, h.maxVols, h.vols, Lemmas.VolMed.medX_of_med h.med, h.fileVols, h.openDirs⟩⟩

/-! ### 1. The mount -/

/-- **`crash_mount_establishes_faultinv`.**  A fresh manager over a crashed medium — `CrashInvX`: crash-consistent, the
lost clusters forming the chains `X`, file entries without a cluster empty — that mounts to a record of the volume's
geometry: `open_raw_volume` succeeds, writes nothing, and the state satisfies `FaultInv` for the ghost of the crashed
medium (with the mounted record) and the lost chains `X`. -/
theorem crash_mount_establishes_faultinv {t0 : Mgr} {idx : Nat} {v vm : FatVolume} {gh : Ghost} {X : List (List Nat)}
    (hfr : FreshMgr t0) (hC : CrashInvX v t0.dev.disk gh X)
    (hm : mountPure (t0.dev.disk.get 0) idx t0.dev.disk.get = .ok vm) (hs : SameGeom v vm) :
    ∃ t1, Mounted t0 idx vm t1 ∧ FaultInv t1 { gh with vol := vm } X :=
  Lemmas.CrashCont.crash_mount_faultInv hfr hC hm hs

/-- The proposed generalisation `FaultInvL` (lost clusters not grouped into chains) needs `CrashInv` and
`EmptyNoCluster` only. -/
theorem crash_mount_establishes_faultinvL {t0 : Mgr} {idx : Nat} {v vm : FatVolume} {gh : Ghost} (hfr : FreshMgr t0)
    (hC : CrashInv v t0.dev.disk gh) (hE : EmptyNoCluster v.fatType gh.dirs (dirSlots v t0.dev.disk gh.G))
    (hm : mountPure (t0.dev.disk.get 0) idx t0.dev.disk.get = .ok vm) (hs : SameGeom v vm) :
    ∃ t1, Mounted t0 idx vm t1 ∧ FaultInvL t1 { gh with vol := vm } :=
  Lemmas.CrashCont.crash_mount_faultInvL hfr hC hE hm hs

theorem faultInvL_of_faultInv {s : Mgr} {gh : Ghost} {X : List (List Nat)} (h : FaultInv s gh X) : FaultInvL s gh :=
  Lemmas.CrashCont.faultInvL_of_faultInv h

/-- When all stored sizes fit their chains: `VolInv` with lost chains, nothing else weakened. -/
theorem crash_mount_establishes_volInvLost {t0 : Mgr} {idx : Nat} {v vm : FatVolume} {gh : Ghost} {X : List (List Nat)}
    (hfr : FreshMgr t0) (hC : CrashInvX v t0.dev.disk gh X) (hS : SizesFit v t0.dev.disk gh)
    (hm : mountPure (t0.dev.disk.get 0) idx t0.dev.disk.get = .ok vm) (hs : SameGeom v vm) :
    ∃ t1, Mounted t0 idx vm t1 ∧ VolInvLost X t1 { gh with vol := vm } :=
  Lemmas.CrashCont.crash_mount_volInvLost hfr hC hS hm hs

theorem faultInv_of_volInvLost {X : List (List Nat)} {s : Mgr} {gh : Ghost} (h : VolInvLost X s gh) : FaultInv s gh X :=
  Lemmas.CrashCont.faultInv_of_volInvLost h

/-- **The composition with C10Inv.**  From `VolInvC` (the invariant of API histories of C10), for ANY crash point `dk` of
ANY covered call: `dk` is crash-consistent and mounts (C10Inv); IF in addition its lost clusters form chains `X` and its
file entries without a cluster are empty (the residue clauses, for the ghost `gh'`), every fresh manager on `dk` mounts
into `FaultInv`. -/
theorem crash_point_continues (s : Mgr) (op : Op) (gh : Ghost) (hI : VolInvC s gh) (hc : C03Inv.Covered s op) (k : Nat)
    (idx : Nat) (vm0 : FatVolume) (hm : mountPure (s.dev.disk.get 0) idx s.dev.disk.get = .ok vm0) (hsg : SameGeom vm0 gh.vol)
    (gh' : Ghost) (X : List (List Nat))
    (hres : Owns gh.vol (crashDisk s.dev.disk (step s op).2.writes k) (gh'.G ++ X) ∧
      EmptyNoCluster gh.vol.fatType gh'.dirs (dirSlots gh.vol (crashDisk s.dev.disk (step s op).2.writes k) gh'.G))
    (hCI : CrashInv gh.vol (crashDisk s.dev.disk (step s op).2.writes k) gh')
    (t0 : Mgr) (hfr : FreshMgr t0) (hd : t0.dev.disk = crashDisk s.dev.disk (step s op).2.writes k) :
    ∃ vm t1, SameGeom gh.vol vm ∧ Mounted t0 idx vm t1 ∧ FaultInv t1 { gh' with vol := vm } X := by
  obtain ⟨w, hw, hsw⟩ := C10Inv.crash_mounts s op gh hI hc k idx vm0 hm hsg
  rw [← hd] at hw hres hCI
  obtain ⟨t1, h1, h2⟩ := crash_mount_establishes_faultinv hfr ⟨hCI, hres.1, hres.2⟩ hw hsw
  exact ⟨w, t1, hsw, h1, h2⟩

/-! ### 2. Reading back what survived -/

/-- **`crashed_medium_readable`.**  The setting of `Props.C09Hist.flushed_file_survives`: `s1` is a `Kept` state for a
flushed file (entry `e`, chain `cs`) of ANY directory `h` — reached from the root through the sub-directory entries `ys`,
`[]` for a root file —, its medium mounts, `ops` is any covered history that never targets the file.  At EVERY crash
point `dk` of the history at which the residue clauses hold (`CrashInvX v0 dk gh' X`; see the header: C10Inv gives
`CrashInv`, not yet the two extra clauses), EVERY fresh manager on `dk`:
* mounts, into a state with `FaultInv` for the ghost `gh'` (with the mounted record) and the lost chains `X`;
* and from that state `open_root_dir`, `open_dir` along any spellings `names` of the path, `open_file_in_dir(name,
  ReadOnly)` for any spelling `name` of the stored name, `file_length`, `read` answer the handles, the flushed length
  `e.size` and the flushed bytes, writing nothing. -/
theorem crashed_medium_readable (v0 : FatVolume) (s1 : Mgr) (gh1 : Ghost) (e : DirEntry) (cs : List Nat) (ys : List Slot)
    (h : Nat) (hK : Lemmas.Survive.Kept v0 e cs ys h s1 gh1) (hst : Lemmas.Reopen.Storable v0.fatType e)
    (ops : List Op) (hc : C03Inv.CoveredAllRun v0 s1 ops)
    (hu : Lemmas.Survive.Untouched h e.name (e.entryBlock, e.entryOffset) s1 ops)
    (idx : Nat) (vm : FatVolume) (hm : mountPure (s1.dev.disk.get 0) idx s1.dev.disk.get = .ok vm) (hsg : SameGeom vm v0)
    (dk : Disk) (hk : Lemmas.Survive.HistCrash s1 ops dk) (gh' : Ghost) (X : List (List Nat)) (hres : CrashInvX v0 dk gh' X)
    (t0 : Mgr) (names : List (List Nat)) (name : List Nat) (hfr : FreshMgr t0) (hd : t0.dev.disk = dk)
    (hmd : ys.length + 1 ≤ t0.maxDirs) (hmf : 0 < t0.maxFiles) (hid : t0.nextId + ys.length + 2 < 4294967296)
    (hnames : Lemmas.Survive.Spells names ys) (hname : Sfn.createFromStr name = .ok e.name) :
    ∃ vmk t1 t2 dh t3 t4, SameGeom v0 vmk ∧ Mounted t0 idx vmk t1 ∧ FaultInv t1 { gh' with vol := vmk } X ∧
      openRootDir t0.nextId t1 = (.ok (t0.nextId + 1), t2) ∧
      Lemmas.Survive.openPath (t0.nextId + 1) names t2 = (.ok dh, t3) ∧
      openFileInDir dh name .ReadOnly t3 = (.ok (t0.nextId + ys.length + 2), t4) ∧
      t4.dev.disk = dk ∧ t4.dev.wlog = t0.dev.wlog ∧
      fileLength (t0.nextId + ys.length + 2) t4 = (.ok e.size, t4) ∧
      ∀ n, ∃ t5, read (t0.nextId + ys.length + 2) n t4 = (.ok ((fileContent v0 s1.dev.disk cs e.size).take n), t5) ∧
        t5.dev.disk = dk ∧ t5.dev.wlog = t0.dev.wlog := by
  have hI : VolInvC s1 gh1 := ⟨hK.inv, hK.mirror, hK.raw⟩
  -- the crash point mounts (C10Inv)
  obtain ⟨j, op, k, hj, hdk⟩ := (Lemmas.Survive.histCrash_iff s1 ops dk).1 hk
  obtain ⟨w, hw, hsw⟩ := C10Inv.history_crash_mounts_from_start v0 ops s1 gh1 hI hK.geom hc j op hj k idx vm hm hsg
  rw [← hdk, ← hd] at hw
  -- into `FaultInv`
  rw [← hd] at hres
  obtain ⟨t1, hM, hFI⟩ := crash_mount_establishes_faultinv hfr hres hw hsw
  -- and the file is read back (C09Hist)
  have hok : Lemmas.ReadRefines.MgrOK t0 := ⟨hfr.noFault, hfr.coherent, hres.inv.blocksOK, hfr.unlocked⟩
  obtain ⟨_, _, hread⟩ := C09Hist.flushed_file_survives v0 s1 gh1 e cs ys h hK hst ops hc hu idx vm hm hsg dk hk
  obtain ⟨t1', t2, dh, t3, t4, r1, r2, r3, r4, r5, r6, r7, r8⟩ := hread t0 names name hok hd hfr.vols hfr.dirs hfr.files
    (by rw [hfr.maxVols]; decide) hmd hmf hid hnames hname
  have e1 : t1' = t1 := congrArg Prod.snd (r1.symm.trans hM.run)
  subst e1
  exact ⟨w, t1', t2, dh, t3, t4, hsw, hM, hFI, r2, r3, r4, r5, r6, r7, r8⟩

/-! ### 3. Any history from `FaultInv` -/

/-- **The named hypothesis**: a covered call issued fault-free in a state with `FaultInv` leaves `FaultInv`. -/
def FaultInvPreserved : Prop :=
  ∀ (s : Mgr) (gh : Ghost) (X : List (List Nat)) (op : Op), FaultInv s gh X → s.dev.faults = [] → Covered s op →
    ∃ gh' X', FaultInv (step s op).1 gh' X' ∧ SameGeom gh.vol gh'.vol

/-- … and answers `Ok` or an error. -/
def FaultInvClean : Prop :=
  ∀ (s : Mgr) (gh : Ghost) (X : List (List Nat)) (op : Op), FaultInv s gh X → s.dev.faults = [] → Covered s op →
    Clean (step s op).2.result

/-- The version with sizes not weakened and the SAME lost chains afterwards — proofW's
`Lemmas.VolX.covered_step_invX`, field by field. -/
def LostChainsPreserved : Prop :=
  ∀ (X : List (List Nat)) (s : Mgr) (gh : Ghost) (op : Op), VolInvLost X s gh → Covered s op →
    ∃ gh', VolInvLost X (step s op).1 gh' ∧ SameGeom gh.vol gh'.vol

def LostChainsClean : Prop :=
  ∀ (X : List (List Nat)) (s : Mgr) (gh : Ghost) (op : Op), VolInvLost X s gh → Covered s op → Clean (step s op).2.result

theorem run_cons (s : Mgr) (op : Op) (ops : List Op) :
    run s (op :: ops) = ((run (step s op).1 ops).1, (step s op).2 :: (run (step s op).1 ops).2) := rfl

/-- **`history_after_faultinv`.**  Under `FaultInvPreserved` and `FaultInvClean`: every covered history from a state with
`FaultInv` and no fault pending keeps `FaultInv` after every prefix, and every call answers `Ok` or an error. -/
theorem history_after_faultinv (hP : FaultInvPreserved) (hCl : FaultInvClean) (ops : List Op) (s : Mgr) (gh : Ghost)
    (X : List (List Nat)) (hI : FaultInv s gh X) (hn : s.dev.faults = []) (hc : CoveredRun s ops) (k : Nat) :
    ∃ gh' X', FaultInv (run s (ops.take k)).1 gh' X' ∧ SameGeom gh.vol gh'.vol ∧ (run s (ops.take k)).1.dev.faults = [] ∧
      ∀ o, o ∈ (run s (ops.take k)).2 → Clean o.result := by
  induction ops generalizing s gh X k with
  | nil => exact ⟨gh, X, by rw [List.take_nil]; exact hI, SameGeom.refl _, by rw [List.take_nil]; exact hn,
      fun o ho => by rw [List.take_nil] at ho; cases ho⟩
  | cons op ops ih =>
    cases k with
    | zero => exact ⟨gh, X, hI, SameGeom.refl _, hn, fun o ho => by cases ho⟩
    | succ k =>
      obtain ⟨gh1, X1, h1, g1⟩ := hP s gh X op hI hn hc.1
      have hn1 : (step s op).1.dev.faults = [] := by
        have := C11Hist.schedule_is_shared [op] s
        rw [show (run s [op]).1 = (step s op).1 from rfl] at this
        rw [this, hn]
      obtain ⟨gh2, X2, h2, g2, n2, c2⟩ := ih (step s op).1 gh1 X1 h1 hn1 hc.2 k
      rw [List.take_succ_cons, run_cons]
      refine ⟨gh2, X2, h2, g1.trans g2, n2, fun o ho => ?_⟩
      rcases List.mem_cons.1 ho with rfl | ho
      · exact hCl s gh X op hI hn hc.1
      · exact c2 o ho

/-- The same for `VolInvLost` (lost chains only, the same `X` throughout). -/
theorem history_after_volInvLost_of (hP : LostChainsPreserved) (hCl : LostChainsClean) (ops : List Op) (X : List (List Nat))
    (s : Mgr) (gh : Ghost) (hI : VolInvLost X s gh) (hc : CoveredRun s ops) (k : Nat) :
    ∃ gh', VolInvLost X (run s (ops.take k)).1 gh' ∧ SameGeom gh.vol gh'.vol ∧
      ∀ o, o ∈ (run s (ops.take k)).2 → Clean o.result := by
  induction ops generalizing s gh k with
  | nil => exact ⟨gh, by rw [List.take_nil]; exact hI, SameGeom.refl _, fun o ho => by rw [List.take_nil] at ho; cases ho⟩
  | cons op ops ih =>
    cases k with
    | zero => exact ⟨gh, hI, SameGeom.refl _, fun o ho => by cases ho⟩
    | succ k =>
      obtain ⟨gh1, h1, g1⟩ := hP X s gh op hI hc.1
      obtain ⟨gh2, h2, g2, c2⟩ := ih (step s op).1 gh1 h1 hc.2 k
      rw [List.take_succ_cons, run_cons]
      refine ⟨gh2, h2, g1.trans g2, fun o ho => ?_⟩
      rcases List.mem_cons.1 ho with rfl | ho
      · exact hCl X s gh op hI hc.1
      · exact c2 o ho

/-- **`history_after_crash`.**  A fresh manager over a crashed medium (`CrashInvX`) that mounts; then ANY covered history
— creates, writes, deletes, mkdirs, … — issued from the mounted state: under `FaultInvPreserved` and `FaultInvClean`,
`FaultInv` holds after the mount and after every prefix of the history, for a ghost of the geometry of the volume, and
every call answers `Ok` or an error. -/
theorem history_after_crash (hP : FaultInvPreserved) (hCl : FaultInvClean) {t0 : Mgr} {idx : Nat} {v vm : FatVolume}
    {gh : Ghost} {X : List (List Nat)} (hfr : FreshMgr t0) (hC : CrashInvX v t0.dev.disk gh X)
    (hm : mountPure (t0.dev.disk.get 0) idx t0.dev.disk.get = .ok vm) (hs : SameGeom v vm) :
    ∃ t1, Mounted t0 idx vm t1 ∧ FaultInv t1 { gh with vol := vm } X ∧
      ∀ (ops : List Op), CoveredRun t1 ops → ∀ k, ∃ gh' X', FaultInv (run t1 (ops.take k)).1 gh' X' ∧ SameGeom vm gh'.vol ∧
        ∀ o, o ∈ (run t1 (ops.take k)).2 → Clean o.result := by
  obtain ⟨t1, h1, h2⟩ := crash_mount_establishes_faultinv hfr hC hm hs
  refine ⟨t1, h1, h2, fun ops hc k => ?_⟩
  obtain ⟨gh', X', a, b, _, c⟩ := history_after_faultinv hP hCl ops t1 _ X h2 h1.noFault hc k
  exact ⟨gh', X', a, b, c⟩

/-- **`history_after_crash_fit`.**  The same when the stored sizes of the crashed medium fit their chains (every crash
point except those inside a truncating open): under `LostChainsPreserved` — proofW's `covered_step_invX` — the invariant
of C03 with the lost chains `X`, nothing else weakened, holds after every prefix; the lost chains stay exactly `X`. -/
theorem history_after_crash_fit_of (hP : LostChainsPreserved) (hCl : LostChainsClean) {t0 : Mgr} {idx : Nat} {v vm : FatVolume}
    {gh : Ghost} {X : List (List Nat)} (hfr : FreshMgr t0) (hC : CrashInvX v t0.dev.disk gh X) (hS : SizesFit v t0.dev.disk gh)
    (hm : mountPure (t0.dev.disk.get 0) idx t0.dev.disk.get = .ok vm) (hs : SameGeom v vm) :
    ∃ t1, Mounted t0 idx vm t1 ∧ VolInvLost X t1 { gh with vol := vm } ∧
      ∀ (ops : List Op), CoveredRun t1 ops → ∀ k, ∃ gh', VolInvLost X (run t1 (ops.take k)).1 gh' ∧ SameGeom vm gh'.vol ∧
        ∀ o, o ∈ (run t1 (ops.take k)).2 → Clean o.result := by
  obtain ⟨t1, h1, h2⟩ := crash_mount_establishes_volInvLost hfr hC hS hm hs
  exact ⟨t1, h1, h2, fun ops hc k => history_after_volInvLost_of hP hCl ops X t1 _ h2 hc k⟩

/-! ### The lost-chains hypotheses DISCHARGED (proofW's `Lemmas/VolX*.lean`, `Props.C11HistB`) -/

theorem volInvX_of_volInvLost {X : List (List Nat)} {s : Mgr} {gh : Ghost} (h : VolInvLost X s gh) :
    Lemmas.VolX.VolInvX X s gh :=
  ⟨h.noFault, h.coherent, h.unlocked, h.maxVols, h.vols, h.med, h.fileVols, h.openDirs⟩

theorem volInvLost_of_volInvX {X : List (List Nat)} {s : Mgr} {gh : Ghost} (h : Lemmas.VolX.VolInvX X s gh) :
    VolInvLost X s gh :=
  ⟨h.noFault, h.coherent, h.unlocked, h.maxVols, h.vols, h.med, h.fileVols, h.openDirs⟩

/-- `VolInvLost` is `VolInvL` of `Spec/VolumeLost.lean` with no fault pending. -/
theorem volInvL_of_volInvLost {X : List (List Nat)} {s : Mgr} {gh : Ghost} (h : VolInvLost X s gh) : VolInvL s gh X :=
  ⟨h.coherent, h.unlocked, h.maxVols, h.vols,
    ⟨h.med.blocksOK, h.med.geom, h.med.hint, h.med.owns, h.med.tree, h.med.fileOK⟩, h.fileVols, h.openDirs⟩

/-- **`LostChainsPreserved` holds**: `Lemmas.VolX.covered_step_invX`. -/
theorem lostChainsPreserved : LostChainsPreserved := fun X s gh op hI hc => by
  obtain ⟨gh', h, g⟩ := Lemmas.VolX.covered_step_invX (volInvX_of_volInvLost hI) op ((C11Inv.covered_iff s op).1 hc)
  exact ⟨gh', volInvLost_of_volInvX h, g⟩

/-- **`LostChainsClean` holds**: `Props.C11HistB.call_under_faults` with no fault scheduled. -/
theorem lostChainsClean : LostChainsClean := fun X s gh op hI hc => by
  have hex : Lemmas.FaultHist.Exhausted s.dev := fun i hi => by rw [hI.noFault] at hi; cases hi
  exact (C11HistB.call_under_faults (volInvL_of_volInvLost hI) op hc fun h =>
    absurd (Lemmas.FaultHist.step_exhausted s op hex).2.1 h).2

/-- **`history_after_volInvLost`** — unconditional: every covered history from a state with the invariant of C03 up to
lost chains `X` keeps it, with the SAME lost chains, after every prefix, and every call answers `Ok` or an error. -/
theorem history_after_volInvLost (ops : List Op) (X : List (List Nat)) (s : Mgr) (gh : Ghost) (hI : VolInvLost X s gh)
    (hc : CoveredRun s ops) (k : Nat) :
    ∃ gh', VolInvLost X (run s (ops.take k)).1 gh' ∧ SameGeom gh.vol gh'.vol ∧
      ∀ o, o ∈ (run s (ops.take k)).2 → Clean o.result :=
  history_after_volInvLost_of lostChainsPreserved lostChainsClean ops X s gh hI hc k

/-- **`history_after_crash_fit`** — unconditional: a fresh manager over a crashed medium (`CrashInvX`) whose stored sizes
fit their chains (every crash point except those inside a truncating open) that mounts; then ANY covered history —
creates, writes, deletes, mkdirs, … — keeps the invariant of C03 up to the lost chains `X` of the crash: the lost
chains stay exactly `X` (never handed out, never walked), and every call answers `Ok` or an error. -/
theorem history_after_crash_fit {t0 : Mgr} {idx : Nat} {v vm : FatVolume} {gh : Ghost} {X : List (List Nat)} (hfr : FreshMgr t0)
    (hC : CrashInvX v t0.dev.disk gh X) (hS : SizesFit v t0.dev.disk gh)
    (hm : mountPure (t0.dev.disk.get 0) idx t0.dev.disk.get = .ok vm) (hs : SameGeom v vm) :
    ∃ t1, Mounted t0 idx vm t1 ∧ VolInvLost X t1 { gh with vol := vm } ∧
      ∀ (ops : List Op), CoveredRun t1 ops → ∀ k, ∃ gh', VolInvLost X (run t1 (ops.take k)).1 gh' ∧ SameGeom vm gh'.vol ∧
        ∀ o, o ∈ (run t1 (ops.take k)).2 → Clean o.result :=
  history_after_crash_fit_of lostChainsPreserved lostChainsClean hfr hC hS hm hs

/-- **The hypotheses discharged for ONE mutating call, `delete_file_in_dir`** (validation of their shape; proofs:
`Lemmas/CrashContDelete*.lean`, the C03 proof of `delete` restated for the weak medium invariant — 36 lemmas, 28 of them
with the proof unchanged): fault-free, from `FaultInv s gh X` — lost chains, stale sizes and all —, the call leaves
`FaultInv` with THE SAME lost chains `X`, for a ghost of the same geometry, and answers `Ok` or an error. -/
theorem delete_preserves_faultinv (s : Mgr) (gh : Ghost) (X : List (List Nat)) (d : Nat) (name : List Nat)
    (hI : FaultInv s gh X) (hn : s.dev.faults = []) (hc : Covered s (.delete d name)) :
    ∃ gh', FaultInv (step s (.delete d name)).1 gh' X ∧ SameGeom gh.vol gh'.vol ∧
      (step s (.delete d name)).1.dev.faults = [] ∧ Clean (step s (.delete d name)).2.result :=
  Lemmas.CrashContDelete.delete_keeps_faultInv_clean hI hn d name hc

/-- … hence, straight after the mount of a crashed medium: deleting a file keeps `FaultInv`; the lost chains stay lost. -/
theorem delete_after_crash {t0 : Mgr} {idx : Nat} {v vm : FatVolume} {gh : Ghost} {X : List (List Nat)} (hfr : FreshMgr t0)
    (hC : CrashInvX v t0.dev.disk gh X) (hm : mountPure (t0.dev.disk.get 0) idx t0.dev.disk.get = .ok vm) (hs : SameGeom v vm)
    (d : Nat) (name : List Nat) :
    ∃ t1, Mounted t0 idx vm t1 ∧ ∃ gh', FaultInv (step t1 (.delete d name)).1 gh' X ∧ SameGeom vm gh'.vol ∧
      (step t1 (.delete d name)).1.dev.faults = [] ∧ Clean (step t1 (.delete d name)).2.result :=
  Lemmas.CrashContDelete.crash_mount_delete hfr hC hm hs d name (C03All.name_ok_all name)

/-- With no residue at all (`X = []`, sizes fitting) the mounted state satisfies `VolInv`: everything of C03 / C01 / C11Hist
applies.  (Crash points before the first or after the last FAT / slot write of a call.) -/
theorem crash_mount_no_residue {t0 : Mgr} {idx : Nat} {v vm : FatVolume} {gh : Ghost} (hfr : FreshMgr t0)
    (hC : CrashInvX v t0.dev.disk gh []) (hS : SizesFit v t0.dev.disk gh)
    (hm : mountPure (t0.dev.disk.get 0) idx t0.dev.disk.get = .ok vm) (hs : SameGeom v vm) :
    ∃ t1, Mounted t0 idx vm t1 ∧ VolInv t1 { gh with vol := vm } := by
  obtain ⟨t1, h1, h2⟩ := crash_mount_establishes_volInvLost hfr hC hS hm hs
  exact ⟨t1, h1, volInvLost_nil.1 h2⟩

end Sdmmc.Props.C10Continue
