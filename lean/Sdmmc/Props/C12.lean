/-
C12 — Block reads and writes through the SD card driver transfer the right data, and the card's
capacity and kind are reported correctly.

Property theorems only; helper lemmas live in `Sdmmc.Lemmas.Sd*`.
Model: `Sdmmc.Model.Sd` (driver), `Sdmmc.Model.Csd` (CSD register accessors; the bit-field
tables `Sdmmc.Gen.csdV1_*` / `csdV2_*` are regenerated from /repo/src/sdcard/proto.rs).
Spec: `Sdmmc.Spec.Card` (an SPI-mode card written from the specification; `capacityOfCsd`).

What is proved here, for EVERY bus: the register decoding and capacity formulas against the
specification's bit positions and formulas; the addressing (byte addresses for standard
capacity, block addresses for high capacity); which command frames single- and multi-block
transfers put on MOSI and how they correspond.  What the card *returns* is the card's business:
the end-to-end statement (driver against the specification card `Sdmmc.Spec.Card` as the bus)
is `read_single_correct_sdhc` at the end of this file, for single-block reads of a high-capacity card.
-/
import Sdmmc.Lemmas.SdCap
import Sdmmc.Lemmas.SdCmdSeq
import Sdmmc.Lemmas.SdCardSim

namespace Sdmmc.Props.C12
open Sdmmc.Model Sdmmc.Model.Sd Sdmmc.Gen

variable {σ : Type} (B : BusOps σ)

/-! ## The CSD register -/

/-- The specification's bit range `hi:lo` of the 128-bit big-endian CSD register (byte 0 holds
bits 127:120, byte 15 holds bits 7:0) as (byte, start bit, number of bits) pieces, most
significant piece first, one piece per byte touched. -/
def specPieces (hi lo : Nat) : FieldParts :=
  (List.range (hi / 8 - lo / 8 + 1)).map fun j =>
    let r := hi / 8 - j
    let base := 8 * r
    let top := min hi (base + 7)
    let bot := max lo base
    (15 - r, bot - base, top - bot + 1)

/-- The generated bit-field rows the capacity computation uses are the specification's bit
positions: CSD_STRUCTURE 127:126, C_SIZE 73:62, C_SIZE_MULT 49:47, READ_BL_LEN 83:80 (version 1);
CSD_STRUCTURE 127:126, C_SIZE 69:48 (version 2). -/
theorem csd_fields_match_spec :
    csdV1_csd_ver = specPieces 127 126 ∧ csdV1_device_size = specPieces 73 62 ∧
    csdV1_device_size_multiplier = specPieces 49 47 ∧ csdV1_read_block_length = specPieces 83 80 ∧
    csdV2_csd_ver = specPieces 127 126 ∧ csdV2_device_size = specPieces 69 48 :=
  Lemmas.SdCsd.csd_fields_match_spec

/-- Version-1 layout: the reported block count is the specification's
`(C_SIZE+1) * 2^(C_SIZE_MULT+2) * 2^READ_BL_LEN / 512`, for every 16-byte register with
CSD_STRUCTURE = 0 (the `as u32` never truncates). -/
theorem capacity_matches_spec_v1_blocks (csd : Bytes) (h : byteAt csd 0 / 64 = 0) :
    Csd.v1CapacityBlocks csd = Spec.Card.capacityOfCsd csd :=
  Lemmas.SdCsd.v1_blocks_eq csd h

/-- … and the byte count is 512 times that when READ_BL_LEN ≥ 9. -/
theorem capacity_matches_spec_v1_bytes (csd : Bytes) (h : byteAt csd 0 / 64 = 0) (h9 : 9 ≤ byteAt csd 5 % 16) :
    Csd.v1CapacityBytes csd = 512 * Spec.Card.capacityOfCsd csd :=
  Lemmas.SdCsd.v1_bytes_eq csd h h9

/-- Below READ_BL_LEN = 9 the byte count need not be a multiple of 512; in general the block
count is the byte count divided by 512, rounded down. -/
theorem capacity_matches_spec_v1_floor (csd : Bytes) (h : byteAt csd 0 / 64 = 0) :
    512 * Spec.Card.capacityOfCsd csd ≤ Csd.v1CapacityBytes csd ∧
    Csd.v1CapacityBytes csd < 512 * (Spec.Card.capacityOfCsd csd + 1) :=
  Lemmas.SdCsd.v1_bytes_floor csd h

/-- Version-2 layout: the reported block count is the specification's `(C_SIZE+1) * 1024`,
for every register with CSD_STRUCTURE ≠ 0 and C_SIZE below its maximum. -/
theorem capacity_matches_spec_v2_blocks (csd : Bytes) (h : byteAt csd 0 / 64 ≠ 0)
    (hs : Csd.v2DeviceSize csd < 0x3FFFFF) :
    Csd.v2CapacityBlocks csd = Spec.Card.capacityOfCsd csd :=
  Lemmas.SdCsd.v2_blocks_eq csd h hs

/-- At the maximum C_SIZE = 0x3FFFFF (a 2 TiB card) the `u32` block count saturates one short
of the specification's 2^32 blocks. -/
theorem capacity_v2_saturates (csd : Bytes) (h : byteAt csd 0 / 64 ≠ 0) (hs : Csd.v2DeviceSize csd = 0x3FFFFF) :
    Csd.v2CapacityBlocks csd = 4294967295 ∧ Spec.Card.capacityOfCsd csd = 4294967296 :=
  Lemmas.SdCsd.v2_blocks_saturated csd h hs

theorem v2DeviceSize_le (csd : Bytes) : Csd.v2DeviceSize csd ≤ 0x3FFFFF := Lemmas.SdCsd.v2DeviceSize_le csd

/-- The version-2 byte count (a `u64`) is always 512 times the specification's block count. -/
theorem capacity_matches_spec_v2_bytes (csd : Bytes) (h : byteAt csd 0 / 64 ≠ 0) :
    Csd.v2CapacityBytes csd = 512 * Spec.Card.capacityOfCsd csd :=
  Lemmas.SdCsd.v2_bytes_eq csd h

/-- `read_csd` succeeds only on an initialised card, returns the 16 bytes that `read_data`
delivered after CMD9 was answered with 0, and picks the layout: version 1 for an SD1 card,
otherwise by the register's own CSD_STRUCTURE field. -/
theorem readCsd_layout (s s' : St σ) (csd : Bytes) (v2 : Bool) (h : readCsd B s = (.ok (csd, v2), s')) :
    ∃ ct s1, s.cardType = some ct ∧ cardCommand B CMD9 0 s = (.ok 0, s1) ∧ readData B 16 s1 = (.ok csd, s') ∧
      v2 = (if ct = .SD1 then false else decide (byteAt csd 0 / 64 ≠ 0)) :=
  Lemmas.Sd.readCsd_layout B s s' csd v2 h

/-- The reported capacity in blocks equals the capacity encoded in the register the card sent,
for the register's own layout — provided an SD1 card's register really is a version-1 register,
and short of the saturating value of the version-2 formula. -/
theorem numBlocks_matches_spec (s s' : St σ) (n : Nat) (h : numBlocks B s = (.ok n, s')) :
    ∃ csd v2, readCsd B s = (.ok (csd, v2), s') ∧
      ((s.cardType = some .SD1 → byteAt csd 0 / 64 = 0) →
       (byteAt csd 0 / 64 ≠ 0 → Csd.v2DeviceSize csd < 0x3FFFFF) →
       n = Spec.Card.capacityOfCsd csd) :=
  Lemmas.Sd.numBlocks_matches_spec B s s' n h

/-- The reported capacity in bytes is 512 times that — for a version-1 register provided
READ_BL_LEN ≥ 9. -/
theorem numBytes_matches_spec (s s' : St σ) (n : Nat) (h : numBytes B s = (.ok n, s')) :
    ∃ csd v2, readCsd B s = (.ok (csd, v2), s') ∧
      ((s.cardType = some .SD1 → byteAt csd 0 / 64 = 0) →
       (byteAt csd 0 / 64 = 0 → 9 ≤ byteAt csd 5 % 16) →
       n = 512 * Spec.Card.capacityOfCsd csd) :=
  Lemmas.Sd.numBytes_matches_spec B s s' n h

/-! ## Addresses -/

/-- Standard-capacity cards are addressed in bytes: block `idx` is at `idx * 512`.  (Every
block of a standard-capacity card, at most 4 GiB, satisfies `idx < 2^23`.) -/
theorem address_mode_standard (ct : CardType) (hct : ct = .SD1 ∨ ct = .SD2) (idx : Nat) (h : idx < 8388608) :
    startIdx (some ct) idx = .ok (idx * 512) :=
  Lemmas.Sd.startIdx_sd ct hct idx h

/-- The multiplication panics (Rust overflow check) exactly from `idx * 512 ≥ 2^32` on. -/
theorem address_mode_standard_overflow (ct : CardType) (hct : ct = .SD1 ∨ ct = .SD2) (idx : Nat)
    (h : 8388608 ≤ idx) : ∃ msg, startIdx (some ct) idx = .panic msg :=
  Lemmas.Sd.startIdx_sd_overflow ct hct idx h

/-- High-capacity cards are addressed in blocks. -/
theorem address_mode_sdhc (idx : Nat) : startIdx (some .SDHC) idx = .ok idx := rfl

/-- No card, no address. -/
theorem address_mode_none (idx : Nat) : startIdx none idx = .err .CardNotFound := rfl

/-! ## Which commands a transfer sends -/

def isCmdEv : Event → Bool
  | .cmd _ => true
  | _ => false

/-- The command-frame events of a log, in order. -/
def cmdEvs (evs : List Event) : List Event := evs.filter isCmdEv

/-- The events added between two states, oldest first. -/
def evsNew (s s' : St σ) : List Event := (s'.events.take (s'.events.length - s.events.length)).reverse

/-- The command frames of a `read` of `n` blocks at address `start`: one READ_SINGLE_BLOCK; or
one READ_MULTIPLE_BLOCK, closed by STOP_TRANSMISSION. -/
def readCmds (n start : Nat) : List Event :=
  if n = 1 then [.cmd (frame CMD17 start)] else [.cmd (frame CMD18 start), .cmd (frame CMD12 0)]

/-- The command frames of a `write`: WRITE_BLOCK then SEND_STATUS; or APP_CMD, SET_WR_BLK_ERASE_COUNT
(the number of blocks), WRITE_MULTIPLE_BLOCK. -/
def writeCmds (blocks : List Bytes) (start : Nat) : List Event :=
  match blocks with
  | [_] => [.cmd (frame CMD24 start), .cmd (frame CMD13 0)]
  | _ => [.cmd (frame CMD55 0), .cmd (frame ACMD23 (blocks.length % 4294967296)), .cmd (frame CMD25 start)]

/-- A `read` sends exactly `readCmds` when it succeeds, and a prefix of it when it fails. -/
theorem read_commands (n idx start : Nat) (s : St σ) (hstart : startIdx s.cardType idx = .ok start) :
    cmdEvs (evsNew s (Sd.read B n idx s).2) <+: readCmds n start ∧
    ((∃ bs, (Sd.read B n idx s).1 = .ok bs) → cmdEvs (evsNew s (Sd.read B n idx s).2) = readCmds n start) :=
  (Lemmas.Sd.read_cmdSeq B n idx start s hstart).evsNew

/-- A `write` sends exactly `writeCmds` when it succeeds, and a prefix of it when it fails. -/
theorem write_commands (blocks : List Bytes) (idx start : Nat) (s : St σ)
    (hstart : startIdx s.cardType idx = .ok start) :
    cmdEvs (evsNew s (write B blocks idx s).2) <+: writeCmds blocks start ∧
    ((∃ u, (write B blocks idx s).1 = .ok u) → cmdEvs (evsNew s (write B blocks idx s).2) = writeCmds blocks start) :=
  (Lemmas.Sd.write_cmdSeq B blocks idx start s hstart).evsNew

/-- A multi-block transfer addresses the same blocks as the single-block transfers in order:
`read n idx` sends one CMD18 with the address of block `idx` (the card then streams consecutive
blocks until CMD12), where the `k`-th of `n` single reads `read 1 (idx + k)` sends CMD17 with the
address of block `idx + k` — `start + 512 * k` for a standard-capacity card, `start + k` for a
high-capacity one. -/
theorem multi_eq_singles_mosi (ct : CardType) (idx k : Nat) (h : idx + k < 8388608) :
    ∃ start, startIdx (some ct) idx = .ok start ∧
      startIdx (some ct) (idx + k) = .ok (start + (if ct = .SDHC then k else 512 * k)) ∧
      (∀ n, n ≠ 1 → readCmds n start = [.cmd (frame CMD18 start), .cmd (frame CMD12 0)]) ∧
      readCmds 1 (start + (if ct = .SDHC then k else 512 * k)) =
        [.cmd (frame CMD17 (start + (if ct = .SDHC then k else 512 * k)))] := by
  cases ct with
  | SDHC => exact ⟨idx, rfl, rfl, fun n hn => by simp [readCmds, hn], by simp [readCmds]⟩
  | SD1 =>
    refine ⟨idx * 512, Lemmas.Sd.startIdx_sd _ (Or.inl rfl) idx (by omega), ?_,
      fun n hn => by simp [readCmds, hn], by simp [readCmds]⟩
    rw [Lemmas.Sd.startIdx_sd _ (Or.inl rfl) (idx + k) h]; simp; omega
  | SD2 =>
    refine ⟨idx * 512, Lemmas.Sd.startIdx_sd _ (Or.inr rfl) idx (by omega), ?_,
      fun n hn => by simp [readCmds, hn], by simp [readCmds]⟩
    rw [Lemmas.Sd.startIdx_sd _ (Or.inr rfl) (idx + k) h]; simp; omega

/-! ## End to end against the specification card -/

/-- The specification card as an SPI bus: a transaction clocks the bytes through `Card.run`;
it never fails; waiting does nothing. -/
def cardBus : BusOps Spec.Card.Card where
  xfer := fun c out => let (c', ys) := Spec.Card.run c out; (c', some ys)
  delay := id

/-- An initialised high-capacity card with nothing in flight: no partial command frame, no data
phase, no streaming read, not busy, nothing queued for output. -/
def ReadySdhc (c : Spec.Card.Card) : Prop :=
  c.kind = .SDHC ∧ c.initialised = true ∧ c.cmdBuf = [] ∧ c.phase = .ready ∧ c.streaming = none ∧
  c.busyLeft = 0 ∧ c.out = []

/-- A single-block read returns the 512 bytes the card stores at that block number: the driver
(with data CRC enabled or disabled), run against the specification card with any legal timing
(response delay and data-access delay within the driver's retry budgets — the specification's
N_CR ≤ 8 is far inside), on an initialised high-capacity card in the ready state, returns exactly
the stored block `idx`, leaves the card's memory untouched, does nothing the card objects to
(no new violation), and leaves the card ready again.

(The corresponding statements for writes, multi-block transfers and standard-capacity cards
are checked by the correspondence harness against the same specification card, not proved here.) -/
theorem read_single_correct_sdhc (s : St Spec.Card.Card) (hct : s.cardType = some .SDHC)
    (hr : ReadySdhc s.bus)
    (hncr : s.bus.ncr ≤ DEFAULT_COMMAND_RETRIES) (hnac : s.bus.nac ≤ DEFAULT_READ_RETRIES)
    (idx : Nat) (hidx : idx < s.bus.capacity) (h32 : idx < 4294967296)
    (hlen : (Spec.Card.getBlock s.bus idx).length = 512) :
    ∃ s', Sd.read cardBus 1 idx s = (.ok [Spec.Card.getBlock s.bus idx], s') ∧
      s'.bus.mem = s.bus.mem ∧ s'.bus.violations = s.bus.violations ∧ ReadySdhc s'.bus ∧
      s'.cardType = s.cardType ∧ s'.useCrc = s.useCrc := by
  obtain ⟨hk, hi, h1, h2, h3, h4, h5⟩ := hr
  obtain ⟨s', hread, hb, hc, hu, _⟩ :=
    Lemmas.SdCardSim.read_single_correct_sdhc s hct hk hi ⟨h1, h2, h3, h4⟩ h5 hncr hnac idx hidx h32 hlen
  refine ⟨s', hread, ?_, ?_, ?_, hc, hu⟩ <;> rw [hb]
  exact ⟨hk, hi, h1, h2, h3, h4, h5⟩

/-! ## Non-vacuity (tests) -/

/-- A concrete ready high-capacity card (4096 blocks, response delay 1, access delay 2). -/
def demoCard : Spec.Card.Card :=
  { Spec.Card.mk .SDHC (Spec.Card.csdV2 3) 1 2 3 0 with initialised := true, idle := false, spiMode := true }

example : ReadySdhc demoCard ∧ demoCard.ncr ≤ DEFAULT_COMMAND_RETRIES ∧ demoCard.nac ≤ DEFAULT_READ_RETRIES ∧
    7 < demoCard.capacity ∧ (Spec.Card.getBlock demoCard 7).length = 512 :=
  ⟨⟨rfl, rfl, rfl, rfl, rfl, rfl, rfl⟩, by decide, by decide, by decide,
    by
      have : Spec.Card.getBlock demoCard 7 = Spec.Card.zeros512 := rfl
      rw [this, Spec.Card.zeros512, List.length_replicate]⟩

example : specPieces 73 62 = [(6, 0, 2), (7, 0, 8), (8, 6, 2)] := by decide
example : byteAt (Spec.Card.csdV1 4095 7) 0 / 64 = 0 ∧ 9 ≤ byteAt (Spec.Card.csdV1 4095 7) 5 % 16 := by decide
example : Spec.Card.capacityOfCsd (Spec.Card.csdV1 4095 7) = 2097152 := by decide
example : byteAt (Spec.Card.csdV2 1023) 0 / 64 ≠ 0 ∧ Csd.v2DeviceSize (Spec.Card.csdV2 1023) < 0x3FFFFF := by decide
example : Spec.Card.capacityOfCsd (Spec.Card.csdV2 1023) = 1048576 := by decide
example : Csd.v2DeviceSize (Spec.Card.csdV2 0x3FFFFF) = 0x3FFFFF := by decide

end Sdmmc.Props.C12
