/-
C07 — headline theorem.

Property C07, `statement` (verbatim):
  "Each open mode does what its documentation says for both existing and missing names: read-only
  handles reject writes, create fails on an existing name, truncate empties, append starts at the
  end, and the create-or variants pick the right one. Files carrying the read-only attribute
  cannot be opened for writing, a directory cannot be opened or deleted as a file nor a file
  opened as a directory, a missing name is reported as not found, and an open file can neither be
  opened again nor deleted; a refused call changes nothing on the medium."
`quantifier.text` (verbatim):
  "all six modes x {missing, existing file, read-only file, directory, already-open file} x all
  valid and invalid 8.3 names, at any point of any history"

`C07_main` is ONE statement in two layers, both for ALL six modes, all names, and EVERY manager
state `s` (so: at any point of any history — reachable or not; every directory content, every FAT,
every device-fault plan):

* `Decisions` — what the calls DECIDE, as a function of the outcome of their directory lookup
  (`lookup vi dir sfn s`, the only part that touches the device; never unfolded).  Hypothesis:
  `DirCtx` — `d` is an open directory handle on an open volume and `name` parses to `sfn` — and
  room in the file (directory) table; the other cases are C08's (bad handle, too many) and
  `invalid_name`.
* `Outcomes` — what the calls DO, on the byte-array model of the file system (`Spec/AbsFs.lean`,
  refinement `Lemmas.AbsFs.Abs`, from C01): under the volume invariant the whole mode table with
  its successes — existing file: every mode but `ReadWriteCreate` opens it under the next handle,
  append positioned at the end, truncate with the file emptied and size 0 stored; missing name:
  the three creating modes create an empty file (or `NotEnoughSpace`), the others `NotFound`.

How to read it.  `openRefusal mode r isOpen`, `deleteRefusal`, `mkdirRefusal`, `openDirRefusal`
(`Props/C07.lean`, spelled out by `openRefusal_def` … below) are the refusal matrices: mode ×
lookup outcome × "a file at this slot is open".  `refusedAfterLookup s vi dir sfn e` is what `step`
reports for a refusal: the state right after the lookup, the error, NO device write
(`refused_changes_nothing`: write list empty; medium, the three tables and the handle counter as
before — only the read side of the device and the block cache may differ).
`solveModeVariant mode exists` is the source's `solve_mode_variant`.

Standing hypotheses: `Outcomes` only — `VolInv s gh` (C03's invariant; established by mounting,
kept by every call), `Abs s gh a` (exists: `C01Fs.abs_exists`), `NameOK name` (the name is not
stored with a 0xE5 first byte — always true since the 0x05 substitution, `C03All`).

Full / partial: FULL.  Readings: "truncate empties" — `Decisions.truncate` gives the new handle's
record (length 0) whenever the call succeeds, `Outcomes.present` that it does succeed and that
the directory then stores size 0; the order of the checks is the source's (already-open before
exists before read-only before directory: e.g. `ReadWriteCreate` on a directory answers
`FileAlreadyExists`).  `source`: `open_file_in_dir`, `delete_file_in_dir`, `open_dir`,
`solve_mode_variant`, WHOLE, are the functions regenerated from the source (`Props/C07GenM.lean`).
-/
import Sdmmc.Props.C07
import Sdmmc.Props.C07GenM
import Sdmmc.Props.C01Fs

namespace Sdmmc.Props.C07Main
open Sdmmc.Model Sdmmc.Model.Fat Sdmmc.Spec.Volume
open Sdmmc.Spec hiding run step NoFault Coherent
open Sdmmc.Spec.AbsFs (AbsFs Meta storedMeta OpenFile OpenDir)
open Sdmmc.Lemmas.AbsFs (Abs NameOK)
open Sdmmc.Lemmas.MHoare (resetLogs)
open Sdmmc.Props.C07

theorem openRefusal_def (mode : Mode) (r : Res DirEntry) (isOpen : DirEntry → Bool) :
    openRefusal mode r isOpen =
      match r with
      | .err .NotFound =>
        if mode = .ReadWriteCreate ∨ mode = .ReadWriteCreateOrTruncate ∨ mode = .ReadWriteCreateOrAppend
        then none else some .NotFound
      | .err e => some e
      | .ok e =>
        if isOpen e then some .FileAlreadyOpen
        else if mode = .ReadWriteCreate then some .FileAlreadyExists
        else if Attr.isReadOnly e.attributes ∧ mode ≠ .ReadOnly then some .ReadOnly
        else if Attr.isDirectory e.attributes then some .OpenedDirAsFile
        else none
      | _ => none := rfl
theorem deleteRefusal_def (r : Res DirEntry) (isOpen : DirEntry → Bool) :
    deleteRefusal r isOpen =
      match r with
      | .err e => some e
      | .ok e => if Attr.isDirectory e.attributes then some .DeleteDirAsFile
                 else if isOpen e then some .FileAlreadyOpen else none
      | _ => none := rfl
theorem openDirRefusal_def (r : Res DirEntry) :
    openDirRefusal r =
      match r with
      | .ok e => if Attr.isDirectory e.attributes then none else some .OpenedFileAsDir
      | .err e => some e
      | _ => none := rfl

/-- What the calls decide, in state `s`, for directory handle `d` and name `name`. -/
structure Decisions (s : Mgr) (d : Nat) (name : List Nat) (dir : DirInfo) (vi : Nat) (sfn : Bytes) : Prop where
  /-- the create-or variants pick the right one: all twelve cells of `solve_mode_variant` -/
  variants :
    solveModeVariant .ReadOnly false = .ReadOnly ∧ solveModeVariant .ReadOnly true = .ReadOnly ∧
    solveModeVariant .ReadWriteAppend false = .ReadWriteAppend ∧
    solveModeVariant .ReadWriteAppend true = .ReadWriteAppend ∧
    solveModeVariant .ReadWriteTruncate false = .ReadWriteTruncate ∧
    solveModeVariant .ReadWriteTruncate true = .ReadWriteTruncate ∧
    solveModeVariant .ReadWriteCreate false = .ReadWriteCreate ∧
    solveModeVariant .ReadWriteCreate true = .ReadWriteCreate ∧
    solveModeVariant .ReadWriteCreateOrTruncate false = .ReadWriteCreate ∧
    solveModeVariant .ReadWriteCreateOrTruncate true = .ReadWriteTruncate ∧
    solveModeVariant .ReadWriteCreateOrAppend false = .ReadWriteCreate ∧
    solveModeVariant .ReadWriteCreateOrAppend true = .ReadWriteAppend
  /-- every refusal of `open_file_in_dir`: missing name → `NotFound` (non-creating modes), open
  file → `FileAlreadyOpen`, create on an existing name → `FileAlreadyExists`, read-only attribute →
  `ReadOnly` (writing modes), directory → `OpenedDirAsFile`, lookup errors passed on -/
  open_refusals : ∀ mode e, s.files.length < s.maxFiles →
    openRefusal mode (lookup vi dir sfn s).1 (fileIsOpen s dir.rawVolume) = some e →
    openFileInDir d name mode s = (.err e, (lookup vi dir sfn s).2)
  /-- `ReadOnly` on an existing plain file: opened at offset 0, length of the entry, mode `ReadOnly` -/
  read_only : s.files.length < s.maxFiles → ∀ en, (lookup vi dir sfn s).1 = .ok en →
    fileIsOpen s dir.rawVolume en = false → Attr.isDirectory en.attributes = false →
    openFileInDir d name .ReadOnly s =
      (.ok s.nextId, { (lookup vi dir sfn s).2 with
        nextId := (s.nextId + 1) % 4294967296,
        files := s.files ++ [openedFile dir s.nextId en .ReadOnly 0] })
  /-- append (and create-or-append on an existing name) starts at the end -/
  append : ∀ mode, mode = .ReadWriteAppend ∨ mode = .ReadWriteCreateOrAppend → s.files.length < s.maxFiles →
    ∀ en, (lookup vi dir sfn s).1 = .ok en → fileIsOpen s dir.rawVolume en = false →
    Attr.isReadOnly en.attributes = false → Attr.isDirectory en.attributes = false →
    openFileInDir d name mode s =
      (.ok s.nextId, { (lookup vi dir sfn s).2 with
        nextId := (s.nextId + 1) % 4294967296,
        files := s.files ++ [openedFile dir s.nextId en .ReadWriteAppend en.size] }) ∧
    (openedFile dir s.nextId en .ReadWriteAppend en.size).currentOffset = en.size
  /-- truncate (and create-or-truncate on an existing name) empties -/
  truncate : ∀ mode, mode = .ReadWriteTruncate ∨ mode = .ReadWriteCreateOrTruncate → s.files.length < s.maxFiles →
    ∀ en, (lookup vi dir sfn s).1 = .ok en → fileIsOpen s dir.rawVolume en = false →
    Attr.isReadOnly en.attributes = false → Attr.isDirectory en.attributes = false →
    ∀ h, (openFileInDir d name mode s).1 = .ok h →
    (h = s.nextId ∧
     (openFileInDir d name mode s).2.files = s.files ++ [truncatedFile dir s.nextId en s.clock] ∧
     (openFileInDir d name mode s).2.nextId = (s.nextId + 1) % 4294967296) ∧
    (truncatedFile dir s.nextId en s.clock).length = 0 ∧
    (truncatedFile dir s.nextId en s.clock).currentOffset = 0 ∧
    (truncatedFile dir s.nextId en s.clock).mode = .ReadWriteTruncate
  /-- the creating modes on a missing name create -/
  create : ∀ mode, mode = .ReadWriteCreate ∨ mode = .ReadWriteCreateOrTruncate ∨ mode = .ReadWriteCreateOrAppend →
    s.files.length < s.maxFiles → (lookup vi dir sfn s).1 = .err .NotFound →
    ∀ h, (openFileInDir d name mode s).1 = .ok h →
    h = s.nextId ∧ ∃ entry, (openFileInDir d name mode s).2.files = s.files ++ [createdFile dir s.nextId entry] ∧
      (openFileInDir d name mode s).2.nextId = (s.nextId + 1) % 4294967296
  /-- a directory is not deleted as a file, an open file is not deleted, a missing name is `NotFound` -/
  delete_refusals : ∀ e, deleteRefusal (lookup vi dir sfn s).1 (fileIsOpen s dir.rawVolume) = some e →
    deleteFileInDir d name s = (.err e, (lookup vi dir sfn s).2)
  /-- a file is not opened as a directory; a missing name is `NotFound` -/
  open_dir_refusals : s.dirs.length < s.maxDirs → sfn ≠ Sfn.thisDir → ∀ e,
    openDirRefusal (lookup vi dir sfn s).1 = some e → openDir d name s = (.err e, (lookup vi dir sfn s).2)
  /-- `make_dir_in_dir` on an existing name is refused -/
  mkdir_refusals : s.dirs.length < s.maxDirs → ∀ e, mkdirRefusal (lookup vi dir sfn s).1 = some e →
    makeDirInDir d name s = (.err e, (lookup vi dir sfn s).2)
  /-- a refused call changes nothing on the medium: as API calls, every refusal above is
  `refusedAfterLookup` … -/
  refused_step : s.locked = false → ∀ e,
    (∀ mode, s.files.length < s.maxFiles →
      openRefusal mode (lookup vi dir sfn (resetLogs s)).1 (fileIsOpen s dir.rawVolume) = some e →
      step s (.openFile d name mode) = refusedAfterLookup s vi dir sfn e) ∧
    (deleteRefusal (lookup vi dir sfn (resetLogs s)).1 (fileIsOpen s dir.rawVolume) = some e →
      step s (.delete d name) = refusedAfterLookup s vi dir sfn e) ∧
    (s.dirs.length < s.maxDirs → mkdirRefusal (lookup vi dir sfn (resetLogs s)).1 = some e →
      step s (.mkdir d name) = refusedAfterLookup s vi dir sfn e) ∧
    (s.dirs.length < s.maxDirs → sfn ≠ Sfn.thisDir → openDirRefusal (lookup vi dir sfn (resetLogs s)).1 = some e →
      step s (.openDir d name) = refusedAfterLookup s vi dir sfn e)
  /-- … which writes nothing and leaves medium, tables and handle counter as they were -/
  refused_changes_nothing : ∀ e,
    (refusedAfterLookup s vi dir sfn e).2.writes = [] ∧
    (refusedAfterLookup s vi dir sfn e).1.dev.disk = s.dev.disk ∧
    (refusedAfterLookup s vi dir sfn e).1.files = s.files ∧
    (refusedAfterLookup s vi dir sfn e).1.dirs = s.dirs ∧
    (refusedAfterLookup s vi dir sfn e).1.vols = s.vols ∧
    (refusedAfterLookup s vi dir sfn e).1.nextId = s.nextId

/-- Clauses that need no directory context. -/
structure Others (s : Mgr) : Prop where
  /-- read-only handles reject writes; nothing is read or written, the state is unchanged -/
  read_only_handle : ∀ (f : Nat) (data : Bytes) (i : Nat) (x : FileInfo) (v : Nat), s.locked = false →
    s.files.findIdx? (·.rawFile = f) = some i → s.files[i]? = some x →
    s.vols.findIdx? (·.rawVolume = x.rawVolume) = some v → x.mode = .ReadOnly →
    step s (.write f data) = (resetLogs s, { result := .err .ReadOnly, writes := [], reads := [] })
  /-- an invalid 8.3 name is refused with the name error before any device access -/
  invalid_name : ∀ (d : Nat) (name : List Nat) (dir : DirInfo) (vi : Nat) (mode : Mode), s.files.length < s.maxFiles →
    (∃ di, s.dirs.findIdx? (·.rawDirectory = d) = some di ∧ s.dirs[di]? = some dir) →
    s.vols.findIdx? (·.rawVolume = dir.rawVolume) = some vi →
    ∀ fe, Sfn.createFromStr name = .error fe → openFileInDir d name mode s = (.err (.FilenameError fe), s)
  /-- the functions are the source's -/
  source :
    (∀ mode isSome, Gen.FunsMgr.solve_mode_variant mode isSome = solveModeVariant mode isSome) ∧
    (∀ d name mode, s.locked = false → Gen.FunsMgr.VolumeManager_open_file_in_dir d name mode s = openFileInDir d name mode s) ∧
    (∀ d name, Gen.FunsMgr.VolumeManager_delete_file_in_dir d name s =
      if s.locked then (.err .LockError, s) else deleteFileInDir d name s) ∧
    (∀ d name, Gen.FunsMgr.VolumeManager_open_dir d name s =
      if s.locked then (.err .LockError, s) else openDir d name s)

/-- What the calls do, on the byte-array model. -/
structure Outcomes (s : Mgr) (gh : Ghost) (a : AbsFs) (d : Nat) (name : List Nat) (mode : Mode) : Prop where
  /-- existing plain writable file that is not open -/
  present : ¬ a.files.length ≥ a.maxFiles → ∀ (od : OpenDir) (sfn : Bytes), Spec.AbsFs.dirCtx a d name = .ok (od, sfn) →
    ∀ (i : Nat) (m : Meta) (bytes : Bytes), Spec.AbsFs.lookup (a.slots od.dir) sfn = some i →
    (a.slots od.dir)[i]? = some (.file m bytes) → Spec.AbsFs.isOpenAt a od.volume od.dir i = false →
    Attr.isReadOnly m.attr = false →
    ∃ gh' a', VolInv (step s (.openFile d name mode)).1 gh' ∧ Abs (step s (.openFile d name mode)).1 gh' a' ∧
      (mode = .ReadWriteCreate → (step s (.openFile d name mode)).2.result = .err .FileAlreadyExists ∧ a' = a) ∧
      (mode ≠ .ReadWriteCreate → (step s (.openFile d name mode)).2.result = .ok (.handle a.nextId) ∧
        a'.files = a.files ++ [⟨a.nextId, od.volume, solveModeVariant mode true, od.dir, i,
          if solveModeVariant mode true = .ReadWriteAppend then m.size else 0,
          if solveModeVariant mode true = .ReadWriteTruncate then { m with size := 0, mtime := a.clock } else m, false⟩] ∧
        (a'.slots od.dir)[i]? = some (if solveModeVariant mode true = .ReadWriteTruncate
          then .file (storedMeta { m with size := 0, mtime := a.clock }) [] else .file m bytes))
  /-- missing name -/
  absent : ¬ a.files.length ≥ a.maxFiles → ∀ (od : OpenDir) (sfn : Bytes), Spec.AbsFs.dirCtx a d name = .ok (od, sfn) →
    Spec.AbsFs.lookup (a.slots od.dir) sfn = none →
    ∃ gh' a', VolInv (step s (.openFile d name mode)).1 gh' ∧ Abs (step s (.openFile d name mode)).1 gh' a' ∧
      ((mode = .ReadOnly ∨ mode = .ReadWriteAppend ∨ mode = .ReadWriteTruncate) →
        (step s (.openFile d name mode)).2.result = .err .NotFound ∧ a' = a) ∧
      ((mode = .ReadWriteCreate ∨ mode = .ReadWriteCreateOrTruncate ∨ mode = .ReadWriteCreateOrAppend) →
        ((step s (.openFile d name mode)).2.result = .err .NotEnoughSpace ∧ a' = a) ∨
        ((step s (.openFile d name mode)).2.result = .ok (.handle a.nextId) ∧
          a'.files = a.files ++ [⟨a.nextId, od.volume, .ReadWriteCreate, od.dir, Spec.AbsFs.freeIdx (a.slots od.dir), 0,
            Spec.AbsFs.newMeta sfn 0 a.clock, false⟩] ∧
          (a'.slots od.dir)[Spec.AbsFs.freeIdx (a.slots od.dir)]? =
            some (.file (storedMeta (Spec.AbsFs.newMeta sfn 0 a.clock)) [])))
  /-- refusals leave the abstract state unchanged -/
  refusals :
    ∃ gh' a', VolInv (step s (.openFile d name mode)).1 gh' ∧ Abs (step s (.openFile d name mode)).1 gh' a' ∧
      (a.files.length ≥ a.maxFiles → (step s (.openFile d name mode)).2.result = .err .TooManyOpenFiles ∧ a' = a) ∧
      (¬ a.files.length ≥ a.maxFiles → ∀ od sfn i, Spec.AbsFs.dirCtx a d name = .ok (od, sfn) →
        Spec.AbsFs.lookup (a.slots od.dir) sfn = some i →
        (∀ m bytes, (a.slots od.dir)[i]? = some (.file m bytes) →
          (Spec.AbsFs.isOpenAt a od.volume od.dir i = true →
            (step s (.openFile d name mode)).2.result = .err .FileAlreadyOpen ∧ a' = a) ∧
          (Spec.AbsFs.isOpenAt a od.volume od.dir i = false → mode ≠ .ReadWriteCreate → Attr.isReadOnly m.attr = true →
            mode ≠ .ReadOnly → (step s (.openFile d name mode)).2.result = .err .ReadOnly ∧ a' = a)) ∧
        (∀ m t, (a.slots od.dir)[i]? = some (.dir m t) → a' = a ∧
          ((step s (.openFile d name mode)).2.result = .err .FileAlreadyExists ∨
           (step s (.openFile d name mode)).2.result = .err .ReadOnly ∨
           (step s (.openFile d name mode)).2.result = .err .OpenedDirAsFile)))

theorem C07_main :
    (∀ (s : Mgr) (d : Nat) (name : List Nat) (dir : DirInfo) (vi : Nat) (sfn : Bytes),
      DirCtx s d name dir vi sfn → Decisions s d name dir vi sfn) ∧
    (∀ s : Mgr, Others s) ∧
    (∀ (s : Mgr) (gh : Ghost) (a : AbsFs) (d : Nat) (name : List Nat) (mode : Mode),
      VolInv s gh → Abs s gh a → NameOK name → Outcomes s gh a d name mode) := by
  refine ⟨fun s d name dir vi sfn hc => ?_, fun s => ?_, fun s gh a d name mode hI hA hname => ?_⟩
  · exact
    { variants := solve_mode_table
      open_refusals := fun mode e hroom h => open_file_decision s d name dir vi sfn mode hc hroom e h
      read_only := fun hroom en hr ho hd => (open_read_only s d name dir vi sfn hc hroom en hr ho hd).1
      append := fun mode hm hroom en hr ho hro hd => open_append s d name dir vi sfn mode hm hc hroom en hr ho hro hd
      truncate := fun mode hm hroom en hr ho hro hd h hok => by
        obtain ⟨h1, h2, h3, h4, _, _⟩ := open_truncate s d name dir vi sfn mode hm hc hroom en hr ho hro hd h hok
        exact ⟨h1, h2, h3, h4⟩
      create := fun mode hm hroom hr h hok => open_create s d name dir vi sfn mode hm hc hroom hr h hok
      delete_refusals := fun e h => delete_guards s d name dir vi sfn hc e h
      open_dir_refusals := fun hroom hnd e h => open_dir_guards s d name dir vi sfn hc hroom hnd e h
      mkdir_refusals := fun hroom e h => mkdir_guards s d name dir vi sfn hc hroom e h
      refused_step := fun hl e => refusal_no_writes s d name dir vi sfn hl hc e
      refused_changes_nothing := fun e => refusal_state s dir vi sfn e }
  · exact
    { read_only_handle := fun f data i x v hl hf hx hv hm => (readonly_handle_rejects_write s f data i x v hl hf hx hv hm).2
      invalid_name := fun d name dir vi mode hroom hslot hvol fe hname =>
        open_invalid_name s d name dir vi mode hroom hslot hvol fe hname
      source := ⟨C07GenM.solve_mode_variant_eq, fun d name mode hl => C07GenM.open_file_in_dir_eq d name mode s hl,
        fun d name => C07GenM.delete_file_in_dir_eq d name s, fun d name => C07GenM.open_dir_eq d name s⟩ }
  · exact
    { present := fun hnf od sfn hctx i m bytes hlk hsl hno hrw =>
        C01Fs.mode_table hI hA d name mode hname hnf hctx hlk hsl hno hrw
      absent := fun hnf od sfn hctx hlk => C01Fs.mode_table_absent hI hA d name mode hname hnf hctx hlk
      refusals := C01Fs.mode_refusals hI hA d name mode hname }

namespace Example

/-- The example state of `Props/C07.lean` (a root directory with a plain file `A.TXT`, a read-only
file `R.TXT` and a directory `D`): the hypotheses of `Decisions` hold, and its refusal cells occur. -/
example : Decisions sEx 3 nameA rootDir 0 nmA := C07_main.1 sEx 3 nameA rootDir 0 nmA ⟨⟨0, rfl, rfl⟩, rfl, rfl⟩

example : openFileInDir 3 nameA .ReadWriteCreate sEx = (.err .FileAlreadyExists, (lookup 0 rootDir nmA sEx).2) :=
  (C07_main.1 sEx 3 nameA rootDir 0 nmA ⟨⟨0, rfl, rfl⟩, rfl, rfl⟩).open_refusals .ReadWriteCreate _ (by decide) rfl

example : openFileInDir 3 nameR .ReadWriteAppend sEx = (.err .ReadOnly, (lookup 0 rootDir nmR sEx).2) :=
  (C07_main.1 sEx 3 nameR rootDir 0 nmR ⟨⟨0, rfl, rfl⟩, rfl, rfl⟩).open_refusals .ReadWriteAppend _ (by decide) rfl

/-- Evaluated: append starts at the end (size 5); a read-only handle rejects `write`. -/
example : ((step sEx (.openFile 3 nameA .ReadWriteAppend)).1.files.map (·.currentOffset)) = [5] := rfl
example : (step (step sEx (.openFile 3 nameA .ReadOnly)).1 (.write 5 [1, 2, 3])).2.result = .err .ReadOnly := rfl

/-- The standing hypotheses of `Outcomes` hold of the example volume `VolExample.mgr1` (FAT16, a root with a
file and a sub-directory): the invariant by evaluation, the abstract counterpart by `C01Fs.abs_exists`. -/
example : ∃ a, Abs Lemmas.VolExample.mgr1 Lemmas.VolExample.gh1 a ∧
    ∀ d name mode, NameOK name → Outcomes Lemmas.VolExample.mgr1 Lemmas.VolExample.gh1 a d name mode := by
  obtain ⟨a, hA⟩ := C01Fs.abs_exists Lemmas.VolExample.mgr1_inv
  exact ⟨a, hA, fun d name mode hn => C07_main.2.2 _ _ a d name mode Lemmas.VolExample.mgr1_inv hA hn⟩

end Example

end Sdmmc.Props.C07Main
