/-
C01, read side — a read through the engine returns exactly what the byte-array model holds, for
EVERY state satisfying the file invariant: no bound on file size, chain length or fragmentation.

Property theorems only; the proofs are in `Sdmmc.Lemmas.Chain` (chains, chain contents) and
`Sdmmc.Lemmas.ReadRefines` (`find_data_on_disk` on a chain, the loop of `read`).
Specification vocabulary: `Sdmmc.Spec.Chain` (`Chain`, `nextOf`, `InRange`, `chainBytes`,
`fileContent`, `ByteFile`, `FileOK`, `absFile`), `Sdmmc.Spec.Geom` (`WFGeom`).
Model: `Sdmmc.Model.Fat.nextCluster`, `walkClusters`, `findDataOnDisk`, `readLoop`, `read`, `step`.

STATUS: PROVED (all theorems below are complete; none is `_partial`).

Main theorem: `read_refines`.  For a manager state without device faults and with a coherent
cache (`MgrOK`), an open file whose record is consistent with the medium (`FileOK`: its FAT chain
`cs` exists, is long enough for the recorded size, offset inside the file, cluster cursor somewhere
on the chain) on a volume with sane geometry (`WFGeom`), `read h n`

  * returns `.ok out` with `(out, bf') = (absFile …).read n` — the `n` bytes (or as many as are
    left) of the byte array at the current offset;
  * leaves the medium as it was, logs no device write, changes no table entry other than the
    file's own, and in that entry only the offset (`= bf'.pos`) and the cluster cursor;
  * re-establishes `FileOK` and `MgrOK`, so the theorem applies again to the next call.

It holds for every `n` (0 included), for reads across block and cluster boundaries, for reads up to
and past the end of the file, and for a cluster cursor before, at or after the wanted cluster.

Elements of a chain are addressed as `cs[k]? = some x` (no dependent indices).

Out of scope here (other files): that `open` establishes `FileOK` and that `write` preserves it
for the written file and for all others (C03/C05 and the write side of C01).
-/
import Sdmmc.Lemmas.ReadRefines

namespace Sdmmc.Props.C01Read
open Sdmmc.Model Sdmmc.Model.Fat Sdmmc.Spec

/-! ### Vocabulary (same bodies as in the lemma files, so the statements agree by unfolding) -/

/-- No device faults are scheduled. -/
def NoFault (s : FS) : Prop := s.dev.faults = []
/-- The one-block cache, when tagged, holds what the medium holds. -/
def Coherent (s : FS) : Prop := ∀ i, s.cache.tag = some i → s.cache.blk = s.dev.disk.get i
/-- Every block of the medium has 512 bytes. -/
def BlocksOK (d : Disk) : Prop := ∀ i, (d.get i).length = 512
/-- A FAT-level call changed nothing but the cache and the read bookkeeping: medium, write log and
volume record are the same, still no fault scheduled, cache still coherent. -/
def Kept (s s' : FS) : Prop :=
  s'.dev.disk = s.dev.disk ∧ s'.dev.wlog = s.dev.wlog ∧ s'.vol = s.vol ∧ NoFault s' ∧ Coherent s'
/-- The manager-level standing hypothesis: no device faults, coherent cache, 512-byte blocks, and
not inside a directory-iteration callback. -/
def MgrOK (s : Mgr) : Prop :=
  s.dev.faults = [] ∧ (∀ i, s.cache.tag = some i → s.cache.blk = s.dev.disk.get i) ∧
  BlocksOK s.dev.disk ∧ s.locked = false

/-! ### 1. Chains -/

/-- A chain has at least one cluster … -/
theorem chain_ne_nil {v : FatVolume} {d : Disk} {c : Nat} {cs : List Nat} (h : Chain v d c cs) : cs ≠ [] :=
  Lemmas.ChainL.chain_ne_nil h

/-- … starts with the cluster it is the chain of … -/
theorem chain_head {v : FatVolume} {d : Disk} {c : Nat} {cs : List Nat} (h : Chain v d c cs) : cs.head? = some c :=
  Lemmas.ChainL.chain_head? h

/-- … never visits a cluster twice (no cycles) … -/
theorem chain_nodup {v : FatVolume} {d : Disk} {c : Nat} {cs : List Nat} (h : Chain v d c cs) : cs.Nodup :=
  Lemmas.ChainL.chain_nodup h

/-- … and consists of data clusters of the volume. -/
theorem chain_in_range {v : FatVolume} {d : Disk} {c : Nat} {cs : List Nat} (h : Chain v d c cs) :
    ∀ x, x ∈ cs → InRange v x :=
  Lemmas.ChainL.chain_inRange h

/-- The FAT entry of the `k`-th cluster of a chain is a link to the `k+1`-st. -/
theorem chain_next {v : FatVolume} {d : Disk} {c : Nat} {cs : List Nat} (h : Chain v d c cs) (k x y : Nat)
    (hx : cs[k]? = some x) (hy : cs[k + 1]? = some y) : nextOf v d x = .ok y :=
  Lemmas.ChainL.chain_next h k x y hx hy

/-- The FAT entry of the last cluster is an end-of-chain mark. -/
theorem chain_next_last {v : FatVolume} {d : Disk} {c : Nat} {cs : List Nat} (h : Chain v d c cs) (k x : Nat)
    (hx : cs[k]? = some x) (hk : k + 1 = cs.length) : nextOf v d x = .err .EndOfFile :=
  Lemmas.ChainL.chain_next_last h k x hx hk

/-- A FAT determines the chain of a cluster. -/
theorem chain_unique {v : FatVolume} {d : Disk} {c : Nat} {cs cs' : List Nat} (h : Chain v d c cs)
    (h' : Chain v d c cs') : cs = cs' :=
  Lemmas.ChainL.chain_unique h cs' h'

/-- A chain depends only on the FAT blocks holding the entries of its own clusters: writes anywhere
else (data blocks, directory blocks, FAT entries in other blocks) leave it a chain. -/
theorem chain_depends_on_fat_only {v : FatVolume} {d d' : Disk} {c : Nat} {cs : List Nat} (h : Chain v d c cs)
    (hd : ∀ x, x ∈ cs → d'.get (fatBlock v x) = d.get (fatBlock v x)) : Chain v d' c cs :=
  Lemmas.ChainL.chain_congr h hd

/-- The engine's `next_cluster` agrees with the specification's reading of the FAT on every data
cluster of a well-formed volume (its panic guard does not fire), and is read-only. -/
theorem next_cluster_spec (c : Nat) (s : FS) (hn : NoFault s) (hc : Coherent s) (hg : WFGeom s.vol)
    (hr : InRange s.vol c) :
    (nextCluster c s).1 = nextOf s.vol s.dev.disk c ∧ Kept s (nextCluster c s).2 :=
  Lemmas.ChainL.nextCluster_kept c s hn hc hg hr

/-- The cluster walk of `find_data_on_disk` along a chain: `n` links from the `k`-th cluster reach
the `k+n`-th, and the byte position advances by `n` cluster sizes. -/
theorem walk_chain {c : Nat} {cs : List Nat} (bpc n k o x y : Nat) (s : FS) (hn : NoFault s) (hc : Coherent s)
    (hg : WFGeom s.vol) (hch : Chain s.vol s.dev.disk c cs) (hx : cs[k]? = some x) (hy : cs[k + n]? = some y) :
    ∃ s', walkClusters bpc n (o, x) s = (.ok ((o + n * bpc, y), .ok ()), s') ∧ Kept s s' :=
  Lemmas.ChainL.walk_chain_kept bpc n k o x y s hn hc hg hch hx hy

/-- Asking for more links than the chain has left: the walk stops positioned on the last cluster
and reports `EndOfFile`. -/
theorem walk_chain_end {c : Nat} {cs : List Nat} (bpc n k o x last : Nat) (s : FS) (hn : NoFault s)
    (hc : Coherent s) (hg : WFGeom s.vol) (hch : Chain s.vol s.dev.disk c cs) (hx : cs[k]? = some x)
    (hle : cs.length ≤ k + n) (hlast : cs[cs.length - 1]? = some last) :
    ∃ s', walkClusters bpc n (o, x) s = (.ok ((o + (cs.length - 1 - k) * bpc, last), .err .EndOfFile), s') ∧
      Kept s s' :=
  Lemmas.ChainL.walk_chain_end_kept bpc n k o x last s hn hc hg hch hx hle hlast

/-! ### 2. The bytes of a chain -/

/-- A cluster holds `blocksPerCluster * 512` bytes. -/
theorem cluster_bytes_length (v : FatVolume) (d : Disk) (c : Nat) (hb : BlocksOK d) :
    (clusterBytes v d c).length = clusterBytesLen v :=
  Lemmas.ChainL.clusterBytes_length v d c hb

/-- A chain of `n` clusters holds `n` cluster sizes of bytes. -/
theorem chain_bytes_length (v : FatVolume) (d : Disk) (cs : List Nat) (hb : BlocksOK d) :
    (chainBytes v d cs).length = cs.length * clusterBytesLen v :=
  Lemmas.ChainL.chainBytes_length v d cs hb

/-- The byte array of a file has exactly the recorded size when the chain is long enough. -/
theorem file_content_length (v : FatVolume) (d : Disk) (cs : List Nat) (size : Nat) (hb : BlocksOK d)
    (h : size ≤ cs.length * clusterBytesLen v) : (fileContent v d cs size).length = size :=
  Lemmas.ChainL.fileContent_length v d cs size hb h

/-- Byte `o` of a chain is byte `o % 512` of block `(o % cb) / 512` of the chain's cluster number
`o / cb` (`cb` = bytes per cluster). -/
theorem chain_byte (v : FatVolume) (d : Disk) (cs : List Nat) (o c : Nat) (hb : BlocksOK d)
    (hpos : 0 < v.blocksPerCluster) (hc : cs[o / clusterBytesLen v]? = some c) :
    (chainBytes v d cs)[o]? = (d.get (clusterToBlock v c + o % clusterBytesLen v / 512))[o % 512]? :=
  Lemmas.ChainL.chain_byte v d cs o c hb hpos hc

/-- What one iteration of `read` copies (`slice` of the located block, not crossing the block's
end) is the corresponding window of the chain's bytes. -/
theorem chain_slice (v : FatVolume) (d : Disk) (cs : List Nat) (o n c : Nat) (hb : BlocksOK d)
    (hpos : 0 < v.blocksPerCluster) (hc : cs[o / clusterBytesLen v]? = some c) (hn : n ≤ 512 - o % 512) :
    slice (d.get (clusterToBlock v c + o % clusterBytesLen v / 512)) (o % 512) n =
      ((chainBytes v d cs).drop o).take n :=
  Lemmas.ChainL.chain_slice v d cs o n c hb hpos hc hn

/-! ### 3. Locating an offset -/

/-- `find_data_on_disk` for any offset inside the chain of a consistent file: the cluster cursor
ends on the cluster holding the offset (`k = desired / cb`, position `k * cb`), the located block
is block `(desired % cb) / 512` of that cluster, the offset in the block is `desired % 512` and the
rest of the block is available — whether the old cursor was before, at or after the wanted cluster.
Medium, write log and volume record are unchanged. -/
theorem find_on_chain (f : FileInfo) (cs : List Nat) (s : FS) (desired c : Nat)
    (hn : NoFault s) (hc : Coherent s) (hg : WFGeom s.vol) (hok : FileOK s.vol s.dev.disk f cs)
    (hk : cs[desired / clusterBytesLen s.vol]? = some c) :
    ∃ s', findDataOnDisk f.entry.cluster desired (f.curClusterOff, f.curCluster) s =
        (.ok ((desired / clusterBytesLen s.vol * clusterBytesLen s.vol, c),
          .ok (clusterToBlock s.vol c + desired % clusterBytesLen s.vol / 512, desired % 512, 512 - desired % 512)), s') ∧
      Kept s s' :=
  Lemmas.ReadRefines.find_on_chain_kept f cs s desired c hn hc hg hok hk

/-- At `desired = chain capacity` it reports `EndOfFile` with the cursor on the last cluster (the
position `write` extends the chain from). -/
theorem find_at_chain_end (f : FileInfo) (cs : List Nat) (s : FS) (last : Nat)
    (hn : NoFault s) (hc : Coherent s) (hg : WFGeom s.vol) (hok : FileOK s.vol s.dev.disk f cs)
    (hlast : cs[cs.length - 1]? = some last) :
    ∃ s', findDataOnDisk f.entry.cluster (cs.length * clusterBytesLen s.vol) (f.curClusterOff, f.curCluster) s =
        (.ok (((cs.length - 1) * clusterBytesLen s.vol, last), .err .EndOfFile), s') ∧ Kept s s' :=
  Lemmas.ReadRefines.find_at_chain_end_kept f cs s last hn hc hg hok hlast

/-! ### 4. `read` refines the byte-array model -/

/-- **Main theorem.**  `h` is an open file handle (slot `i`, record `f`) whose volume is open (slot
`vi`, record `v`); the record is consistent with the medium.  Then `read h n` returns exactly the
bytes the byte-array model returns, advances the offset exactly as the model does, and changes
nothing else: the medium is the same, no device write is logged, every field of the manager other
than device bookkeeping, cache and file slot `i` is the same, and in slot `i` only the offset and
the cluster cursor moved.  The invariant holds again afterwards. -/
theorem read_refines (s : Mgr) (h n i vi : Nat) (f : FileInfo) (v : VolInfo) (cs : List Nat)
    (hs : MgrOK s)
    (hh : s.files.findIdx? (·.rawFile = h) = some i) (hf : s.files[i]? = some f)
    (hv : s.vols.findIdx? (·.rawVolume = f.rawVolume) = some vi) (hvi : s.vols[vi]? = some v)
    (hg : WFGeom v.vol) (hok : FileOK v.vol s.dev.disk f cs) :
    ∃ s' f', read h n s = (.ok ((absFile v.vol s.dev.disk f cs).read n).1, s') ∧
      s'.dev.disk = s.dev.disk ∧ s'.dev.wlog = s.dev.wlog ∧
      s' = { s with dev := s'.dev, cache := s'.cache, files := s.files.set i f' } ∧
      f' = { f with currentOffset := ((absFile v.vol s.dev.disk f cs).read n).2.pos,
                    curClusterOff := f'.curClusterOff, curCluster := f'.curCluster } ∧
      absFile v.vol s'.dev.disk f' cs = ((absFile v.vol s.dev.disk f cs).read n).2 ∧
      FileOK v.vol s'.dev.disk f' cs ∧ MgrOK s' :=
  Lemmas.ReadRefines.read_refines s h n i vi f v cs hs hh hf hv hvi hg hok

/-- The loop of `read` on its own (any accumulator, any `space`, any fuel above `space` — every
iteration copies at least one byte): the result is the accumulator followed by the `space` bytes
(or as many as are left) of the byte array at the current offset. -/
theorem read_loop_refines (i vi so : Nat) (v : VolInfo) (cs : List Nat) (hg : WFGeom v.vol)
    (fuel space : Nat) (acc : Bytes) (s : Mgr) (f : FileInfo) (hfuel : space < fuel) (hs : MgrOK s)
    (hf : s.files[i]? = some f) (hvi : s.vols[vi]? = some v) (hok : FileOK v.vol s.dev.disk f cs) :
    ∃ s' f', readLoop i vi so fuel space acc s =
        (.ok (acc ++ ((fileContent v.vol s.dev.disk cs f.entry.size).drop f.currentOffset).take space), s') ∧
      f'.currentOffset = f.currentOffset + min space (f.entry.size - f.currentOffset) ∧
      s'.files[i]? = some f' ∧ s'.dev.disk = s.dev.disk ∧ s'.dev.wlog = s.dev.wlog ∧
      MgrOK s' ∧ FileOK v.vol s'.dev.disk f' cs := by
  obtain ⟨s', f', h1, h2, _, h4, h5, h6⟩ :=
    Lemmas.ReadRefines.readLoop_refines i vi so v cs hg fuel space acc s f hfuel hs hf hvi hok
  exact ⟨s', f', h1, h2, h4.get hf, h4.disk, h4.wlog, h5, h6⟩

/-- The same through the transition function `step`, i.e. as the user of the API observes it: the
payload is the byte-array model's, the call performs no device write, the medium is the same. -/
theorem read_step_refines (s : Mgr) (h n i vi : Nat) (f : FileInfo) (v : VolInfo) (cs : List Nat)
    (hs : MgrOK s)
    (hh : s.files.findIdx? (·.rawFile = h) = some i) (hf : s.files[i]? = some f)
    (hv : s.vols.findIdx? (·.rawVolume = f.rawVolume) = some vi) (hvi : s.vols[vi]? = some v)
    (hg : WFGeom v.vol) (hok : FileOK v.vol s.dev.disk f cs) :
    ∃ payload, (step s (.read h n)).2.result = .ok payload ∧
      payload = .bytes ((absFile v.vol s.dev.disk f cs).read n).1 ∧
      (step s (.read h n)).2.writes = [] ∧ (step s (.read h n)).1.dev.disk = s.dev.disk :=
  Lemmas.ReadRefines.read_step_refines s h n i vi f v cs hs hh hf hv hvi hg hok

/-- At the end of the file a read returns no bytes and changes nothing at all (no device access,
no table change) — whatever `n`. -/
theorem read_at_eof (s : Mgr) (h n i vi : Nat) (f : FileInfo)
    (hh : s.files.findIdx? (·.rawFile = h) = some i) (hf : s.files[i]? = some f)
    (hv : s.vols.findIdx? (·.rawVolume = f.rawVolume) = some vi) (he : f.currentOffset = f.entry.size) :
    read h n s = (.ok [], s) :=
  Lemmas.ReadRefines.read_at_eof s h n i vi f hh hf hv he

/-- Two consecutive reads of `a` and `b` bytes return, concatenated, what one read of `a + b`
bytes returns, and leave the file (byte array and position) and the medium in the same condition. -/
theorem read_twice (s : Mgr) (h a b i vi : Nat) (f : FileInfo) (v : VolInfo) (cs : List Nat)
    (hs : MgrOK s)
    (hh : s.files.findIdx? (·.rawFile = h) = some i) (hf : s.files[i]? = some f)
    (hv : s.vols.findIdx? (·.rawVolume = f.rawVolume) = some vi) (hvi : s.vols[vi]? = some v)
    (hg : WFGeom v.vol) (hok : FileOK v.vol s.dev.disk f cs) :
    ∃ o1 s1 o2 s2 s12 f2 f12, read h a s = (.ok o1, s1) ∧ read h b s1 = (.ok o2, s2) ∧
      read h (a + b) s = (.ok (o1 ++ o2), s12) ∧
      s2.dev.disk = s12.dev.disk ∧ s2.files[i]? = some f2 ∧ s12.files[i]? = some f12 ∧
      absFile v.vol s2.dev.disk f2 cs = absFile v.vol s12.dev.disk f12 cs :=
  Lemmas.ReadRefines.read_twice s h a b i vi f v cs hs hh hf hv hvi hg hok

/-- The observers of the API report the byte-array model's length, position and end-of-file flag,
and touch nothing. -/
theorem length_offset_eof_refine (s : Mgr) (h i : Nat) (f : FileInfo) (v : FatVolume) (cs : List Nat)
    (hh : s.files.findIdx? (·.rawFile = h) = some i) (hf : s.files[i]? = some f)
    (hb : BlocksOK s.dev.disk) (hok : FileOK v s.dev.disk f cs) :
    fileLength h s = (.ok (absFile v s.dev.disk f cs).length, s) ∧
    fileOffset h s = (.ok (absFile v s.dev.disk f cs).pos, s) ∧
    fileEof h s = (.ok (absFile v s.dev.disk f cs).eof, s) :=
  Lemmas.ReadRefines.observers_refine s h i f v cs hh hf hb hok

/-! ### 5. Other files -/

/-- A read of one file leaves every other open file exactly as it was — same record in the same
slot, same byte-array view, still consistent with the medium — and does not touch the volume
table. -/
theorem read_other_files_untouched (s : Mgr) (h n i vi : Nat) (f : FileInfo) (v : VolInfo) (cs : List Nat)
    (hs : MgrOK s)
    (hh : s.files.findIdx? (·.rawFile = h) = some i) (hf : s.files[i]? = some f)
    (hv : s.vols.findIdx? (·.rawVolume = f.rawVolume) = some vi) (hvi : s.vols[vi]? = some v)
    (hg : WFGeom v.vol) (hok : FileOK v.vol s.dev.disk f cs)
    (j : Nat) (hj : j ≠ i) (g : FileInfo) (hgj : s.files[j]? = some g) (vg : FatVolume) (cs' : List Nat) :
    (read h n s).2.vols = s.vols ∧ (read h n s).2.files[j]? = some g ∧
    absFile vg (read h n s).2.dev.disk g cs' = absFile vg s.dev.disk g cs' ∧
    (FileOK vg s.dev.disk g cs' → FileOK vg (read h n s).2.dev.disk g cs') :=
  Lemmas.ReadRefines.read_other_files_untouched s h n i vi f v cs hs hh hf hv hvi hg hok j hj g hgj vg cs'

/-! ### Non-vacuity (tests, evaluated by the kernel)

A FAT16 volume, one block per cluster.  A 1300-byte file in the fragmented chain 5 → 2 → 7
(blocks 13, 10, 15, filled with 0xAA, 0xBB, 0xCC); a second, one-cluster file in cluster 3. -/
namespace Example

deriving instance DecidableEq for Res

def vol : FatVolume :=
  { lbaStart := 0, numBlocks := 200, name := [], blocksPerCluster := 1, firstDataBlock := 10, fatStart := 1, secondFatStart := none, freeClustersCount := none, nextFreeCluster := none, clusterCount := 100, fatType := .fat16, rootEntriesCount := 16, firstRootDirBlock := 9, infoLocation := 0, firstRootDirCluster := 0 }
/-- FAT: 2 → 7, 3 → end, 5 → 2, 7 → end. -/
def fatBlk : Block := [0, 0, 0, 0, 7, 0, 0xFF, 0xFF, 0, 0, 2, 0, 0, 0, 0xFF, 0xFF] ++ zeros 496
def blkA : Block := List.replicate 512 0xAA
def blkB : Block := List.replicate 512 0xBB
def blkC : Block := List.replicate 512 0xCC
def blkD : Block := List.replicate 512 0xDD
def disk : Disk := ((((Disk.empty.set 1 fatBlk).set 13 blkA).set 10 blkB).set 15 blkC).set 11 blkD

def entry : DirEntry :=
  { name := [], mtime := default, ctime := default, attributes := 0x20, cluster := 5, size := 1300, entryBlock := 9, entryOffset := 32 }
/-- Offset 1000 (in the second cluster of the chain) with a stale cursor on the third. -/
def file : FileInfo :=
  { rawFile := 1, rawVolume := 0, curClusterOff := 1024, curCluster := 7, currentOffset := 1000, mode := .ReadOnly, entry := entry, dirty := false }
def entry2 : DirEntry :=
  { name := [], mtime := default, ctime := default, attributes := 0x20, cluster := 3, size := 10, entryBlock := 9, entryOffset := 64 }
def file2 : FileInfo :=
  { rawFile := 2, rawVolume := 0, curClusterOff := 0, curCluster := 3, currentOffset := 0, mode := .ReadOnly, entry := entry2, dirty := false }
def vinfo : VolInfo := { rawVolume := 0, idx := 0, vol := vol }
def mgr : Mgr :=
  { dev := { disk := disk }, nextId := 5, vols := [vinfo], files := [file, file2], maxVols := 1, maxDirs := 4, maxFiles := 4 }

/-- The fragmented three-cluster chain. -/
theorem chain : Chain vol disk 5 [5, 2, 7] :=
  .link 5 2 [2, 7] ⟨by decide, by decide⟩ (by decide) (by decide)
    (.link 2 7 [7] ⟨by decide, by decide⟩ (by decide) (by decide) (.last 7 ⟨by decide, by decide⟩ (by decide)))

theorem fileOK : FileOK vol disk file [5, 2, 7] :=
  ⟨.inr chain, by decide, by decide, .inr ⟨2, by decide, by decide, by decide⟩⟩

theorem fileOK2 : FileOK vol disk file2 [3] :=
  ⟨.inr (.last 3 ⟨by decide, by decide⟩ (by decide)), by decide, by decide, .inr ⟨0, by decide, by decide, by decide⟩⟩

theorem blocksOK : BlocksOK disk := by
  have hz : BlocksOK Disk.empty := fun i => by
    rw [Lemmas.FBasic.Disk.get_empty]; exact Lemmas.FatOps.zeroBlock_length
  refine Lemmas.FatOps.blocksOK_set _ _ _ (Lemmas.FatOps.blocksOK_set _ _ _ (Lemmas.FatOps.blocksOK_set _ _ _
    (Lemmas.FatOps.blocksOK_set _ _ _ (Lemmas.FatOps.blocksOK_set _ _ _ hz ?_) ?_) ?_) ?_) ?_
  · decide +kernel
  all_goals exact List.length_replicate

theorem mgrOK : MgrOK mgr := by
  unfold MgrOK
  exact ⟨rfl, fun i h => (by cases h), blocksOK, rfl⟩

theorem wfgeom : WFGeom vol :=
  ⟨by decide, by decide, fun s h => (by cases h), fun _ => (by decide), fun h => (by cases h), by decide,
   (by show endCluster vol ≤ 0xFFF7; decide)⟩

/-- The byte-array view: 1300 bytes, 512 × AA, 512 × BB, 276 × CC; position 1000. -/
example : (absFile vol disk file [5, 2, 7]).bytes =
    List.replicate 512 0xAA ++ List.replicate 512 0xBB ++ List.replicate 276 0xCC := by decide +kernel

/-- The model's answer to "read 400 bytes at 1000": 24 × BB then 276 × CC (the file ends). -/
example : ((absFile vol disk file [5, 2, 7]).read 400).1 = List.replicate 24 0xBB ++ List.replicate 276 0xCC ∧
    ((absFile vol disk file [5, 2, 7]).read 400).2.pos = 1300 := by decide +kernel

/-- The engine, run: the same bytes (across the cluster boundary 2 → 7, starting from a stale
cursor), offset 1300 afterwards, no write. -/
example : (read 1 400 mgr).1 = .ok (List.replicate 24 0xBB ++ List.replicate 276 0xCC) ∧
    (read 1 400 mgr).2.files.map (·.currentOffset) = [1300, 0] ∧ (read 1 400 mgr).2.dev.wlog = [] := by
  decide +kernel

/-- The main theorem applies to this state (its hypotheses are satisfiable) … -/
theorem handle_found : mgr.files.findIdx? (·.rawFile = 1) = some 0 := by decide
theorem volume_found : mgr.vols.findIdx? (·.rawVolume = file.rawVolume) = some 0 := by decide

example : ∃ s' f', read 1 400 mgr = (.ok ((absFile vinfo.vol mgr.dev.disk file [5, 2, 7]).read 400).1, s') ∧
    s'.dev.disk = mgr.dev.disk ∧ s'.dev.wlog = mgr.dev.wlog ∧
    s' = { mgr with dev := s'.dev, cache := s'.cache, files := mgr.files.set 0 f' } ∧
    f' = { file with currentOffset := ((absFile vinfo.vol mgr.dev.disk file [5, 2, 7]).read 400).2.pos,
                     curClusterOff := f'.curClusterOff, curCluster := f'.curCluster } ∧
    absFile vinfo.vol s'.dev.disk f' [5, 2, 7] = ((absFile vinfo.vol mgr.dev.disk file [5, 2, 7]).read 400).2 ∧
    FileOK vinfo.vol s'.dev.disk f' [5, 2, 7] ∧ MgrOK s' :=
  read_refines mgr 1 400 0 0 file vinfo [5, 2, 7] mgrOK handle_found rfl volume_found rfl wfgeom fileOK

/-- … and so does the frame theorem: the second file is untouched by that read. -/
example : (read 1 400 mgr).2.files[1]? = some file2 ∧ FileOK vol (read 1 400 mgr).2.dev.disk file2 [3] :=
  have h := read_other_files_untouched mgr 1 400 0 0 file vinfo [5, 2, 7] mgrOK handle_found rfl volume_found rfl
    wfgeom fileOK 1 (by decide) file2 rfl vol [3]
  ⟨h.2.1, h.2.2.2 fileOK2⟩

/-- Locating offset 100 from the stale cursor (backwards): restart, first cluster of the chain
(cluster 5, block 13). -/
example : ∃ s', findDataOnDisk 5 100 (1024, 7) ⟨mgr.dev, mgr.cache, vol⟩ =
    (.ok ((0, 5), .ok (13, 100, 412)), s') ∧ Kept ⟨mgr.dev, mgr.cache, vol⟩ s' :=
  find_on_chain file [5, 2, 7] ⟨mgr.dev, mgr.cache, vol⟩ 100 5 rfl (fun i h => by cases h) wfgeom fileOK rfl

end Example

end Sdmmc.Props.C01Read
