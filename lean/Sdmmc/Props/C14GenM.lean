/-
C14, tie to the source text (monadic level): `card_command` — the whole function: the `wait_not_busy` guard for every
command but CMD0 / CMD12, the six-byte frame with its CRC-7, the stuff byte skipped after CMD12, the response poll loop
with its retry budget —, `card_acmd`, and the closure of `acquire` (the ORDER of the initialisation sequence: the CMD0
loop with its `match` and the flush, CMD59, the CMD8 loop, the ACMD41 loop, CMD58) as machine-translated from
sdcard/mod.rs into `Sdmmc.Gen.FunsSd` (tools/translate_sd.py) are EQUAL to the hand-written model `Model/Sd.lean`, as
functions `St σ → SRes α × St σ`, for EVERY bus `B`, every state and every argument (no bound on `command` or `arg` is
needed).  An edit of the Rust function changes the definition in `Gen/FunsSd.lean` and the equality no longer checks.

The loops are fuel-recursive in the generated file; the fuel the translator passes is the retry budget plus one, and
`response_loop_eq` / `enter_spi_mode_loop_eq` / ... show that it is never exhausted: the loop IS the model's recursion
on the budget.
-/
import Sdmmc.Lemmas.GenSd5

namespace Sdmmc.Props.C14GenM
open Sdmmc.Model Sdmmc.Model.Sd Sdmmc.Gen
open Sdmmc.Lemmas

variable {σ : Type} (B : BusOps σ)

/-- The response poll loop of `card_command`, with `n` retries in its `Delay` and fuel `n + 1`, is the model's
`waitResponse` with `n` retries. -/
theorem response_loop_eq (command n : Nat) :
    FunsSd.card_command_loop1 B command (n + 1) n = waitResponse B command n := GenSd.response_loop B command n

/-- **`card_command`** as translated from the source equals the model's `cardCommand`. -/
theorem card_command_eq (command arg : Nat) : FunsSd.card_command B command arg = cardCommand B command arg :=
  GenSd.card_command_eq B command arg

/-- **`card_acmd`**: CMD55, then the command. -/
theorem card_acmd_eq (command arg : Nat) : FunsSd.card_acmd B command arg = cardAcmd B command arg :=
  GenSd.card_acmd_eq B command arg

/-- The `for _attempts in 1..` loop of `acquire` (CMD0, its four-armed `match`, the 255 flush bytes, the retry budget
`acquire_retries`). -/
theorem enter_spi_mode_loop_eq (n : Nat) : FunsSd.acquire_f_loop1 B (n + 1) n = enterSpiMode B n := GenSd.enter_loop B n

/-- The flush `for _ in 0..0xFF { write_byte(0xFF)? }`. -/
theorem flush_loop_eq (n : Nat) : FunsSd.acquire_f_loop2 B n = flushBytes B n := GenSd.flush_loop B n

/-- The CMD8 loop: (ACMD41 argument, card type so far). -/
theorem check_version_loop_eq (n : Nat) :
    FunsSd.acquire_f_loop3 B (n + 1) n = checkVersion B n >>= fun q => pure (q.2, q.1) := GenSd.version_loop B n

/-- The ACMD41 loop. -/
theorem wait_ready_loop_eq (arg n : Nat) : FunsSd.acquire_f_loop4 B arg (n + 1) n = waitReady B arg n :=
  GenSd.ready_loop B arg n

/-- **The closure `f` of `acquire`** — the initialisation sequence in its order — equals the model's `acquireBody`. -/
theorem acquire_closure_eq : FunsSd.acquire_f B = acquireBody B := GenSd.acquire_f_eq B

namespace Example
/-- Evaluated: the frame the translated `card_command` puts on the bus is the model's (CMD8, argument 0x1AA). -/
example : (List.set [UInt8.ofNat (64 ||| 8), UInt8.ofNat ((0x1AA >>> 24) % 256), UInt8.ofNat ((0x1AA >>> 16) % 256),
    UInt8.ofNat ((0x1AA >>> 8) % 256), UInt8.ofNat (0x1AA % 256), UInt8.ofNat 0] 5
    (UInt8.ofNat (Funs.crc7 (List.take 5 [UInt8.ofNat (64 ||| 8), UInt8.ofNat ((0x1AA >>> 24) % 256),
      UInt8.ofNat ((0x1AA >>> 16) % 256), UInt8.ofNat ((0x1AA >>> 8) % 256), UInt8.ofNat (0x1AA % 256), UInt8.ofNat 0]))))
    = [0x48, 0, 0, 0x01, 0xAA, 0x87] := by decide +kernel

/-- A bus that answers every transaction with `0xFF` bytes. -/
def idleBus : BusOps Nat := { xfer := fun n bs => (n + 1, some (bs.map fun _ => 0xFF)), delay := fun n => n }

/-- Evaluated: on a bus that never answers (all ones), the translated `card_command(CMD0, 0)` with a budget cut to 3
times out after four polls — on the translated loop directly (`card_command_loop1`, fuel 4, budget 3). -/
example : GenSd.errOf ((FunsSd.card_command_loop1 idleBus 0 4 3) { bus := 0 }).1 = some (SdErr.TimeoutCommand 0) ∧
    ((FunsSd.card_command_loop1 idleBus 0 4 3) { bus := 0 }).2.delays = 3 := by decide +kernel
end Example

end Sdmmc.Props.C14GenM
