/-
C11 — THE MOUNT UNDER A FAULT SCHEDULE (one volume), and histories that mount, unmount and mount again.

Every C11 history theorem so far covered an `open_volume` only while a volume is open (it is then refused): "a mount under a
fault schedule is not covered" (gap (3) of `Props/C11Main2.lean`).  `open_raw_volume idx` only READS — block 0, the boot sector,
on FAT32 the information sector — and draws its handle id AFTER the last read.

* `open_volume_under_faults` — from ANY unlocked state, any schedule: the call writes nothing and leaves the medium alone; if a
  device read of it fails it answers an error and the state is the state before up to device bookkeeping and the cache —
  tables, handle generator, limits, medium, schedule the same; a coherent cache stays coherent: the scribbled buffer is not
  served —; if none fails it IS the fault-free call (same answer, same state up to the schedule).
* `mount_under_faults` — from `VolInvSE k` with NO volume open and empty tables (`Unmounted`: a fresh manager; the state
  `close_volume` leaves when all handles were closed), on a medium that mounts with the geometry of the volume: `VolInvSE k`
  again — same slack, same lost chains —, the answer `Ok` or an error; EITHER a read failed and the manager is still unmounted
  (the mount can simply be issued again) OR the call answered `Ok(handle)` and exactly that volume is open, tables empty.
* `fresh_manager_on_formatted_medium` — a fresh manager on a `Formatted` medium (`Spec/Formatted.lean`, C15), given ANY schedule,
  satisfies these hypotheses (slack 0, nothing lost).  (A CRASHED medium, `CrashInvX`, mounts fault-free into `FaultInv` only —
  `Props.C10InvX.crash_then_mount`; into `VolInvSE` when the sizes fit, `crash_then_any_history` —: its stored sizes are not
  bounded by any slack; under a schedule `open_volume_under_faults` reduces that mount to the fault-free one too.)
* `history_under_faults_with_mounts_partial` — `Props.C11HistD.history_under_faults_D_partial` with such mounts allowed ANYWHERE
  in the history: histories that START with `open_volume`, and histories containing `close_volume` (covered all along: it is one
  of the 24 calls of the restated stack) followed by `open_volume` of the same partition.  After every prefix `VolInvSE`, hence
  `FaultInvE`; every call answered `Ok` or an error.
* `remount_after_closing_everything` — the hypothesis the remount needs, discharged: once the schedule is exhausted, closing
  every file, directory and the volume (`C11Main2`, clause handles) leaves an `Unmounted` state with `VolInvS` on a medium that
  still mounts; `open_volume` then answers `Ok` and `VolInvSE` holds with the volume open.

WHAT A MOUNT IN A HISTORY ASKS (`MountOrCall`): the manager is `Unmounted` and the medium mounts (`mountPure`) to a record with the
geometry of the volume.  The second is the clause "mounts" of `C11Main2` (proved for histories without mounts: a mount writes
nothing, so it extends; not assembled here — it is a hypothesis of the mount step).  `_partial` for the same reason as
`history_under_faults_D_partial` (`NotDamagedOpen`).  Several open volumes: not here (`Props/C11MultiHist.lean` still excludes
`open_volume` / `close_volume`).
-/
import Sdmmc.Lemmas.MountF
import Sdmmc.Lemmas.MainC11D
import Sdmmc.Props.C11HistD
import Sdmmc.Props.C15Fs
import Sdmmc.Spec.VolumeNSlack

namespace Sdmmc.Props.C11Mount
open Sdmmc.Model Sdmmc.Model.Fat Sdmmc.Spec.Volume
open Sdmmc.Spec hiding run step NoFault Coherent
open Sdmmc.Spec.Formatted (Formatted)
open Sdmmc.Props.C11Inv (withFaults Covered)
open Sdmmc.Props.C11Hist (Exhausted)

/-- No volume open, the tables empty. -/
def Unmounted (s : Mgr) : Prop := s.vols = [] ∧ s.dirs = [] ∧ s.files = []

theorem unmounted_iff (s : Mgr) : Unmounted s ↔ Lemmas.VolD.Unmounted s :=
  ⟨fun h => ⟨h.1, h.2.1, h.2.2⟩, fun h => ⟨h.vols, h.dirs, h.files⟩⟩

/-- **`open_volume_under_faults`.**  See the header. -/
theorem open_volume_under_faults (s : Mgr) (idx : Nat) (hl : s.locked = false) :
    (step s (.openVolume idx)).2.writes = [] ∧ (step s (.openVolume idx)).1.dev.disk = s.dev.disk ∧
    ((step s (.openVolume idx)).1.dev.failed ≠ s.dev.failed →
      (∃ e, (step s (.openVolume idx)).2.result = .err e) ∧
      ∃ dev' cache', (step s (.openVolume idx)).1 = { s with dev := dev', cache := cache' } ∧ dev'.disk = s.dev.disk ∧
        dev'.faults = s.dev.faults ∧
        ((∀ i, s.cache.tag = some i → s.cache.blk = s.dev.disk.get i) → ∀ i, cache'.tag = some i → cache'.blk = dev'.disk.get i)) ∧
    ((step s (.openVolume idx)).1.dev.failed = s.dev.failed →
      (step (clearFaults s) (.openVolume idx)).2 = (step s (.openVolume idx)).2 ∧
      (step (clearFaults s) (.openVolume idx)).1 = clearFaults (step s (.openVolume idx)).1) :=
  Lemmas.VolD.step_openVolume_faults s idx hl

/-- **`mount_under_faults`.**  See the header. -/
theorem mount_under_faults {k : Nat} {s : Mgr} {gh : Ghost} {X : List (List Nat)} (hI : VolInvSE k s gh X) (hu : Unmounted s)
    (idx : Nat) {vm : FatVolume} (hm : mountPure (s.dev.disk.get 0) idx s.dev.disk.get = .ok vm) (hsg : SameGeom gh.vol vm) :
    (∃ gh' X', VolInvSE k (step s (.openVolume idx)).1 gh' X' ∧ SameGeom gh.vol gh'.vol) ∧
    Clean (step s (.openVolume idx)).2.result ∧ (step s (.openVolume idx)).1.dev.disk = s.dev.disk ∧
    (((step s (.openVolume idx)).1.dev.failed ≠ s.dev.failed ∧ Unmounted (step s (.openVolume idx)).1) ∨
      ((step s (.openVolume idx)).2.result = .ok (.handle s.nextId) ∧
        (step s (.openVolume idx)).1.vols = [{ rawVolume := s.nextId, idx := idx, vol := vm }] ∧
        (step s (.openVolume idx)).1.dirs = [] ∧ (step s (.openVolume idx)).1.files = [])) := by
  obtain ⟨h1, h2, h3, h4⟩ := Lemmas.VolD.step_mount_unmounted
    (Lemmas.VolD.invFE_iffD.2 ⟨gh, X, hI, SameGeom.refl _⟩) ((unmounted_iff s).1 hu) idx hm hsg
  exact ⟨Lemmas.VolD.invFE_iffD.1 h1, h2, h3, h4.imp (fun a => ⟨a.1, (unmounted_iff _).2 a.2⟩) id⟩

/-- **`fresh_manager_on_formatted_medium`**, under any schedule. -/
theorem fresh_manager_on_formatted_medium {s : Mgr} {idx : Nat} {gh : Ghost} (hF : Formatted s.dev.disk idx gh)
    (hu : Unmounted s) (hmax : s.maxVols = 1) (hcoh : ∀ i, s.cache.tag = some i → s.cache.blk = s.dev.disk.get i)
    (hl : s.locked = false) :
    VolInvSE 0 s gh [] ∧ ∃ vm, mountPure (s.dev.disk.get 0) idx s.dev.disk.get = .ok vm ∧ SameGeom gh.vol vm := by
  obtain ⟨h1, h2⟩ := Lemmas.VolD.invFE_of_formatted hF ((unmounted_iff s).1 hu) hmax hcoh hl
  obtain ⟨⟨gh1, X1, hD, _⟩, hR⟩ := h1
  refine ⟨?_, h2⟩
  have hM : Lemmas.VolD.MedD 0 gh.vol s.dev.disk s.files gh [] := by
    rw [hu.2.2]
    exact Lemmas.VolD.medD_zero.2 (Lemmas.VolMed.medX_of_med hF.med)
  exact ⟨Lemmas.VolD.volInvS_iff.2 ⟨rfl, hcoh, hl, hmax, .inl hu.1, hM,
    fun f hf => (by have h' : f ∈ s.files := hf; rw [hu.2.2] at h'; cases h'),
    fun di hdi => (by have h' : di ∈ s.dirs := hdi; rw [hu.2.1] at h'; cases h')⟩, hR⟩

/-! ### Histories with mounts -/

/-- One call of a history with mounts (`gh`: the reference ghost): a covered call satisfying the side condition — or an
`open_volume` issued on an `Unmounted` manager whose medium mounts with the geometry of the volume. -/
def MountOrCall (gh : Ghost) (s : Mgr) (op : Op) : Prop :=
  (Covered s op ∧ NotDamagedOpen s op) ∨
  ∃ idx vm, op = .openVolume idx ∧ Unmounted s ∧ mountPure (s.dev.disk.get 0) idx s.dev.disk.get = .ok vm ∧ SameGeom gh.vol vm

def RunMounts (gh : Ghost) : Mgr → List Op → Prop
  | _, [] => True
  | s, op :: ops => MountOrCall gh s op ∧ RunMounts gh (step s op).1 ops

theorem runM_of : ∀ (ops : List Op) (gh : Ghost) (s : Mgr), RunMounts gh s ops → Lemmas.VolD.RunM gh s ops
  | [], _, _, _ => trivial
  | op :: ops, gh, s, h => ⟨h.1.imp (fun a => ⟨(C11Inv.covered_iff s op).1 a.1, a.2⟩)
      (fun ⟨idx, vm, a, b, c, d⟩ => ⟨idx, vm, a, (unmounted_iff s).1 b, c, d⟩), runM_of ops gh _ h.2⟩

/-- **`history_under_faults_with_mounts_partial`** (TARGET `history_under_faults`).  See the header. -/
theorem history_under_faults_with_mounts_partial (ops : List Op) {k : Nat} {s : Mgr} {gh : Ghost} {X : List (List Nat)}
    (hI : VolInvSE k s gh X) (hrun : RunMounts gh s ops) (n : Nat) :
    (∃ k' gh' X', k ≤ k' ∧ VolInvSE k' (run s (ops.take n)).1 gh' X' ∧ FaultInvE (run s (ops.take n)).1 gh' X' ∧
      SameGeom gh.vol gh'.vol) ∧
    ∀ o, o ∈ (run s (ops.take n)).2 → Clean o.result := by
  obtain ⟨k', hle, h1, h2⟩ := Lemmas.VolD.history_with_mounts ops (Lemmas.VolD.invFE_iffD.2 ⟨gh, X, hI, SameGeom.refl _⟩)
    (runM_of ops gh s hrun) n
  obtain ⟨gh', X', h3, h4⟩ := Lemmas.VolD.invFE_iffD.1 h1
  exact ⟨⟨k', gh', X', hle, h3, C11HistD.faultInvE_of_volInvSE h3, h4⟩, h2⟩

/-! ### The remount after closing everything -/

/-- **`remount_after_closing_everything`.**  `VolInvSE k`, the schedule exhausted, the medium mounting (partition `idx`) with
the geometry of the volume: closing every file, every directory and the volume answers `Ok` each time and leaves an
`Unmounted` manager on a medium that still mounts; `open_volume idx` then answers `Ok(handle)`, and `VolInvSE k` holds with that
volume open — same lost chains. -/
theorem remount_after_closing_everything {k : Nat} {s : Mgr} {gh : Ghost} {X : List (List Nat)} (hI : VolInvSE k s gh X)
    (hx : Exhausted s.dev) (idx : Nat) (vm0 : FatVolume) (hm0 : mountPure (s.dev.disk.get 0) idx s.dev.disk.get = .ok vm0)
    (hsg0 : SameGeom vm0 gh.vol) :
    ∃ (fs ds vs : List Nat), fs.Perm (s.files.map (·.rawFile)) ∧ ds.Perm (s.dirs.map (·.rawDirectory)) ∧
      vs = s.vols.map (·.rawVolume) ∧
      let closes := fs.map Op.closeFile ++ ds.map Op.closeDir ++ vs.map Op.closeVolume
      (∀ o, o ∈ (run s closes).2 → o.result = .ok .unit) ∧ Unmounted (run s closes).1 ∧
      ∃ vm, mountPure ((run s closes).1.dev.disk.get 0) idx (run s closes).1.dev.disk.get = .ok vm ∧ SameGeom gh.vol vm ∧
        (step (run s closes).1 (.openVolume idx)).2.result = .ok (.handle (run s closes).1.nextId) ∧
        (step (run s closes).1 (.openVolume idx)).1.vols = [{ rawVolume := (run s closes).1.nextId, idx := idx, vol := vm }] ∧
        ∃ gh' X', VolInvSE k (step (run s closes).1 (.openVolume idx)).1 gh' X' ∧ SameGeom gh.vol gh'.vol := by
  have hD := Lemmas.VolD.volInvS_iff.1 hI.inv
  obtain ⟨fs, ds, vs, p1, p2, p3, hdr⟩ := Lemmas.VolD.drain_exhausted hD hx
  refine ⟨fs, ds, vs, p1, p2, p3, ?_⟩
  intro closes
  obtain ⟨a1, a2, a3, a4, _, a6, gh2, a7, a8⟩ := hdr
  obtain ⟨w, hw, hsw⟩ := Lemmas.MainC11D.closes_mount hD hI.entries fs ds vs idx vm0 hm0 hsg0
  have hu : Unmounted (run s closes).1 := ⟨a4, a3, a2⟩
  have hI2 : VolInvSE k (run s closes).1 gh2 X :=
    ⟨Lemmas.VolD.volInvS_iff.2 a7, fun f hf => (by have h' : f ∈ (run s closes).1.files := hf; rw [a2] at h'; cases h')⟩
  obtain ⟨⟨gh', X', h1, h2⟩, _, _, h4⟩ := mount_under_faults hI2 hu idx hw (a8.symm.trans hsw)
  refine ⟨a1, hu, w, hw, hsw, ?_⟩
  -- the schedule is exhausted: no device call of the mount fails
  rcases h4 with ⟨hq, _⟩ | ⟨r1, r2, _, _⟩
  · exfalso
    -- with the schedule exhausted no device call fails
    have hx' : Exhausted (run s closes).1.dev := (Lemmas.FaultHist.run_exhausted closes s hx).1
    exact hq (Lemmas.FaultHist.step_exhausted (run s closes).1 (.openVolume idx) hx').2.1
  · exact ⟨r1, r2, gh', X', h1, a8.trans h2⟩

/-! ### Several open volumes: a mount whose read fails -/

/-- **A failed mount on a manager with several open volumes** (`VolInvNS`, `Spec/VolumeNSlack.lean`): an `open_volume` of which a
device read fails answers an error and keeps `VolInvNS` with the same ghosts — tables, medium and every volume untouched.
(The SUCCESSFUL mount of a further partition and `close_volume` under faults are not restated for `VolInvNS`:
`Props/C11MultiHist.lean` keeps excluding `open_volume` / `close_volume`.) -/
theorem failed_mount_keeps_volInvNS {s : Mgr} {ghs : List Ghost} (hI : VolInvNS s ghs) (idx : Nat)
    (hq : (step s (.openVolume idx)).1.dev.failed ≠ s.dev.failed) :
    (∃ e, (step s (.openVolume idx)).2.result = .err e) ∧ VolInvNS (step s (.openVolume idx)).1 ghs ∧
    (step s (.openVolume idx)).1.dev.disk = s.dev.disk := by
  obtain ⟨_, hd, hfail, _⟩ := open_volume_under_faults s idx hI.unlocked
  obtain ⟨he, dev', cache', hst, hd', _, hc'⟩ := hfail hq
  refine ⟨he, ?_, hd⟩
  rw [hst]
  refine ⟨hc' hI.coherent, hI.unlocked, hI.len, hI.vols, hI.handles, hI.indices, hI.parts, fun i vi gh hvi hgh => ?_, ?_,
    hI.fileVols, hI.openDirs, hI.inertDirs⟩
  · obtain ⟨k, X, hM⟩ := hI.med i vi gh hvi hgh
    refine ⟨k, X, ?_⟩
    show MedSlack k gh.vol dev'.disk (volFiles s vi.rawVolume) gh X
    rw [hd']; exact hM
  · intro vi hvi f hf hfv
    have := hI.entries vi hvi f hf hfv
    show _ ∨ _
    unfold entryOnMedium at this ⊢
    simp only [hd'] 
    exact this

/-! ### Non-vacuity (evaluated, and the theorem instantiated) -/

namespace Example
open Sdmmc.Props.C15Fs.Example16 (ghM formatted16)
open Sdmmc.Props.C02Reopen.Example (disk1 vol0 fresh)
open Sdmmc.Lemmas.VolD (notDamagedB notDamagedB_sound)
open Sdmmc.Props.C11HistT.Example (outcome)

/-- A fresh manager on the formatted FAT16 medium of `Props.C15Fs` (`A.TXT`, 600 bytes), device calls 1 and 7 failing:
`open_volume 0` — its SECOND read fails: error, still unmounted —; `open_volume 0` again (handle 0); `open_root_dir` (1);
open `A.TXT` (2), read, close, `close_dir`, `close_volume`; `open_volume 0` — its second read FAILS AGAIN —; `open_volume 0`
(handle 3); `open_root_dir` (4); `iterate_dir`. -/
def sMt : Mgr := withFaults [1, 7] fresh
def opsMt : List Op :=
  [.openVolume 0, .openVolume 0, .openRoot 0, .openFile 1 [65, 46, 84, 88, 84] .ReadOnly, .read 2 10, .closeFile 2, .closeDir 1,
   .closeVolume 0, .openVolume 0, .openVolume 0, .openRoot 3, .list 4]

theorem sMt_inv : VolInvSE 0 sMt ghM [] :=
  (fresh_manager_on_formatted_medium (s := sMt) formatted16 ⟨rfl, rfl, rfl⟩ rfl (fun i h => (by cases h)) rfl).1

/-- Every call is a covered call satisfying the side condition, or a mount of an unmounted manager on a medium that mounts
(evaluated along the run). -/
theorem opsMt_run : RunMounts ghM sMt opsMt := by
  have mount : ∀ s : Mgr, (s.vols = [] ∧ s.dirs = [] ∧ s.files = []) →
      mountPure (s.dev.disk.get 0) 0 s.dev.disk.get = .ok vol0 → MountOrCall ghM s (.openVolume 0) :=
    fun s h1 h2 => .inr ⟨0, vol0, rfl, h1, h2, SameGeom.refl _⟩
  have call : ∀ (s : Mgr) (op : Op), Covered s op → notDamagedB s op = true → MountOrCall ghM s op :=
    fun s op h1 h2 => .inl ⟨h1, notDamagedB_sound h2⟩
  refine ⟨mount _ (by decide +kernel) (by decide +kernel), mount _ (by decide +kernel) (by decide +kernel),
    call _ _ trivial (by decide +kernel), call _ _ (C03All.name_ok_all _) (by decide +kernel),
    call _ _ trivial (by decide +kernel), call _ _ trivial (by decide +kernel), call _ _ trivial (by decide +kernel),
    call _ _ trivial (by decide +kernel), mount _ (by decide +kernel) (by decide +kernel),
    mount _ (by decide +kernel) (by decide +kernel), call _ _ trivial (by decide +kernel), call _ _ trivial (by decide +kernel),
    trivial⟩

/-- The theorem, instantiated: `VolInvSE` after every prefix, every answer `Ok` or an error. -/
example (n : Nat) := history_under_faults_with_mounts_partial opsMt sMt_inv opsMt_run n

/-- Evaluated: the answers (2 = `DeviceError`: the two failed mounts; 0 = `Ok`), the volume handles after every prefix, two
failed device calls, and nothing was ever written. -/
theorem opsMt_evaluated :
    (run sMt opsMt).2.map (fun o => outcome o.result) = [2, 0, 0, 0, 0, 0, 0, 0, 2, 0, 0, 0] ∧
    (List.range 13).map (fun n => (run sMt (opsMt.take n)).1.vols.map (·.rawVolume)) =
      [[], [], [0], [0], [0], [0], [0], [0], [], [], [3], [3], [3]] ∧
    (run sMt opsMt).1.dev.failed = 2 ∧ (run sMt opsMt).2.all (fun o => o.writes.isEmpty) = true := by
  refine ⟨?_, ?_, ?_, ?_⟩ <;> decide +kernel

end Example

end Sdmmc.Props.C11Mount
