/-
C03 (history form) — The volume stays a well-formed FAT file system after every operation.
Also: C05 at quiescent points (no leak), and the clean-tail hypothesis of C06 for every reachable directory.

Property theorems only; the invariant is `Sdmmc.Spec.Volume` (`VolInv s gh`, `MedInv`, `TreeOK`; read its
header), the proofs are `Sdmmc.Lemmas.Vol*`:
  layer 1a (pure, no medium)   `VolTreeEdit` (`tree_edit`), `VolTreeOps/Files/Slots/Slots2`
  layer 1b (medium)            `VolDisk`, `VolMed` … `VolMed5`, `VolChains`
  layer 2  (FAT engine)        `VolWalk`, `VolEng` … `VolEng7`
  layer 3  (API)               `VolApi`, `VolApi2`, `VolApi3`, `VolApiRO`, `VolApiWrite`, `VolApiDelete`, `VolApiOpen`,
                               `VolApiMkdir*`, `VolApiMount`
  layer 4  (corollaries)       `VolCor`
  examples / checker           `VolCheck` (executable checker + soundness), `VolExample`, `VolExampleTests`.
Model: `Sdmmc.Model.Mgr` (`step`, `run`, every API function), `Sdmmc.Model.Fat`, mirroring
/repo/src/volume_mgr.rs and /repo/src/fat/volume.rs.

WHAT IS PROVED.  For a fault-free device, `VolInv s gh` — for SOME ghost `gh` (the chains of the volume and its
sub-directories, and the volume record) — is preserved by EVERY API call, whatever it returns
(`api_step_invariant_all`), hence by every history (`api_history_invariant`, `api_history_invariant_prefix`): the
history theorem covers all 24 constructors of `Op`.  Along a history the volume record of the ghost changes only in
its two bookkeeping fields (free count, next-free hint): every theorem exports `SameGeom gh.vol gh'.vol`, and the
history theorems keep the geometry of a FIXED reference record `v0`.  `VolInv` says, for the on-disk volume
together with the pending state of the still-open files: every chain of `gh.G` is in range, acyclic, ends in an
end-of-chain mark, passes through no free / bad / reserved entry, no cluster lies in two chains, and every
cluster marked in use lies in one (`Owns`, C05Forest); the chains are, one to one, the FAT32 root, the
sub-directories and what the file entries name — an open file's record replacing the on-disk fields of its
entry — and each is long enough for the recorded size; names are unique per directory; every sub-directory
starts with correct `.` and `..`; nothing follows an end-of-directory marker; every sub-directory is reachable
from the root; every open file sits at a live entry with its name, is consistent with its chain (`FileOK`, C01),
and no two sit at the same entry.  Section "What the invariant says" restates this clause by clause.

SCOPE AND HYPOTHESES, stated plainly.
* Single open volume: `VolInv` contains `maxVols = 1` (the crate's default) and at most one open volume.  The
  volume record is kept in the ghost, so the invariant survives `close_volume`.
* No device faults (`VolInv.noFault`); with faults the invariant is false (C05Forest `fault_leaks`, C11).
* Calls covered (`CoveredAll v0 s op`): all 24 constructors of `Op`.  The only hypotheses are
    - `NameOK`: names whose short form starts with byte 0xE5 are excluded in `openDir`, `openFile`, `delete`,
      `mkdir` — known and accepted deviation (a) of the crate: such a name is stored as / matches a "deleted" slot.
      `Sdmmc.Lemmas.VolExampleTests` (T11a–d) shows by evaluation that the invariant really breaks there;
    - for an `openVolume` issued while NO volume is open (after `close_volume`): the record it mounts — if it
      mounts one — has the geometry of `v0`.  The invariant is about ONE volume of the medium; `open_volume` of
      another partition is outside its scope.  (`openVolume` while a volume is open is refused and changes nothing:
      `open_volume_refused`.)
  `api_history_invariant_partial` / `api_history_every_prefix` (`Covered`, `CoveredRun`) are the corollaries for
  histories without that `openVolume` case; `open_volume_remount` is the single call.
  Deviation (b) (lookup continuing behind an end marker) is moot under the clean-tail clause; deviation (c)
  (`open_root_dir` not validating its volume handle) is harmless: such a handle designates the root marker and
  every later use of it answers `BadHandle` (`VolInv.openDirs` does not mention the volume handle).
* Two observations about the crate that the invariant is built to tolerate (no violation, reported for the record):
    - `open_file_in_dir(root, ".")`, `make_dir_in_dir(root, "..")` etc. create ordinary objects NAMED "." / ".." in
      the root directory.  Therefore dot entries are recognised by POSITION (first two slots of a sub-directory).
    - the crate's lookup does not skip volume-label entries: a label can be opened, written and deleted as a file.
      Therefore labels count as file-like objects in the invariant.
No counterexample to the property was found: neither by proof nor by the ~900 evaluated call prefixes of
`Sdmmc.Lemmas.VolExampleTests` (FAT16, FAT32, 2 blocks per cluster; volume full, FAT16 root full, directory
growth, truncation, "."/".." names, label entries, bad handles).

THE INDEPENDENT CHECKER (`fsck_ok`, vocabulary `Sdmmc.Spec.VolumeFsck`, proofs `Lemmas.VolFsck` … `VolFsck9`): on a state satisfying `VolInv`, the structure
checker of `Sdmmc.Spec.Fs` (`fsck`, run with the pending state of the open files and the size clause on) reports
no problem — under two explicit hypotheses that cannot be dropped (evaluated counterexamples in `Lemmas.VolFsck9`,
`VolFsck10`): (H1) `NoOne`: no FAT32 entry of a data cluster is `1` — the crate's `next_cluster` reads the FAT32 entry
`1` as END OF CHAIN (`f = 1 ∨ f ≥ 0x0FFFFFF8`, /repo/src/fat/volume.rs), the checker (and the FAT specification)
treat `1` as reserved; the crate never writes `1`; (H2) `DepthOK`: no directory lies deeper than 63 levels — the
checker's nesting fuel.  Conversely `check_sound`: a decidable test implying `VolInv`.
-/
import Sdmmc.Lemmas.VolApiOpen
import Sdmmc.Lemmas.VolApiWrite
import Sdmmc.Lemmas.VolApiMkdir
import Sdmmc.Lemmas.VolApiMount
import Sdmmc.Lemmas.VolCor
import Sdmmc.Lemmas.VolExample
import Sdmmc.Props.C06
import Sdmmc.Lemmas.VolFsck9

namespace Sdmmc.Props.C03Inv
open Sdmmc.Model Sdmmc.Model.Fat Sdmmc.Spec.Volume
open Sdmmc.Spec hiding run step NoFault Coherent

/-! ### Which calls are covered -/

/-- The short form of the name does not start with byte 0xE5 (accepted deviation (a) of the crate). -/
def NameOK (name : List Nat) : Prop := ∀ sfn, Sfn.createFromStr name = .ok sfn → sfn.head? ≠ some 0xE5

/-- The calls covered in state `s`: everything, except `openVolume` while no volume is open, and names starting
with 0xE5 in the four calls that look a name up in order to open, create or delete. -/
def Covered (s : Mgr) : Op → Prop
  | .openVolume _ => s.vols ≠ []
  | .openDir _ name => NameOK name
  | .openFile _ name _ => NameOK name
  | .delete _ name => NameOK name
  | .mkdir _ name => NameOK name
  | _ => True

/-- A history all of whose calls are covered in the state they are issued in. -/
def CoveredRun : Mgr → List Op → Prop
  | _, [] => True
  | s, op :: ops => Covered s op ∧ CoveredRun (step s op).1 ops

/-- The calls covered when `open_volume` issued while no volume is open is allowed to mount any partition whose
record has the geometry of `v0`. -/
def CoveredAll (v0 : FatVolume) (s : Mgr) : Op → Prop
  | .openVolume idx => s.vols ≠ [] ∨
      ∀ h s', openRawVolume idx (Lemmas.MHoare.resetLogs s) = (.ok h, s') → ∀ vi, vi ∈ s'.vols → SameGeom v0 vi.vol
  | .openDir _ name => NameOK name
  | .openFile _ name _ => NameOK name
  | .delete _ name => NameOK name
  | .mkdir _ name => NameOK name
  | _ => True

/-- A history all of whose calls are covered (in the sense of `CoveredAll`) in the state they are issued in. -/
def CoveredAllRun (v0 : FatVolume) : Mgr → List Op → Prop
  | _, [] => True
  | s, op :: ops => CoveredAll v0 s op ∧ CoveredAllRun v0 (step s op).1 ops

/-- `Covered` is the special case without `openVolume` while no volume is open. -/
theorem coveredAll_of_covered (v0 : FatVolume) {s : Mgr} {op : Op} (h : Covered s op) : CoveredAll v0 s op := by
  cases op <;> first | exact Or.inl h | exact h

theorem coveredAllRun_of_coveredRun (v0 : FatVolume) : ∀ {s : Mgr} {ops : List Op}, CoveredRun s ops → CoveredAllRun v0 s ops
  | _, [], _ => trivial
  | _, _ :: _, h => ⟨coveredAll_of_covered v0 h.1, coveredAllRun_of_coveredRun v0 h.2⟩

/-- Every prefix of a covered history is covered. -/
theorem coveredAllRun_take (v0 : FatVolume) : ∀ {s : Mgr} {ops : List Op}, CoveredAllRun v0 s ops → ∀ k, CoveredAllRun v0 s (ops.take k)
  | _, [], _, k => by rw [List.take_nil]; trivial
  | _, _ :: _, _, 0 => trivial
  | _, _ :: _, h, k + 1 => ⟨h.1, coveredAllRun_take v0 h.2 k⟩

/-! ### Layer 1: the elementary changes preserve the invariant (no engine code)

`TreeOK` is the medium-free part of the invariant (clauses I2–I5 over the slot lists of the directories);
`SlotEdit … h pre post old new` says that slot `old` of directory `h` became `new` and nothing else changed;
`MedX v d files gh X` is `MedInv` with extra, not (yet) referenced chains `X` (`MedInv = MedX … []`).
All of them are instances of ONE pure lemma, `Lemmas.VolTree.tree_edit`. -/

section
open Sdmmc.Lemmas Sdmmc.Lemmas.VolBase Sdmmc.Lemmas.VolTree Sdmmc.Lemmas.VolMed Sdmmc.Lemmas.VolEng Sdmmc.Lemmas.VolDisk
open Sdmmc.Lemmas.FBasic (NoFault Coherent)
variable {ft : FatType} {cb : Nat} {root : List Nat} {G G' : List (List Nat)} {dirs : List (Nat × Nat)}
  {slots slots' : Nat → List Slot} {files : List FileInfo} {v : FatVolume} {d : Disk} {gh : Ghost} {X : List (List Nat)}

/-- **A file entry is created** in a free slot (the end marker — then the tail is blank — or a deleted
slot): no cluster, size 0, a name the directory does not have yet, no open file at that position. -/
theorem entry_created (hT : TreeOK ft cb root G dirs slots files) (hG : HeadsOK G) {h : Nat} {pre post : List Slot}
    {old new : Slot} (hE : SlotEdit dirs slots slots' h pre post old new)
    (hold : freeSlot old) (hnew : keep new = true) (hnd : isDirE new = false)
    (hname : sName new ∉ (entries (slots h)).map sName)
    (hcl : sCluster ft new = 0) (hsz : sSize new = 0) (hfree : pendOf files new = none) :
    TreeOK ft cb root G dirs slots' files :=
  Lemmas.VolTree.tree_insert_file hT hG hE hold hnew hnd hname hcl hsz hfree

/-- **A file entry is rewritten in place** (same position, same name, still a plain file entry).  The
chains may change along: `hAR` balances the first clusters, `hlen` says the other chains do not
shrink, `hsize` that the rewritten entry fits; an unmodified open file sitting there must agree with
what was written (`hclean`). -/
theorem entry_rewritten (hT : TreeOK ft cb root G dirs slots files) (hG : HeadsOK G) {h : Nat} {pre post : List Slot}
    {old new : Slot} (hE : SlotEdit dirs slots slots' h pre post old new)
    (hold : first old ≠ 0 ∧ keep old = true) (hod : isDirE old = false)
    (hnew : keep new = true) (hnd : isDirE new = false) (hpos : spos new = spos old) (hname : sName new = sName old)
    (hlen : ∀ c, c ∈ heads G → c ≠ effCluster ft files old → (chainOf G c).length ≤ (chainOf G' c).length)
    (hAR : ∀ a, (fileRefs ft files [new]).count a + (heads G).count a = (fileRefs ft files [old]).count a + (heads G').count a)
    (hsize : SizeOK ft cb G' files new)
    (hclean : ∀ f, pendOf files old = some f → f.dirty = false → sCluster ft new = f.entry.cluster ∧ sSize new = f.entry.size) :
    TreeOK ft cb root G' dirs slots' files :=
  Lemmas.VolTree.tree_replace hT hG hE hold hod hnew hnd hpos hname hlen hAR hsize hclean

/-- **A file entry is deleted** (its first byte becomes 0xE5): no open file sits there; its chain — if it
has one — leaves the chain list (`hAR`), no other chain shrinks. -/
theorem entry_deleted (hT : TreeOK ft cb root G dirs slots files) (hG : HeadsOK G) {h : Nat} {pre post : List Slot}
    {old new : Slot} (hE : SlotEdit dirs slots slots' h pre post old new)
    (hold : first old ≠ 0 ∧ keep old = true) (hod : isDirE old = false) (hnew : keep new = false)
    (hfree : pendOf files old = none)
    (hlen : ∀ c, c ∈ heads G → c ≠ sCluster ft old → (chainOf G c).length ≤ (chainOf G' c).length)
    (hAR : ∀ a, (heads G).count a = (if sCluster ft old ≠ 0 then [sCluster ft old] else []).count a + (heads G').count a) :
    TreeOK ft cb root G' dirs slots' files :=
  Lemmas.VolTree.tree_delete hT hG hE hold hod hnew hfree hlen hAR

/-- **A sub-directory is created**: a directory entry naming cluster `c` goes into a free slot of
directory `h`; `c` is a new directory number whose slot list holds the two dot entries and nothing
else; the chain list gains a chain starting at `c`. -/
theorem directory_made (hT : TreeOK ft cb root G dirs slots files) (hG : HeadsOK G) {h : Nat} {pre post : List Slot}
    {old new : Slot} (hE : SlotEdit dirs slots slots' h pre post old new)
    (hold : freeSlot old) (hnew : keep new = true) (hnd : isDirE new = true)
    (hname : sName new ∉ (entries (slots h)).map sName)
    {c : Nat} (hcl : sCluster ft new = c) (hc : c ∉ dirIds dirs)
    (hctC : CleanTail (slots' c)) (hnamesC : ((entries (slots' c)).map sName).Nodup)
    (hdotsC : DotsOK ft c h (slots' c)) (hobjC : objects c (slots' c) = [])
    (hAR : ∀ a, (heads G').count a = [c].count a + (heads G).count a)
    (hlen : ∀ c', c' ∈ heads G → (chainOf G c').length ≤ (chainOf G' c').length) :
    TreeOK ft cb root G' (dirs ++ [(c, h)]) slots' files :=
  Lemmas.VolTree.tree_mkdir hT hG hE hold hnew hnd hname hcl hc hctC hnamesC hdotsC hobjC hAR hlen

/-- **Nothing changes in any entry list** (a directory grows by blank slots; data blocks are written; FAT
entries of file chains change): first clusters the same, no referenced chain shrinks. -/
theorem entries_unchanged (hT : TreeOK ft cb root G dirs slots files) (hG : HeadsOK G)
    (hent : ∀ x, x ∈ dirIds dirs → entries (slots' x) = entries (slots x))
    (hct : ∀ x, x ∈ dirIds dirs → CleanTail (slots' x))
    (hdots : ∀ x p, (x, p) ∈ dirs → DotsOK ft x p (slots' x))
    (hheads : ∀ a, (heads G').count a = (heads G).count a)
    (hlen : ∀ c, c ∈ heads G → c ∉ root → c ∉ dirs.map Prod.fst → (chainOf G c).length ≤ (chainOf G' c).length) :
    TreeOK ft cb root G' dirs slots' files :=
  Lemmas.VolTree.tree_same_entries hT hG hent hct hdots hheads hlen

/-- **One record changes**: same slot, same name; a record that claims to be unmodified keeps cluster and
size; the chains change along (`hAR`: first clusters; `hlen`: the other chains do not shrink; `hsize`). -/
theorem record_changed (hT : TreeOK ft cb root G dirs slots files) (hG : HeadsOK G) (hpos : (objPos dirs slots).Nodup)
    {i : Nat} {f f' : FileInfo} (hi : files[i]? = some f)
    (hkey : fkey f' = fkey f) (hname : f'.entry.name = f.entry.name) (hattr : AttrsOK f')
    (hclean : f'.dirty = false → f.dirty = false ∧ f'.entry.cluster = f.entry.cluster ∧ f'.entry.size = f.entry.size)
    (hlen : ∀ c, c ∈ heads G → c ≠ f.entry.cluster → (chainOf G c).length ≤ (chainOf G' c).length)
    (hAR : ∀ a, (if f'.entry.cluster ≠ 0 then [f'.entry.cluster] else []).count a + (heads G).count a =
      (if f.entry.cluster ≠ 0 then [f.entry.cluster] else []).count a + (heads G').count a)
    (hsize : (f'.entry.cluster = 0 ∧ f'.entry.size = 0) ∨
      (f'.entry.cluster ≠ 0 ∧ f'.entry.size ≤ (chainOf G' f'.entry.cluster).length * cb)) :
    TreeOK ft cb root G' dirs slots (files.set i f') :=
  Lemmas.VolTree.tree_file_set hT hG hpos hi hkey hname hattr hclean hlen hAR hsize

/-- **A file is opened** on an existing file entry that no open file sits at; the new record carries the
entry's cluster and size. -/
theorem file_opened (hT : TreeOK ft cb root G dirs slots files) (hG : HeadsOK G) (hpos : (objPos dirs slots).Nodup)
    {h : Nat} (hh : h ∈ dirIds dirs) {o : Slot} (ho : o ∈ objects h (slots h)) (hod : isDirE o = false)
    (hfree : pendOf files o = none) {f : FileInfo} (hkey : fkey f = spos o) (hname : f.entry.name = sName o)
    (hattr : AttrsOK f) (hcl : f.entry.cluster = sCluster ft o) (hsz : f.entry.size = sSize o) :
    TreeOK ft cb root G dirs slots (files ++ [f]) :=
  Lemmas.VolTree.tree_open hT hG hpos hh ho hod hfree hkey hname hattr hcl hsz

/-- **A file is closed** whose entry on the medium carries the record's cluster and size. -/
theorem file_closed (hT : TreeOK ft cb root G dirs slots files) (hG : HeadsOK G) (hpos : (objPos dirs slots).Nodup)
    {i : Nat} {f : FileInfo} (hi : files[i]? = some f)
    (hsync : ∀ h, h ∈ dirIds dirs → ∀ o, o ∈ objects h (slots h) → spos o = fkey f →
      sCluster ft o = f.entry.cluster ∧ sSize o = f.entry.size) :
    TreeOK ft cb root G dirs slots (files.eraseIdx i) :=
  Lemmas.VolTree.tree_close hT hG hpos hi hsync

/-- **One directory slot is rewritten** with 32 new bytes. -/
theorem slot_rewritten (hM : MedX v d files gh X) {h : Nat} (hh : h ∈ dirIds gh.dirs) {pre post : List Slot} {old : Slot}
    (hsp : dirSlots v d gh.G h = pre ++ old :: post) (bytes : Bytes) (hbytes : bytes.length = 32) :
    BlocksOK (d.set old.1 (splice (d.get old.1) old.2.1 bytes)) ∧
    (∀ c, c < endCluster v →
      (d.set old.1 (splice (d.get old.1) old.2.1 bytes)).get (fatBlock v c) = d.get (fatBlock v c)) ∧
    dirSlots v (d.set old.1 (splice (d.get old.1) old.2.1 bytes)) gh.G h = pre ++ (old.1, old.2.1, bytes) :: post ∧
    (∀ x, x ∈ dirIds gh.dirs → x ≠ h →
      dirSlots v (d.set old.1 (splice (d.get old.1) old.2.1 bytes)) gh.G x = dirSlots v d gh.G x) :=
  Lemmas.VolMed.slot_write hM hh hsp bytes hbytes

/-- **The first byte of one directory slot is set** to `x`. -/
theorem slot_marked (hM : MedX v d files gh X) {h : Nat} (hh : h ∈ dirIds gh.dirs) {pre post : List Slot} {old : Slot}
    (hsp : dirSlots v d gh.G h = pre ++ old :: post) (x : UInt8) :
    BlocksOK (d.set old.1 ((d.get old.1).set old.2.1 x)) ∧
    (∀ c, c < endCluster v → (d.set old.1 ((d.get old.1).set old.2.1 x)).get (fatBlock v c) = d.get (fatBlock v c)) ∧
    dirSlots v (d.set old.1 ((d.get old.1).set old.2.1 x)) gh.G h = pre ++ (old.1, old.2.1, old.2.2.set 0 x) :: post ∧
    (∀ y, y ∈ dirIds gh.dirs → y ≠ h →
      dirSlots v (d.set old.1 ((d.get old.1).set old.2.1 x)) gh.G y = dirSlots v d gh.G y) :=
  Lemmas.VolMed.slot_mark hM hh hsp x

/-- **`MedInv` depends on the medium only through the FAT and the slot lists of the directories**, and
on the volume record only through its geometry. -/
theorem medium_congruence {v' : FatVolume} {d' : Disk} (hM : MedX v d files gh X) (hs : SameGeom v v') (hh : HintOK v')
    (hb : BlocksOK d') (hfat : ∀ c, c < endCluster v → d'.get (fatBlock v c) = d.get (fatBlock v c))
    (hslots : ∀ h, h ∈ dirIds gh.dirs → dirSlots v d' gh.G h = dirSlots v d gh.G h) :
    MedX v' d' files gh X :=
  Lemmas.VolMed.med_congr hM hs hh hb hfat hslots

/-- **The FAT and non-directory blocks change.**  `G'` are the new chains (with `X'` not yet referenced);
the chain of every directory is the same list as before and no block of a directory changed; the tree
clauses hold for `G'`, `files'` over the old slot lists; the open files are consistent with their
chains of `G'`. -/
theorem fat_changed (hM : MedX v d files gh X) {v' : FatVolume} {d' : Disk} (hs : SameGeom v v') (hh : HintOK v')
    (hb : BlocksOK d') {G' X' : List (List Nat)} (hown : Owns v' d' (G' ++ X'))
    (hdir : ∀ h, h ∈ dirIds gh.dirs → ¬ isFixedRoot v h → chainOf G' (dirHead v h) = chainOf gh.G (dirHead v h))
    (hblocks : ∀ h, h ∈ dirIds gh.dirs → ∀ s, s ∈ dirSlots v d gh.G h → d'.get s.1 = d.get s.1)
    {files' : List FileInfo} {dirs' : List (Nat × Nat)} (hdirs : dirs' = gh.dirs)
    (htree : TreeOK v.fatType (clusterBytesLen v) (rootHead v) G' dirs' (dirSlots v d gh.G) files')
    (hfiles : ∀ f, f ∈ files' → FileOK v' d' f (chainOf G' f.entry.cluster) ∧
      (chainOf G' f.entry.cluster = [] → f.curCluster < 2)) :
    MedX v' d' files' { vol := v', G := G', dirs := dirs' } X' :=
  Lemmas.VolMed.medX_fat_update hM hs hh hb hown hdir hblocks hdirs htree hfiles

/-! ### Layer 2: the FAT engine realises these changes

Each on a fault-free coherent engine state whose medium satisfies the invariant; error paths included
(`NotEnoughSpace`: FAT16 root full, volume full — nothing changed, a directory cluster allocated by `make_dir` is
given back). -/

/-- **Lookup** on a directory of a sound volume, for a name that does not start with 0xE5: the unique live
short entry with that name, decoded; `NotFound` if there is none.  Nothing is written. -/
theorem engine_lookup {fs : FS} {files : List FileInfo} {gh : Ghost} {X : List (List Nat)}
    (hM : MedX fs.vol fs.dev.disk files gh X) (hn : NoFault fs) (hc : Coherent fs) {dc : Nat}
    (hv : ValidDir gh.dirs dc) (name : Bytes) (hname : name.head? ≠ some 0xE5) :
    ∃ fs', findDirectoryEntry dc name fs =
        ((((entries (dirSlots fs.vol fs.dev.disk gh.G (dirIdOf dc))).find? fun s => decide (sName s = name)).map
            (Listing.decode fs.vol.fatType)).elim (.err .NotFound) .ok, fs') ∧
      fs'.dev.disk = fs.dev.disk ∧ fs'.dev.wlog = fs.dev.wlog ∧ fs'.vol = fs.vol ∧ NoFault fs' ∧ Coherent fs' :=
  Lemmas.VolEng.find_spec hM hn hc hv name hname

/-- `update_info_sector` keeps the invariant (it writes at most the FAT32 information sector). -/
theorem engine_info_sector {fs : FS} (hM : MedX fs.vol fs.dev.disk files gh X) (hn : NoFault fs) (hc : Coherent fs) :
    ∃ fs', updateInfoSector fs = (.ok (), fs') ∧ NoFault fs' ∧ Coherent fs' ∧ fs'.vol = fs.vol ∧
      MedX fs'.vol fs'.dev.disk files gh X :=
  Lemmas.VolEng.updateInfo_med hM hn hc

/-- **Flush**: `write_entry_to_disk` of the record of an open file.  The invariant is kept, and afterwards
the slot the file sits at carries the record's cluster and size. -/
theorem engine_flush {fs : FS} (hM : MedX fs.vol fs.dev.disk files gh X) (hn : NoFault fs) (hc : Coherent fs)
    {f : FileInfo} (hf : f ∈ files) :
    ∃ fs', writeEntryToDisk f.entry fs = (.ok (), fs') ∧ NoFault fs' ∧ Coherent fs' ∧ fs'.vol = fs.vol ∧
      MedX fs'.vol fs'.dev.disk files gh X ∧
      (∀ h, h ∈ dirIds gh.dirs → ∀ o, o ∈ objects h (dirSlots fs'.vol fs'.dev.disk gh.G h) → spos o = fkey f →
        sCluster fs.vol.fatType o = f.entry.cluster ∧ sSize o = f.entry.size) :=
  Lemmas.VolEng.flush_med hM hn hc hf

/-- **A directory grows by a blank cluster.**  `h` is a chained directory whose chain ends in `p`;
`alloc_cluster(Some(p), true)` returned `c`.  The invariant holds for the chain list with `c` appended to
that chain; the directory's slot list is the old one followed by the (blank) slots of `c`; every other
directory's slot list and every block of the other clusters are as before. -/
theorem engine_grow_directory {fs fs2 : FS} (hM : MedX fs.vol fs.dev.disk files gh X) (hn : NoFault fs) (hc : Coherent fs)
    {h : Nat} (hh : h ∈ dirIds gh.dirs) (hf : ¬ isFixedRoot fs.vol h) {pre : List Nat} {p c : Nat}
    (hcs : chainOf gh.G (dirHead fs.vol h) = pre ++ [p]) (ha : allocCluster (some p) true fs = (.ok c, fs2)) :
    NoFault fs2 ∧ Coherent fs2 ∧ SameGeom fs.vol fs2.vol ∧
    ∃ G1, MedX fs2.vol fs2.dev.disk files { vol := fs2.vol, G := G1, dirs := gh.dirs } X ∧
      chainOf G1 (dirHead fs.vol h) = pre ++ [p] ++ [c] ∧
      dirSlots fs2.vol fs2.dev.disk G1 h =
        dirSlots fs.vol fs.dev.disk gh.G h ++ runSlots fs2.dev.disk (clusterToBlock fs.vol c) fs.vol.blocksPerCluster ∧
      (∀ j, j < fs.vol.blocksPerCluster → fs2.dev.disk.get (clusterToBlock fs.vol c + j) = zeroBlock) ∧
      (∀ x, x ∈ dirIds gh.dirs → x ≠ h → dirSlots fs2.vol fs2.dev.disk G1 x = dirSlots fs.vol fs.dev.disk gh.G x) ∧
      (∀ c' j, 2 ≤ c' → c' < endCluster fs.vol → c' ≠ c → j < fs.vol.blocksPerCluster →
        fs2.dev.disk.get (clusterToBlock fs.vol c' + j) = fs.dev.disk.get (clusterToBlock fs.vol c' + j)) ∧
      InRange fs.vol c ∧ (∀ cs, cs ∈ gh.G ++ X → c ∉ cs) ∧ heads G1 = heads gh.G ∧
      (∀ x, x ≠ dirHead fs.vol h → chainOf G1 x = chainOf gh.G x) :=
  Lemmas.VolEng.grow_med hM hn hc hh hf hcs ha

/-- **A file entry is created.** -/
theorem engine_create_file {fs : FS} (hM : MedX fs.vol fs.dev.disk files gh X) (hn : NoFault fs) (hc : Coherent fs) {dc : Nat}
    (hv : ValidDir gh.dirs dc) (name : Bytes) (hlen : name.length = 11) (h0 : byteAt name 0 ≠ 0) (hE5 : byteAt name 0 ≠ 0xE5)
    (hfresh : name ∉ (entries (dirSlots fs.vol fs.dev.disk gh.G (dirIdOf dc))).map sName) (now : Timestamp) :
    ∃ r fs', writeNewDirectoryEntry dc name 0 0 now fs = (r, fs') ∧ NoFault fs' ∧ Coherent fs' ∧
      ((r = .err .NotEnoughSpace ∧ fs'.dev.disk = fs.dev.disk ∧ fs'.vol = fs.vol) ∨
       (∃ e gh', r = .ok e ∧ gh'.vol = fs'.vol ∧ gh'.dirs = gh.dirs ∧ SameGeom fs.vol fs'.vol ∧
          MedX fs'.vol fs'.dev.disk files gh' X ∧
          e = DirEntry.new name 0 0 now e.entryBlock e.entryOffset ∧
          ∃ o, o ∈ objects (dirIdOf dc) (dirSlots fs'.vol fs'.dev.disk gh'.G (dirIdOf dc)) ∧
            spos o = (e.entryBlock, e.entryOffset) ∧ isDirE o = false ∧ sName o = name ∧ sAttr o = 0 ∧
            sCluster fs'.vol.fatType o = 0 ∧ sSize o = 0 ∧ pendOf files o = none)) :=
  Lemmas.VolEng.create_file_med hM hn hc hv name hlen h0 hE5 hfresh now

/-- **A closed file is truncated.**  `o` is a file object of directory `h` that no open file sits at; `e` is
its entry with size 0 (any time stamps). -/
theorem engine_truncate {fs : FS} (hM : MedX fs.vol fs.dev.disk files gh []) (hn : NoFault fs) (hc : Coherent fs) {h : Nat}
    (hh : h ∈ dirIds gh.dirs) {o : Slot} (ho : o ∈ objects h (dirSlots fs.vol fs.dev.disk gh.G h)) (hod : isDirE o = false)
    (hfree : pendOf files o = none) (e : DirEntry) (hblk : e.entryBlock = o.1) (hoff : e.entryOffset = o.2.1)
    (hnm : e.name = sName o) (hat : e.attributes = sAttr o) (hcl : e.cluster = sCluster fs.vol.fatType o) (hsz : e.size = 0) :
    ∃ fs1 fs2, truncateClusterChain e.cluster fs = (.ok (), fs1) ∧ writeEntryToDisk e fs1 = (.ok (), fs2) ∧ NoFault fs2 ∧
      Coherent fs2 ∧ SameGeom fs.vol fs2.vol ∧
      ∃ gh', gh'.vol = fs2.vol ∧ gh'.dirs = gh.dirs ∧ MedX fs2.vol fs2.dev.disk files gh' [] ∧
        ∃ o', o' ∈ objects h (dirSlots fs2.vol fs2.dev.disk gh'.G h) ∧ spos o' = spos o ∧ isDirE o' = false ∧
          sName o' = sName o ∧ sAttr o' = sAttr o ∧ sCluster fs2.vol.fatType o' = sCluster fs.vol.fatType o ∧ sSize o' = 0 ∧
          pendOf files o' = none :=
  Lemmas.VolEng.truncate_med hM hn hc hh ho hod hfree e hblk hoff hnm hat hcl hsz

/-- **A file entry is deleted and its chain given back**: `delete_directory_entry` followed by
`free_cluster_chain` of the entry's start cluster, for a file object `o` of the directory with the given name
that no open file sits at.  Both succeed and the invariant holds again. -/
theorem engine_delete {fs : FS} {files : List FileInfo} {gh : Ghost} (hM : MedX fs.vol fs.dev.disk files gh [])
    (hn : NoFault fs) (hc : Coherent fs) {dc : Nat} (hv : ValidDir gh.dirs dc)
    (name : Bytes) (hname : name.head? ≠ some 0xE5) {o : Slot}
    (ho : o ∈ objects (dirIdOf dc) (dirSlots fs.vol fs.dev.disk gh.G (dirIdOf dc)))
    (hod : isDirE o = false) (hsn : sName o = name) (hfree : pendOf files o = none) :
    ∃ fs', (do Fat.deleteDirectoryEntry dc name; Fat.freeClusterChain (sCluster fs.vol.fatType o) : F Unit) fs = (.ok (), fs') ∧
      NoFault fs' ∧ Coherent fs' ∧ SameGeom fs.vol fs'.vol ∧
      ∃ gh', gh'.vol = fs'.vol ∧ gh'.dirs = gh.dirs ∧ MedX fs'.vol fs'.dev.disk files gh' [] :=
  Lemmas.VolEng.delete_med hM hn hc hv name hname ho hod hsn hfree

/-- **`make_dir(parent, name, DIRECTORY)`** on a directory of a sound volume, for a name the directory
does not hold: whatever the outcome, the invariant holds afterwards (for a new ghost), and every
directory handle stays valid. -/
theorem engine_make_dir {gh : Ghost} {fs : FS} (hM : MedX fs.vol fs.dev.disk files gh []) (hn : NoFault fs) (hc : Coherent fs)
    {dc : Nat} (hv : ValidDir gh.dirs dc) (sfn : Bytes) (hlen : sfn.length = 11) (h0 : byteAt sfn 0 ≠ 0)
    (hE5 : byteAt sfn 0 ≠ 0xE5)
    (hfresh : sfn ∉ (entries (dirSlots fs.vol fs.dev.disk gh.G (dirIdOf dc))).map sName) (now : Timestamp) :
    ∃ r fs', makeDir dc sfn Gen.ATTR_DIRECTORY now fs = (r, fs') ∧ NoFault fs' ∧ Coherent fs' ∧ SameGeom fs.vol fs'.vol ∧
      ∃ gh', gh'.vol = fs'.vol ∧ MedX fs'.vol fs'.dev.disk files gh' [] ∧
        (∀ c, ValidDir gh.dirs c → ValidDir gh'.dirs c) :=
  Lemmas.VolEng.makeDir_med hM hn hc hv sfn hlen h0 hE5 hfresh now

theorem engine_write_new_entry {fs : FS} (hM : MedX fs.vol fs.dev.disk files gh X) (hn : NoFault fs) (hc : Coherent fs) {dc : Nat}
    (hv : ValidDir gh.dirs dc) (name : Bytes) (att fc : Nat) (now : Timestamp) :
    ∃ r fs', writeNewDirectoryEntry dc name att fc now fs = (r, fs') ∧ NoFault fs' ∧ Coherent fs' ∧
      ((r = .err .NotEnoughSpace ∧ fs'.dev.disk = fs.dev.disk ∧ fs'.vol = fs.vol) ∨
       (∃ v1 d1 G1 pre post old, Staged fs fs' files gh X (dirIdOf dc) (fun _ => True) r v1 d1 G1 pre post old ∧
          r = .ok (DirEntry.new name att fc now old.1 old.2.1) ∧
          fs'.dev.disk = d1.set old.1 (splice (d1.get old.1) old.2.1
            (DirEntry.serialize v1.fatType (DirEntry.new name att fc now old.1 old.2.1))))) :=
  Lemmas.VolEng.writeNew_stage hM hn hc hv name att fc now

end

/-! ### Layer 3: every API call

Every theorem also says that the volume record of the new ghost differs from the old one at most in its
bookkeeping fields (`SameGeom`). -/

/-- **Every API call covered by `Covered` preserves the invariant**, whatever it returns (all calls but `openVolume`
while no volume is open; see `api_step_invariant_all` for all of them). -/
theorem api_step_invariant (s : Mgr) (op : Op) (gh : Ghost) (hI : VolInv s gh) (hc : Covered s op) :
    ∃ gh', VolInv (step s op).1 gh' ∧ SameGeom gh.vol gh'.vol := by
  cases op with
  | openVolume idx => exact Lemmas.VolApi.step_openVolume_api_open hI hc idx
  | closeVolume v => exact Lemmas.VolApi.step_closeVolume_api hI v
  | openRoot v => exact Lemmas.VolApi.step_openRoot_api hI v
  | openDir d name => exact Lemmas.VolApi.step_openDir_api hI d name hc
  | closeDir d => exact Lemmas.VolApi.step_closeDir_api hI d
  | openFile d name mode => exact Lemmas.VolApi.step_openFile_api hI d name mode hc
  | read f n => exact Lemmas.VolApi.step_read_api hI f n
  | write f data => exact Lemmas.VolApi.write_step_api hI f data
  | seekStart f n => exact Lemmas.VolApi.step_seekStart_api hI f n
  | seekCur f n => exact Lemmas.VolApi.step_seekCur_api hI f n
  | seekEnd f n => exact Lemmas.VolApi.step_seekEnd_api hI f n
  | flush f => exact Lemmas.VolApi.step_flush_api hI f
  | closeFile f => exact Lemmas.VolApi.step_closeFile_api hI f
  | delete d name => exact Lemmas.VolApi.step_delete_api hI d name hc
  | mkdir d name => exact Lemmas.VolApi.step_mkdir_api hI d name hc
  | find d name => exact Lemmas.VolApi.step_find_api hI d name
  | list d => exact Lemmas.VolApi.step_list_api hI d
  | listLfn d n => exact Lemmas.VolApi.step_listLfn_api hI d n
  | length f => exact Lemmas.VolApi.step_length_api hI f
  | offset f => exact Lemmas.VolApi.step_offset_api hI f
  | eof f => exact Lemmas.VolApi.step_eof_api hI f
  | hasOpen => exact Lemmas.VolApi.step_hasOpen_api hI
  | label v => exact Lemmas.VolApi.step_label_api hI v

/-- With a volume open (the case of all histories that never close it), `open_volume` is refused and changes
nothing. -/
theorem open_volume_refused (s : Mgr) (gh : Ghost) (hI : VolInv s gh) (hv : s.vols ≠ []) (idx : Nat) :
    openRawVolume idx s = (.err .TooManyOpenVolumes, s) :=
  Lemmas.VolApi.openVolume_api_open hI hv idx

/-- `open_volume` while NO volume is open (after `close_volume`): nothing is written; if a volume is mounted the
invariant holds for it provided its record has the geometry of the volume the invariant is about. -/
theorem open_volume_remount (s : Mgr) (gh : Ghost) (hI : VolInv s gh) (hv : s.vols = []) (idx : Nat)
    (hsame : ∀ h s', openRawVolume idx (Lemmas.MHoare.resetLogs s) = (.ok h, s') → ∀ vi, vi ∈ s'.vols → SameGeom gh.vol vi.vol) :
    ∃ gh', VolInv (step s (.openVolume idx)).1 gh' ∧ SameGeom gh.vol gh'.vol :=
  Lemmas.VolApi.step_openVolume_api_closed hI hv idx hsame

/-- **Every API call — all 24 constructors of `Op` — preserves the invariant**, whatever it returns, and keeps the
geometry of the reference record `v0`. -/
theorem api_step_invariant_all (v0 : FatVolume) (s : Mgr) (op : Op) (gh : Ghost) (hI : VolInv s gh) (h0 : SameGeom v0 gh.vol)
    (hc : CoveredAll v0 s op) : ∃ gh', VolInv (step s op).1 gh' ∧ SameGeom v0 gh'.vol := by
  have key : ∃ gh', VolInv (step s op).1 gh' ∧ SameGeom gh.vol gh'.vol := by
    cases op with
    | openVolume idx =>
      by_cases hv : s.vols = []
      · refine open_volume_remount s gh hI hv idx fun h s' hr vi hvi => ?_
        rcases hc with hc | hc
        · exact absurd hv hc
        · exact h0.symm.trans (hc h s' hr vi hvi)
      · exact api_step_invariant s _ gh hI hv
    | _ => exact api_step_invariant s _ gh hI hc
  obtain ⟨gh', hI', hsg⟩ := key
  exact ⟨gh', hI', h0.trans hsg⟩

/-- **Histories** — of ANY calls.  The only hypotheses (`CoveredAllRun`): names whose short form starts with 0xE5 are
excluded in `openDir` / `openFile` / `delete` / `mkdir`, and an `openVolume` issued while no volume is open mounts —
if it mounts anything — a record with the geometry of `v0`. -/
theorem api_history_invariant (v0 : FatVolume) (ops : List Op) (s : Mgr) (gh : Ghost) (hI : VolInv s gh) (h0 : SameGeom v0 gh.vol)
    (hc : CoveredAllRun v0 s ops) : ∃ gh', VolInv (run s ops).1 gh' ∧ SameGeom v0 gh'.vol := by
  induction ops generalizing s gh with
  | nil => exact ⟨gh, hI, h0⟩
  | cons op ops ih =>
    obtain ⟨gh1, h1, g1⟩ := api_step_invariant_all v0 s op gh hI h0 hc.1
    obtain ⟨gh2, h2, g2⟩ := ih (step s op).1 gh1 h1 g1 hc.2
    exact ⟨gh2, by unfold run; exact h2, g2⟩

/-- … after EVERY call of the history, not only at its end. -/
theorem api_history_invariant_prefix (v0 : FatVolume) (ops : List Op) (s : Mgr) (gh : Ghost) (hI : VolInv s gh)
    (h0 : SameGeom v0 gh.vol) (hc : CoveredAllRun v0 s ops) (k : Nat) :
    ∃ gh', VolInv (run s (ops.take k)).1 gh' ∧ SameGeom v0 gh'.vol :=
  api_history_invariant v0 (ops.take k) s gh hI h0 (coveredAllRun_take v0 hc k)

/-- **Histories without `openVolume` while no volume is open** (corollary of `api_history_invariant` for
`v0 := gh.vol`).  Excluded — exactly: that case, and names whose short form starts with 0xE5 in `openDir` /
`openFile` / `delete` / `mkdir` (see `Covered`). -/
theorem api_history_invariant_partial (ops : List Op) (s : Mgr) (gh : Ghost) (hI : VolInv s gh) (hc : CoveredRun s ops) :
    ∃ gh', VolInv (run s ops).1 gh' ∧ SameGeom gh.vol gh'.vol :=
  api_history_invariant gh.vol ops s gh hI (SameGeom.refl _) (coveredAllRun_of_coveredRun gh.vol hc)

/-- … after EVERY call of the history, not only at its end. -/
theorem api_history_every_prefix (ops : List Op) (s : Mgr) (gh : Ghost) (hI : VolInv s gh) (hc : CoveredRun s ops) (k : Nat) :
    ∃ gh', VolInv (run s (ops.take k)).1 gh' ∧ SameGeom gh.vol gh'.vol :=
  api_history_invariant_prefix gh.vol ops s gh hI (SameGeom.refl _) (coveredAllRun_of_coveredRun gh.vol hc) k

/-! ### What the invariant says (layer 4), one theorem per clause of the property -/

section
variable {s : Mgr} {gh : Ghost}

/-- "every file and directory chain starts in range, is acyclic, ends in an end-of-chain mark, never passes
through a free, reserved or bad entry" -/
theorem chains_sound (hI : VolInv s gh) {cs : List Nat} (hcs : cs ∈ gh.G) :
    cs ≠ [] ∧ cs.Nodup ∧
    (∀ c, c ∈ cs → InRange gh.vol c ∧ ¬ isFree gh.vol s.dev.disk c ∧ ¬ isBad gh.vol s.dev.disk c) ∧
    (∀ k x y, cs[k]? = some x → cs[k + 1]? = some y → nextOf gh.vol s.dev.disk x = .ok y) ∧
    (∀ k x, cs[k]? = some x → k + 1 = cs.length → nextOf gh.vol s.dev.disk x = .err .EndOfFile) :=
  Lemmas.VolCor.chains_sound hI hcs

/-- … and these are the chains of the tree: the FAT32 root, every sub-directory, every file entry with a cluster
(the open file's record taking precedence) designate the first cluster of a chain of `gh.G`. -/
theorem references_sound (hI : VolInv s gh) :
    (∀ c, c ∈ rootHead gh.vol → chainOf gh.G c ∈ gh.G ∧ (chainOf gh.G c).head? = some c) ∧
    (∀ h p, (h, p) ∈ gh.dirs → chainOf gh.G h ∈ gh.G ∧ (chainOf gh.G h).head? = some h) ∧
    (∀ h, h ∈ dirIds gh.dirs → ∀ o, o ∈ objects h (dirSlots gh.vol s.dev.disk gh.G h) → isDirE o = false →
      effCluster gh.vol.fatType s.files o ≠ 0 →
      chainOf gh.G (effCluster gh.vol.fatType s.files o) ∈ gh.G ∧
      (chainOf gh.G (effCluster gh.vol.fatType s.files o)).head? = some (effCluster gh.vol.fatType s.files o)) :=
  Lemmas.VolCor.references_sound hI

/-- "shares no cluster with any other chain": a cluster occurs in at most one chain, at one position; and no two
references (FAT32 root, sub-directory entries, file entries) name the same chain. -/
theorem no_sharing (hI : VolInv s gh) :
    (∀ (i j a b : Nat) (cs cs' : List Nat) (c : Nat), gh.G[i]? = some cs → gh.G[j]? = some cs' → cs[a]? = some c →
      cs'[b]? = some c → i = j ∧ a = b) ∧
    (rootHead gh.vol ++ gh.dirs.map Prod.fst ++
      (dirIds gh.dirs).flatMap fun h => fileRefs gh.vol.fatType s.files (objects h (dirSlots gh.vol s.dev.disk gh.G h))).Nodup :=
  Lemmas.VolCor.no_sharing hI

/-- "is long enough for the recorded size" -/
theorem sizes_fit (hI : VolInv s gh) {h : Nat} (hh : h ∈ dirIds gh.dirs) {o : Slot}
    (ho : o ∈ objects h (dirSlots gh.vol s.dev.disk gh.G h)) (hd : isDirE o = false) :
    (effCluster gh.vol.fatType s.files o = 0 ∧ effSize s.files o = 0) ∨
    (effCluster gh.vol.fatType s.files o ≠ 0 ∧
      effSize s.files o ≤ (chainOf gh.G (effCluster gh.vol.fatType s.files o)).length * bytesPerCluster gh.vol) :=
  Lemmas.VolCor.sizes_fit hI hh ho hd

/-- "every directory has unique names" -/
theorem names_unique (hI : VolInv s gh) {h : Nat} (hh : h ∈ dirIds gh.dirs) :
    ((entries (dirSlots gh.vol s.dev.disk gh.G h)).map sName).Nodup ∧
    ((objects h (dirSlots gh.vol s.dev.disk gh.G h)).map sName).Nodup :=
  Lemmas.VolCor.names_unique hI hh

/-- "sub-directories have correct dot and dot-dot entries" (and their parent is a directory of the tree) -/
theorem dot_entries (hI : VolInv s gh) {h p : Nat} (hp : (h, p) ∈ gh.dirs) :
    (∃ s0 s1 rest, dirSlots gh.vol s.dev.disk gh.G h = s0 :: s1 :: rest ∧ IsDot gh.vol.fatType Sfn.thisDir h s0 ∧
      IsDot gh.vol.fatType Sfn.parentDir p s1) ∧ p ∈ dirIds gh.dirs :=
  Lemmas.VolCor.dot_entries hI hp

/-- "no entry follows the end-of-directory marker" -/
theorem clean_tail (hI : VolInv s gh) {h : Nat} (hh : h ∈ dirIds gh.dirs) : CleanTail (dirSlots gh.vol s.dev.disk gh.G h) :=
  Lemmas.VolCor.clean_tail hI hh

/-- … which discharges the hypotheses `CleanTail` / `DirChain` of C06's lookup-equals-listing theorems
(`Props.C06.find_chain_iff_listed`, `find_blocks_iff_listed`, `find_chain_spec`, `iterate_chain_spec`; the
definitions of `Lemmas.Listing` are those of `Props.C06`) for every directory of the tree. -/
theorem clean_tail_c06 (hI : VolInv s gh) {h : Nat} (hh : h ∈ dirIds gh.dirs) :
    (Lemmas.VolMed.isFixedRoot gh.vol h →
      Lemmas.Listing.CleanTail (Lemmas.Listing.dirSlots s.dev.disk (gh.vol.lbaStart + gh.vol.firstRootDirBlock)
        (blockCountFromBytes (gh.vol.rootEntriesCount * 32)))) ∧
    (¬ Lemmas.VolMed.isFixedRoot gh.vol h →
      Lemmas.Listing.CleanTail (Lemmas.Listing.chainSlots gh.vol s.dev.disk (chainOf gh.G (Lemmas.VolMed.dirHead gh.vol h))) ∧
      Lemmas.Listing.DirChain gh.vol s.dev.disk (chainOf gh.G (Lemmas.VolMed.dirHead gh.vol h))) :=
  Lemmas.VolCor.clean_tail_c06 hI hh

/-- C05: "when no file is open, the set of clusters marked in use equals exactly the union of the chains of the
live files and directories". -/
theorem no_leak_when_quiescent (hI : VolInv s gh) (hq : s.files = []) :
    (∀ c, isUsed gh.vol s.dev.disk c ↔ ∃ cs, cs ∈ gh.G ∧ c ∈ cs) ∧
    List.Perm
      (rootHead gh.vol ++ gh.dirs.map Prod.fst ++
        (dirIds gh.dirs).flatMap fun h =>
          (((objects h (dirSlots gh.vol s.dev.disk gh.G h)).filter fun o => !isDirE o).map (sCluster gh.vol.fatType)).filter
            fun c => decide (c ≠ 0))
      (gh.G.map fun cs => cs.headD 0) :=
  Lemmas.VolCor.no_leak_when_quiescent hI hq

/-- "together with the pending state of still-open files" -/
theorem open_files_sound (hI : VolInv s gh) :
    (∀ f, f ∈ s.files → FileOK gh.vol s.dev.disk f (chainOf gh.G f.entry.cluster) ∧
      ∃ h, h ∈ dirIds gh.dirs ∧ ∃ o, o ∈ objects h (dirSlots gh.vol s.dev.disk gh.G h) ∧ o.1 = f.entry.entryBlock ∧
        o.2.1 = f.entry.entryOffset ∧ isDirE o = false ∧ sName o = f.entry.name) ∧
    (s.files.map fun f => (f.entry.entryBlock, f.entry.entryOffset)).Nodup :=
  Lemmas.VolCor.open_files_sound hI

end

/-! ### C06: lookup equals listing in every directory of the tree -/

/-- C06's "lookup finds exactly the first listed entry with that name" (`Props.C06.find_chain_iff_listed`, whose
hypothesis `CleanTail` was left open there) holds for every chained directory of the tree … -/
theorem lookup_equals_listing_chain {s : Mgr} {gh : Ghost} (hI : VolInv s gh) {h : Nat} (hh : h ∈ dirIds gh.dirs)
    (hf : ¬ Lemmas.VolMed.isFixedRoot gh.vol h) (name : Bytes) (hname : name.head? ≠ some 0xE5) :
    Props.C06.lookupChain gh.vol s.dev.disk name (chainOf gh.G (Lemmas.VolMed.dirHead gh.vol h)) =
      (Props.C06.listing gh.vol.fatType
        (Props.C06.chainSlots gh.vol s.dev.disk (chainOf gh.G (Lemmas.VolMed.dirHead gh.vol h)))).find?
        (fun e => decide (e.name = name)) :=
  Props.C06.find_chain_iff_listed gh.vol s.dev.disk name _ hname ((clean_tail_c06 hI hh).2 hf).1

/-- … and for the FAT16 root region (`Props.C06.find_blocks_iff_listed`). -/
theorem lookup_equals_listing_root {s : Mgr} {gh : Ghost} (hI : VolInv s gh) (hf : Lemmas.VolMed.isFixedRoot gh.vol 0)
    (name : Bytes) (hname : name.head? ≠ some 0xE5) :
    Props.C06.lookupBlocks gh.vol.fatType s.dev.disk name (gh.vol.lbaStart + gh.vol.firstRootDirBlock)
        (blockCountFromBytes (gh.vol.rootEntriesCount * 32)) =
      (Props.C06.listing gh.vol.fatType (Props.C06.dirSlots s.dev.disk (gh.vol.lbaStart + gh.vol.firstRootDirBlock)
        (blockCountFromBytes (gh.vol.rootEntriesCount * 32)))).find? (fun e => decide (e.name = name)) :=
  Props.C06.find_blocks_iff_listed gh.vol.fatType s.dev.disk name _ _ hname
    ((clean_tail_c06 hI (Lemmas.VolTree.zero_mem_dirIds _)).1 hf)

/-! ### The independent structure checker agrees -/

/-- **`fsck` finds nothing.**  `g` is the checker's geometry of the volume record (`GeomOf`: the same numbers, block
numbers absolute), `pendingOf s` the pending (cluster, size) of the open files at their slots.  (H1) `NoOne`: no FAT32
entry of a data cluster is `1` (the crate reads `1` as end of chain, the checker as reserved; the crate never writes
it); (H2) `DepthOK`: no directory deeper than 63 levels (the checker's nesting fuel).  Neither can be dropped:
`Example.fsck_needs_H1`, `Lemmas.VolFsck.h2_needed` (module `VolFsck10`). -/
theorem fsck_ok (s : Mgr) (gh : Ghost) (hI : VolInv s gh) (g : Spec.Fs.Geom) (hg : GeomOf gh.vol g)
    (h1 : NoOne gh.vol s.dev.disk) (h2 : DepthOK gh.dirs) :
    (Spec.Fs.fsck g s.dev.disk (pendingOf s) true).problems = [] :=
  Lemmas.VolFsck.fsck_ok s gh hI g hg h1 h2

/-- (H2) holds whenever the volume has at most 63 sub-directories; (H1) and (H2) have decidable forms
(`Lemmas.VolFsck.noOneB_sound`, `depthOKB_sound`). -/
theorem depth_ok_of_few_dirs {s : Mgr} {gh : Ghost} (hI : VolInv s gh) (hl : gh.dirs.length ≤ 63) :
    DepthOK gh.dirs :=
  Lemmas.VolFsck.depthOK_of_length hI hl

/-! ### The executable counterpart -/

/-- The invariant can be CHECKED by evaluation: a decidable test implying it. -/
theorem check_sound (s : Mgr) (gh : Ghost) (h : Lemmas.VolCheck.checkVolInv s gh = true) : VolInv s gh :=
  Lemmas.VolCheck.checkVolInv_sound s gh h

/-! ### Non-vacuity (tests, evaluated by the kernel) -/

namespace Example
open Sdmmc.Lemmas.VolExample

/-- A hand-built FAT16 medium: root with a label, a long-name fragment, `A.TXT` (chain 2 → 3, 700 bytes), a deleted
slot and the sub-directory `SUB` (cluster 4: `.`, `..`, `B.BIN`, the empty `E.DAT`); `E.DAT` is OPEN with pending
cluster 6 / size 5 while its entry on the medium still says cluster 0 / size 0.  The invariant holds. -/
theorem fat16_open_file : VolInv mgr0 gh0 := mgr0_inv
/-- The same medium at a quiescent point. -/
theorem fat16_quiescent : VolInv mgr1 gh1 := mgr1_inv
/-- A FAT32 medium (root = chain of cluster 2, info sector, two FAT copies, a sub-directory, two files). -/
theorem fat32_volume : VolInv mgr32 gh32 := mgr32_inv

/-- Negative examples: for EVERY ghost the invariant fails on a medium with a cross-linked cluster, with a live
entry behind the end marker, with duplicate names, with a wrong `..`. -/
theorem rejects_cross_link (gh : Ghost) : ¬ VolInv (mgrWith rootCross sub16Blk) gh := crossLinked gh
theorem rejects_entry_after_end (gh : Ghost) : ¬ VolInv (mgrWith rootTail sub16Blk) gh := liveAfterEnd gh
theorem rejects_duplicate_names (gh : Ghost) : ¬ VolInv (mgrWith rootDup sub16Blk) gh := duplicateNames gh
theorem rejects_wrong_dotdot (gh : Ghost) : ¬ VolInv (mgrWith root16Blk subWrongDotDot) gh := wrongDotDot gh

/-- A history on the quiescent medium: create `N.TXT` in the root, write 600 bytes (two clusters), flush, make the
directory `D` in `SUB`, delete `A.TXT`, close.  Handles 2 and 3 are the open root / `SUB` directories of `mgr1`; new
handles start at 10. -/
def ops : List Op :=
  [.openFile 2 [78, 46, 84, 88, 84] .ReadWriteCreate, .write 10 (List.replicate 600 7), .flush 10,
   .mkdir 3 [68], .delete 2 [65, 46, 84, 88, 84], .closeFile 10]

/-- A name is covered when its (evaluated) short form does not start with 0xE5. -/
theorem nameOK_of_eval {name : List Nat} {sfn0 : Bytes} (h : Sfn.createFromStr name = .ok sfn0)
    (h5 : sfn0.head? ≠ some 0xE5) : NameOK name := by
  intro sfn hs
  rw [h] at hs
  injection hs with hs
  rw [← hs]; exact h5

theorem ops_covered : CoveredRun mgr1 ops := by
  refine ⟨?_, trivial, trivial, ?_, ?_, trivial, trivial⟩
  · exact nameOK_of_eval (sfn0 := [78, 32, 32, 32, 32, 32, 32, 32, 84, 88, 84]) (by decide +kernel) (by decide)
  · exact nameOK_of_eval (sfn0 := [68, 32, 32, 32, 32, 32, 32, 32, 32, 32, 32]) (by decide +kernel) (by decide)
  · exact nameOK_of_eval (sfn0 := [65, 32, 32, 32, 32, 32, 32, 32, 84, 88, 84]) (by decide +kernel) (by decide)

/-- The history theorem applies: the invariant holds after every call … -/
theorem ops_invariant (k : Nat) : ∃ gh', VolInv (run mgr1 (ops.take k)).1 gh' ∧ SameGeom gh1.vol gh'.vol :=
  api_history_every_prefix ops mgr1 gh1 mgr1_inv ops_covered k

/-- … and so does the full history theorem, with the volume record `vol16` of the example as reference. -/
theorem ops_covered_all : CoveredAllRun vol16 mgr1 ops := coveredAllRun_of_coveredRun vol16 ops_covered

theorem ops_invariant_all : ∃ gh', VolInv (run mgr1 ops).1 gh' ∧ SameGeom vol16 gh'.vol :=
  api_history_invariant vol16 ops mgr1 gh1 mgr1_inv (SameGeom.refl vol16) ops_covered_all

/-- … and the calls really did something: all six answered `Ok`. -/
theorem ops_results : (run mgr1 ops).2.map (fun o => match o.result with | .ok _ => true | _ => false) =
    [true, true, true, true, true, true] := by decide +kernel

/-- A history that closes the volume and then issues `open_volume` while NO volume is open — the case only the
full theorem covers.  (The hand-built medium has no partition table, so here the call mounts nothing and the
hypothesis about the mounted record holds because there is none; it is discharged by evaluation.) -/
def ops2 : List Op := [.closeDir 2, .closeDir 3, .closeVolume 1, .openVolume 0]

theorem ops2_closed : (run mgr1 (ops2.take 3)).1.vols = [] := by decide +kernel

theorem ops2_covered : CoveredAllRun vol16 mgr1 ops2 := by
  refine ⟨trivial, trivial, trivial, .inr fun h s' hr => ?_, trivial⟩
  have hev : (match (openRawVolume 0 (Lemmas.MHoare.resetLogs (run mgr1 (ops2.take 3)).1)).1 with
      | .ok _ => false | _ => true) = true := by decide +kernel
  have hst : (step (step (step mgr1 (.closeDir 2)).1 (.closeDir 3)).1 (.closeVolume 1)).1 = (run mgr1 (ops2.take 3)).1 := rfl
  rw [hst] at hr
  rw [hr] at hev
  cases hev

theorem ops2_invariant : ∃ gh', VolInv (run mgr1 ops2).1 gh' ∧ SameGeom vol16 gh'.vol :=
  api_history_invariant vol16 ops2 mgr1 gh1 mgr1_inv (SameGeom.refl vol16) ops2_covered

/-- `fsck_ok` applied: the independent checker finds nothing on the three example media. -/
theorem fsck_examples :
    (Spec.Fs.fsck (geomOfVol vol16) mgr0.dev.disk (pendingOf mgr0) true).problems = [] ∧
    (Spec.Fs.fsck (geomOfVol vol16) mgr1.dev.disk (pendingOf mgr1) true).problems = [] ∧
    (Spec.Fs.fsck (geomOfVol vol32) mgr32.dev.disk (pendingOf mgr32) true).problems = [] :=
  ⟨Lemmas.VolFsck.fsck_mgr0, Lemmas.VolFsck.fsck_mgr1, Lemmas.VolFsck.fsck_mgr32⟩

/-- (H1) cannot be dropped: the FAT32 medium with the last cluster of `F.TXT` carrying the FAT entry `1` satisfies the
invariant (the crate reads `1` as end of chain), and the checker complains. -/
theorem fsck_needs_H1 : VolInv Lemmas.VolFsck.mgr32One gh32 ∧ ¬ NoOne gh32.vol Lemmas.VolFsck.mgr32One.dev.disk ∧
    (Spec.Fs.fsck (geomOfVol vol32) Lemmas.VolFsck.mgr32One.dev.disk
      (pendingOf Lemmas.VolFsck.mgr32One) true).problems ≠ [] := by
  refine ⟨Lemmas.VolFsck.mgr32One_inv, Lemmas.VolFsck.h1_fails, ?_⟩
  have := Lemmas.VolFsck.h1_needed
  intro h
  rw [h] at this
  revert this
  simp

end Example

end Sdmmc.Props.C03Inv
