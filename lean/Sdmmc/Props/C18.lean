/-
C18 — Directory-entry, timestamp and 8.3-name codecs round-trip and match the FAT layout.

Property theorems only; helper lemmas live in `Sdmmc.Lemmas.C18` (and `Sdmmc.Lemmas.NameE5` for the
0x05 substitution: a name whose first stored byte would be 0xE5 — the deleted-entry marker — is stored
with 0x05 there, and 0x05 there prints as 0xE5).
Model: `Sdmmc.Model.Timestamp`, `Sdmmc.Model.DirEntry`, `Sdmmc.Model.OnDisk`, `Sdmmc.Model.Sfn`.
Spec: `Sdmmc.Spec.Name83`, the FAT field positions stated here.
-/
import Sdmmc.Lemmas.C18
import Sdmmc.Lemmas.NameE5

namespace Sdmmc.Props.C18
open Sdmmc.Model

/-- Every representable FAT date/time word pair (month and day fields non-zero: 1980–2107 at
two-second resolution, and also the out-of-calendar values such as month 15 or hour 31)
survives decode-then-encode unchanged. -/
theorem ts_decode_encode (date time : Nat) (hd : date < 65536) (ht : time < 65536)
    (hm : date / 32 % 16 ≠ 0) (hday : date % 32 ≠ 0) :
    (Timestamp.fromFat date time).fatTime = time ∧ (Timestamp.fromFat date time).fatDate = date :=
  Lemmas.C18.ts_decode_encode date time hd ht hm hday

/-- The two zero cases are tolerated on decode (volume labels) and come back as 1. -/
theorem ts_zero_fields (date time : Nat) (hd : date < 65536) (ht : time < 65536) :
    (Timestamp.fromFat date time).fatTime = time ∧
    (Timestamp.fromFat date time).fatDate =
      date + (if date / 32 % 16 = 0 then 32 else 0) + (if date % 32 = 0 then 1 else 0) :=
  Lemmas.C18.ts_zero_fields date time hd ht

/-- Decoded timestamps always have fields that fit their `u8`s (so encoding never panics). -/
theorem ts_fromFat_wf (date time : Nat) (hd : date < 65536) (ht : time < 65536) :
    (Timestamp.fromFat date time).WF :=
  Lemmas.C18.ts_fromFat_wf date time hd ht

/-- `from_calendar` accepts exactly the documented ranges. -/
theorem from_calendar_accepts_iff (y mo d h mi s : Nat) :
    (∃ t, Timestamp.fromCalendar y mo d h mi s = .ok t) ↔
      (1970 ≤ y ∧ y ≤ 2225 ∧ 1 ≤ mo ∧ mo ≤ 12 ∧ 1 ≤ d ∧ d ≤ 31 ∧ h ≤ 23 ∧ mi ≤ 59 ∧ s ≤ 59) :=
  Lemmas.C18.from_calendar_accepts_iff y mo d h mi s

/-- Calendar timestamps 1980-01-01 .. 2107-12-31 survive encode-then-decode up to the
two-second rounding, and the encoded words carry the calendar fields at the FAT positions. -/
theorem ts_encode_decode (y mo d h mi s : Nat) (t : Timestamp)
    (hy : 1980 ≤ y ∧ y ≤ 2107) (hok : Timestamp.fromCalendar y mo d h mi s = .ok t) :
    Timestamp.fromFat t.fatDate t.fatTime = { t with seconds := t.seconds / 2 * 2 } ∧
    t.fatDate = (y - 1980) * 512 + mo * 32 + d ∧ t.fatTime = h * 2048 + mi * 32 + s / 2 :=
  Lemmas.C18.ts_encode_decode y mo d h mi s t hy hok

/-- A timestamp is FAT-representable when it is the decoding of some date/time words with
non-zero month and day fields. -/
def FatTime (t : Timestamp) : Prop :=
  ∃ date time, date < 65536 ∧ time < 65536 ∧ date / 32 % 16 ≠ 0 ∧ date % 32 ≠ 0 ∧ t = Timestamp.fromFat date time

/-- The encoded bytes sit at the offsets the FAT specification assigns (Short Directory Entry
Structure): name 0, attributes 11, reserved 12, creation tenths 13, creation time 14, creation
date 16, last-access date 18, first-cluster high 20 (FAT32 only), write time 22, write date 24,
first-cluster low 26, size 28; little-endian. -/
theorem dirent_layout (ft : FatType) (e : DirEntry) (hname : e.name.length = 11)
    (hattr : e.attributes < 256) (hsize : e.size < 4294967296) (hcl : e.cluster < 4294967296)
    (hm : e.mtime.WF) (hc : e.ctime.WF) :
    let d := e.serialize ft
    d.length = 32 ∧ d.take 11 = e.name ∧ byteAt d 11 = e.attributes ∧ byteAt d 12 = 0 ∧ byteAt d 13 = 0 ∧
    readU16 d 14 = e.ctime.fatTime ∧ readU16 d 16 = e.ctime.fatDate ∧ readU16 d 18 = 0 ∧
    readU16 d 20 = (match ft with | .fat16 => 0 | .fat32 => e.cluster / 65536) ∧
    readU16 d 22 = e.mtime.fatTime ∧ readU16 d 24 = e.mtime.fatDate ∧
    readU16 d 26 = e.cluster % 65536 ∧ readU32 d 28 = e.size :=
  Lemmas.C18.dirent_layout ft e hname hattr hsize hcl hm hc

/-- The generated parse table (from the `define_field!` rows of the source) reads exactly those
positions. -/
theorem dirent_parse_table :
    Gen.dirent_raw_attr = [(11, 0, 8)] ∧ Gen.dirent_create_time = [(14, 0, 16)] ∧ Gen.dirent_create_date = [(16, 0, 16)] ∧
    Gen.dirent_first_cluster_hi = [(20, 0, 16)] ∧ Gen.dirent_write_time = [(22, 0, 16)] ∧ Gen.dirent_write_date = [(24, 0, 16)] ∧
    Gen.dirent_first_cluster_lo = [(26, 0, 16)] ∧ Gen.dirent_file_size = [(28, 0, 32)] := by
  decide

/-- Encoding a directory entry and decoding it again returns the same name, attributes, start
cluster, size and timestamps, for both FAT types (cluster ids up to 2^28-1 on FAT32, 2^16-1 on
FAT16), except for the documented reading "directory with cluster 0 = root directory". -/
theorem dirent_roundtrip (ft : FatType) (e : DirEntry) (hname : e.name.length = 11)
    (hattr : e.attributes < 256) (hsize : e.size < 4294967296)
    (hcl : match ft with | .fat16 => e.cluster < 65536 | .fat32 => e.cluster < 4294967296)
    (hm : FatTime e.mtime) (hc : FatTime e.ctime)
    (hroot : ¬ (e.cluster = 0 ∧ Attr.isDirectory e.attributes = true)) :
    OnDisk.getEntry ft (e.serialize ft) e.entryBlock e.entryOffset = e :=
  Lemmas.C18.dirent_roundtrip ft e hname hattr hsize hcl hm hc hroot

/-- Parsing a file name accepts exactly the valid 8.3 names over ISO-8859-1, upper-cases them,
pads with spaces, and stores 0x05 in the first byte iff the (upper-cased) first character is U+00E5
(`Spec.Name83.firstByte`). -/
theorem sfn_parse_iff (s : List Nat) (n : Bytes) :
    Sfn.createFromStr s = .ok n ↔ Spec.Name83.parse s = some n :=
  Lemmas.C18.sfn_parse_iff s n

/-- Printing a parsed name and parsing it again gives the same 11 bytes. -/
theorem sfn_display_parse (s : List Nat) (n : Bytes) (h : Sfn.createFromStr s = .ok n) :
    Sfn.createFromStr (Sfn.display n) = .ok n :=
  Lemmas.C18.sfn_display_parse s n h

/-- Printing a parsed name gives the canonical spelling of what was parsed: upper-cased, a period
only before a non-empty extension (`.` for the empty name) — the 0x05 of a stored `å…` prints as `å`. -/
theorem sfn_parse_display (s : List Nat) (n : Bytes) (h : Sfn.createFromStr s = .ok n) :
    Sfn.display n = Spec.Name83.canon s :=
  Lemmas.NameE5.display_canon h

/-- **For every name**: the stored first byte is never 0xE5, the deleted-entry marker. -/
theorem sfn_first_byte_never_e5 (s : List Nat) (n : Bytes) (h : Sfn.createFromStr s = .ok n) :
    n.head? ≠ some 0xE5 :=
  Lemmas.NameE5.createFromStr_first_byte h

/-- **The substitution rule, for every name**: the stored first byte is 0x05 iff the name begins with
U+00E5 (ASCII upper-casing leaves U+00E5 alone and maps nothing else to it). -/
theorem sfn_first_byte_05_iff (s : List Nat) (n : Bytes) (h : Sfn.createFromStr s = .ok n) :
    n.head? = some (UInt8.ofNat 0x05) ↔ s.head? = some 0xE5 :=
  Lemmas.NameE5.first_byte_05_iff h

/-- U+0005 is a control character: a name containing it anywhere (in particular at the start) is
refused — a stored 0x05 never stands for anything but U+00E5. -/
theorem sfn_u0005_rejected (pre rest : List Nat) (n : Bytes) :
    Sfn.createFromStr (pre ++ 0x05 :: rest) ≠ .ok n :=
  Lemmas.NameE5.u0005_rejected pre rest n

/-! Non-vacuity (tests, labelled as tests). -/
example : FatTime (Timestamp.fromFat 0x4A8F 0xBF7D) := ⟨0x4A8F, 0xBF7D, by decide, by decide, by decide, by decide, rfl⟩
example : Sfn.createFromStr [0x68, 0x69, 0x2E, 0x74, 0x78, 0x74] = .ok ([0x48, 0x49, 0x20, 0x20, 0x20, 0x20, 0x20, 0x20, 0x54, 0x58, 0x54].map UInt8.ofNat) := by decide
example : Spec.Name83.parse [0x41, 0x2E, 0x2E, 0x42] = none := by decide
example : Sfn.createFromStr [0x41, 0x2E, 0x2E, 0x42] = .error .MisplacedPeriod := by decide
/-- `åb.c` is stored as `05 42 … 43 …` and prints as `åB.C`; `Åb` (U+00C5) is stored as is; `bå` keeps 0xE5 in
the second byte; U+0005 is refused. -/
example : Sfn.createFromStr [0xE5, 0x62, 0x2E, 0x63] = .ok ([0x05, 0x42, 0x20, 0x20, 0x20, 0x20, 0x20, 0x20, 0x43, 0x20, 0x20].map UInt8.ofNat) := by decide
example : Sfn.display ([0x05, 0x42, 0x20, 0x20, 0x20, 0x20, 0x20, 0x20, 0x43, 0x20, 0x20].map UInt8.ofNat) = [0xE5, 0x42, 0x2E, 0x43] := by decide
example : Spec.Name83.canon [0xE5, 0x62, 0x2E, 0x63] = [0xE5, 0x42, 0x2E, 0x43] := by decide
example : Sfn.createFromStr [0xC5, 0x62] = .ok ([0xC5, 0x42, 0x20, 0x20, 0x20, 0x20, 0x20, 0x20, 0x20, 0x20, 0x20].map UInt8.ofNat) := by decide
example : Sfn.createFromStr [0x62, 0xE5] = .ok ([0x42, 0xE5, 0x20, 0x20, 0x20, 0x20, 0x20, 0x20, 0x20, 0x20, 0x20].map UInt8.ofNat) := by decide
example : Sfn.createFromStr [0x05, 0x62] = .error .InvalidCharacter := by decide
example : Spec.Name83.parse [0xE5] = some ([0x05, 0x20, 0x20, 0x20, 0x20, 0x20, 0x20, 0x20, 0x20, 0x20, 0x20].map UInt8.ofNat) := by decide

end Sdmmc.Props.C18
