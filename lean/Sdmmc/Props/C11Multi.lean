/-
C11 (device faults) with SEVERAL OPEN VOLUMES.

C11: "If any block-device read or write fails during an API call, that call returns an error - it never returns success,
a fabricated answer such as an empty or truncated listing, and never panics or hangs.  Afterwards every handle can still
be used and closed, a read-only call that failed on a transient fault gives the correct answer when retried, a failed
call never makes a directory hold two entries with the same name, and files not involved in the failed call are intact
on the medium."

`Props.C11Inv` / `Props.C11Main` prove the one-call clauses for a manager with ONE open volume.  The crate's
`VolumeManager` keeps several volumes open on ONE block device through ONE one-block cache; the fault schedule
`dev.faults` (`Model/Dev.lean`) and the cache are SHARED: a device call that fails during a call on one volume is a
failure of the device every other open volume lives on.  Here the one-call clauses are lifted to several open volumes, and
the question "what does a fault during a call on volume `i` do to volume `j`" is answered: NOTHING.

Property theorems only.  Vocabulary: `Sdmmc.Spec.VolumeN` (`VolInvN`, `MirrorN`, `proj`, `target`, `volFiles`, `volDirs`),
`Sdmmc.Spec.VolumeFault` (`clearFaults`, `VolInvF`), `Sdmmc.Spec.VolumeNFault` (`VolInvNF s ghs := VolInvN (clearFaults s)
ghs`: the multi-volume invariant up to the pending schedule; `SamePartition`), `Sdmmc.Spec.DataPlane` (`InPartition`),
`Props.C11Inv` (`DirsSound`: chains, clean tails, PAIRWISE DISTINCT NAMES, dot entries of every directory of the tree, on a
medium; `retryOp`, `prefixOp`, `ownChain`), `Props.C04Multi.workTarget` (the volume record a call works on, `close_volume`
included), `Lemmas.VolN.LabelFresh` (for `get_root_volume_label` only: the fresh handle is carried by no open directory —
finding of `Props.C03Multi`).  Proofs: `Sdmmc.Lemmas.VolNFault*`.

HYPOTHESES.  `VolInvNF s ghs`: `s` is ANY state satisfying the invariant of multi-volume histories up to its pending
schedule — e.g. any fault-free reachable state given ANY schedule (`Example.inv_under_schedule`); `MirrorN s ghs` (identical
FAT copies, as C04) where licences are used.  "Under any schedule, whatever device call fails" is: no hypothesis on
`s.dev.faults`.

WHAT IS PROVED (all statements are about ONE call `op` issued in `s`).
(a) `faulted_call_is_projection` — a call addressed to volume record `i` gives, on `s` and on the one-volume manager
    `proj s i` (SAME device, schedule and cache), the same output (answer, device writes, device reads), the same device
    afterwards and related states; `proj s i` satisfies the one-volume invariant up to the schedule (`VolInvF`), so every
    theorem of `Props.C11Inv` / `Props.C11Main` applies to it.  (The simulation lemma needs neither an invariant nor
    fault-freedom.)
(b) `faulted_call_stays_in_partition` — a call addressed to volume record `i` — ALL such calls, `write` and
    `make_dir_in_dir` (whose clean-up after a failure is no prefix of the fault-free run) included — changes no block
    outside the partition of volume `i`, and the medium still consists of 512-byte blocks, whatever device call of it fails.
    `names_unique_after_fault_multi` — on the medium the call leaves, EVERY open volume has sound directories: no directory
    of any open volume holds two entries with the same name.
(c) `others_intact_after_fault_multi` — every open volume `j ≠ i` keeps its record, its open files and directories (the same
    records, up to table order), its partition BYTE FOR BYTE and its FULL medium invariant `MedInv`;
    `own_others_intact_after_fault`, `own_others_intact_after_failed_write` — the files of volume `i` itself that are not
    involved (the one-volume theorems through the projection: licence of the fault-free call for `prefixOp` calls; every
    chain but the written file's for `write`).
(d) `retry_after_fault_multi` — a read-only call (`retryOp`: all read-only calls except `get_root_volume_label`) on volume
    `i` of which a device call failed, issued again ON THE N-VOLUME MANAGER from the state the failed call left, with the
    fault gone, answers exactly what it answers without any fault from the state it was first issued in.  FULL: no extra
    hypothesis (for these calls the projection of the state after the failed call IS the state the projection reaches —
    not only up to table order: `Lemmas.VolNFault.step_exact`).
(e) `cache_coherent_multi` — after any call under any schedule the shared cache is coherent: a later call on volume `j`
    is never served a buffer scribbled during a failed call on volume `i` (`Props.C11.cache_coherent_after_any_call`).
(f) `table_calls_under_faults` — a call addressed to no volume record other than `close_volume` (`open_volume`,
    `open_root_dir`, `close_dir`, `has_open_handles`, any call whose handle leads to no open volume) writes nothing:
    `open_volume` only reads.  `close_volume_under_faults` — `close_volume v` can change ONE block, the info sector of the
    FAT32 volume carrying `v`; if a device call of it fails it answers `DeviceError`, THE VOLUME RECORD IS NOT REMOVED (the
    three tables hold the handles they held: the close can be issued again), the cache is untagged; if none fails it IS
    the fault-free call.
HEADLINE `fault_on_one_volume_leaves_others_intact` — for ANY call (addressed or not, all 24 constructors of `Op`) under ANY
    schedule from `VolInvNF` + `MirrorN`: every open volume other than the one worked on keeps its record, its open files
    (and directories, unless the call is `open_root_dir` / `close_dir`, which change the directory table by design), its
    partition byte for byte and its full medium invariant; and the volume worked on has sound directories.

NOT PROVED HERE.  Histories: what survives for the volume WORKED ON after a class-B failure is the one-volume question of
`Props/C11Hist.lean` (`FaultInv`); for the other volumes the invariant simply holds (c), so a multi-volume history under
faults decomposes — that composition is not stated.  `get_root_volume_label` is excluded from the retry as in `C11Inv`.
-/
import Sdmmc.Lemmas.VolNFault4
import Sdmmc.Props.C04Multi
import Sdmmc.Props.C11Main

namespace Sdmmc.Props.C11Multi
open Sdmmc.Model Sdmmc.Model.Fat Sdmmc.Spec.Volume
open Sdmmc.Spec hiding run step NoFault Coherent
open Sdmmc.Props.C11Inv (retryOp prefixOp DirsSound ownChain NamesOK)
open Sdmmc.Props.C04Multi (workTarget)
open Sdmmc.Lemmas.VolN (LabelFresh ProjRel)
open Sdmmc.Lemmas.WriteSetInv (LicenceFor NotNamed)
open Sdmmc.Lemmas.Fault (handles)

/-! ### (a) A faulted call is the call on the projection -/

/-- The projection to a volume record commutes with forgetting the schedule. -/
theorem proj_clearFaults (s : Mgr) (i : Nat) : proj (clearFaults s) i = clearFaults (proj s i) :=
  Lemmas.VolNFault.proj_clearFaults s i

/-- **`faulted_call_is_projection`.** -/
theorem faulted_call_is_projection (s : Mgr) (op : Op) (ghs : List Ghost) (hI : VolInvNF s ghs) {i : Nat} {vi : VolInfo}
    {gh : Ghost} (ht : target s op = some i) (hvi : s.vols[i]? = some vi) (hgh : ghs[i]? = some gh) (hf : LabelFresh s op) :
    VolInvF (proj s i) gh ∧ (MirrorN s ghs → Mirror gh.vol (proj s i).dev.disk) ∧ (proj s i).dev = s.dev ∧
    (step s op).2 = (step (proj s i) op).2 ∧ (step s op).1.dev = (step (proj s i) op).1.dev ∧
    ProjRel vi.rawVolume i (step s op).1 (step (proj s i) op).1 := by
  have hsim := Lemmas.VolNFault.step_sim_F hI op ht hvi hf
  rw [C03Multi.proj_def hvi]
  exact ⟨Lemmas.VolNFault.volInvF_projH hI hvi hgh, fun hm => hm gh (List.mem_of_getElem? hgh), rfl, hsim.out.symm,
    hsim.rel.dev.symm, hsim.rel⟩

/-! ### (b) Where a faulted call writes; no duplicate names on any open volume -/

/-- **`faulted_call_stays_in_partition`.**  Whatever device call of a call addressed to volume record `i` fails: no
block outside the partition of volume `i` changes, and every block of the medium still has 512 bytes. -/
theorem faulted_call_stays_in_partition (s : Mgr) (op : Op) (ghs : List Ghost) (hI : VolInvNF s ghs) (hm : MirrorN s ghs)
    {i : Nat} {vi : VolInfo} (ht : target s op = some i) (hvi : s.vols[i]? = some vi) :
    (∀ b, ¬ InPartition vi.vol b → (step s op).1.dev.disk.get b = s.dev.disk.get b) ∧ BlocksOK (step s op).1.dev.disk := by
  obtain ⟨gh, hgh⟩ := Lemmas.VolNFault.ghost_of_vol hI hvi
  have h := Lemmas.VolNFault.addressed_staysIn hI hm op ht hvi hgh
  rw [hI.vols i vi gh hvi hgh]
  exact ⟨h.frame, h.blocks⟩

/-- **`names_unique_after_fault_multi`.**  After a call addressed to volume record `i`, whatever device call of it
failed: EVERY open volume `j` — the one worked on and all the others — has sound directories on the medium the call
leaves (for some record `G'` of chains; for `j ≠ i` the record before): in particular no directory of any open volume
holds two entries with the same name. -/
theorem names_unique_after_fault_multi (s : Mgr) (op : Op) (ghs : List Ghost) (hI : VolInvNF s ghs) (hm : MirrorN s ghs)
    {i : Nat} (ht : target s op = some i) (j : Nat) (vj : VolInfo) (ghj : Ghost) (hvj : s.vols[j]? = some vj)
    (hghj : ghs[j]? = some ghj) :
    ∃ G', DirsSound ghj.vol (step s op).1.dev.disk { vol := ghj.vol, G := G', dirs := ghj.dirs } := by
  obtain ⟨vi, hvi⟩ := C03Multi.target_lt ht
  obtain ⟨gh, hgh⟩ := Lemmas.VolNFault.ghost_of_vol hI hvi
  by_cases hij : j = i
  · subst hij
    rw [hvi] at hvj; cases hvj
    rw [hgh] at hghj; cases hghj
    exact Lemmas.VolNFault.own_dirsInv hI ht hvi hgh
  · exact ⟨ghj.G, Lemmas.VolNFault.addressed_others_dirs hI hm ht hvi hgh hvj hghj hij⟩

/-- … read off: the names of the live short entries of every directory `h` of every open volume are pairwise distinct. -/
theorem no_duplicate_names_after_fault_multi (s : Mgr) (op : Op) (ghs : List Ghost) (hI : VolInvNF s ghs) (hm : MirrorN s ghs)
    {i : Nat} (ht : target s op = some i) (j : Nat) (vj : VolInfo) (ghj : Ghost) (hvj : s.vols[j]? = some vj)
    (hghj : ghs[j]? = some ghj) :
    ∃ G', ∀ h, h ∈ dirIds ghj.dirs → ((entries (dirSlots ghj.vol (step s op).1.dev.disk G' h)).map sName).Nodup := by
  obtain ⟨G', hD⟩ := names_unique_after_fault_multi s op ghs hI hm ht j vj ghj hvj hghj
  exact ⟨G', ((C11Inv.dirsSound_def _ _ _).1 hD).2.2.2.2.1⟩

/-! ### (c) The other volumes, and the uninvolved files of the volume worked on -/

/-- **`others_intact_after_fault_multi`.**  Files of OTHER VOLUMES are intact: after a call addressed to volume record `i`,
whatever device call of it failed, every open volume `j ≠ i` keeps its record, its open files and directories (the same
records, up to the order of the tables), its partition byte for byte, and its full medium invariant `MedInv` with its
open files — the invariant of volume `j` survives a fault on volume `i`. -/
theorem others_intact_after_fault_multi (s : Mgr) (op : Op) (ghs : List Ghost) (hI : VolInvNF s ghs) (hm : MirrorN s ghs)
    {i : Nat} (ht : target s op = some i) (hf : LabelFresh s op) {j : Nat} {vj : VolInfo} {ghj : Ghost}
    (hvj : s.vols[j]? = some vj) (hghj : ghs[j]? = some ghj) (hij : j ≠ i) :
    (step s op).1.vols[j]? = some vj ∧
    (volFiles (step s op).1 vj.rawVolume).Perm (volFiles s vj.rawVolume) ∧
    (volDirs (step s op).1 vj.rawVolume).Perm (volDirs s vj.rawVolume) ∧
    SamePartition vj.vol s.dev.disk (step s op).1.dev.disk ∧
    MedInv ghj.vol (step s op).1.dev.disk (volFiles (step s op).1 vj.rawVolume) ghj := by
  obtain ⟨vi, hvi⟩ := C03Multi.target_lt ht
  obtain ⟨gh, hgh⟩ := Lemmas.VolNFault.ghost_of_vol hI hvi
  exact Lemmas.VolNFault.addressed_others hI hm ht hvi hgh hf hvj hghj hij

/-- **The uninvolved files of the volume worked on** (`prefixOp` calls; `Props.C11Inv.others_intact_after_fault` through the
projection).  `Lic` is a licence of the FAULT-FREE call, described from the ghost of volume `i`, ITS open files and
directories and the medium before the call; the writes of the call under the pending schedule are licensed by it, and every
object (slot, chain) it does not name has the same slot bytes, chain and chain bytes on the medium the call leaves. -/
theorem own_others_intact_after_fault (s : Mgr) (op : Op) (ghs : List Ghost) (hI : VolInvNF s ghs) (hm : MirrorN s ghs)
    {i : Nat} {vi : VolInfo} {gh : Ghost} (ht : target s op = some i) (hvi : s.vols[i]? = some vi) (hgh : ghs[i]? = some gh)
    (hop : prefixOp op = true) :
    ∃ Lic, LicenceFor gh (volFiles s vi.rawVolume) (volDirs s vi.rawVolume) s.dev.disk op Lic ∧
      AllLicensed gh.vol s.dev.disk Lic (step s op).2.writes ∧
      ∀ (sb so c : Nat) (cs : List Nat), Chain gh.vol s.dev.disk c cs →
        (regionOf gh.vol sb = .root ∨ regionOf gh.vol sb = .data) → so % 32 = 0 → NotNamed gh.vol Lic sb so cs →
        slice ((step s op).1.dev.disk.get sb) so 32 = slice (s.dev.disk.get sb) so 32 ∧
        Chain gh.vol (step s op).1.dev.disk c cs ∧
        chainBytes gh.vol (step s op).1.dev.disk cs = chainBytes gh.vol s.dev.disk cs := by
  have hf : LabelFresh s op := by cases op <;> first | exact trivial | cases hop
  have hsim := Lemmas.VolNFault.step_sim_F hI op ht hvi hf
  have h := Lemmas.MainC11.others_F (Lemmas.VolNFault.volInvF_projH hI hvi hgh) (hm gh (List.mem_of_getElem? hgh)) op hop
    (Lemmas.VolNFault.namesOK_all op)
  rw [hsim.out, hsim.rel.dev] at h
  exact h

/-- **… for `write`** (`Props.C11Inv.others_intact_after_failed_write` through the projection): every chain of volume `i`
other than the written file's own is still a chain holding the bytes it held, and every block of its FAT16 root directory is
as it was — whatever device call failed. -/
theorem own_others_intact_after_failed_write (s : Mgr) (ghs : List Ghost) (hI : VolInvNF s ghs) (h : Nat) (data : Bytes)
    {i : Nat} {vi : VolInfo} {gh : Ghost} (ht : target s (.write h data) = some i) (hvi : s.vols[i]? = some vi)
    (hgh : ghs[i]? = some gh) :
    (∀ X, X ∈ gh.G → X ≠ ownChain (proj s i) gh h →
      Chain gh.vol (step s (.write h data)).1.dev.disk (X.headD 0) X ∧
      chainBytes gh.vol (step s (.write h data)).1.dev.disk X = chainBytes gh.vol s.dev.disk X) ∧
    (∀ b, regionOf gh.vol b = .root → (step s (.write h data)).1.dev.disk.get b = s.dev.disk.get b) := by
  have hsim := Lemmas.VolNFault.step_sim_F hI (.write h data) ht hvi trivial
  have h' := Lemmas.MainC11.others_write_F (Lemmas.VolNFault.volInvF_projH hI hvi hgh) h data
  rw [hsim.rel.dev] at h'
  rw [C03Multi.proj_def hvi]
  exact h'

/-! ### (d) The retry -/

/-- **`retry_after_fault_multi`.**  A read-only call `op` (`retryOp`) addressed to volume record `i` runs under the pending
schedule and a device call of it fails (it then answered an error: `Props.C11.fault_reported`).  The SAME call issued
again on the N-volume manager from the state the failed call left, with the fault gone, answers exactly what `op` answers
from `s` without any fault; it is addressed to volume record `i` in that state too. -/
theorem retry_after_fault_multi (s : Mgr) (op : Op) (ghs : List Ghost) (hI : VolInvNF s ghs) {i : Nat} {vi : VolInfo}
    (ht : target s op = some i) (hvi : s.vols[i]? = some vi) (hop : retryOp op = true)
    (hfail : (step s op).1.dev.failed ≠ s.dev.failed) :
    (step (clearFaults (step s op).1) op).2.result = (step (clearFaults s) op).2.result ∧
    target (step s op).1 op = some i :=
  Lemmas.VolNFault.retry_multi hI op ht hvi hop hfail

/-! ### (e) The shared cache -/

/-- **`cache_coherent_multi`.**  After ANY call under ANY schedule, from ANY state with a coherent cache — any number of
open volumes, no invariant —, the one shared cache is coherent: a call on another volume issued next reads the medium, not
a buffer scribbled or left behind by the failed call. -/
theorem cache_coherent_multi (s : Mgr) (op : Op) (hc : ∀ i, s.cache.tag = some i → s.cache.blk = s.dev.disk.get i) :
    ∀ i, (step s op).1.cache.tag = some i → (step s op).1.cache.blk = (step s op).1.dev.disk.get i :=
  C11.cache_coherent_after_any_call s op hc

/-- … and a failure is always reported, whichever volume the call was on (`Props.C11.fault_reported`: global). -/
theorem fault_reported_multi (s : Mgr) (op : Op) (h : (step s op).1.dev.failed ≠ s.dev.failed) :
    ∃ e, (step s op).2.result = .err e := C11.fault_reported s op h

/-! ### (f) The calls addressed to no volume record -/

/-- **`table_calls_under_faults`.**  A call addressed to no volume record other than `close_volume` — `open_volume`,
`open_root_dir`, `close_dir`, `has_open_handles`, and every call whose handle leads to no open volume — under any pending
schedule: it writes nothing and leaves the medium and the file table alone; every volume record stays at its index
(`open_volume` may append one); the directory table is untouched unless the call is `open_root_dir` / `close_dir`. -/
theorem table_calls_under_faults (s : Mgr) (op : Op) (ghs : List Ghost) (hI : VolInvNF s ghs) (ht : target s op = none)
    (hncl : ∀ v, op ≠ .closeVolume v) :
    (step s op).2.writes = [] ∧ (step s op).1.dev.disk = s.dev.disk ∧ (step s op).1.files = s.files ∧
    (∀ (j : Nat) (vj : VolInfo), s.vols[j]? = some vj → (step s op).1.vols[j]? = some vj) ∧
    ((∀ v, op ≠ .openRoot v) → (∀ d, op ≠ .closeDir d) → (step s op).1.dirs = s.dirs) := by
  obtain ⟨h1, h2, h3, h4, h5⟩ := Lemmas.VolNFault.untargeted_keeps hI op ht hncl
  exact ⟨h2, h1, h3, h4, h5⟩

/-- **`close_volume_under_faults`.**  `close_volume v` under any pending schedule:
* the only block that can change is the info sector of the FAT32 volume record carrying `v` (region `.info` of ITS
  partition); the medium keeps 512-byte blocks; the file and directory tables are untouched;
* if a device call of it fails: the answer is `DeviceError`, the three tables hold exactly the handles they held — the
  volume record is NOT removed, `close_volume` can be issued again —, and the cache is untagged;
* if none fails: the call IS the fault-free call (same output, same state up to the schedule). -/
theorem close_volume_under_faults (s : Mgr) (v : Nat) (ghs : List Ghost) (hI : VolInvNF s ghs) :
    (∀ b, (step s (.closeVolume v)).1.dev.disk.get b ≠ s.dev.disk.get b →
      ∃ (k : Nat) (vk : VolInfo), s.vols.findIdx? (·.rawVolume = v) = some k ∧ s.vols[k]? = some vk ∧
        vk.vol.fatType = .fat32 ∧ b = vk.vol.infoLocation ∧ regionOf vk.vol b = .info) ∧
    (BlocksOK s.dev.disk → BlocksOK (step s (.closeVolume v)).1.dev.disk) ∧
    (step s (.closeVolume v)).1.files = s.files ∧ (step s (.closeVolume v)).1.dirs = s.dirs ∧
    ((step s (.closeVolume v)).1.dev.failed ≠ s.dev.failed →
      (step s (.closeVolume v)).2.result = .err .DeviceError ∧ handles (step s (.closeVolume v)).1 = handles s ∧
      (step s (.closeVolume v)).1.cache.tag = none) ∧
    ((step s (.closeVolume v)).1.dev.failed = s.dev.failed →
      (step s (.closeVolume v)).2 = (step (clearFaults s) (.closeVolume v)).2 ∧
      clearFaults (step s (.closeVolume v)).1 = (step (clearFaults s) (.closeVolume v)).1) := by
  obtain ⟨h1, h2, h3, h4⟩ := Lemmas.VolNFault.closeVolume_F hI v
  obtain ⟨t1, t2, _⟩ := Lemmas.VolNFault.closeVolume_tables v (Lemmas.MHoare.resetLogs s)
  have hst := Lemmas.VolNFault.step_closeVolume_state s hI.unlocked v
  exact ⟨h1, h2, by rw [hst, t1]; rfl, by rw [hst, t2]; rfl, h3, h4⟩

/-! ### Headline -/

/-- What an open volume keeps across a call that does not work on it: its record (somewhere in the volume table), its
open files (the same records, up to table order), its partition byte for byte, its medium invariant. -/
structure Kept (s s' : Mgr) (vj : VolInfo) (ghj : Ghost) : Prop where
  record : vj ∈ s'.vols
  files : (volFiles s' vj.rawVolume).Perm (volFiles s vj.rawVolume)
  partition : SamePartition vj.vol s.dev.disk s'.dev.disk
  med : MedInv ghj.vol s'.dev.disk (volFiles s' vj.rawVolume) ghj

/-- **`fault_on_one_volume_leaves_others_intact`.**  ANY call `op` — addressed to a volume record or not, all 24
constructors of `Op` — issued in a state satisfying the multi-volume invariant up to its pending schedule, with identical
FAT copies, WHATEVER device call of it fails:
* every open volume `j` other than the one the call works on (`workTarget s op ≠ some j`) keeps its record, its open
  files, its partition byte for byte and its FULL medium invariant (`Kept`), and — unless the call is `open_root_dir` /
  `close_dir`, which change the directory table by design — its open directories;
* the volume the call works on has sound directories on the medium the call leaves: no duplicate names. -/
theorem fault_on_one_volume_leaves_others_intact (s : Mgr) (op : Op) (ghs : List Ghost) (hI : VolInvNF s ghs)
    (hm : MirrorN s ghs) (hf : LabelFresh s op) :
    (∀ (j : Nat) (vj : VolInfo) (ghj : Ghost), s.vols[j]? = some vj → ghs[j]? = some ghj → workTarget s op ≠ some j →
      Kept s (step s op).1 vj ghj ∧
      ((∀ v, op ≠ .openRoot v) → (∀ d, op ≠ .closeDir d) →
        (volDirs (step s op).1 vj.rawVolume).Perm (volDirs s vj.rawVolume))) ∧
    (∀ (i : Nat) (vi : VolInfo) (gh : Ghost), workTarget s op = some i → s.vols[i]? = some vi → ghs[i]? = some gh →
      ∃ G', DirsSound gh.vol (step s op).1.dev.disk { vol := gh.vol, G := G', dirs := gh.dirs }) := by
  cases ht : target s op with
  | some i =>
    have hw : workTarget s op = some i := C04Multi.workTarget_of_target ht
    obtain ⟨vi, hvi⟩ := C03Multi.target_lt ht
    obtain ⟨gh, hgh⟩ := Lemmas.VolNFault.ghost_of_vol hI hvi
    refine ⟨fun j vj ghj hvj hghj hne => ?_, fun i' vi' gh' hw' hvi' hgh' => ?_⟩
    · have hij : j ≠ i := fun e => hne (by rw [hw, e])
      obtain ⟨r1, r2, r3, r4, r5⟩ := Lemmas.VolNFault.addressed_others hI hm ht hvi hgh hf hvj hghj hij
      exact ⟨⟨List.mem_of_getElem? r1, r2, r4, r5⟩, fun _ _ => r3⟩
    · rw [hw] at hw'; cases hw'
      rw [hvi] at hvi'; cases hvi'
      rw [hgh] at hgh'; cases hgh'
      exact Lemmas.VolNFault.own_dirsInv hI ht hvi hgh
  | none =>
    by_cases hcl : ∃ v, op = .closeVolume v
    · obtain ⟨v, rfl⟩ := hcl
      refine ⟨fun j vj ghj hvj hghj hne => ?_, fun i vi gh _ hvi hgh => ⟨gh.G, Lemmas.VolNFault.closeVolume_own hI v hvi hgh⟩⟩
      have hraw : vj.rawVolume ≠ v := by
        intro e
        apply hne
        rw [C04Multi.workTarget_closeVolume, ← e]
        exact Lemmas.VolN.findIdx?_of_nodup (s := s) hI.handles hvj
      obtain ⟨c1, c2, c3, c4, c5⟩ := Lemmas.VolNFault.closeVolume_other hI v hvj hghj hraw
      exact ⟨⟨c1, by rw [c2], c4, c5⟩, fun _ _ => by rw [c3]⟩
    · have hncl : ∀ v, op ≠ .closeVolume v := fun v e => hcl ⟨v, e⟩
      refine ⟨fun j vj ghj hvj hghj _ => ?_, fun i vi gh hw _ _ => ?_⟩
      · obtain ⟨u1, u2, _, u4, u5, u6⟩ := Lemmas.VolNFault.untargeted_all hI op ht hncl hvj hghj
        refine ⟨⟨List.mem_of_getElem? u1, by rw [u4], fun b _ => by rw [u2], u5⟩, fun a b => by rw [u6 a b]⟩
      · rw [C04Multi.workTarget_eq_target s hncl, ht] at hw; cases hw

/-! ### Non-vacuity and evaluated faults on the two-volume example (tests, labelled as tests) -/

namespace Example
open Sdmmc.Lemmas.VolExample Sdmmc.Lemmas.VolN.Example2
open Sdmmc.Props.C03Multi.Example (two_volumes two_volumes_mirror)
open Sdmmc.Props.C11Inv (withFaults)
open Sdmmc.Props.C11Inv.Example (isDeviceError)

/-- The two-volume example state of `Props.C03Multi` (a FAT16 volume in blocks 0 … 39, record 0, handle 1; a FAT32
volume in blocks 40 … 79, record 1, handle 5; two directory handles on each), given ANY fault schedule `L`, satisfies the
hypotheses of every theorem of this file. -/
theorem inv_under_schedule (L : List Nat) : VolInvNF (withFaults L mgr2) ghs2 ∧ MirrorN (withFaults L mgr2) ghs2 :=
  ⟨two_volumes, two_volumes_mirror⟩

/-- … and so does every state satisfying `VolInvN`, given any schedule. -/
theorem volInvNF_withFaults {s0 : Mgr} {ghs : List Ghost} (hI : VolInvN s0 ghs) (L : List Nat) :
    VolInvNF (withFaults L s0) ghs := by
  have e : clearFaults (withFaults L s0) = s0 := by
    have := hI.noFault
    obtain ⟨dev, cache, nextId, vols, dirs, files, mv, md, mf, clock, locked⟩ := s0
    obtain ⟨disk, calls, faults, wlog, rlog, failed⟩ := dev
    simp only at this
    subst this
    rfl
  show VolInvN (clearFaults (withFaults L s0)) ghs
  rw [e]; exact hI

/-- The headline applies to the example under every schedule and every call (`LabelFresh` holds: the next handle, 10, is
carried by no open directory). -/
theorem labelFresh_example (L : List Nat) (op : Op) : LabelFresh (withFaults L mgr2) op := by
  cases op <;> first | exact trivial | (show mgr2.nextId ∉ mgr2.dirs.map (·.rawDirectory); decide)

example (L : List Nat) (op : Op) :=
  fault_on_one_volume_leaves_others_intact (withFaults L mgr2) op ghs2 (inv_under_schedule L).1 (inv_under_schedule L).2
    (labelFresh_example L op)

/-- `make_dir_in_dir(7, "D")`: handle 7 is a directory of the FAT32 volume (record 1). -/
def mkd : Op := .mkdir 7 [68]

/-- Evaluated (TEST): `mkd` under a single fault at every position — 7 device calls; positions 0 … 6 answer
`DeviceError`; positions 5 and 6 trigger the clean-up (the FAT is written again: no prefix of the fault-free writes
`[42, 43, 49, 45]`).  EVERY write goes to a block of 41 … 79, the partition of the FAT32 volume. -/
theorem faulted_mkdir_on_second_volume :
    (List.range 8).map (fun k => (isDeviceError (step (withFaults [k] mgr2) mkd).2.result,
      (step (withFaults [k] mgr2) mkd).2.writes.map (·.1))) =
    [(true, []), (true, []), (true, []), (true, [42]), (true, [42, 43]), (true, [42, 43, 49, 42, 43]),
     (true, [42, 43, 49, 42, 43]), (false, [42, 43, 49, 45])] := by decide +kernel

theorem mkd_target : target mgr2 mkd = some 1 := by decide +kernel

/-- The theorems at these points: whatever position `k` fails, the FAT16 volume (record 0) keeps its partition byte for
byte and its medium invariant, and both volumes have sound directories. -/
theorem faulted_mkdir_leaves_first_volume (k : Nat) :
    SamePartition vol16 mgr2.dev.disk (step (withFaults [k] mgr2) mkd).1.dev.disk ∧
    MedInv vol16 (step (withFaults [k] mgr2) mkd).1.dev.disk (volFiles (step (withFaults [k] mgr2) mkd).1 1) gh1 :=
  let h := others_intact_after_fault_multi (withFaults [k] mgr2) mkd ghs2 (inv_under_schedule [k]).1 (inv_under_schedule [k]).2
    (i := 1) mkd_target trivial (j := 0) (vj := { rawVolume := 1, idx := 0, vol := vol16 }) (ghj := gh1) rfl rfl (by decide)
  ⟨h.2.2.2.1, h.2.2.2.2⟩

example (k : Nat) := names_unique_after_fault_multi (withFaults [k] mgr2) mkd ghs2 (inv_under_schedule [k]).1
  (inv_under_schedule [k]).2 (i := 1) mkd_target

/-- `iterate_dir(7)` on the FAT32 volume whose first device call fails answers `DeviceError`; issued again on the two-volume
manager it answers what the fault-free call answers (the retry theorem at a point). -/
theorem faulted_list : isDeviceError (step (withFaults [0] mgr2) (.list 7)).2.result = true ∧
    (step (withFaults [0] mgr2) (.list 7)).1.dev.failed = 1 := by decide +kernel

theorem clear_example (L : List Nat) : clearFaults (withFaults L mgr2) = mgr2 := rfl

theorem list_target : target (withFaults [0] mgr2) (.list 7) = some 1 := by decide +kernel

theorem retried_list :
    (step (clearFaults (step (withFaults [0] mgr2) (.list 7)).1) (.list 7)).2.result =
      (step (clearFaults (withFaults [0] mgr2)) (.list 7)).2.result :=
  (retry_after_fault_multi (withFaults [0] mgr2) (.list 7) ghs2 (inv_under_schedule [0]).1 (i := 1)
    (vi := { rawVolume := 5, idx := 1, vol := vol32b }) list_target rfl rfl (by rw [faulted_list.2]; decide)).1

end Example

end Sdmmc.Props.C11Multi
