/-
C08 — Handles, open-object limits and the re-entrancy lock are enforced exactly.

Property theorems only; helper lemmas live in `Sdmmc.Lemmas.TablesInv` (the handle invariant
through every call, by a small Hoare logic for the manager monad, `Sdmmc.Lemmas.MHoare`) and
`Sdmmc.Lemmas.Tables` (rejections, limits, guards).
Model: `Sdmmc.Model.Mgr` — the three tables `vols` / `dirs` / `files` with their capacities, the
wrapping `u32` handle counter `nextId`, `step : Mgr → Op → Mgr × Out` (one API call) and `run`
(a history).  Every theorem is about arbitrary states and arbitrary calls; the FAT layer below
`withVol` is never unfolded, so the statements hold for every disk content and every fault plan.

"Unchanged" is always stated as an equation for the whole state: `resetLogs s` is `s` with the
per-call read/write logs emptied, which `step` does at the start of every call.

Not in the invariant, on purpose: "the volume of every open directory is open" — `open_root_dir`
does not validate its volume handle (known finding, see known_findings.json).
-/
import Sdmmc.Lemmas.Tables

namespace Sdmmc.Props.C08
open Sdmmc.Model
open Sdmmc.Lemmas.MHoare (resetLogs)

/-! ### Vocabulary -/

/-- All handles currently open: volumes, directories, files. -/
def handles (s : Mgr) : List Nat :=
  s.vols.map (·.rawVolume) ++ s.dirs.map (·.rawDirectory) ++ s.files.map (·.rawFile)

/-- The handle invariant: open handles are pairwise distinct (across the three kinds), each was
issued before (is below the counter), and no table is over its capacity. -/
def HInv (s : Mgr) : Prop :=
  (handles s).Nodup ∧ (∀ h ∈ handles s, h < s.nextId) ∧
  s.vols.length ≤ s.maxVols ∧ s.dirs.length ≤ s.maxDirs ∧ s.files.length ≤ s.maxFiles

/-- The file handle a call takes. -/
def fileHandleOf : Op → Option Nat
  | .read f _ | .write f _ | .seekStart f _ | .seekCur f _ | .seekEnd f _
  | .flush f | .closeFile f | .length f | .offset f | .eof f => some f
  | _ => none

/-- The directory handle a call takes. -/
def dirHandleOf : Op → Option Nat
  | .openDir d _ | .closeDir d | .openFile d _ _ | .delete d _ | .mkdir d _
  | .find d _ | .list d | .listLfn d _ => some d
  | _ => none

/-- Calls that check for a free directory slot before they look at their handle. -/
def needsDirSlot : Op → Bool
  | .openDir _ _ | .mkdir _ _ => true
  | _ => false

/-- Calls that check for a free file slot before they look at their handle. -/
def needsFileSlot : Op → Bool
  | .openFile _ _ _ => true
  | _ => false

/-- The answer of a refused call: the error, nothing written, nothing read. -/
def refused (e : Err) : Out := { result := .err e, writes := [], reads := [] }

/-! ### The invariant holds through every call and every history -/

/-- Whatever the call, whatever it answers (success, error, panic, divergence, device faults):
the handle invariant survives it, as long as the 32-bit handle counter does not wrap in this call. -/
theorem hinv_step (s : Mgr) (op : Op) (hi : HInv s) (hn : s.nextId + 1 < 2 ^ 32) : HInv (step s op).1 :=
  Lemmas.Tables.hinv_step s op hi hn

/-- … hence through every history of calls that stays clear of the wrap (each call draws at most
one handle, so `ops.length` more ids is enough room). -/
theorem hinv_run (s : Mgr) (ops : List Op) (hi : HInv s) (hn : s.nextId + ops.length < 2 ^ 32) :
    HInv (run s ops).1 :=
  Lemmas.Tables.hinv_run s ops hi hn

/-- One call moves the counter by at most one, never backwards, and opens no handle other than
the counter value it started with. -/
theorem step_counter (s : Mgr) (op : Op) (hi : HInv s) (hn : s.nextId + 1 < 2 ^ 32) :
    s.nextId ≤ (step s op).1.nextId ∧ (step s op).1.nextId ≤ s.nextId + 1 ∧
    ∀ h ∈ handles (step s op).1, h ∈ handles s ∨ h = s.nextId :=
  ⟨(Lemmas.Tables.step_spec s op hi hn).mono, (Lemmas.Tables.step_spec s op hi hn).bound,
   (Lemmas.Tables.step_spec s op hi hn).sub⟩

/-- Every handle the library returns — from `open_raw_volume`, `open_root_dir`, `open_dir`,
`open_file_in_dir` — is distinct from all handles currently open (of any kind): it is the
counter value, and all open handles are below the counter. -/
theorem fresh_handle_distinct (s : Mgr) (op : Op) (h : Nat) (hi : HInv s) (hn : s.nextId + 1 < 2 ^ 32)
    (hr : (step s op).2.result = .ok (.handle h)) : h = s.nextId ∧ h ∉ handles s :=
  Lemmas.Tables.fresh_handle_distinct s op h hi hn hr

/-! ### Stale handles are rejected, without any effect -/

/-- `read`, `write`, the three seeks, `flush_file`, `close_file`, `file_length`, `file_offset`,
`file_eof` on a handle that is not an open file: `BadHandle`, no device access, state unchanged. -/
theorem bad_file_handle_rejected (s : Mgr) (op : Op) (f : Nat) (hop : fileHandleOf op = some f)
    (hl : s.locked = false) (hf : f ∉ s.files.map (·.rawFile)) :
    step s op = (resetLogs s, refused .BadHandle) :=
  Lemmas.Tables.bad_file_handle_rejected s op f hop hl hf

/-- `open_dir`, `close_dir`, `open_file_in_dir`, `delete_file_in_dir`, `make_dir_in_dir`,
`find_directory_entry`, `iterate_dir`, `iterate_dir_lfn` on a handle that is not an open
directory: `BadHandle`, no device access, state unchanged.  Precondition, exactly as the code
orders its checks: `open_dir` and `make_dir_in_dir` look at the directory limit first,
`open_file_in_dir` at the file limit first (with a full table the too-many error wins, see
`limits_exact`). -/
theorem bad_dir_handle_rejected (s : Mgr) (op : Op) (d : Nat) (hop : dirHandleOf op = some d)
    (hl : s.locked = false) (hd : d ∉ s.dirs.map (·.rawDirectory))
    (h1 : needsDirSlot op = true → s.dirs.length < s.maxDirs)
    (h2 : needsFileSlot op = true → s.files.length < s.maxFiles) :
    step s op = (resetLogs s, refused .BadHandle) :=
  Lemmas.Tables.bad_dir_handle_rejected s op d hop hl hd h1 h2

/-- `close_volume` on a handle that is not an open volume (and that no open file or directory
refers to — otherwise `VolumeStillInUse` wins, see `close_volume_guard`) and
`get_root_volume_label` on such a handle: `BadHandle`, state unchanged. -/
theorem bad_volume_handle_rejected (s : Mgr) (v : Nat) (hl : s.locked = false)
    (hv : v ∉ s.vols.map (·.rawVolume)) :
    (v ∉ s.files.map (·.rawVolume) → v ∉ s.dirs.map (·.rawVolume) →
      step s (.closeVolume v) = (resetLogs s, refused .BadHandle)) ∧
    step s (.label v) = (resetLogs s, refused .BadHandle) :=
  ⟨Lemmas.Tables.bad_volume_handle_close s v hl hv, Lemmas.Tables.bad_volume_handle_label s v hl hv⟩

/-! ### Closing frees the slot and kills the handle -/

/-- `close_dir` on an open directory handle succeeds, frees exactly one directory slot, touches
no other table and not the counter; afterwards the handle is not open. -/
theorem close_dir_effect (s : Mgr) (d : Nat) (hl : s.locked = false) (hi : HInv s)
    (hd : d ∈ s.dirs.map (·.rawDirectory)) :
    (step s (.closeDir d)).2.result = .ok .unit ∧
    (step s (.closeDir d)).1.dirs.length = s.dirs.length - 1 ∧
    d ∉ (step s (.closeDir d)).1.dirs.map (·.rawDirectory) ∧
    (step s (.closeDir d)).1.files = s.files ∧ (step s (.closeDir d)).1.vols = s.vols ∧
    (step s (.closeDir d)).1.nextId = s.nextId :=
  Lemmas.Tables.close_dir_effect s d hl (Lemmas.Tables.HInv.dirs_nodup hi) hd

/-- `close_file` on an open file handle frees exactly one file slot *whatever the flush inside it
answers* (a device fault included); afterwards the handle is not open. -/
theorem close_file_effect (s : Mgr) (f : Nat) (hl : s.locked = false) (hi : HInv s)
    (hf : f ∈ s.files.map (·.rawFile)) :
    (step s (.closeFile f)).1.files.length = s.files.length - 1 ∧
    f ∉ (step s (.closeFile f)).1.files.map (·.rawFile) ∧
    (step s (.closeFile f)).1.dirs = s.dirs ∧
    (step s (.closeFile f)).1.vols.map (·.rawVolume) = s.vols.map (·.rawVolume) ∧
    (step s (.closeFile f)).1.nextId = s.nextId :=
  Lemmas.Tables.close_file_effect s f hl (Lemmas.Tables.HInv.files_nodup hi) hf

/-- A successful `close_volume`: the handle was open, nothing referred to it, exactly one volume
slot is freed, the handle is not open afterwards, the other tables keep their handles. -/
theorem close_volume_effect (s : Mgr) (v : Nat) (hl : s.locked = false) (hi : HInv s)
    (hok : (step s (.closeVolume v)).2.result = .ok .unit) :
    (step s (.closeVolume v)).1.vols.length = s.vols.length - 1 ∧
    v ∉ (step s (.closeVolume v)).1.vols.map (·.rawVolume) ∧
    v ∈ s.vols.map (·.rawVolume) ∧ v ∉ s.files.map (·.rawVolume) ∧ v ∉ s.dirs.map (·.rawVolume) ∧
    (step s (.closeVolume v)).1.dirs = s.dirs ∧
    (step s (.closeVolume v)).1.files.map (·.rawFile) = s.files.map (·.rawFile) ∧
    (step s (.closeVolume v)).1.nextId = s.nextId :=
  Lemmas.Tables.close_volume_effect s v hl (Lemmas.Tables.HInv.vols_nodup hi) hok

/-- After `close_file f` / `close_dir d` (whatever they answer) and after a successful
`close_volume v`, the handle is not in its table — so by the three theorems above every call that
takes it answers `BadHandle` and changes nothing. -/
theorem closed_handle_stays_bad (s : Mgr) (h : Nat) (hl : s.locked = false) (hi : HInv s) :
    h ∉ (step s (.closeFile h)).1.files.map (·.rawFile) ∧
    h ∉ (step s (.closeDir h)).1.dirs.map (·.rawDirectory) ∧
    ((step s (.closeVolume h)).2.result = .ok .unit → h ∉ (step s (.closeVolume h)).1.vols.map (·.rawVolume)) :=
  ⟨Lemmas.Tables.closed_file_stays_bad s h hl (Lemmas.Tables.HInv.files_nodup hi),
   Lemmas.Tables.closed_dir_stays_bad s h hl (Lemmas.Tables.HInv.dirs_nodup hi),
   fun hok => (Lemmas.Tables.close_volume_effect s h hl (Lemmas.Tables.HInv.vols_nodup hi) hok).2.1⟩

/-- … and it stays that way: a handle that is not open and was issued before (is below the
counter) is not open after any history, until the counter wraps.  (A returned handle is always the
counter value, the counter never goes back.) -/
theorem stale_never_reissued (s : Mgr) (ops : List Op) (h : Nat) (hi : HInv s)
    (hn : s.nextId + ops.length < 2 ^ 32) (hlt : h < s.nextId) (hc : h ∉ handles s) :
    h ∉ handles (run s ops).1 :=
  Lemmas.Tables.stale_never_reissued s ops h hi hn hlt hc

/-! ### The limits are exact -/

/-- With the file table full `open_file_in_dir` answers `TooManyOpenFiles`; with the directory
table full `open_dir` and `make_dir_in_dir` answer `TooManyOpenDirs`; with the volume table full
`open_raw_volume` answers `TooManyOpenVolumes` — each before anything else is looked at, without
device access, state unchanged.  `open_root_dir` with the directory table full answers
`TooManyOpenDirs` too, but has drawn a handle id before looking: the counter moves (nothing else).
That no table ever exceeds its capacity is part of `HInv` (`hinv_step`); that a close frees exactly
one slot is `close_*_effect`. -/
theorem limits_exact (s : Mgr) (hl : s.locked = false) :
    (s.files.length ≥ s.maxFiles → ∀ d nm m,
      step s (.openFile d nm m) = (resetLogs s, refused .TooManyOpenFiles)) ∧
    (s.dirs.length ≥ s.maxDirs → ∀ d nm,
      step s (.openDir d nm) = (resetLogs s, refused .TooManyOpenDirs) ∧
      step s (.mkdir d nm) = (resetLogs s, refused .TooManyOpenDirs)) ∧
    (s.dirs.length ≥ s.maxDirs → ∀ v,
      step s (.openRoot v) =
        ({ resetLogs s with nextId := (s.nextId + 1) % 4294967296 }, refused .TooManyOpenDirs)) ∧
    (s.vols.length ≥ s.maxVols → ∀ i,
      step s (.openVolume i) = (resetLogs s, refused .TooManyOpenVolumes)) :=
  ⟨fun h d nm m => Lemmas.Tables.limit_files s d nm m hl h,
   fun h d nm => ⟨Lemmas.Tables.limit_dirs_openDir s d nm hl h, Lemmas.Tables.limit_dirs_mkdir s d nm hl h⟩,
   fun h v => Lemmas.Tables.limit_dirs_openRoot s v hl h,
   fun h i => Lemmas.Tables.limit_vols s i hl h⟩

/-! ### Volume guards -/

/-- A volume cannot be closed while an open file or an open directory refers to it. -/
theorem close_volume_guard (s : Mgr) (v : Nat) (hl : s.locked = false)
    (hu : v ∈ s.files.map (·.rawVolume) ∨ v ∈ s.dirs.map (·.rawVolume)) :
    step s (.closeVolume v) = (resetLogs s, refused .VolumeStillInUse) :=
  Lemmas.Tables.close_volume_guard s v hl hu

/-- A partition that is open cannot be opened a second time (no device access happens). -/
theorem volume_double_open (s : Mgr) (i : Nat) (hl : s.locked = false) (hroom : s.vols.length < s.maxVols)
    (ho : i ∈ s.vols.map (·.idx)) :
    step s (.openVolume i) = (resetLogs s, refused .VolumeAlreadyOpen) :=
  Lemmas.Tables.volume_double_open s i hl hroom ho

/-! ### The open-handle query, the lock -/

/-- `has_open_handles` is true exactly when a directory or a file is open … -/
theorem has_open_handles_truth (s : Mgr) : hasOpenHandles s = true ↔ s.dirs ≠ [] ∨ s.files ≠ [] :=
  Lemmas.Tables.has_open_handles_truth s

/-- … and that is what the call returns, changing nothing. -/
theorem has_open_handles_step (s : Mgr) (hl : s.locked = false) :
    step s .hasOpen = (resetLogs s, { result := .ok (.bool (hasOpenHandles s)), writes := [], reads := [] }) :=
  Lemmas.Tables.has_open_step s hl

/-- Every `Result`-returning method called while the manager is borrowed (from inside a
directory-iteration callback) answers `LockError`; the state — every field of it — is unchanged,
nothing is read or written. -/
theorem reentrant_lock (s : Mgr) (op : Op) (h : op.returnsResult = true) :
    step { s with locked := true } op = ({ s with locked := true }, refused .LockError) :=
  Lemmas.Tables.reentrant_lock s op h


/-! ### Non-vacuity (tests) -/

/-- One volume, one directory and one file open, counter at 5, room for one more directory only. -/
def sEx : Mgr :=
  { dev := { disk := Disk.empty }, nextId := 5,
    vols := [{ rawVolume := 0, idx := 0, vol := default }],
    dirs := [{ rawDirectory := 3, rawVolume := 0, cluster := 0 }],
    files := [{ (default : FileInfo) with rawFile := 4, rawVolume := 0 }],
    maxVols := 1, maxDirs := 2, maxFiles := 1 }

example : HInv sEx := by
  refine ⟨by decide, by decide, by decide, by decide, by decide⟩
example : sEx.nextId + 1 < 2 ^ 32 := by decide
example : fileHandleOf (.read 9 1) = some 9 ∧ 9 ∉ sEx.files.map (·.rawFile) ∧ sEx.locked = false := by decide
example : dirHandleOf (.openDir 4 []) = some 4 ∧ 4 ∉ sEx.dirs.map (·.rawDirectory) ∧
    sEx.dirs.length < sEx.maxDirs := by decide
example : sEx.files.length ≥ sEx.maxFiles ∧ sEx.vols.length ≥ sEx.maxVols := by decide
example : 0 ∈ sEx.files.map (·.rawVolume) ∧ 0 ∈ sEx.vols.map (·.idx) := by decide
example : (step sEx (.openRoot 0)).2.result = .ok (.handle 5) := rfl
example : (step sEx (.closeDir 3)).2.result = .ok .unit ∧ (step sEx (.closeDir 3)).1.dirs = [] := ⟨rfl, rfl⟩
example : (step sEx (.read 3 1)).2.result = .err .BadHandle := rfl
example : (step sEx (.openFile 3 [0x41] .ReadOnly)).2.result = .err .TooManyOpenFiles := rfl
example : (step sEx (.closeVolume 0)).2.result = .err .VolumeStillInUse := rfl
example : (step { sEx with locked := true } (.closeDir 3)).2.result = .err .LockError := rfl

/-! The no-wrap hypothesis of `hinv_step` is necessary: at `nextId = 2^32 - 1` with handle 0 open, the
call still returns a distinct handle, but the counter wraps to 0, the invariant is lost, and the
next handle issued is 0 — equal to a handle that is open. -/

def sWrap : Mgr :=
  { dev := { disk := Disk.empty }, nextId := 4294967295,
    dirs := [{ rawDirectory := 0, rawVolume := 7, cluster := 0 }],
    maxVols := 1, maxDirs := 3, maxFiles := 1 }

example : HInv sWrap := by
  refine ⟨by decide, by decide, by decide, by decide, by decide⟩
example : (step sWrap (.openRoot 7)).2.result = .ok (.handle 4294967295) ∧
    (step sWrap (.openRoot 7)).1.nextId = 0 := ⟨rfl, rfl⟩
example : ¬ HInv (step sWrap (.openRoot 7)).1 := by
  intro h
  exact absurd (h.2.1 0 (by decide)) (by decide)
example : (step (step sWrap (.openRoot 7)).1 (.openRoot 7)).2.result = .ok (.handle 0) ∧
    0 ∈ handles (step sWrap (.openRoot 7)).1 := ⟨rfl, by decide⟩
example : ¬ (handles (run sWrap [.openRoot 7, .openRoot 7]).1).Nodup := by decide

end Sdmmc.Props.C08
