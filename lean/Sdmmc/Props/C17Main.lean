/-
C17 — headline theorem.

Property C17, `statement` (verbatim):
  "Feeding any sequence of 13-unit long-name fragments - any 16-bit values, including unpaired and
  split surrogates - into a name buffer of any size never panics, and the resulting string is
  always valid UTF-8: the lossy decoding of the fragments joined in name order when it fits, and
  empty when it does not. During listing a long name is reported only for a complete, correctly
  ordered fragment run whose checksum matches the short entry that follows it; otherwise the
  entry is reported with no long name, and arbitrary directory bytes never crash a listing."
`quantifier.text` (verbatim):
  "all fragment sequences (1..20 fragments of arbitrary u16 values, exhaustively over code-unit
  classes at fragment boundaries), all buffer sizes 0..=780, all orders, gaps, duplicates and
  checksum mismatches of fragment runs inside a directory"

`C17_main_partial` is ONE statement, `Clauses`, every field universally quantified: every list of
fragments (any number, not only 1..20), every buffer size (not only ≤ 780), every list of
directory slots (arbitrary 32-byte contents).

How to read it.  Model `Model/Lfn.lean` (`LfnBuffer`: `new`, `push`, `asStr`; `char::decode_utf16`
/ `encode_utf8` modelled from the standard library), `Model/Mgr.lean` (`SeqState.update`,
`lfnFold` = the closure of `iterate_dir_lfn` folded over the valid slots).  `FragOK f`: 13 units,
each below 2^16.  `pushAll` pushes the fragments in on-disk order (last part of the name first);
`nameUnits frags` = the fragments in name order, each cut at its first NUL.  `Spec.Utf`
(`Spec/Utf.lean`, trusted): `ValidUtf8`, `decodeUtf16Lossy` (unpaired surrogate ↦ U+FFFD),
`encodeUtf8`.  `OnDisk.lfnContents raw` = `some (is_start, sequence, checksum, 13 units)` iff the
slot is a long-name slot.  `fragsOf run` = those tuples for a run of long-name slots;
`C17.updateAll` folds the sequence state machine over them.

Hypotheses: `FragOK` (what a slot can hold), slots of 32 bytes (`SlotsOK`); none else.

PARTIAL — one clause:
* "the lossy decoding of the fragments joined in name order": FALSE for a name whose FIRST code
  unit is an unpaired surrogate — known finding (DESIGN.md): the buffer carries a trailing
  surrogate of the fragment pushed so far to pair it with the next, and the one left at the very
  start of the name is never emitted (no U+FFFD for it).  `exact` states what IS returned for
  EVERY input (the decoding of the name minus that one unit); `lossy_unless_leading_surrogate` is
  the sentence as worded, for every name that does not begin with an unpaired surrogate.
  Everything else is FULL: never panics, always valid UTF-8, empty when it does not fit,
  listing clauses.
* reading of the listing clause: `listing` speaks about one segment of a listing — from the
  `Waiting` state, in which the fold is at the start and after EVERY short entry, with ANY buffer
  contents, a run of long-name slots and the short entry after it; `not_inherited`: a short entry
  directly after a short entry has no long name; `entries`: exactly the short entries are
  reported, in order; `total`: arbitrary slot bytes never crash.
* `checksum`: the checksum function is the source's (`Gen.Funs.ShortFileName_csum`, `C18Gen`) and
  the specification's rotate-add.
-/
import Sdmmc.Lemmas.MainK17
import Sdmmc.Props.C18Gen

namespace Sdmmc.Props.C17Main
open Sdmmc.Model Sdmmc.Model.Lfn Sdmmc.Props.C17
open Sdmmc.Lemmas.MainK17 (fragsOf)

theorem fragsOf_def (run : List (DirEntry × Bytes)) :
    fragsOf run = run.filterMap fun e => OnDisk.lfnContents e.2 := rfl
theorem nameUnits_def (frags : List (List Nat)) :
    nameUnits frags = (frags.reverse.map fun f => f.takeWhile (· ≠ 0)).flatten := rfl
theorem fragOK_def (f : List Nat) : FragOK f ↔ f.length = 13 ∧ ∀ u ∈ f, u < 65536 := Iff.rfl

structure Clauses : Prop where
  /-- any fragments into a buffer of any size: never panics, and the string is valid UTF-8 -/
  total_valid : ∀ (size : Nat) (frags : List (List Nat)), (∀ f ∈ frags, FragOK f) →
    ∃ b, pushAll (Lfn.new (zeros size)) frags = .ok b ∧ Spec.Utf.ValidUtf8 (asStr b)
  /-- what the string is, for EVERY input: the lossy decoding of the name — minus a leading
  unpaired surrogate, if the buffer is still carrying one — when it fits, empty when it does not -/
  exact : ∀ (size : Nat) (frags : List (List Nat)), (∀ f ∈ frags, FragOK f) →
    ∃ b, pushAll (Lfn.new (zeros size)) frags = .ok b ∧
      let units := nameUnits frags
      let units' := match b.unpaired with
        | some _ => units.drop 1
        | none => units
      let text := Spec.Utf.encodeUtf8 (Spec.Utf.decodeUtf16Lossy units')
      asStr b = if text.length ≤ size then text else []
  /-- the sentence as worded, for names that do not begin with an unpaired surrogate -/
  lossy_unless_leading_surrogate : ∀ (size : Nat) (frags : List (List Nat)), (∀ f ∈ frags, FragOK f) →
    (∀ u rest, nameUnits frags = u :: rest →
      isSurrogate u = false ∨ (isHigh u = true ∧ ∃ v rest', rest = v :: rest' ∧ isLow v = true)) →
    ∃ b, pushAll (Lfn.new (zeros size)) frags = .ok b ∧
      let text := Spec.Utf.encodeUtf8 (Spec.Utf.decodeUtf16Lossy (nameUnits frags))
      asStr b = if text.length ≤ size then text else []
  /-- a long name is reported only for a complete, correctly ordered fragment run whose checksum
  matches the short entry that follows it -/
  listing : ∀ (buf : Buf) (run : List (DirEntry × Bytes)) (de : DirEntry) (raw : Bytes)
    (rest : List (DirEntry × Bytes)) (out : List (DirEntry × Option Bytes)) (name : Bytes),
    (∀ e ∈ run, (OnDisk.lfnContents e.2).isSome) → OnDisk.lfnContents raw = none →
    lfnFold .Waiting buf (run ++ (de, raw) :: rest) = .ok out → out.head? = some (de, some name) →
    ∃ buf' pre x tl, updateAll .Waiting buf (fragsOf run) = .ok (.Complete (Sfn.csum de.name), buf') ∧
      name = asStr buf' ∧ fragsOf run = pre ++ x :: tl ∧ x.1 = true ∧
      ∀ i y, (x :: tl)[i]? = some y → y.2.1 = (tl.length + 1) - i ∧ y.2.2.1 = Sfn.csum de.name
  /-- otherwise no long name: a short entry directly after a short entry has none -/
  not_inherited : ∀ (st : SeqState) (buf : Buf) (d1 d2 : DirEntry) (r1 r2 : Bytes)
    (rest : List (DirEntry × Bytes)) (out : List (DirEntry × Option Bytes)),
    OnDisk.lfnContents r1 = none → OnDisk.lfnContents r2 = none →
    lfnFold st buf ((d1, r1) :: (d2, r2) :: rest) = .ok out → ∃ n1 tl, out = (d1, n1) :: (d2, none) :: tl
  /-- the listing reports exactly the short entries, in order -/
  entries : ∀ (bufSize : Nat) (es : List (DirEntry × Bytes)) (out : List (DirEntry × Option Bytes)),
    lfnFold .Waiting (Lfn.new (zeros bufSize)) es = .ok out →
    out.map (·.1) = (es.filter fun e => (OnDisk.lfnContents e.2).isNone).map (·.1)
  /-- arbitrary directory bytes never crash a listing -/
  total : ∀ (bufSize : Nat) (es : List (DirEntry × Bytes)), SlotsOK es →
    ∃ out, lfnFold .Waiting (Lfn.new (zeros bufSize)) es = .ok out
  /-- the checksum is the source's function and the specification's rotate-add over the name bytes -/
  checksum : ∀ name : Bytes, Gen.Funs.ShortFileName_csum name = Sfn.csum name ∧
    Sfn.csum name = name.foldl (fun sum b => ((if sum % 2 = 1 then 0x80 else 0) + sum / 2 + b.toNat) % 256) 0

theorem C17_main_partial : Clauses where
  total_valid := fun size frags hf => by
    obtain ⟨b, h, hi, _⟩ := Lemmas.MainK17.pushAll_inv (Lfn.new (zeros size)) frags (new_inv _) hf
    exact ⟨b, h, as_str_valid_utf8 b hi⟩
  exact := fun size frags hf => as_str_exact size frags hf
  lossy_unless_leading_surrogate := fun size frags hf hs => as_str_eq_lossy_partial size frags hf hs
  listing := fun buf run de raw rest out name hrun hraw h hn =>
    Lemmas.MainK17.listing_segment buf run de raw rest out name hrun hraw h hn
  not_inherited := fun st buf d1 d2 r1 r2 rest out h1 h2 h => lfn_not_inherited st buf d1 d2 r1 r2 rest out h1 h2 h
  entries := fun bufSize es out h => lfn_listing_entries bufSize es out h
  total := fun bufSize es h => lfn_listing_total bufSize es h
  checksum := fun name => ⟨C18Gen.csum_eq name, csum_spec name⟩

namespace Example

def fragAB : List Nat := [0x41, 0x42, 0, 0xFFFF, 0xFFFF, 0xFFFF, 0xFFFF, 0xFFFF, 0xFFFF, 0xFFFF, 0xFFFF, 0xFFFF, 0xFFFF]
/-- a fragment that begins with an unpaired low surrogate -/
def fragBad : List Nat := [0xDC00, 0x42, 0, 0xFFFF, 0xFFFF, 0xFFFF, 0xFFFF, 0xFFFF, 0xFFFF, 0xFFFF, 0xFFFF, 0xFFFF, 0xFFFF]

example : FragOK fragAB ∧ FragOK fragBad := ⟨⟨rfl, by decide⟩, ⟨rfl, by decide⟩⟩

/-- Evaluated: "AB" fits into 40 bytes and not into 1. -/
example : (match pushAll (Lfn.new (zeros 40)) [fragAB] with | .ok b => asStr b | _ => []) = [0x41, 0x42] := by
  decide +kernel
example : (match pushAll (Lfn.new (zeros 1)) [fragAB] with | .ok b => asStr b | _ => [0]) = [] := by decide +kernel

/-- The excluded point, evaluated on the model: a leading unpaired surrogate — high or low — is
dropped (the lossy decoding would start with U+FFFD = EF BF BD). -/
example : (match pushAll (Lfn.new (zeros 40))
      [[0xD800, 0x42, 0, 0xFFFF, 0xFFFF, 0xFFFF, 0xFFFF, 0xFFFF, 0xFFFF, 0xFFFF, 0xFFFF, 0xFFFF, 0xFFFF]] with
    | .ok b => asStr b | _ => []) = [0x42] := by decide +kernel
example : (match pushAll (Lfn.new (zeros 40)) [fragBad] with | .ok b => asStr b | _ => []) = [0x42] := by
  decide +kernel
example : Spec.Utf.encodeUtf8 (Spec.Utf.decodeUtf16Lossy (nameUnits [fragBad])) = [0xEF, 0xBF, 0xBD, 0x42] := by
  decide +kernel

end Example

end Sdmmc.Props.C17Main
