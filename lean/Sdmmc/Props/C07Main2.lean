/-
C07 — HEADLINE THEOREM, second version: the decision table stated DIRECTLY ON REACHABLE STATES — the directory lookup the
calls start with is no longer an opaque term, it is the lookup of the byte-array file system.

PROPERTY (verbatim from `properties.jsonl`).
statement:
  "Each open mode does what its documentation says for both existing and missing names: read-only handles reject
  writes, create fails on an existing name, truncate empties, append starts at the end, and the create-or variants
  pick the right one. Files carrying the read-only attribute cannot be opened for writing, a directory cannot be
  opened or deleted as a file nor a file opened as a directory, a missing name is reported as not found, and an open
  file can neither be opened again nor deleted; a refused call changes nothing on the medium."
quantifier:
  "all six modes x {missing, existing file, read-only file, directory, already-open file} x all valid and invalid
  8.3 names, at any point of any history"

WHAT CHANGED AGAINST `Props/C07Main.lean`.  `C07_main` there has two layers: `Decisions` — what `open_file_in_dir`,
`delete_file_in_dir`, `open_dir`, `make_dir_in_dir` DECIDE as a function of the outcome of their directory lookup
`lookup vi dir sfn s` (`Props/C07.lean`: `withVol vi (Fat.findDirectoryEntry dir.cluster sfn)`, never unfolded), under the
concrete hypothesis `DirCtx s d name dir vi sfn`; and `Outcomes` — what the calls do on the byte-array model (C01).  The two
layers were not joined: nothing said WHAT the lookup answers.  Here (`Lemmas/MainLookup.lean`, extracted from the refinement
proof of `Props.C01Fs`):
* `lookup_is_abstract`: under the volume invariant, with `a` the abstract counterpart of `s`, the lookup answers `NotFound`
  exactly when the abstract lookup `Spec.AbsFs.lookup (a.slots dir) sfn` finds nothing, and otherwise the DECODED SLOT
  (`Lemmas.Listing.decode`: name, attribute byte, size, START CLUSTER, entry position — `decoded_fields`) at the index the
  abstract lookup gives, whose abstract reading is the abstract slot there; and it leaves the state alone up to device
  bookkeeping and cache;
* `dirCtx_concrete`: `DirCtx` FOLLOWS from the abstract side — "`d` is an open directory handle of an open volume and `name`
  has the 8.3 form `sfn`" (`Spec.AbsFs.dirCtx a d name = .ok (od, sfn)`).
So `C07_main2` needs no `DirCtx` hypothesis: from `VolInv s gh` (C03's invariant: every reachable state), `Abs s gh a`
(exists: `Props.C01Fs.abs_exists`) and the abstract `dirCtx`, it gives the record `dir`, `DirCtx`, the lookup's answer
(`Answer`), and the whole `Decisions` table of `C07Main` for that `dir` — every cell of which is now a statement about a
lookup outcome that is KNOWN from the abstract directory.

HOW TO READ `Answer ft cont ss view sfn r` (`answer_def`): `ss` the abstract slots of the directory, `view` its on-disk slots
before the end marker, `r` the lookup's answer: EITHER `Spec.AbsFs.lookup ss sfn = none` and `r = NotFound`, OR for some index
`j` and slot `o`: `Spec.AbsFs.lookup ss sfn = some j`, `view[j]? = some o`, `ss[j]? = some (absSlot ft cont o)` (`.file m bytes`
for a file entry, `.dir m target` for a directory entry: `Lemmas/AbsFsBase.lean`), `o` is a live short entry named `sfn`,
and `r = Ok (decode ft o)`.

STATUS: FULL — `C07Main`'s verdict stands (its `Others` and `Outcomes` layers and the source tie `Props/C07GenM.lean` are
unchanged and not repeated here); this file removes its one opaque term.  One open volume (`VolInv`), fault-free device.
-/
import Sdmmc.Lemmas.MainLookup
import Sdmmc.Props.C07Main

namespace Sdmmc.Props.C07Main2
open Sdmmc.Model Sdmmc.Model.Fat Sdmmc.Spec.Volume
open Sdmmc.Spec hiding run step NoFault Coherent
open Sdmmc.Props.C07 (DirCtx lookup)
open Sdmmc.Props.C07Main (Decisions)
open Sdmmc.Lemmas.AbsFs (Abs AState absDir absSlot ASlot contOf DirView)
open Sdmmc.Lemmas.VolApi (afterVol)
open Sdmmc.Lemmas.MainLookup (Answer)

theorem answer_def (ft : FatType) (cont : Slot → Bytes) (ss : List ASlot) (view : List Slot) (sfn : Bytes) (r : Res DirEntry) :
    Answer ft cont ss view sfn r ↔
      (Spec.AbsFs.lookup ss sfn = none ∧ r = .err .NotFound) ∨
      ∃ j o, Spec.AbsFs.lookup ss sfn = some j ∧ view[j]? = some o ∧ ss[j]? = some (absSlot ft cont o) ∧
        Lemmas.VolBase.keep o = true ∧ sName o = sfn ∧ r = .ok (Lemmas.Listing.decode ft o) := Iff.rfl

/-- What the decoded slot carries: name, attribute byte, size, entry position, and the START CLUSTER (the root marker
`0xFFFFFFFC` for a directory entry whose cluster field is 0: `..` of a first-level directory). -/
theorem decoded_fields (ft : FatType) (o : Slot) :
    (Lemmas.Listing.decode ft o).name = sName o ∧ (Lemmas.Listing.decode ft o).attributes = sAttr o ∧
    (Lemmas.Listing.decode ft o).size = sSize o ∧ (Lemmas.Listing.decode ft o).entryBlock = o.1 ∧
    (Lemmas.Listing.decode ft o).entryOffset = o.2.1 ∧
    (Lemmas.Listing.decode ft o).cluster = (if sCluster ft o = 0 ∧ sAttr o / 16 % 2 = 1 then 0xFFFFFFFC else sCluster ft o) :=
  Lemmas.VolDisk.decode_fields ft o

/-- **`lookup_is_abstract`** (see the header; `Lemmas/MainLookup.lean`). -/
theorem lookup_is_abstract {s : Mgr} {gh : Ghost} {a : AState} (hI : VolInv s gh) (hA : Abs s gh a) {d : Nat}
    {name : List Nat} {dir : DirInfo} {vi : Nat} {sfn : Bytes} (hc : DirCtx s d name dir vi sfn) :
    Spec.AbsFs.dirCtx a d name = .ok (absDir dir, sfn) ∧ (absDir dir).dir = dirIdOf dir.cluster ∧
    dirIdOf dir.cluster ∈ dirIds gh.dirs ∧
    ∃ (vrec : VolInfo) (fs' : FS), s.vols = [vrec] ∧ vi = 0 ∧ vrec.vol = gh.vol ∧ vrec.rawVolume = dir.rawVolume ∧
      (lookup vi dir sfn s).2 = afterVol s vrec fs' ∧ (afterVol s vrec fs').dev.disk = s.dev.disk ∧
      VolInv (afterVol s vrec fs') gh ∧ Abs (afterVol s vrec fs') gh a ∧
      Answer gh.vol.fatType (contOf (afterVol s vrec fs') gh) (a.slots (dirIdOf dir.cluster))
        (DirView s gh (dirIdOf dir.cluster)) sfn (lookup vi dir sfn s).1 :=
  Lemmas.MainLookup.lookup_is_abstract hI hA hc

/-- **C07 on reachable states.**  See the header. -/
theorem C07_main2 {s : Mgr} {gh : Ghost} {a : AState} (hI : VolInv s gh) (hA : Abs s gh a) (d : Nat) (name : List Nat)
    (od : Spec.AbsFs.OpenDir) (sfn : Bytes) (hctx : Spec.AbsFs.dirCtx a d name = .ok (od, sfn)) :
    ∃ dir : DirInfo,
      -- the concrete context, discharged
      DirCtx s d name dir 0 sfn ∧ od = absDir dir ∧ od.dir = dirIdOf dir.cluster ∧
      -- the lookup IS the abstract lookup, and leaves the state alone
      (∃ (vrec : VolInfo) (fs' : FS), s.vols = [vrec] ∧ vrec.vol = gh.vol ∧
        (lookup 0 dir sfn s).2 = afterVol s vrec fs' ∧ (afterVol s vrec fs').dev.disk = s.dev.disk ∧
        VolInv (afterVol s vrec fs') gh ∧ Abs (afterVol s vrec fs') gh a ∧
        Answer gh.vol.fatType (contOf (afterVol s vrec fs') gh) (a.slots od.dir) (DirView s gh od.dir) sfn
          (lookup 0 dir sfn s).1) ∧
      -- the decision table of `Props.C07Main`, every cell about that lookup
      Decisions s d name dir 0 sfn := by
  obtain ⟨dir, hc, hod⟩ := Lemmas.MainLookup.dirCtx_concrete hI hA hctx
  obtain ⟨_, h2, _, vrec, fs', h4, _, h6, _, h8, h9, h10, h11, h12⟩ := Lemmas.MainLookup.lookup_is_abstract hI hA hc
  subst hod
  exact ⟨dir, hc, rfl, h2, ⟨vrec, fs', h4, h6, h8, h9, h10, h11, h12⟩, C07Main.C07_main.1 s d name dir 0 sfn hc⟩

/-- Consequence, in the words of the sentence: "a missing name is reported as not found" — if the abstract directory has no
entry of that name, the lookup answers `NotFound`, hence (`Decisions.open_refusals`) the three non-creating modes answer
`NotFound`, and nothing is written. -/
theorem missing_name_not_found {s : Mgr} {gh : Ghost} {a : AState} (hI : VolInv s gh) (hA : Abs s gh a) (d : Nat)
    (name : List Nat) (od : Spec.AbsFs.OpenDir) (sfn : Bytes) (hctx : Spec.AbsFs.dirCtx a d name = .ok (od, sfn))
    (hmiss : Spec.AbsFs.lookup (a.slots od.dir) sfn = none) :
    ∃ dir, DirCtx s d name dir 0 sfn ∧ (lookup 0 dir sfn s).1 = .err .NotFound := by
  obtain ⟨dir, hc, _, _, ⟨_, _, _, _, _, _, _, _, hans⟩, _⟩ := C07_main2 hI hA d name od sfn hctx
  refine ⟨dir, hc, ?_⟩
  rcases hans with ⟨_, hr⟩ | ⟨j, _, hj, _⟩
  · exact hr
  · rw [hmiss] at hj; cases hj

/-! ### Non-vacuity -/

namespace Example
open Sdmmc.Lemmas.VolExample

/-- The name `A.TXT` through the root-directory handle 2 of the quiescent FAT16 example state `mgr1` (`Lemmas/VolExample.lean`:
invariant `mgr1_inv`): the concrete context holds by computation … -/
theorem ctxA : DirCtx mgr1 2 [65, 46, 84, 88, 84] { rawDirectory := 2, rawVolume := 1, cluster := Gen.CLUSTER_ROOT_DIR } 0
    [65, 32, 32, 32, 32, 32, 32, 32, 84, 88, 84] := ⟨⟨0, by decide, by decide⟩, by decide, by decide⟩

/-- … so for every abstract counterpart `a` (one exists: `Props.C01Fs.abs_exists`) the abstract context holds
(`lookup_is_abstract`, first clause) and `C07_main2` applies: the lookup of `A.TXT` is the abstract lookup, and the decision
table speaks about it. -/
example : ∃ a, Abs mgr1 gh1 a := C01Fs.abs_exists mgr1_inv

example (a : AState) (hA : Abs mgr1 gh1 a) :=
  C07_main2 mgr1_inv hA 2 [65, 46, 84, 88, 84] _ _ (lookup_is_abstract mgr1_inv hA ctxA).1

end Example

end Sdmmc.Props.C07Main2
