/-
C18, tie to the source text (whole functions of filesystem/filename.rs): `ShortFileName::create_from_str` — the
special cases `..`, `.` and the empty string, the `for ch in name.chars()` loop with its `match` on the character (the
invalid characters, everything above U+00FF, the period and where it may stand, the 8 / 3 limits, `to_ascii_uppercase`),
the empty-name check and the 0xE5 → 0x05 substitution of fix 7e19da9 —, `parent_dir`, `this_dir`, `base_name`,
`extension`, `impl Display` (with the 0x05 → 0xE5 substitution on the way out and the width padding), as machine-translated from the source into `Sdmmc.Gen.FunsName` (tools/translate_name.py), are EQUAL to
the hand-written model `Model/Name.lean`, for EVERY input.  An edit of the Rust function changes the definition in
`Gen/FunsName.lean` and the equality no longer checks.  (`csum` is tied in `Props/C18Gen`.)

**The encoding map.**  A Rust `&str` is read through `name.chars()`: the list of its Unicode scalar values.  The
generated function and the model both take that list (`List Nat`); `strPoints` is the map from a Lean `String`
(`s.toList.map Char.toNat`), and `create_from_string_eq` states the theorem for strings.  The result is the 11 bytes of
`ShortFileName::contents` (ISO-8859-1: a scalar value up to U+00FF is its byte); the generated function can in
principle panic (index / overflow checks are emitted where they stand) — the equality shows it never does
(`ofExcept` has no panic case).

There is no `create_from_str_mixed_case` in this version of the crate (only `create_from_str`).
-/
import Sdmmc.Lemmas.GenName

namespace Sdmmc.Props.C18GenM
open Sdmmc.Model Sdmmc.Gen Sdmmc.Gen.FunsName
open Sdmmc.Lemmas.GenName (ofExcept)

/-- `name.chars()` of a string: its Unicode scalar values. -/
def strPoints (s : String) : List Nat := s.toList.map Char.toNat

theorem parent_dir_eq : ShortFileName_parent_dir = Sfn.parentDir := Lemmas.GenName.parent_dir_eq
theorem this_dir_eq : ShortFileName_this_dir = Sfn.thisDir := Lemmas.GenName.this_dir_eq

/-- The `for ch in name.chars()` loop is the model's `loop` (what it hands on: `idx` and the contents). -/
theorem create_from_str_loop_eq (chars : List Nat) (idx : Nat) (seenDot : Bool) (sfn : Bytes) :
    ShortFileName_create_from_str_loop1 chars idx seenDot sfn =
      ofExcept ((Sfn.loop { contents := sfn, idx := idx, seenDot := seenDot } chars).map fun st => (st.idx, st.contents)) :=
  Lemmas.GenName.loop_eq chars idx seenDot sfn

/-- **`ShortFileName::create_from_str`** equals the model's `createFromStr`, for every list of scalar values. -/
theorem create_from_str_eq (name : List Nat) :
    ShortFileName_create_from_str name = ofExcept (Sfn.createFromStr name) := Lemmas.GenName.create_from_str_eq name

/-- … and for every string. -/
theorem create_from_string_eq (s : String) :
    ShortFileName_create_from_str (strPoints s) = ofExcept (Sfn.createFromStr (strPoints s)) :=
  create_from_str_eq _

/-- It never panics. -/
theorem create_from_str_no_panic (name : List Nat) (msg : String) : ShortFileName_create_from_str name ≠ NRes.panic msg := by
  rw [create_from_str_eq]
  cases Sfn.createFromStr name <;> intro h <;> cases h

/-- `base_name` / `extension`: the bytes of the first 8 / the last 3 before the first space. -/
theorem base_name_eq (contents : Bytes) :
    ShortFileName_base_name contents = (contents.take 8).takeWhile (fun b => decide (b.toNat ≠ 32)) := rfl
theorem extension_eq (contents : Bytes) :
    ShortFileName_extension contents = (contents.drop 8).takeWhile (fun b => decide (b.toNat ≠ 32)) := rfl

/-! ### `impl Display for ShortFileName` -/

/-- The formatter as far as `Display` uses it: the characters written so far (scalar values), `width` and `fill` of the
format specification (`Gen.FunsName.Fmt`, a binding of the translator: `write!` appends and never fails). -/
theorem fmt_write_def (f : Fmt) (cs : List Nat) : f.write cs = { f with out := f.out ++ cs } := rfl

/-- The print loop, from the first byte on (0x05 there is shown as 0xE5: the model's `kanjiShow`), with the number of
characters printed. -/
theorem display_loop_eq (contents : Bytes) (f : Fmt) (hl : 2 * contents.length < 4294967296) :
    ShortFileName_fmt_loop1 contents 0 f 0 = pure (f.write (Sfn.display contents), (Sfn.display contents).length) :=
  Lemmas.GenName.fmt_loop_zero contents f hl

/-- **`impl Display for ShortFileName`**: the model's `display` is appended to the output, then `fill` up to the
`width` of the format specification, if there is one (`Lemmas.GenName.padding`).  The hypothesis holds for the 11 bytes
of a `ShortFileName` (it only keeps the `printed` counter from overflowing). -/
theorem display_eq (contents : Bytes) (f : Fmt) (hl : 2 * contents.length < 4294967296) :
    ShortFileName_fmt contents f =
      pure (f.write (Sfn.display contents ++ Lemmas.GenName.padding f (Sfn.display contents).length)) :=
  Lemmas.GenName.fmt_eq contents f hl

/-- Without a width: exactly the model's `display`. -/
theorem display_plain_eq (contents : Bytes) (out : List Nat) (fill : Nat) (hl : 2 * contents.length < 4294967296) :
    ShortFileName_fmt contents { out := out, width := none, fill := fill } =
      pure { out := out ++ Sfn.display contents, width := none, fill := fill } := by
  rw [display_eq contents _ hl]
  simp [Lemmas.GenName.padding, Fmt.write]

namespace Example
def okOf {α : Type} : N α → Option α
  | NRes.ok a => some a
  | _ => none
def errOf {α : Type} : N α → Option FnErr
  | NRes.err e => some e
  | _ => none

/-- Evaluated on the generated function: `hello.txt`, the second period of `a.b.c` (the seeded change C18), the
upper-casing of ASCII only (`é` stays `é`: the seeded change C18b), a name that starts with U+00E5 (stored as 0x05),
too long, empty, an invalid character. -/
example : okOf (ShortFileName_create_from_str (strPoints "hello.txt")) = some (("HELLO   TXT".toList.map fun c => UInt8.ofNat c.toNat)) ∧
    errOf (ShortFileName_create_from_str (strPoints "a.b.c")) = some FnErr.MisplacedPeriod ∧
    okOf (ShortFileName_create_from_str [0xE9]) = some (UInt8.ofNat 0xE9 :: List.replicate 10 (UInt8.ofNat 32)) ∧
    okOf (ShortFileName_create_from_str [0xE5, 0x41]) = some (UInt8.ofNat 0x05 :: UInt8.ofNat 0x41 :: List.replicate 9 (UInt8.ofNat 32)) ∧
    errOf (ShortFileName_create_from_str (strPoints "123456789")) = some FnErr.NameTooLong ∧
    errOf (ShortFileName_create_from_str (strPoints "a b")) = some FnErr.InvalidCharacter ∧
    okOf (ShortFileName_create_from_str (strPoints "..")) = some Sfn.parentDir ∧
    ShortFileName_base_name ("HELLO   TXT".toList.map fun c => UInt8.ofNat c.toNat) = "HELLO".toList.map (fun c => UInt8.ofNat c.toNat) ∧
    ShortFileName_extension ("HELLO   TXT".toList.map fun c => UInt8.ofNat c.toNat) = "TXT".toList.map (fun c => UInt8.ofNat c.toNat) := by
  decide +kernel

/-- Evaluated: `{}` of `HELLO   TXT` is "HELLO.TXT"; a first byte 0x05 is shown as U+00E5; `{:12}` pads with the fill
character. -/
example :
    (okOf (ShortFileName_fmt ("HELLO   TXT".toList.map fun c => UInt8.ofNat c.toNat) { out := [], width := none, fill := 32 })).map (·.out)
      = some ("HELLO.TXT".toList.map Char.toNat) ∧
    (okOf (ShortFileName_fmt (UInt8.ofNat 5 :: ("A         ".toList.map fun c => UInt8.ofNat c.toNat)) { out := [], width := none, fill := 32 })).map (·.out)
      = some [0xE5, 0x41] ∧
    (okOf (ShortFileName_fmt ("HELLO   TXT".toList.map fun c => UInt8.ofNat c.toNat) { out := [], width := some 12, fill := 42 })).map (·.out)
      = some ("HELLO.TXT***".toList.map Char.toNat) := by
  decide +kernel
end Example

end Sdmmc.Props.C18GenM
