/-
C19 — CRC-7 and CRC-16 equal the SD specification's polynomials for every message.

Property theorems only; all helper lemmas live in `Sdmmc.Lemmas.Crc`.
Model: `Sdmmc.Model.crc7`, `Sdmmc.Model.crc16` (mirror /repo/src/sdcard/proto.rs, literals
regenerated from the source).  Spec: `Sdmmc.Spec.specCrc7`, `Sdmmc.Spec.specCrc16`
(GF(2) long division).
-/
import Sdmmc.Lemmas.Crc

namespace Sdmmc.Props.C19
open Sdmmc.Model Sdmmc.Spec

/-- For every byte string the data checksum is the remainder of `m(x)·x^16` modulo
`x^16+x^12+x^5+1`, initial value zero. -/
theorem crc16_eq_rem (m : List (BitVec 8)) : crc16 m = specCrc16 m :=
  Lemmas.Crc.crc16_eq_spec m

/-- For every byte string the command checksum is the remainder of `m(x)·x^7` modulo
`x^7+x^3+1`, shifted left with the end bit set. -/
theorem crc7_eq_rem (m : List (BitVec 8)) : crc7 m = specCrc7 m :=
  Lemmas.Crc.crc7_eq_spec m

/-- Appending the big-endian checksum to a message gives a message whose checksum is zero. -/
theorem crc16_append_self (m : List (BitVec 8)) :
    crc16 (m ++ [(crc16 m).extractLsb' 8 8, (crc16 m).extractLsb' 0 8]) = 0#16 :=
  Lemmas.Crc.crc16_append_self m

/-- The checksum is GF(2)-linear on messages of equal length. -/
theorem crc16_xor (a b : List (BitVec 8)) (h : a.length = b.length) :
    crc16 (xorMsg a b) = crc16 a ^^^ crc16 b :=
  Lemmas.Crc.crc16_xor a b h

/-- Every burst of up to 16 bits (first and last bit of the burst set, anything in between)
anywhere inside a 512-byte block changes the data checksum.  Single-bit errors are the
bursts of length 1. -/
theorem crc16_detects_burst16 (m : List (BitVec 8)) (hm : m.length = 512)
    (off : Nat) (bits : List Bool) (hne : bits ≠ []) (hlen : bits.length ≤ 16)
    (hfirst : bits.head? = some true) (hfit : off + bits.length ≤ 4096) :
    crc16 (xorMsg m (errPattern 512 off bits)) ≠ crc16 m :=
  Lemmas.Crc.crc16_detects_burst16 m hm off bits hne hlen hfirst hfit

/-- Every single-bit error in a 512-byte block changes the data checksum. -/
theorem crc16_detects_single (m : List (BitVec 8)) (hm : m.length = 512) (off : Nat) (h : off < 4096) :
    crc16 (xorMsg m (errPattern 512 off [true])) ≠ crc16 m :=
  Lemmas.Crc.crc16_detects_burst16 m hm off [true] (by simp) (by simp) (by simp) (by simp; omega)

/-- Every double-bit error in a 512-byte block changes the data checksum. -/
theorem crc16_detects_double (m : List (BitVec 8)) (hm : m.length = 512)
    (i j : Nat) (hij : i < j) (hj : j < 4096) :
    crc16 (xorMsg m (errPattern 512 i (true :: List.replicate (j - i - 1) false ++ [true]))) ≠ crc16 m :=
  Lemmas.Crc.crc16_detects_double m hm i j hij hj

/-- The same detection statement on the wire format used by the driver (C13): a received
frame `block ++ crcHi ++ crcLo` whose payload and CRC bytes differ from a consistent frame
by a burst of at most 16 bits (anywhere in the 4112 bits) is not consistent. -/
theorem crc16_frame_burst_detected (m : List (BitVec 8)) (hm : m.length = 512)
    (off : Nat) (bits : List Bool) (hne : bits ≠ []) (hlen : bits.length ≤ 16)
    (hfirst : bits.head? = some true) (hfit : off + bits.length ≤ 4112) :
    crc16 (xorMsg (m ++ [(crc16 m).extractLsb' 8 8, (crc16 m).extractLsb' 0 8])
      (errPattern 514 off bits)) ≠ 0#16 :=
  Lemmas.Crc.crc16_frame_burst_detected m hm off bits hne hlen hfirst hfit

/-! Non-vacuity: concrete instances of the hypotheses (these are tests, labelled as tests). -/

example : crc16 [0x00,0x26,0x00,0x32,0x5F,0x5A,0x83,0xAE,0xFE,0xFB,0xCF,0xFF,0x92,0x80,0x40,0xDF] = 0x9fc5#16 := by
  decide +kernel
example : crc7 [0x00,0x26,0x00,0x32,0x5F,0x59,0x83,0xC8,0xAD,0xDB,0xCF,0xFF,0xD2,0x40,0x40] = 0xA5#8 := by
  decide +kernel
example : (List.replicate 512 (0xA5#8)).length = 512 ∧ ([true, false, true] : List Bool) ≠ [] ∧
    [true, false, true].head? = some true ∧ 4000 + [true, false, true].length ≤ 4096 := by decide +kernel

end Sdmmc.Props.C19
