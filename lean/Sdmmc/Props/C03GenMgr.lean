/-
C03 (creating a directory), tie to the source text, manager level: `VolumeManager::make_dir_in_dir` (volume_mgr.rs),
machine-translated by tools/translate_mgr2.py into `Sdmmc.Gen.FunsMgr2`, is the hand-written `Model.makeDirInDir` as a
function `Mgr → Res Unit × Mgr` on every state: with the `RefCell` free the model's function, with it borrowed
`LockError` and nothing touched.

What the translation has to get right: the load-bearing `is_full()` check FIRST (before the handle is looked up); the
look-up of the name kept as a `Result` and matched — `Ok(dir)` ⇒ `DirAlreadyExists`, `Ok(file)` ⇒ `FileAlreadyExists`,
`Err(NotFound)` ⇒ go on, any other `Err(e)` ⇒ `e`; `make_dir` with the attribute `DIRECTORY` and the clock.

The FAT-level calls (`Fat.findDirectoryEntry`, `Fat.makeDir`) are bindings to the model, tied to the Rust text by
`Props/C06GenM.lean` and `Props/C09GenM.lean`.  Proof: `Sdmmc.Lemmas.GenMgr2`.
-/
import Sdmmc.Lemmas.GenMgr2
import Sdmmc.Props.C08Wrap

namespace Sdmmc.Props.C03GenMgr

open Sdmmc Sdmmc.Model Sdmmc.Gen

/-- `make_dir_in_dir(directory, name)`. -/
theorem make_dir_in_dir_eq (directory : Nat) (name : List Nat) (s : Mgr) :
    FunsMgr2.VolumeManager_make_dir_in_dir directory name s =
      if s.locked then (.err .LockError, s) else makeDirInDir directory name s :=
  Lemmas.GenMgr2.make_dir_in_dir_eq directory name s

/-! ### Evaluated examples -/

namespace Example
open Sdmmc.Props.C01Read.Example Sdmmc.Props.C08Wrap.Example

/-- The TRANSLATION computes, on the manager of `Props/C08Wrap.lean` (root directory holding `SUB`): `mkdir("SUB")` is
`DirAlreadyExists`; with the directory table full it is `TooManyOpenDirs` even for a handle that is not open (the check
comes first), with room such a handle is `BadHandle`; an invalid name is refused; borrowed: `LockError`. -/
example : (FunsMgr2.VolumeManager_make_dir_in_dir 4 [83, 85, 66] mgrD).1 = .err .DirAlreadyExists ∧
    (FunsMgr2.VolumeManager_make_dir_in_dir 9 [65] { mgrD with maxDirs := 2 }).1 = .err .TooManyOpenDirs ∧
    (FunsMgr2.VolumeManager_make_dir_in_dir 9 [65] mgrD).1 = .err .BadHandle ∧
    (FunsMgr2.VolumeManager_make_dir_in_dir 4 [] mgrD).1 = (makeDirInDir 4 [] mgrD).1 ∧
    (FunsMgr2.VolumeManager_make_dir_in_dir 4 [65] { mgrD with locked := true }).1 = .err .LockError := by
  refine ⟨?_, ?_, ?_, ?_, ?_⟩ <;> decide +kernel

/-- A new name: the directory is made; afterwards the TRANSLATION of `find_directory_entry` finds it, as a directory. -/
example : (FunsMgr2.VolumeManager_make_dir_in_dir 4 [65] mgrD).1 = .ok () ∧
    (match (FunsMgr2.VolumeManager_find_directory_entry 4 [65] (FunsMgr2.VolumeManager_make_dir_in_dir 4 [65] mgrD).2).1 with
     | .ok e => Attr.isDirectory e.attributes | _ => false) = true := by
  refine ⟨?_, ?_⟩ <;> decide +kernel

end Example

end Sdmmc.Props.C03GenMgr
