/-
C11 over HISTORIES UNDER FAULTS, ARBITRARY PLACEMENT — continuation of `Props/C11HistT.lean`: HISTORIES THAT GO ON AFTER A
DEVICE FAILURE INSIDE A TRUNCATING `open_file_in_dir`, with NO hypothesis on where device calls fail.

`Props/C11HistT` proved the invariant along every history up to and including the FIRST failure inside a truncation, and
the weak `FaultInvE` right after it; what calls do from there was open, because the whole C03 stack is stated from an
invariant whose clause `TreeOK.sizes` is at the true bytes per cluster, and a failed truncation leaves ONE closed file
whose entry stores more than its cut chain holds (a DAMAGED entry).

HERE the stack is restated from the invariant WITH SIZE SLACK (`VolInvS k`, `Spec/VolumeSlack.lean`): `VolInvL` with the one
clause `sizes` taken at `bytes per cluster + k`; everything else kept, in particular `FileOK` — `size_fits` at the TRUE
cluster size — of every OPEN file, which the weak invariant `FaultInv` gives up.  (Mechanically: `tools/gend.py` restates
the ~110 files `Lemmas/Vol*`, `VolX*`, `FaultX*`, `AbsX*` into `Lemmas/VolD*`, `FaultD*`, `AbsD*` with the extra parameter;
the only place where the proofs USE the upper bound of `sizes` is where an existing entry is opened and its stored size
handed out as the record's size — `med_open`.)

RESULT.  From `VolInvSE k` (with `EntriesNotAhead`), EVERY covered call under EVERY schedule, WHATEVER device call fails —
inside a truncating open too — leaves `VolInvSE k'` for some `k' ≥ k` (`call_under_any_fault_D`), and so along every
covered history (`history_under_faults_D_partial`) — PROVIDED no call is an `open_file_in_dir` in a mode that KEEPS the
stored size (`ReadOnly`, `ReadWriteAppend`, `ReadWriteCreateOrAppend`) naming a closed file with a damaged entry
(`NotDamagedOpen`, read off the medium alone).  All other calls are unrestricted: truncating the damaged file again,
deleting it, everything on other files and directories, `close_volume`; and the side condition is VOID as long as no
truncation failed (`notDamaged_without_slack`: `VolInvS 0 = VolInvL` implies it for every call), so
`C11HistE.history_under_faults_E_partial` is the special case.  A failed truncation raises the slack
(`(n + 1) × (bytes per cluster + k)` for a chain of `n + 1` clusters); nothing lowers it in the statement (repairing
calls do on the medium, `Example.opsD_invariant`: slack 0 again after the successful truncation).

WHY STILL `_partial` (TARGET `history_under_faults`: `FaultInvE` after EVERY prefix of EVERY covered history).  The one
remaining exclusion is the size-keeping open of a damaged file: it succeeds and hands out a record whose size exceeds its
chain (`FileOK.size_fits` fails, `Example.damaged_reopen_excluded`; only `FaultInv` holds), and calls on THAT handle from
there are not covered by any restated lemma (evaluated in `Props/C11HistT.Example`: reads crossing the chain end answer
`EndOfFile`, an append re-extends the chain; no panic, `FaultInv` kept).
NO RESIDUE BREAKING A CLAUSE OF C11 ITSELF WAS FOUND.
-/
import Sdmmc.Spec.VolumeSlack
import Sdmmc.Lemmas.FaultDSpec
import Sdmmc.Props.C11HistT

namespace Sdmmc.Props.C11HistD
open Sdmmc.Model Sdmmc.Model.Fat Sdmmc.Spec.Volume
open Sdmmc.Spec hiding run step NoFault Coherent
open Sdmmc.Props.C11Inv (withFaults Covered retryOp NameOK)
open Sdmmc.Props.C11Hist (CoveredRun Exhausted)

/-! ### The invariant with slack against the others -/

/-- Without slack it is the invariant up to the schedule and lost chains. -/
theorem volInvS_zero {s : Mgr} {gh : Ghost} {X : List (List Nat)} : VolInvS 0 s gh X ↔ VolInvL s gh X :=
  Lemmas.VolD.volInvS_zero

theorem volInvSE_zero {s : Mgr} {gh : Ghost} {X : List (List Nat)} : VolInvSE 0 s gh X ↔ VolInvLE s gh X :=
  ⟨fun h => ⟨volInvS_zero.1 h.inv, h.entries⟩, fun h => ⟨volInvS_zero.2 h.inv, h.entries⟩⟩

/-- More slack is weaker. -/
theorem volInvSE_mono {k k' : Nat} (h : k ≤ k') {s : Mgr} {gh : Ghost} {X : List (List Nat)} (hI : VolInvSE k s gh X) :
    VolInvSE k' s gh X :=
  ⟨Lemmas.VolD.volInvS_mono h hI.inv, hI.entries⟩

/-- With any slack it implies the weak invariant. -/
theorem faultInvE_of_volInvSE {k : Nat} {s : Mgr} {gh : Ghost} {X : List (List Nat)} (hI : VolInvSE k s gh X) :
    FaultInvE s gh X :=
  ⟨Lemmas.VolD.faultInv_of_volInvS hI.inv, hI.entries⟩

/-- A state with the invariant and `EntriesNotAhead`, given any schedule. -/
theorem volInvSE_withFaults {s0 : Mgr} {gh : Ghost} (hI : VolInv s0 gh) (hE : EntriesNotAhead s0) (L : List Nat) :
    VolInvSE 0 (withFaults L s0) gh [] :=
  volInvSE_zero.2 (C11HistE.volInvLE_withFaults hI hE L)

/-! ### The side condition -/

/-- **Without slack no closed file is damaged: every call satisfies the side condition.** -/
theorem notDamaged_without_slack {s : Mgr} {gh : Ghost} {X : List (List Nat)} (hI : VolInvS 0 s gh X) (op : Op) :
    NotDamagedOpen s op := by
  have h := Lemmas.VolD.notDamaged_of_zero (Lemmas.VolD.volInvS_iff.1 hI) op
  cases op <;> exact h

/-- Every call but a size-keeping `open_file_in_dir` satisfies it. -/
theorem notDamaged_of_other {s : Mgr} {op : Op} (h : ∀ d name mode, op = .openFile d name mode → keepsSize mode = false) :
    NotDamagedOpen s op := by
  cases op with
  | openFile d name mode =>
    intro hk
    rw [h d name mode rfl] at hk
    cases hk
  | _ => trivial

/-! ### One call, any placement, from any slack -/

/-- **`call_under_any_fault_D`.**  From `VolInvSE k`, ONE covered call under whatever is scheduled, WHATEVER device call
fails: `VolInvSE k'` holds again — for some `k' ≥ k`, a ghost of the same geometry and some lost chains —, and the call
answers `Ok` or an error.  Side condition: the call is not a size-keeping open of a closed damaged file. -/
theorem call_under_any_fault_D {k : Nat} {s : Mgr} {gh : Ghost} {X : List (List Nat)} (hI : VolInvSE k s gh X) (op : Op)
    (hc : Covered s op) (hn : NotDamagedOpen s op) :
    (∃ k' gh' X', k ≤ k' ∧ VolInvSE k' (step s op).1 gh' X' ∧ SameGeom gh.vol gh'.vol) ∧ Clean (step s op).2.result := by
  obtain ⟨⟨k', hle, h1⟩, h2⟩ := Lemmas.VolD.step_outD (Lemmas.VolD.invFE_iffD.2 ⟨gh, X, hI, SameGeom.refl _⟩) op
    ((C11Inv.covered_iff s op).1 hc) hn
  obtain ⟨gh', X', h3, h4⟩ := Lemmas.VolD.invFE_iffD.1 h1
  exact ⟨⟨k', gh', X', hle, h3, h4⟩, h2⟩

/-- **A truncating `open_file_in_dir` under any fault, from any slack**: no side condition. -/
theorem open_truncate_under_any_fault_D {k : Nat} {s : Mgr} {gh : Ghost} {X : List (List Nat)} (hI : VolInvSE k s gh X)
    (dir : Nat) (name : List Nat) (mode : Mode) (hname : NameOK name) (hm : keepsSize mode = false) :
    (∃ k' gh' X', k ≤ k' ∧ VolInvSE k' (step s (.openFile dir name mode)).1 gh' X' ∧ SameGeom gh.vol gh'.vol) ∧
    Clean (step s (.openFile dir name mode)).2.result :=
  call_under_any_fault_D hI _ hname (notDamaged_of_other fun _ _ _ e => by cases e; exact hm)

/-- `delete_file_in_dir` under any fault, from any slack: no side condition (deleting the damaged file is allowed). -/
theorem delete_under_any_fault_D {k : Nat} {s : Mgr} {gh : Ghost} {X : List (List Nat)} (hI : VolInvSE k s gh X)
    (dir : Nat) (name : List Nat) (hname : NameOK name) :
    (∃ k' gh' X', k ≤ k' ∧ VolInvSE k' (step s (.delete dir name)).1 gh' X' ∧ SameGeom gh.vol gh'.vol) ∧
    Clean (step s (.delete dir name)).2.result :=
  call_under_any_fault_D hI _ hname trivial

/-! ### Histories, no restriction on where device calls fail -/

/-- **`history_under_faults_D_partial`** (TARGET `history_under_faults`: `FaultInvE` after EVERY prefix, without `hn`).  A
covered history run under ANY schedule — NO hypothesis on where device calls fail; no call is a size-keeping open of a
closed damaged file (`hn`).  After EVERY prefix: `VolInvSE k'` holds for some `k' ≥ k` — hence `FaultInvE` —, for a ghost
of the same geometry and some lost chains, and every call so far answered `Ok` or an error. -/
theorem history_under_faults_D_partial (ops : List Op) {k : Nat} {s : Mgr} {gh : Ghost} {X : List (List Nat)}
    (hI : VolInvSE k s gh X) (hc : CoveredRun s ops) (hn : NotDamagedRun s ops) (n : Nat) :
    (∃ k' gh' X', k ≤ k' ∧ VolInvSE k' (run s (ops.take n)).1 gh' X' ∧ FaultInvE (run s (ops.take n)).1 gh' X' ∧
      SameGeom gh.vol gh'.vol) ∧
    ∀ o, o ∈ (run s (ops.take n)).2 → Clean o.result := by
  obtain ⟨k', hle, h1, h2⟩ := Lemmas.VolD.history_anyD ops (Lemmas.VolD.invFE_iffD.2 ⟨gh, X, hI, SameGeom.refl _⟩)
    ((C11Hist.coveredRun_iff ops s).1 hc) hn n
  obtain ⟨gh', X', h3, h4⟩ := Lemmas.VolD.invFE_iffD.1 h1
  exact ⟨⟨k', gh', X', hle, h3, faultInvE_of_volInvSE h3, h4⟩, h2⟩

/-- The same from a state with the invariant whose open files are unmodified, and an ARBITRARY schedule. -/
theorem history_under_faults_D_from_invariant (ops : List Op) {s0 : Mgr} {gh : Ghost} (hI : VolInv s0 gh)
    (hcl : ∀ f, f ∈ s0.files → f.dirty = false) (L : List Nat) (hc : CoveredRun (withFaults L s0) ops)
    (hn : NotDamagedRun (withFaults L s0) ops) (n : Nat) :
    (∃ k' gh' X', VolInvSE k' (run (withFaults L s0) (ops.take n)).1 gh' X' ∧
      FaultInvE (run (withFaults L s0) (ops.take n)).1 gh' X' ∧ SameGeom gh.vol gh'.vol) ∧
    ∀ o, o ∈ (run (withFaults L s0) (ops.take n)).2 → Clean o.result := by
  obtain ⟨⟨k', gh', X', _, h1, h2, h3⟩, h4⟩ := history_under_faults_D_partial ops
    (volInvSE_zero.2 (C11HistE.volInvLE_of_unmodified (C11HistB.volInvL_withFaults hI L) hcl)) hc hn n
  exact ⟨⟨k', gh', X', h1, h2, h3⟩, h4⟩

/-- **`names_unique_history_D_partial`** (same hypotheses).  After every prefix, every directory of the tree holds
pairwise distinct names on the medium. -/
theorem names_unique_history_D_partial (ops : List Op) {k : Nat} {s : Mgr} {gh : Ghost} {X : List (List Nat)}
    (hI : VolInvSE k s gh X) (hc : CoveredRun s ops) (hn : NotDamagedRun s ops) (n : Nat) :
    ∃ gh' : Ghost, SameGeom gh.vol gh'.vol ∧ ∀ h, h ∈ dirIds gh'.dirs →
      ((entries (dirSlots gh'.vol (run s (ops.take n)).1.dev.disk gh'.G h)).map sName).Nodup := by
  obtain ⟨⟨_, gh', X', _, h1, _, h2⟩, _⟩ := history_under_faults_D_partial ops hI hc hn n
  exact ⟨gh', h2, h1.inv.med.tree.names⟩

/-- **`open_files_fit_history_D_partial`** (same hypotheses).  After every prefix the record of every open file is
consistent with the file's chain on the medium — in particular its size fits the chain (`FileOK`; what `FaultInv` gives
up). -/
theorem open_files_fit_history_D_partial (ops : List Op) {k : Nat} {s : Mgr} {gh : Ghost} {X : List (List Nat)}
    (hI : VolInvSE k s gh X) (hc : CoveredRun s ops) (hn : NotDamagedRun s ops) (n : Nat) :
    ∃ gh' : Ghost, SameGeom gh.vol gh'.vol ∧ ∀ f, f ∈ (run s (ops.take n)).1.files →
      FileOK gh'.vol (run s (ops.take n)).1.dev.disk f (chainOf gh'.G f.entry.cluster) := by
  obtain ⟨⟨_, gh', X', _, h1, _, h2⟩, _⟩ := history_under_faults_D_partial ops hI hc hn n
  exact ⟨gh', h2, fun f hf => (h1.inv.med.fileOK f hf).1⟩

/-- **`retry_history_D_partial`.**  In a history as above, the read-only call at position `n` fails; the schedule is
exhausted in the state it leaves.  The retry answers what the call answers in the fault-free continuation. -/
theorem retry_history_D_partial (ops : List Op) {k : Nat} {s : Mgr} {gh : Ghost} {X : List (List Nat)}
    (hI : VolInvSE k s gh X) (hc : CoveredRun s ops) (hn : NotDamagedRun s ops) (n : Nat) (op : Op) (hop : retryOp op = true)
    (hvol : (run s (ops.take n)).1.vols ≠ [])
    (hfail : (step (run s (ops.take n)).1 op).1.dev.failed ≠ (run s (ops.take n)).1.dev.failed)
    (hx : Exhausted (step (run s (ops.take n)).1 op).1.dev) :
    (step (step (run s (ops.take n)).1 op).1 op).2.result = (step (clearFaults (run s (ops.take n)).1) op).2.result := by
  obtain ⟨⟨_, gh', X', _, h1, _, _⟩, _⟩ := history_under_faults_D_partial ops hI hc hn n
  exact Lemmas.VolD.retry_F (Lemmas.VolD.volInvS_iff.1 h1.inv) hvol op (by rw [← C11Inv.retryOp_iff]; exact hop) hfail hx

/-! ### Non-vacuity; the excluded point (evaluated) -/

namespace Example
open Sdmmc.Lemmas.VolExample Sdmmc.Lemmas.VolCheck
open Sdmmc.Lemmas.VolD (notDamagedB notDamagedB_sound notDamagedRunB notDamagedRunB_sound checkVolInvS checkVolInvS_sound
  damagedB damagedB_sound)
open Sdmmc.Props.C11Hist.Example (trunc ghOf nameA)
open Sdmmc.Props.C11HistB.Example (ok_A ok_F)
open Sdmmc.Props.C11HistT.Example (dmg outcome)

/-- On the example volume with `E.DAT` open and modified (`mgr0`; `A.TXT`: 700 bytes in clusters 2, 3):
`open(A.TXT, ReadWriteTruncate)` — its LAST device call (7, the entry's rewrite) FAILS: `A.TXT` is damaged —; `write` to
`E.DAT` — device call 9 FAILS —; create `F`; `find A.TXT`; truncate `A.TXT` again — device call 13 FAILS AGAIN inside the
truncation —; truncate it once more (succeeds, handle 13: repaired); close it; NOW open it `ReadOnly` (handle 14), read,
close. -/
def opsD : List Op :=
  [trunc, .write 4 [9, 9, 9], .openFile 2 [70] .ReadWriteCreate, .find 2 nameA, trunc, trunc, .closeFile 13,
   .openFile 2 nameA .ReadOnly, .read 14 10, .closeFile 14]
def schedD : List Nat := [7, 9, 13]
/-- The state after the first `n` calls. -/
def sD (n : Nat) : Mgr := (run (withFaults schedD mgr0) (opsD.take n)).1

theorem opsD_covered : CoveredRun (withFaults schedD mgr0) opsD :=
  ⟨ok_A, trivial, ok_F, trivial, ok_A, ok_A, trivial, ok_A, trivial, trivial, trivial⟩

/-- The side condition holds along the history (decided by the checker). -/
theorem opsD_notDamaged : NotDamagedRun (withFaults schedD mgr0) opsD := notDamagedRunB_sound _ _ (by decide +kernel)

/-- Calls 0, 1, 4 fail — two of them INSIDE a truncating open (0 and 4: the placements `C11HistE` / `C11HistT` exclude /
stop at) — and the history goes on; outcomes: `DeviceError` ×2 (0: ok, 2: `DeviceError`). -/
theorem opsD_failures :
    (List.range 10).map (fun n => decide ((step (sD n) (opsD.getD n .hasOpen)).1.dev.failed ≠ (sD n).dev.failed)) =
      [true, true, false, false, true, false, false, false, false, false] ∧
    (run (withFaults schedD mgr0) opsD).2.map (fun o => outcome o.result) = [2, 2, 0, 0, 2, 0, 0, 0, 0, 0] := by
  decide +kernel

/-- The theorem, instantiated: after every prefix `VolInvSE` (some slack), `FaultInvE`, every answer `Ok` or an error. -/
theorem opsD_history (n : Nat) :
    (∃ k' gh' X', VolInvSE k' (sD n) gh' X' ∧ FaultInvE (sD n) gh' X' ∧ SameGeom vol16 gh'.vol) ∧
    ∀ o, o ∈ (run (withFaults schedD mgr0) (opsD.take n)).2 → Clean o.result := by
  obtain ⟨⟨k', gh', X', _, h⟩, h2⟩ := history_under_faults_D_partial opsD
    (volInvSE_withFaults mgr0_inv C11HistE.Example.mgr0_entries schedD) opsD_covered opsD_notDamaged n
  exact ⟨⟨k', gh', X', h⟩, h2⟩

/-- **What the slack is, evaluated** (the checker of `VolInvS`, ghost reconstructed).  At the start: slack 0.  From the
failed truncation on (prefixes 1–5): `A.TXT` stores 700 bytes over the one cluster `[2]` of 512 — slack 188 per cluster
is enough, 187 is not, the strong invariant (slack 0) fails.  After the successful truncation (prefixes 6–10): slack 0
again.  No entry of an open file is ahead of its record, throughout. -/
theorem opsD_invariant :
    checkVolInvS 0 (sD 0) (ghOf (sD 0) [[2, 3], [4], [5], [6]]) [] = true ∧
    (List.range 11).map (fun n => (checkVolInvS 0 (sD n) (ghOf (sD n) [[2], [4], [5], [6]]) [],
        checkVolInvS 187 (sD n) (ghOf (sD n) [[2], [4], [5], [6]]) [],
        checkVolInvS 188 (sD n) (ghOf (sD n) [[2], [4], [5], [6]]) [], decide (EntriesNotAhead (sD n)))) =
      [(false, false, false, true), (false, false, true, true), (false, false, true, true), (false, false, true, true),
       (false, false, true, true), (false, false, true, true), (true, true, true, true), (true, true, true, true),
       (true, true, true, true), (true, true, true, true), (true, true, true, true)] := by
  refine ⟨?_, ?_⟩ <;> decide +kernel

/-- `VolInvS 188` of the damaged state, from the checker. -/
theorem dmg_volInvS : VolInvS 188 (dmg 7) (ghOf (dmg 7) [[2], [4], [5], [6]]) [] := checkVolInvS_sound (by decide +kernel)

/-- **The excluded point.**  In the damaged state (`dmg 7`: the entry of `A.TXT` not rewritten; `dmg 4`: the chain half
cut) the size-keeping opens of `A.TXT` violate the side condition — `ReadOnly` and `ReadWriteAppend` —; the truncating
open of `A.TXT`, and a size-keeping open of another name, satisfy it; in the undamaged state all do. -/
theorem side_condition_evaluated :
    [notDamagedB (dmg 7) (.openFile 2 nameA .ReadOnly), notDamagedB (dmg 7) (.openFile 2 nameA .ReadWriteAppend),
     notDamagedB (dmg 4) (.openFile 2 nameA .ReadOnly), notDamagedB (dmg 7) trunc,
     notDamagedB (dmg 7) (.openFile 2 [70] .ReadOnly), notDamagedB mgr0 (.openFile 2 nameA .ReadOnly)] =
    [false, false, false, true, true, true] := by decide +kernel

/-- … the side condition really FAILS there (not only its checker): the entry of `A.TXT` says 700 bytes, the chain of
its first cluster 2 is `[2]` — for `ReadOnly` and for `ReadWriteAppend`, with the entry not rewritten (`dmg 7`) and with
the chain half cut (`dmg 4`). -/
theorem damaged_reopen_excluded :
    ¬ NotDamagedOpen (dmg 7) (.openFile 2 nameA .ReadOnly) ∧ ¬ NotDamagedOpen (dmg 7) (.openFile 2 nameA .ReadWriteAppend) ∧
    ¬ NotDamagedOpen (dmg 4) (.openFile 2 nameA .ReadOnly) :=
  ⟨damagedB_sound (by decide +kernel), damagedB_sound (by decide +kernel), damagedB_sound (by decide +kernel)⟩

/-- … and there the conclusion fails too: the `ReadOnly` open of the damaged file succeeds and leaves a state in which
`VolInvS` fails for the reconstructed ghost WHATEVER the slack (the checker rejects `fileOK`; slack 0, 188, 10⁹ shown),
while the weak `FaultInv` holds (`C11HistT.Example.damaged_reopen_breaks_size_fits`). -/
theorem damaged_reopen_conclusion_fails :
    [0, 188, 1000000000].map (fun k => checkVolInvS k (run (dmg 7) [.openFile 2 nameA .ReadOnly]).1
      (ghOf (run (dmg 7) [.openFile 2 nameA .ReadOnly]).1 [[2], [4], [5], [6]]) []) = [false, false, false] ∧
    explainVolInv (clearFaults (run (dmg 7) [.openFile 2 nameA .ReadOnly]).1)
      (ghOf (run (dmg 7) [.openFile 2 nameA .ReadOnly]).1 [[2], [4], [5], [6]]) = ["tree.sizes", "fileOK"] := by
  refine ⟨?_, ?_⟩ <;> decide +kernel

end Example

end Sdmmc.Props.C11HistD
