/-
C06 / C17 (listing), tie to the source text, FAT level: `FatVolume::iterate_fat16`, `iterate_fat32`, `iterate_dir`
(fat/volume.rs), machine-translated into `Sdmmc.Gen.FunsDir` (the callback is the list of its calls, see the head of
that file), against `Model.Fat.iterateRaw`.

The ties are `_partial`: for every fuel above `chainFuel v + (blocks per step) + 2`, when the model's answer is not
`diverged` (the model's walk carries its own fuel `chainFuel v`; see `Props/C06GenM.lean`).
-/
import Sdmmc.Gen.FunsDir
import Sdmmc.Model.Fat
import Sdmmc.Lemmas.GenMgrIO
import Sdmmc.Props.C01GenFind
import Sdmmc.Props.C06GenM

set_option linter.unusedSimpArgs false

namespace Sdmmc.Props.C06GenIter

open Sdmmc Sdmmc.Model Sdmmc.Model.Fat Sdmmc.Gen Sdmmc.Lemmas.GenMgrIO
open Sdmmc.Lemmas.FBasic
open Sdmmc.Props.C06GenM (slot_eq slotsFrom slotsOf_eq slotsFrom_succ next16_ne_root nextCluster_vol
  range_iter clusterToBlock_root32)

abbrev Call := DirEntry × List UInt8

/-! ### The slots of a block -/

/-- What the slot loop answers for the model's scan of the remaining slots. -/
def slotsOut (calls : List Call) (x : List Call × Bool) (c : Nat) : Except (List Call) (Nat × List Call) :=
  if x.2 then Except.error (calls ++ x.1) else Except.ok (c, calls ++ x.1)

set_option hygiene false in
local macro "iter_slots_tac" loop:ident : tactic => `(tactic| (
  intro n
  induction n with
  | zero => intro i _ calls fs; exact ⟨i, by simp [$loop:ident, slotsFrom, iterateBlockSlots, slotsOut]⟩
  | succ n ih =>
    intro i h calls fs
    rw [$loop:ident, slotsFrom_succ, iterateBlockSlots]
    simp only [slot_eq]
    by_cases he : OnDisk.isEnd (slice blk (i * 32) 32) = true
    · rw [if_pos he, if_pos he]
      exact ⟨0, by simp [slotsOut]⟩
    · rw [if_neg he, if_neg he]
      have hmod : i * 32 % 4294967296 = i * 32 := Nat.mod_eq_of_lt (by omega)
      by_cases hv : OnDisk.isValid (slice blk (i * 32) 32) = true
      · simp only [hv, if_true, hmod]
        obtain ⟨c, hc⟩ := ih (i + 1) (by omega) (calls ++ [(OnDisk.getEntry _ (slice blk (i * 32) 32) b (i * 32),
          slice blk (i * 32) 32)]) fs
        refine ⟨c, ?_⟩
        rw [hc]
        rcases iterateBlockSlots _ b (slotsFrom blk (i + 1) n) with ⟨es, fin⟩
        cases fin <;> simp [slotsOut, List.append_assoc]
      · simp only [hv, if_false, Bool.false_eq_true]
        obtain ⟨c, hc⟩ := ih (i + 1) (by omega) calls fs
        refine ⟨c, ?_⟩
        rw [hc]
  ))

theorem iter_slots16 (v : FatVolume) (b : Nat) (blk : Block) :
    ∀ (n i : Nat), i + n = 16 → ∀ (calls : List Call) (fs : FS), ∃ c,
      FunsDir.FatVolume_iterate_fat16_loop3 v b blk n (i, calls) fs =
        (.ok (slotsOut calls (iterateBlockSlots .fat16 b (slotsFrom blk i n)) c), fs) := by
  iter_slots_tac FunsDir.FatVolume_iterate_fat16_loop3

theorem iter_slots32 (v : FatVolume) (b : Nat) (blk : Block) :
    ∀ (n i : Nat), i + n = 16 → ∀ (calls : List Call) (fs : FS), ∃ c,
      FunsDir.FatVolume_iterate_fat32_loop3 v b blk n (i, calls) fs =
        (.ok (slotsOut calls (iterateBlockSlots .fat32 b (slotsFrom blk i n)) c), fs) := by
  iter_slots_tac FunsDir.FatVolume_iterate_fat32_loop3

/-! ### The blocks of one step -/

def iblocksOut (calls : List Call) (x : Res (List Call × Bool)) (done : FunsM.BlockIter) :
    Res (Except (List Call) (FunsM.BlockIter × List Call)) :=
  match x with
  | .ok (es, true) => .ok (.error (calls ++ es))
  | .ok (es, false) => .ok (.ok (done, calls ++ es))
  | .err e => .err e
  | .panic m => .panic m
  | .diverged => .diverged

set_option hygiene false in
local macro "iter_blocks_tac" loop:ident slots:ident : tactic => `(tactic| (
  intro n
  induction n with
  | zero =>
    intro first fuel calls fs hf hft
    obtain ⟨fuel', rfl⟩ : ∃ f', fuel = f' + 1 := ⟨fuel - 1, by omega⟩
    rw [$loop:ident]
    simp only [FunsM.BlockIter_next, Nat.add_zero, ge_iff_le, Nat.le_refl, if_true, iterateBlocks, pure_apply,
      iblocksOut, List.append_nil]
  | succ n ih =>
    intro first fuel calls fs hf hft
    obtain ⟨fuel', rfl⟩ : ∃ f', fuel = f' + 1 := ⟨fuel - 1, by omega⟩
    rw [$loop:ident, iterateBlocks]
    have hlt : ¬ first ≥ first + (n + 1) := by omega
    simp only [FunsM.BlockIter_next, hlt, if_false, FunsM.BlockIdx_add, bind_apply, getVol_apply, hft]
    have hv1 := C06GenM.cacheRead_vol first fs
    rcases hcr : cacheRead first fs with ⟨r, fs1⟩
    rw [hcr] at hv1
    have hv1 : fs1.vol = fs.vol := hv1
    cases r with
    | ok u =>
      simp only [cacheBlk, bind_apply]
      obtain ⟨c, hc⟩ := $slots:ident v first fs1.cache.blk 16 0 rfl calls fs1
      rw [hc, slotsOf_eq]
      rcases iterateBlockSlots _ first (slotsFrom fs1.cache.blk 0 16) with ⟨es, fin⟩
      cases fin with
      | true => simp [slotsOut, iblocksOut]
      | false =>
        simp only [slotsOut, Bool.false_eq_true, if_false, pure_apply, bind_apply]
        have h2 : first + (n + 1) = first + 1 + n := by omega
        rw [h2, ih (first + 1) fuel' (calls ++ es) fs1 (by omega) (by rw [hv1]; exact hft)]
        rcases iterateBlocks n (first + 1) fs1 with ⟨r2, fs2⟩
        cases r2 with
        | ok p =>
          obtain ⟨es2, fin2⟩ := p
          cases fin2 <;> simp [iblocksOut, List.append_assoc]
        | err e => rfl
        | panic m => rfl
        | diverged => rfl
    | err e => rfl
    | panic m => rfl
    | diverged => rfl
  ))

theorem iter_blocks16 (v : FatVolume) : ∀ (n first fuel : Nat) (calls : List Call) (fs : FS), fuel ≥ n + 1 →
    fs.vol.fatType = .fat16 →
    FunsDir.FatVolume_iterate_fat16_loop2 v fuel ({ inclusive_end := first + n, current := first }, calls) fs =
      (iblocksOut calls (iterateBlocks n first fs).1 { inclusive_end := first + n, current := first + n },
       (iterateBlocks n first fs).2) := by
  iter_blocks_tac FunsDir.FatVolume_iterate_fat16_loop2 iter_slots16

theorem iter_blocks32 (v : FatVolume) : ∀ (n first fuel : Nat) (calls : List Call) (fs : FS), fuel ≥ n + 1 →
    fs.vol.fatType = .fat32 →
    FunsDir.FatVolume_iterate_fat32_loop2 v fuel ({ inclusive_end := first + n, current := first }, calls) fs =
      (iblocksOut calls (iterateBlocks n first fs).1 { inclusive_end := first + n, current := first + n },
       (iterateBlocks n first fs).2) := by
  iter_blocks_tac FunsDir.FatVolume_iterate_fat32_loop2 iter_slots32

theorem iterateBlocks_vol : ∀ (n b : Nat) (fs : FS), (iterateBlocks n b fs).2.vol = fs.vol
  | 0, _, _ => rfl
  | n + 1, b, fs => by
    rw [iterateBlocks]
    simp only [bind_apply, getVol_apply]
    have hv := C06GenM.cacheRead_vol b fs
    rcases hcr : cacheRead b fs with ⟨r, fs1⟩
    rw [hcr] at hv
    have hv : fs1.vol = fs.vol := hv
    cases r with
    | ok u =>
      simp only [cacheBlk, bind_apply]
      rcases iterateBlockSlots fs.vol.fatType b (slotsOf fs1.cache.blk) with ⟨es, fin⟩
      cases fin with
      | true => exact hv
      | false =>
        simp only [Bool.false_eq_true, if_false, bind_apply]
        have ih := iterateBlocks_vol n (b + 1) fs1
        rcases hib : iterateBlocks n (b + 1) fs1 with ⟨r2, fs2⟩
        rw [hib] at ih
        have ih : fs2.vol = fs1.vol := ih
        cases r2 <;> exact ih.trans hv
    | err e => exact hv
    | panic m => exact hv
    | diverged => exact hv

/-! ### The walk along the chain -/

/-- What `iterate_fat16` / `iterate_fat32` do with the answer of their outer loop. -/
def finishI {σ : Type} (r : Except (List Call) (σ × List Call)) : F (List Call) :=
  match r with
  | Except.error l => pure l
  | Except.ok st => pure st.2

def finishI16 (r : Except (List Call) (Option Nat × Nat × List Call)) : F (List Call) :=
  match r with
  | Except.error l => pure l
  | Except.ok st => pure st.2.2

theorem iter_walk16 (v : FatVolume) (hft : v.fatType = .fat16) :
    ∀ (fuelM fuelG : Nat) (w : DirWalk) (calls : List Call) (fs : FS), fs.vol = v →
      (w.fixedRoot = true ↔ w.cluster = 4294967292) →
      fuelG ≥ fuelM + w.dirSize + 1 → (iterateWalk fuelM w fs).1 ≠ .diverged →
      (FunsDir.FatVolume_iterate_fat16_loop1 v w.dirSize fuelG (some w.cluster, w.firstBlock, calls) >>= finishI16) fs =
        (iterateWalk fuelM w >>= fun es => pure (calls ++ es)) fs := by
  intro fuelM
  induction fuelM with
  | zero =>
    intro fuelG w calls fs _ _ _ hnd
    exact (hnd rfl).elim
  | succ fuelM ih =>
    intro fuelG w calls fs hv hroot hG hnd
    obtain ⟨fuel, rfl⟩ : ∃ f, fuelG = f + 1 := ⟨fuelG - 1, by omega⟩
    rw [iterateWalk] at hnd
    rw [bind_apply, bind_apply, iterateWalk, FunsDir.FatVolume_iterate_fat16_loop1]
    simp only [range_iter, bind_apply, getVol_apply] at hnd ⊢
    rw [iter_blocks16 v w.dirSize w.firstBlock fuel calls fs (by omega) (by rw [hv]; exact hft)]
    have hv1 := iterateBlocks_vol w.dirSize w.firstBlock fs
    rcases hfb : iterateBlocks w.dirSize w.firstBlock fs with ⟨r, fs1⟩
    rw [hfb] at hv1 hnd
    simp only at hv1 hnd
    cases r with
    | ok p =>
      obtain ⟨es, fin⟩ := p
      cases fin with
      | true => rfl
      | false =>
        simp only [iblocksOut, Sdmmc.Lemmas.FBasic.ite_apply, bind_apply, pure_apply, Bool.false_eq_true, if_false]
          at hnd ⊢
        obtain ⟨fuel', rfl⟩ : ∃ f, fuel = f + 1 := ⟨fuel - 1, by omega⟩
        by_cases hfr : w.fixedRoot = true
        · have hc : ¬ (w.cluster ≠ 4294967292) := fun h => h (hroot.mp hfr)
          simp only [hfr, if_true, hc, if_false, pure_apply, bind_apply]
          rfl
        · have hc : w.cluster ≠ 4294967292 := fun h => hfr (hroot.mpr h)
          simp only [hfr, if_false, hc, ne_eq, not_false_eq_true, if_true, attempt_apply, bind_apply,
            Bool.false_eq_true] at hnd ⊢
          have hv2 := nextCluster_vol w.cluster fs1
          have hne := next16_ne_root w.cluster
          rcases hnc : nextCluster w.cluster fs1 with ⟨rn, fs2⟩
          rw [hnc] at hv2 hnd
          simp only at hv2 hnd
          cases rn with
          | ok n =>
            simp only [pure_apply, bind_apply] at hnd ⊢
            have hn := hne n fs1 (by rw [hv1, hv]; exact hft) (by rw [hnc])
            rw [hv] at hnd ⊢
            have hnd' : (iterateWalk fuelM
                { cluster := n, firstBlock := clusterToBlock v n, dirSize := w.dirSize, fixedRoot := false } fs2).1 ≠
                .diverged := by
              intro hd
              apply hnd
              rcases hiw : iterateWalk fuelM
                { cluster := n, firstBlock := clusterToBlock v n, dirSize := w.dirSize, fixedRoot := false } fs2
                with ⟨r3, fs3⟩
              rw [hiw] at hd
              simp only at hd
              subst hd
              rfl
            have := ih (fuel' + 1)
              { cluster := n, firstBlock := clusterToBlock v n, dirSize := w.dirSize, fixedRoot := false }
              (calls ++ es) fs2 (by rw [hv2, hv1, hv]) ⟨fun h => (by cases h), fun h => (hn h).elim⟩
              (by simp only []; omega) hnd'
            rw [bind_apply] at this
            rw [this]
            simp only [bind_apply]
            rcases iterateWalk fuelM
              { cluster := n, firstBlock := clusterToBlock v n, dirSize := w.dirSize, fixedRoot := false } fs2
              with ⟨r3, fs3⟩
            cases r3 <;> simp [pure_apply, List.append_assoc]
          | err e =>
            cases e
            case EndOfFile => rfl
            all_goals rfl
          | panic m => rfl
          | diverged => rfl
    | err e => rfl
    | panic m => rfl
    | diverged => rfl

theorem iter_walk32 (v : FatVolume) (hft : v.fatType = .fat32) :
    ∀ (fuelM fuelG : Nat) (w : DirWalk) (calls : List Call) (fs : FS), fs.vol = v → w.fixedRoot = false →
      w.firstBlock = clusterToBlock v w.cluster → w.dirSize = v.blocksPerCluster →
      fuelG ≥ fuelM + w.dirSize + 1 → (iterateWalk fuelM w fs).1 ≠ .diverged →
      (FunsDir.FatVolume_iterate_fat32_loop1 v fuelG (some w.cluster, calls) >>= finishI) fs =
        (iterateWalk fuelM w >>= fun es => pure (calls ++ es)) fs := by
  intro fuelM
  induction fuelM with
  | zero =>
    intro fuelG w calls fs _ _ _ _ _ hnd
    exact (hnd rfl).elim
  | succ fuelM ih =>
    intro fuelG w calls fs hv hfr hfb0 hds hG hnd
    obtain ⟨fuel, rfl⟩ : ∃ f, fuelG = f + 1 := ⟨fuelG - 1, by omega⟩
    rw [iterateWalk] at hnd
    rw [bind_apply, bind_apply, iterateWalk, FunsDir.FatVolume_iterate_fat32_loop1]
    simp only [range_iter, bind_apply, getVol_apply] at hnd ⊢
    rw [← hfb0, ← hds, iter_blocks32 v w.dirSize w.firstBlock fuel calls fs (by omega) (by rw [hv]; exact hft)]
    have hv1 := iterateBlocks_vol w.dirSize w.firstBlock fs
    rcases hfb : iterateBlocks w.dirSize w.firstBlock fs with ⟨r, fs1⟩
    rw [hfb] at hv1 hnd
    simp only at hv1 hnd
    cases r with
    | ok p =>
      obtain ⟨es, fin⟩ := p
      cases fin with
      | true => rfl
      | false =>
        simp only [iblocksOut, Sdmmc.Lemmas.FBasic.ite_apply, bind_apply, pure_apply, Bool.false_eq_true, if_false, hfr,
          attempt_apply] at hnd ⊢
        obtain ⟨fuel', rfl⟩ : ∃ f, fuel = f + 1 := ⟨fuel - 1, by omega⟩
        have hv2 := nextCluster_vol w.cluster fs1
        rcases hnc : nextCluster w.cluster fs1 with ⟨rn, fs2⟩
        rw [hnc] at hv2 hnd
        simp only at hv2 hnd
        cases rn with
        | ok n =>
          simp only [pure_apply, bind_apply] at hnd ⊢
          rw [hv] at hnd ⊢
          have hnd' : (iterateWalk fuelM
              { cluster := n, firstBlock := clusterToBlock v n, dirSize := w.dirSize, fixedRoot := false } fs2).1 ≠
              .diverged := by
            intro hd
            apply hnd
            rcases hiw : iterateWalk fuelM
              { cluster := n, firstBlock := clusterToBlock v n, dirSize := w.dirSize, fixedRoot := false } fs2
              with ⟨r3, fs3⟩
            rw [hiw] at hd
            simp only at hd
            subst hd
            rfl
          have := ih (fuel' + 1)
            { cluster := n, firstBlock := clusterToBlock v n, dirSize := w.dirSize, fixedRoot := false }
            (calls ++ es) fs2 (by rw [hv2, hv1, hv]) rfl rfl hds (by simp only []; omega) hnd'
          rw [bind_apply] at this
          rw [this]
          simp only [bind_apply]
          rcases iterateWalk fuelM
            { cluster := n, firstBlock := clusterToBlock v n, dirSize := w.dirSize, fixedRoot := false } fs2
            with ⟨r3, fs3⟩
          cases r3 <;> simp [pure_apply, List.append_assoc]
        | err e =>
          cases e
          case EndOfFile => rfl
          all_goals rfl
        | panic m => rfl
        | diverged => rfl
    | err e => rfl
    | panic m => rfl
    | diverged => rfl

/-! ### `iterate_fat16`, `iterate_fat32`, `iterate_dir` -/

/-- `iterate_fat16(dir, .., func)` on a FAT16 volume: the calls of `func`, after those already made, are the
entries (with their raw slots) of the model's `iterateRaw`.  For every fuel above `chainFuel v + (blocks per
step) + 2`, when the model's answer is not `diverged`. -/
theorem iterate_fat16_eq_partial (fuel : Nat) (dir : DirInfo) (calls : List Call) (fs : FS)
    (hft : fs.vol.fatType = .fat16)
    (hfuel : fuel ≥ chainFuel fs.vol + (dirWalkStart fs.vol dir.cluster).dirSize + 2)
    (hnd : (iterateRaw dir.cluster fs).1 ≠ .diverged) :
    FunsDir.FatVolume_iterate_fat16 fuel dir calls fs =
      (iterateRaw dir.cluster >>= fun es => pure (calls ++ es)) fs := by
  unfold FunsDir.FatVolume_iterate_fat16
  unfold iterateRaw at hnd ⊢
  simp only [bind_apply, getVol_apply] at hnd ⊢
  have hw : dirWalkStart fs.vol dir.cluster =
      { cluster := dir.cluster,
        firstBlock := if dir.cluster = 4294967292 then FunsM.BlockIdx_add fs.vol.lbaStart fs.vol.firstRootDirBlock
          else clusterToBlock fs.vol dir.cluster,
        dirSize := if dir.cluster = 4294967292 then FunsDir.BlockCount_from_bytes (fs.vol.rootEntriesCount * 32)
          else fs.vol.blocksPerCluster,
        fixedRoot := decide (dir.cluster = 4294967292) } := by
    unfold dirWalkStart
    simp only [hft]
    have hr : CLUSTER_ROOT_DIR = 4294967292 := rfl
    rw [hr]
    by_cases h : dir.cluster = 4294967292
    · simp only [h, if_true, decide_true]
      rfl
    · simp only [h, if_false, decide_false]
  rw [hw] at hnd hfuel ⊢
  have := iter_walk16 fs.vol hft (chainFuel fs.vol) fuel _ calls fs rfl (by simp) (by simp only [] at hfuel ⊢; omega) hnd
  rw [bind_apply, bind_apply] at this
  rw [← this]
  rcases FunsDir.FatVolume_iterate_fat16_loop1 fs.vol _ fuel _ fs with ⟨r, fs1⟩
  cases r with
  | ok x => cases x <;> rfl
  | err e => rfl
  | panic m => rfl
  | diverged => rfl

theorem iterate_fat32_eq_partial (fuel : Nat) (dir : DirInfo) (calls : List Call) (fs : FS)
    (hft : fs.vol.fatType = .fat32)
    (hfuel : fuel ≥ chainFuel fs.vol + (dirWalkStart fs.vol dir.cluster).dirSize + 2)
    (hnd : (iterateRaw dir.cluster fs).1 ≠ .diverged) :
    FunsDir.FatVolume_iterate_fat32 fuel dir calls fs =
      (iterateRaw dir.cluster >>= fun es => pure (calls ++ es)) fs := by
  unfold FunsDir.FatVolume_iterate_fat32
  unfold iterateRaw at hnd ⊢
  simp only [bind_apply, getVol_apply] at hnd ⊢
  have hw : dirWalkStart fs.vol dir.cluster =
      { cluster := if dir.cluster = 4294967292 then fs.vol.firstRootDirCluster else dir.cluster,
        firstBlock := clusterToBlock fs.vol dir.cluster, dirSize := fs.vol.blocksPerCluster, fixedRoot := false } := by
    unfold dirWalkStart
    simp only [hft]
    rfl
  rw [hw] at hnd hfuel ⊢
  have := iter_walk32 fs.vol hft (chainFuel fs.vol) fuel _ calls fs rfl rfl
    (by simp only []; exact (clusterToBlock_root32 fs.vol hft dir.cluster).symm) rfl
    (by simp only [] at hfuel ⊢; omega) hnd
  rw [bind_apply, bind_apply] at this
  simp only [] at this
  have hcl : (if dir.cluster = 4294967292 then some fs.vol.firstRootDirCluster else some dir.cluster) =
      some (if dir.cluster = 4294967292 then fs.vol.firstRootDirCluster else dir.cluster) := by
    split <;> rfl
  rw [hcl, ← this]
  rcases FunsDir.FatVolume_iterate_fat32_loop1 fs.vol fuel _ fs with ⟨r, fs1⟩
  cases r with
  | ok x => cases x <;> rfl
  | err e => rfl
  | panic m => rfl
  | diverged => rfl

/-- The closure `|de, _| func(de)` run over the calls of the inner function. -/
theorem forEach_fst : ∀ (cl : List Call) (calls : List DirEntry) (fs : FS),
    FunsDir.forEachCall cl calls (fun c x => (let calls := c; (let de := x.1; (let calls := (calls ++ [(de)]);
      (pure calls : F (List DirEntry)))))) fs = (.ok (calls ++ cl.map (·.1)), fs)
  | [], calls, fs => by simp [FunsDir.forEachCall, pure_apply]
  | x :: cl, calls, fs => by
    rw [FunsDir.forEachCall]
    simp only [bind_apply, pure_apply]
    rw [forEach_fst cl (calls ++ [x.1]) fs]
    simp [List.append_assoc]

/-- `iterate_dir(dir, func)`: `func` is called with the entries of the model's `iterateRaw`, in order. -/
theorem iterate_dir_eq_partial (fuel : Nat) (dir : DirInfo) (calls : List DirEntry) (fs : FS)
    (hfuel : fuel ≥ chainFuel fs.vol + (dirWalkStart fs.vol dir.cluster).dirSize + 2)
    (hnd : (iterateRaw dir.cluster fs).1 ≠ .diverged) :
    FunsDir.FatVolume_iterate_dir fuel dir calls fs =
      (iterateRaw dir.cluster >>= fun es => pure (calls ++ es.map (·.1))) fs := by
  unfold FunsDir.FatVolume_iterate_dir
  simp only [bind_apply, getVol_apply]
  cases hft : fs.vol.fatType with
  | fat16 =>
    simp only []
    rw [bind_apply, iterate_fat16_eq_partial fuel dir [] fs hft hfuel hnd]
    simp only [bind_apply, List.nil_append]
    rcases iterateRaw dir.cluster fs with ⟨r, fs1⟩
    cases r with
    | ok es => simp only [pure_apply, forEach_fst]
    | err e => rfl
    | panic m => rfl
    | diverged => rfl
  | fat32 =>
    simp only []
    rw [bind_apply, iterate_fat32_eq_partial fuel dir [] fs hft hfuel hnd]
    simp only [bind_apply, List.nil_append]
    rcases iterateRaw dir.cluster fs with ⟨r, fs1⟩
    cases r with
    | ok es => simp only [pure_apply, forEach_fst]
    | err e => rfl
    | panic m => rfl
    | diverged => rfl

end Sdmmc.Props.C06GenIter
