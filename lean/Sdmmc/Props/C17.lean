/-
C17 — Long-file-name decoding is total, yields valid UTF-8 and the right name.

Property theorems only; helper lemmas live in `Sdmmc.Lemmas.C17`.
Model: `Sdmmc.Model.Lfn` (`LfnBuffer`, with `char::decode_utf16` / `char::encode_utf8` modelled
from the standard library), `Sdmmc.Model.SeqState`, `Sdmmc.Model.lfnFold` (the closure of
`iterate_dir_lfn`).  Spec: `Sdmmc.Spec.Utf`.
-/
import Sdmmc.Lemmas.C17

namespace Sdmmc.Props.C17
open Sdmmc.Model Sdmmc.Model.Lfn

/-- What a buffer can look like after any sequence of `new` / `clear` / `push`: the free index
is inside the storage, the carried unit (if any) is a surrogate. -/
def BufOK (b : Buf) : Prop :=
  b.free ≤ b.inner.length ∧ (∀ u, b.unpaired = some u → isSurrogate u = true)

/-- A fragment as read from a directory slot: 13 code units, each below 2^16. -/
def FragOK (f : List Nat) : Prop := f.length = 13 ∧ ∀ u ∈ f, u < 65536

/-- Feeding any fragment — any 16-bit values, unpaired and split surrogates included — into a
buffer of any size never panics. -/
theorem push_total (b : Buf) (f : List Nat) (hb : BufOK b) (hf : FragOK f) :
    ∃ b', push b f = .ok b' ∧ BufOK b' ∧ b'.inner.length = b.inner.length :=
  Lemmas.C17.push_total b f hb hf

/-- The string handed to `from_utf8_unchecked` is always well-formed UTF-8: invariant of
`new`, `clear` and `push`. -/
def Utf8Inv (b : Buf) : Prop := BufOK b ∧ Spec.Utf.ValidUtf8 (b.inner.drop b.free)

theorem new_inv (storage : Bytes) : Utf8Inv (Lfn.new storage) := Lemmas.C17.new_inv storage
theorem clear_inv (b : Buf) : Utf8Inv (Lfn.clear b) := Lemmas.C17.clear_inv b
theorem push_inv (b b' : Buf) (f : List Nat) (hb : Utf8Inv b) (hf : FragOK f) (h : push b f = .ok b') :
    Utf8Inv b' := Lemmas.C17.push_inv b b' f hb hf h
theorem as_str_valid_utf8 (b : Buf) (hb : Utf8Inv b) : Spec.Utf.ValidUtf8 (asStr b) :=
  Lemmas.C17.as_str_valid_utf8 b hb

/-- Push a list of fragments given in on-disk order (last part of the name first). -/
def pushAll (b : Buf) : List (List Nat) → Res Buf
  | [] => .ok b
  | f :: fs => (push b f).bind fun b' => pushAll b' fs

/-- The code units of the name: fragments in name order (reverse of on-disk order), each cut at
its first NUL. -/
def nameUnits (frags : List (List Nat)) : List Nat := (frags.reverse.map fun f => f.takeWhile (· ≠ 0)).flatten

/-- The exact result for every fragment sequence and every buffer size: the lossy decoding of
the joined fragments, minus a *leading* unpaired surrogate (which the implementation carries
and never emits — known finding, see DESIGN.md), when it fits; empty when it does not. -/
theorem as_str_exact (size : Nat) (frags : List (List Nat)) (hf : ∀ f ∈ frags, FragOK f) :
    ∃ b, pushAll (Lfn.new (zeros size)) frags = .ok b ∧
      let units := nameUnits frags
      let units' := match b.unpaired with
        | some _ => units.drop 1
        | none => units
      let text := Spec.Utf.encodeUtf8 (Spec.Utf.decodeUtf16Lossy units')
      asStr b = if text.length ≤ size then text else [] :=
  Lemmas.C17.as_str_exact size frags hf

/-- C17's sentence at full strength, for names that do not begin with an unpaired surrogate:
the string is the lossy decoding of the fragments joined in name order when it fits, and empty
when it does not.  (`_partial`: the excluded inputs are exactly the known finding above.) -/
theorem as_str_eq_lossy_partial (size : Nat) (frags : List (List Nat)) (hf : ∀ f ∈ frags, FragOK f)
    (hstart : ∀ u rest, nameUnits frags = u :: rest →
      isSurrogate u = false ∨ (isHigh u = true ∧ ∃ v rest', rest = v :: rest' ∧ isLow v = true)) :
    ∃ b, pushAll (Lfn.new (zeros size)) frags = .ok b ∧
      let text := Spec.Utf.encodeUtf8 (Spec.Utf.decodeUtf16Lossy (nameUnits frags))
      asStr b = if text.length ≤ size then text else [] :=
  Lemmas.C17.as_str_eq_lossy_partial size frags hf hstart

/-- The rotate-add checksum equals the specification's (`ChkSum` in the FAT long-name spec):
`Sum = ((Sum & 1) ? 0x80 : 0) + (Sum >> 1) + *pFcbName++` over the 11 name bytes, in 8 bits. -/
theorem csum_spec (name : Bytes) :
    Sfn.csum name = name.foldl (fun sum b => ((if sum % 2 = 1 then 0x80 else 0) + sum / 2 + b.toNat) % 256) 0 :=
  Lemmas.C17.csum_spec name

/-- A valid entry as `iterate_fat16/32` hands it to the closure: raw slot of 32 bytes. -/
def SlotsOK (es : List (DirEntry × Bytes)) : Prop := ∀ e ∈ es, e.2.length = 32

/-- Arbitrary directory bytes never crash a listing. -/
theorem lfn_listing_total (bufSize : Nat) (es : List (DirEntry × Bytes)) (h : SlotsOK es) :
    ∃ out, lfnFold .Waiting (Lfn.new (zeros bufSize)) es = .ok out :=
  Lemmas.C17.lfn_listing_total bufSize es h

/-- The listing reports exactly the non-LFN entries, in order. -/
theorem lfn_listing_entries (bufSize : Nat) (es : List (DirEntry × Bytes)) (out : List (DirEntry × Option Bytes))
    (h : lfnFold .Waiting (Lfn.new (zeros bufSize)) es = .ok out) :
    out.map (·.1) = (es.filter fun e => (OnDisk.lfnContents e.2).isNone).map (·.1) :=
  Lemmas.C17.lfn_listing_entries bufSize es out h

/-- A short entry that directly follows another short entry is reported with no long name
(a long name belongs to the one entry that directly follows its fragment run). -/
theorem lfn_not_inherited (st : SeqState) (buf : Buf) (d1 d2 : DirEntry) (r1 r2 : Bytes)
    (rest : List (DirEntry × Bytes)) (out : List (DirEntry × Option Bytes))
    (h1 : OnDisk.lfnContents r1 = none) (h2 : OnDisk.lfnContents r2 = none)
    (h : lfnFold st buf ((d1, r1) :: (d2, r2) :: rest) = .ok out) :
    ∃ n1 tl, out = (d1, n1) :: (d2, none) :: tl :=
  Lemmas.C17.lfn_not_inherited st buf d1 d2 r1 r2 rest out h1 h2 h

/-- The sequence state is `Complete c` only directly after a fragment with sequence number 1
that carries the checksum byte `c` and either is start-flagged or continues a run that expected
exactly number 1 with the same checksum `c` (every fragment of the run carries the checksum).
Stated on the state machine: one step. -/
theorem seq_complete_only_after_one (st st' : SeqState) (buf buf' : Buf) (start : Bool) (sq cs c : Nat)
    (frag : List Nat) (h : st.update buf start sq cs frag = .ok (st', buf')) (hc : st' = .Complete c) :
    sq = 1 ∧ c = cs ∧ (start = true ∨ (start = false ∧ st = .Remaining c 1)) :=
  Lemmas.C17.seq_complete_only_after_one st st' buf buf' start sq cs c frag h hc

/-- … and `Remaining c n` only after a fragment numbered `n + 1` that carries the checksum byte
`c` and either started the run or continued a run with checksum `c` expecting exactly that number
(every fragment of the run carries the checksum). -/
theorem seq_remaining_only_in_order (st st' : SeqState) (buf buf' : Buf) (start : Bool) (sq cs c n : Nat)
    (frag : List Nat) (h : st.update buf start sq cs frag = .ok (st', buf')) (hc : st' = .Remaining c n) :
    sq = n + 1 ∧ c = cs ∧ (start = true ∨ (start = false ∧ st = .Remaining c sq)) :=
  Lemmas.C17.seq_remaining_only_in_order st st' buf buf' start sq cs c n frag h hc

/-- The state machine folded over consecutive long-name fragments `(is_start, sequence, csum,
units)`, as `lfnFold` does between two short entries. -/
def updateAll (st : SeqState) (buf : Buf) : List (Bool × Nat × Nat × List Nat) → Res (SeqState × Buf)
  | [] => .ok (st, buf)
  | x :: rest => (st.update buf x.1 x.2.1 x.2.2.1 x.2.2.2).bind fun p => updateAll p.1 p.2 rest

/-- The same over whole runs: if a non-empty list of consecutive fragments, processed from a state
that is not in the middle of a run (`Waiting`, as after every short entry, or `Complete`), ends in
`Complete c`, then the list ends with a run `x :: tl` of `k = tl.length + 1 ≥ 1` fragments whose
first is start-flagged, whose sequence numbers are `k, k-1, …, 1`, and all of whose checksum
bytes equal `c`. -/
theorem lfn_run_checksums (st : SeqState) (buf buf' : Buf) (frs : List (Bool × Nat × Nat × List Nat)) (c : Nat)
    (hst : ∀ c' n, st ≠ .Remaining c' n) (hne : frs ≠ [])
    (h : updateAll st buf frs = .ok (.Complete c, buf')) :
    ∃ pre x tl, frs = pre ++ x :: tl ∧ x.1 = true ∧
      ∀ i y, (x :: tl)[i]? = some y → y.2.1 = (tl.length + 1) - i ∧ y.2.2.1 = c :=
  Lemmas.C17.lfn_run_checksums st buf buf' frs c hst hne h

/-- A long name is reported only when the state is `Complete` with the checksum of the short
entry that follows; otherwise the entry is reported with no long name. -/
theorem lfn_name_only_if_complete (st : SeqState) (buf : Buf) (de : DirEntry) (raw : Bytes)
    (rest : List (DirEntry × Bytes)) (out : List (DirEntry × Option Bytes)) (name : Bytes)
    (hraw : OnDisk.lfnContents raw = none)
    (h : lfnFold st buf ((de, raw) :: rest) = .ok out) (hn : out.head? = some (de, some name)) :
    st = .Complete (Sfn.csum de.name) ∧ name = asStr buf :=
  Lemmas.C17.lfn_name_only_if_complete st buf de raw rest out name hraw h hn

/-! Non-vacuity (tests). -/
example : BufOK (Lfn.new (zeros 40)) := by simp [BufOK, Lfn.new, zeros]
example : FragOK [0x41, 0x42, 0, 0xFFFF, 0xFFFF, 0xFFFF, 0xFFFF, 0xFFFF, 0xFFFF, 0xFFFF, 0xFFFF, 0xFFFF, 0xFFFF] := by
  constructor <;> decide

end Sdmmc.Props.C17
