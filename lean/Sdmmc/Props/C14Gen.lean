/-
C14, tie to the source text: the six bytes `card_command` (sdcard/mod.rs) puts on the bus —
`[0x40 | command, arg >> 24, arg >> 16, arg >> 8, arg, crc7(first five)]` — machine-translated in
`Sdmmc.Gen.Funs.card_command_buf`, are the model's `Sd.frame command arg`.
-/
import Sdmmc.Gen.Funs
import Sdmmc.Model.Sd
import Sdmmc.Props.C19Gen

namespace Sdmmc.Props.C14Gen

open Sdmmc Sdmmc.Model Sdmmc.Gen Sdmmc.Lemmas.GenBits

/-- The frame assembled by the translated source equals the model's frame, for every command byte
(`command : u8`) and every argument (no bound on `arg` is needed: each byte is taken modulo 256 on
both sides). -/
theorem card_command_buf_eq (command arg : Nat) (hc : command < 256) :
    Funs.card_command_buf command arg = Sd.frame command arg := by
  have h0 : (64 ||| command) % 256 = 64 ||| command :=
    Nat.mod_eq_of_lt (Nat.or_lt_two_pow (n := 8) (by decide) hc)
  unfold Funs.card_command_buf Sd.frame
  simp only [shr, Nat.reducePow, h0, List.take, List.set, C19Gen.crc7_eq, List.cons_append, List.nil_append]
  rfl

/-- Evaluated: CMD0 with argument 0 is `40 00 00 00 00 95`; CMD8 with `0x1AA` is `48 00 00 01 AA 87`. -/
example : Funs.card_command_buf 0 0 = [0x40, 0, 0, 0, 0, 0x95] := by decide +kernel
example : Funs.card_command_buf 8 0x1AA = [0x48, 0, 0, 0x01, 0xAA, 0x87] := by decide +kernel

end Sdmmc.Props.C14Gen
