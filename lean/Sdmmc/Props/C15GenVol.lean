/-
C15, tie to the source text, `fat::parse_volume` as a WHOLE (`Gen/FunsVol.lean`, produced by
`tools/translate_vol.py` from fat/volume.rs):

* `parse_volume_eq`: the translated function is the model's mount parse `mountParse` (read the first block of the
  partition, `parseVolumeBpb`, and for FAT32 read the info sector and `parseVolumeInfo`), as a function
  `FS → Res FatVolume × FS`, for EVERY medium and every state of the cache.  No hypothesis.
* `parseVolume_binding`: `FunsMgr.parseVolume`, the hand-given binding the translation of the volume manager uses for
  its call of `fat::parse_volume`, is that translated function run on the manager's block cache (`cacheOp`).
  No hypothesis.  So the binding is no longer part of the trusted base: it is the source text.

The translation computes with exact numbers where the Rust function (and the model: `addU32`, `mulU32`) panics on
overflow.  The equality holds without a side condition because `Bpb::create_from_bytes` succeeds only when the
checked sum of all the non-data areas fits in `u32` (`Lemmas/C15.lean: sums_le`, used through
`parseVolumeBpb_fat16 / _fat32`), and every sum of `parse_volume` is a part of that sum.
-/
import Sdmmc.Gen.FunsVol
import Sdmmc.Props.C15Gen
import Sdmmc.Props.C15GenM2
import Sdmmc.Lemmas.C15
import Sdmmc.Lemmas.GenMgrIO

namespace Sdmmc.Props.C15GenVol

open Sdmmc Sdmmc.Model Sdmmc.Gen Sdmmc.Props.C15Gen
open Sdmmc.Lemmas.FBasic (bind_apply)

/-- The model's mount parse as one computation over the block cache: the sequence `Model/Mgr.lean` runs when a
volume is opened (and `Model/Mount.lean: mountPure` as a pure function of the sectors). -/
def mountParse (lba nb : Nat) : F FatVolume :=
  (cacheRead lba >>= fun _ => cacheBlk) >>= fun bpb =>
  F.lift (parseVolumeBpb bpb lba nb) >>= fun v =>
  match v.fatType with
  | .fat16 => pure v
  | .fat32 => (cacheRead v.infoLocation >>= fun _ => cacheBlk) >>= fun info => F.lift (parseVolumeInfo v info)

/-! ### The pure accessors `parse_volume` uses beyond those of `Props/C15Gen.lean` -/

theorem bytes_per_block_eq (d : Bytes) : FunsVol.Bpb_bytes_per_block d = Bpb.bytesPerBlock d := rfl
theorem first_root_dir_cluster_eq (d : Bytes) : FunsVol.Bpb_first_root_dir_cluster d = Bpb.firstRootDirCluster d := rfl

/-- `Bpb::volume_label`: bytes 43..=53 on FAT16, 71..=81 on FAT32. -/
theorem volume_label_eq (d : Bytes) :
    FunsVol.Bpb_volume_label d .Fat16 = Bpb.volumeLabel .fat16 d ∧
    FunsVol.Bpb_volume_label d .Fat32 = Bpb.volumeLabel .fat32 d := by
  constructor
  · show List.drop 43 (List.take 54 d) = (d.drop 43).take 11
    rw [List.drop_take]
  · show List.drop 71 (List.take 82 d) = (d.drop 71).take 11
    rw [List.drop_take]

theorem volume_label_eq' (d : Bytes) (ft : Funs.FatType) :
    FunsVol.Bpb_volume_label d ft = Bpb.volumeLabel (toFatType ft) d := by
  cases ft
  · exact (volume_label_eq d).1
  · exact (volume_label_eq d).2

/-! ### The part after the first read, as a function of the boot sector -/

/-- What the model does once the boot sector `d` is in hand. -/
def afterBpb (d : Bytes) (lba nb : Nat) : F FatVolume :=
  F.lift (parseVolumeBpb d lba nb) >>= fun v =>
  match v.fatType with
  | .fat16 => pure v
  | .fat32 => (cacheRead v.infoLocation >>= fun _ => cacheBlk) >>= fun info => F.lift (parseVolumeInfo v info)

theorem afterBpb_err (d : Bytes) (lba nb : Nat) (e : Err) (h : parseVolumeBpb d lba nb = .err e) :
    afterBpb d lba nb = F.fail e := by
  funext s
  simp only [afterBpb, bind_apply, F.lift, h]
  rfl

theorem afterBpb_fat16 (d : Bytes) (lba nb : Nat) (v : FatVolume) (h : parseVolumeBpb d lba nb = .ok v)
    (hv : v.fatType = .fat16) : afterBpb d lba nb = pure v := by
  funext s
  simp only [afterBpb, bind_apply, F.lift, h, hv]

theorem afterBpb_fat32 (d : Bytes) (lba nb : Nat) (v : FatVolume) (h : parseVolumeBpb d lba nb = .ok v)
    (hv : v.fatType = .fat32) :
    afterBpb d lba nb =
      cacheRead v.infoLocation >>= fun _ => cacheBlk >>= fun info => F.lift (parseVolumeInfo v info) := by
  funext s
  simp only [afterBpb, bind_apply, F.lift, h, hv]
  rcases cacheRead v.infoLocation s with ⟨r, s1⟩
  cases r <;> rfl

theorem mountParse_eq (lba nb : Nat) :
    mountParse lba nb = cacheRead lba >>= fun _ => cacheBlk >>= fun d => afterBpb d lba nb := by
  funext s
  simp only [mountParse, bind_apply]
  rcases cacheRead lba s with ⟨r, s1⟩
  cases r <;> rfl

theorem parse_volume_eq (lba nb : Nat) : FunsVol.parse_volume lba nb = mountParse lba nb := by
  rw [mountParse_eq]
  unfold FunsVol.parse_volume
  refine congrArg _ (funext fun _ => congrArg _ (funext fun d => ?_))
  have e := create_from_bytes_eq d
  rcases hc : Bpb.createFromBytes d with ⟨ft, cc⟩ | err | m | _
  · rw [hc] at e
    cases ft
    · simp only [ofRes, Option.some.injEq] at e
      rw [e]
      simp only [volume_label_eq', toFatType]
      by_cases hb : Bpb.bytesPerBlock d ≠ 512
      · rw [afterBpb_err d lba nb _ (by rw [Lemmas.C15.parseVolumeBpb_fat16 lba nb hc, if_pos hb])]
        exact if_pos hb
      · rw [afterBpb_fat16 d lba nb _ (by rw [Lemmas.C15.parseVolumeBpb_fat16 lba nb hc, if_neg hb]) rfl]
        exact if_neg hb
    · simp only [ofRes, Option.some.injEq] at e
      rw [e]
      simp only [volume_label_eq', toFatType]
      rw [show Funs.Bpb_fs_info_block d .Fat32 = some (Bpb.fsInfo d) from rfl]
      by_cases hle : lba + Bpb.fsInfo d > 4294967295
      · rw [afterBpb_err d lba nb _ (by rw [Lemmas.C15.parseVolumeBpb_fat32 lba nb hc, if_pos hle])]
        simp only []
        rw [if_neg (show ¬ (lba + Bpb.fsInfo d < 4294967296) by omega)]
        rfl
      · rw [afterBpb_fat32 d lba nb _ (by rw [Lemmas.C15.parseVolumeBpb_fat32 lba nb hc, if_neg hle]) rfl]
        simp only []
        rw [if_pos (show lba + Bpb.fsInfo d < 4294967296 by omega)]
        show (cacheRead (lba + Bpb.fsInfo d) >>= fun _ => cacheBlk >>= fun info_block => _) = _
        refine congrArg _ (funext fun _ => congrArg _ (funext fun info => ?_))
        rw [C15GenM2.parse_volume_info_binding]
        cases FunsInfo.InfoSector_create_from_bytes info <;> rfl
  · rw [hc] at e
    have hp : parseVolumeBpb d lba nb = .err err := by simp only [parseVolumeBpb, hc, Res.bind_err]
    rw [afterBpb_err d lba nb _ hp]
    cases err <;> first | (simp only [ofRes, reduceCtorEq] at e; done) | skip
    simp only [ofRes, Option.some.injEq] at e
    rw [e]
  · rw [hc] at e; simp [ofRes] at e
  · rw [hc] at e; simp [ofRes] at e

/-! ### The binding in `Gen/FunsMgr.lean` -/

open Sdmmc.Lemmas.GenMgrIO in
theorem cacheOp_bind_fn {α β : Type} {m : F α} {g : α → F β} (hm : CacheOnly m) :
    FunsMgr.cacheOp (m >>= g) = FunsMgr.cacheOp m >>= fun a => FunsMgr.cacheOp (g a) :=
  funext fun s => cacheOp_bind hm s

open Sdmmc.Lemmas.GenMgrIO in
theorem readBlk_cacheOnly (i : Nat) : CacheOnly (cacheRead i >>= fun _ => cacheBlk) :=
  CacheOnly.bind (CacheOnly.cacheRead i) (fun _ => CacheOnly.cacheBlk)

open Sdmmc.Lemmas.GenMgrIO in
theorem lift_cacheOnly {α : Type} (r : Res α) : CacheOnly (F.lift r) := fun _ _ => rfl

theorem cacheOp_lift {α : Type} (r : Res α) : FunsMgr.cacheOp (F.lift r) = M.lift r := rfl

/-- **The hand-given binding of the manager's translation is the translated source**: `FunsMgr.parseVolume` is
`FunsVol.parse_volume` run on the manager's block cache. -/
theorem parseVolume_binding (lba nb : Nat) :
    FunsMgr.parseVolume lba nb = FunsMgr.cacheOp (FunsVol.parse_volume lba nb) := by
  rw [parse_volume_eq]
  unfold mountParse FunsMgr.parseVolume
  rw [cacheOp_bind_fn (readBlk_cacheOnly lba)]
  refine congrArg _ (funext fun bpb => ?_)
  rw [cacheOp_bind_fn (lift_cacheOnly _), cacheOp_lift]
  refine congrArg _ (funext fun v => ?_)
  cases hv : v.fatType
  · rfl
  · simp only []
    rw [cacheOp_bind_fn (readBlk_cacheOnly _)]
    rfl

end Sdmmc.Props.C15GenVol
