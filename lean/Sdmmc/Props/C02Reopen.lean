/-
C02, the composition — "once a file has been flushed or closed, a completely fresh mount of the raw
block device shows that file under its name with exactly the flushed length and contents".

Property theorems only; the proofs are in `Sdmmc.Lemmas.ReopenBase` (vocabulary, decoding a flushed
slot, lookup of the first hit), `ReopenOpen` (open establishes `FileOK`), `ReopenFlush` (flush /
close and their frame), `ReopenMain` (writer side, reader side, composition), `ReopenSlots` (slots
across a flush), `ReopenMount` (remount), `ReopenSpec` (the independent reader).  They build on
`Props.C01Read.read_refines`, `Props.C02.flush_writes_entry`, `Props.C06.find_chain_spec` /
`find_fat16_root_spec`, `Props.C07.open_read_only` and `Props.C15`.

STATUS: every theorem below is proved as stated (no `_partial`).  What is and is not covered:

1. `open_establishes_fileOK` / `open_append_establishes_fileOK` (target 1): `open_file_in_dir` on a
   name the directory lookup finds returns a fresh handle, writes nothing, appends one record and —
   if the entry's first cluster and size are consistent with the medium — establishes `FileOK`.
   In append mode the offset is the size and the cluster cursor is on the FIRST cluster (position
   0); `FileOK.cursor` only asks for a cursor somewhere on the chain, so it holds.
2. `flush_then_lookup` (target 2): after `flush_file` / `close_file` of a dirty consistent file the
   file's slot decodes (`Props.C06.decode`) to `stored f.entry`: name, attributes, first cluster,
   size, slot position are the open file's; creation and modification time are the open file's AT
   FAT RESOLUTION (`stored_spec`; equal to them when they are FAT-representable,
   `stored_of_fatTime` — two-second granularity, C18).  Frame: every byte outside the slot and, on
   FAT32, outside bytes 488..495 of the info sector is unchanged (`flushPos`); chain and contents
   of the file are preserved.  `untouched_entries_unchanged`: every other directory slot of the
   volume holds the same 32 bytes; `untouched_files_unchanged`: every other chain is still a chain
   with the same bytes.  (For `write` the corresponding frame is not proved here: it needs the
   write-side refinement of C01 and the no-sharing invariant of C03/C05.)
3. `reopen_reads_flushed` (target 3, main theorem), `reopen_reads_flushed_pre` (the directory
   hypotheses stated on the medium BEFORE the close) and the reader half on its own,
   `open_read_entry`.
4. Stretch A: `open_raw_volume_is_mount` (`open_raw_volume` reads blocks 0, `lba_start`, info
   sector only and computes `mountPure` of them), `mount_reads_three_blocks`, `fresh_mount_same_geometry`,
   `mount_after_flush`, and the end-to-end `remount_reads_flushed`: close; then a FRESH manager
   mounts, opens the root directory, opens the file by name and reads the flushed bytes.
5. Stretch B: `spec_reader_agrees` — the independent reader of `Spec/Fs.lean` (`Fs.chain`,
   `Fs.fileBytes`) returns the same chain and the same bytes.

Hypotheses that are not invariants proved elsewhere, each documented at its theorem:
* `EntryOK`: what the Rust types guarantee of an entry (`u8` attributes, `u32` size, 11 name bytes,
  slot inside its block) and that it is a file;
* `SlotApart.not_own`: the directory block holding the entry is not a data block of the file itself
  (no-sharing, C03/C05);
* `FirstHit`: the file's slot is the first slot of the directory, before the end marker, matching
  its name (uniqueness of names, C03).  No assumption on what follows the end marker is needed
  (finding F2 of C06 does not bite: every block before the hit is free of end markers);
* handle freshness `∀ g ∈ t.files, g.rawFile ≠ t.nextId` (C08's invariant; trivial on a fresh manager);
* the entry is not a long-name fragment (`attributes % 16 ≠ 15`) where the hit has to be re-established
  after the flush.
-/
import Sdmmc.Lemmas.ReopenMount
import Sdmmc.Lemmas.ReopenSpec
import Sdmmc.Props.C01Read
import Sdmmc.Props.C06
import Sdmmc.Props.C07

namespace Sdmmc.Props.C02Reopen
open Sdmmc.Model Sdmmc.Model.Fat Sdmmc.Spec
open Sdmmc.Props.C06 (Slot firstByte blockSlots dirSlots beforeEnd decode nameHit chainSlots DirChain startCluster
  lookupBlocks lookupChain)
open Sdmmc.Props.C01Read (MgrOK BlocksOK)
open Sdmmc.Props.C07 (DirCtx openedFile)

/-! ### Vocabulary (same bodies as in `Sdmmc.Lemmas.Reopen*`, over the vocabulary of `Props.C06`) -/

/-- `w` is `v` up to the free-cluster count and the next-free hint (which mounting reads from the
FAT32 info sector and which allocation updates). -/
def SameGeom (v w : FatVolume) : Prop :=
  w = { v with freeClustersCount := w.freeClustersCount, nextFreeCluster := w.nextFreeCluster }

/-- What a FAT reader decodes from a slot holding `e.serialize`: `e` with both time stamps at FAT
resolution (`stored_spec`). -/
abbrev stored (e : DirEntry) : DirEntry := Lemmas.Reopen.stored e

/-- First block and number of blocks of the FAT16 fixed root directory. -/
def rootStart (v : FatVolume) : Nat := v.lbaStart + v.firstRootDirBlock
def rootBlocks (v : FatVolume) : Nat := blockCountFromBytes (v.rootEntriesCount * 32)
/-- The handle cluster `dc` designates the FAT16 fixed root. -/
def IsFixedRoot (v : FatVolume) (dc : Nat) : Prop := v.fatType = .fat16 ∧ dc = 0xFFFFFFFC
instance (v : FatVolume) (dc : Nat) : Decidable (IsFixedRoot v dc) :=
  inferInstanceAs (Decidable (v.fatType = .fat16 ∧ dc = 0xFFFFFFFC))

/-- The directory a handle with cluster `dc` designates is on the medium: nothing to ask of the
FAT16 fixed root; otherwise `dcs` is its cluster chain (`Props.C06.DirChain`), starting at the
cluster the walk starts with. -/
def DirOn (v : FatVolume) (d : Disk) (dc : Nat) (dcs : List Nat) : Prop :=
  ¬ IsFixedRoot v dc → ∃ rest, dcs = startCluster v dc :: rest ∧ DirChain v d dcs ∧ rest.length ≤ v.clusterCount + 2
/-- Its slots in on-disk order. -/
def dirSlotsOf (v : FatVolume) (d : Disk) (dc : Nat) (dcs : List Nat) : List Slot :=
  if IsFixedRoot v dc then dirSlots d (rootStart v) (rootBlocks v) else chainSlots v d dcs
/-- What `find_directory_entry` computes on it (`Props.C06.find_fat16_root_spec`, `find_chain_spec`). -/
def dirLookup (v : FatVolume) (d : Disk) (dc : Nat) (dcs : List Nat) (name : Bytes) : Option DirEntry :=
  if IsFixedRoot v dc then lookupBlocks .fat16 d name (rootStart v) (rootBlocks v) else lookupChain v d name dcs
/-- `x` is the first slot of `ss`, before the end marker, that a lookup of `name` accepts. -/
def FirstHit (ss : List Slot) (name : Bytes) (x : Slot) : Prop :=
  (beforeEnd ss).find? (nameHit name) = some x
/-- The directory slot at byte offset `off` of block `b` of the medium. -/
def slotAt (d : Disk) (b off : Nat) : Slot := (b, off, slice (d.get b) off 32)

/-- What `open_file_in_dir` leaves of `s` when it opens a file: device bookkeeping and cache moved
(reads only: same medium, same write log), one handle drawn, one record appended. -/
def Opened (s s' : Mgr) (f : FileInfo) : Prop :=
  s' = { s with dev := s'.dev, cache := s'.cache, nextId := (s.nextId + 1) % 4294967296, files := s.files ++ [f] } ∧
  s'.dev.disk = s.dev.disk ∧ s'.dev.wlog = s.dev.wlog
/-- What a flush leaves of a manager state: device and cache; all tables as they were. -/
def Flushed (s s1 : Mgr) : Prop := s1 = { s with dev := s1.dev, cache := s1.cache }

/-- The byte positions `flush_file` may change: the 32 bytes of the file's directory slot and, on
FAT32, the free-count and next-free words (bytes 488..495) of the info sector. -/
def flushPos (v : FatVolume) (e : DirEntry) : Nat → Nat → Prop := fun b i =>
  (b = e.entryBlock ∧ e.entryOffset ≤ i ∧ i < e.entryOffset + 32) ∨
  (v.fatType = .fat32 ∧ b = v.infoLocation ∧ 488 ≤ i ∧ i < 496)
/-- `d'` agrees with `d` on every whole block other than `eb` and (FAT32) the info sector. -/
def AgreeOff (v : FatVolume) (eb : Nat) (d d' : Disk) : Prop :=
  ∀ b, b ≠ eb → (v.fatType = .fat16 ∨ b ≠ v.infoLocation) → d'.get b = d.get b

/-- What the Rust types guarantee of the entry of an open file (`u8` attributes, `u32` size, 11
name bytes, a slot inside its block) and what `open_file_in_dir` guarantees (not a directory). -/
structure EntryOK (e : DirEntry) : Prop where
  name_len : e.name.length = 11
  off_le : e.entryOffset + 32 ≤ 512
  attr_lt : e.attributes < 256
  size_lt : e.size < 4294967296
  plain : Attr.isDirectory e.attributes = false

/-- The entry's block is a directory block (data area or FAT16 root region) and not a block of the
file's own cluster chain `cs`. -/
structure SlotApart (v : FatVolume) (eb : Nat) (cs : List Nat) : Prop where
  dir_block : regionOf v eb = .data ∨ regionOf v eb = .root
  not_own : ∀ c ∈ cs, ∀ j, j < v.blocksPerCluster → clusterToBlock v c + j ≠ eb

theorem EntryOK.toLemmas {e : DirEntry} (h : EntryOK e) : Lemmas.Reopen.EntryOK e :=
  ⟨h.name_len, h.off_le, h.attr_lt, h.size_lt, h.plain⟩
theorem SlotApart.toLemmas {v : FatVolume} {eb : Nat} {cs : List Nat} (h : SlotApart v eb cs) :
    Lemmas.Reopen.SlotApart v eb cs := ⟨h.dir_block, h.not_own⟩

/-! ### `stored` -/

/-- `stored e` is `e` with each time stamp sent through its two FAT words and back. -/
theorem stored_spec (e : DirEntry) :
    stored e = { e with mtime := Timestamp.fromFat e.mtime.fatDate e.mtime.fatTime,
                        ctime := Timestamp.fromFat e.ctime.fatDate e.ctime.fatTime } := by
  show Lemmas.Reopen.stored e = _
  unfold Lemmas.Reopen.stored
  rw [Lemmas.Reopen.fatRound_eq, Lemmas.Reopen.fatRound_eq]

/-- Name, attributes, first cluster, size and slot position are exactly the entry's. -/
theorem stored_fields (e : DirEntry) :
    (stored e).name = e.name ∧ (stored e).attributes = e.attributes ∧ (stored e).cluster = e.cluster ∧
    (stored e).size = e.size ∧ (stored e).entryBlock = e.entryBlock ∧ (stored e).entryOffset = e.entryOffset :=
  ⟨rfl, rfl, rfl, rfl, rfl, rfl⟩

/-- On FAT-representable time stamps (`Props.C18.FatTime`) nothing is lost: the creation time read
back is the creation time, the modification time read back is the clock value of the last write. -/
theorem stored_of_fatTime (e : DirEntry)
    (hm : ∃ date time, date < 65536 ∧ time < 65536 ∧ date / 32 % 16 ≠ 0 ∧ date % 32 ≠ 0 ∧ e.mtime = Timestamp.fromFat date time)
    (hc : ∃ date time, date < 65536 ∧ time < 65536 ∧ date / 32 % 16 ≠ 0 ∧ date % 32 ≠ 0 ∧ e.ctime = Timestamp.fromFat date time) :
    stored e = e :=
  Lemmas.Reopen.stored_of_fatTime e hm hc

/-! ### Lookup of the first hit -/

/-- `FirstHit` unfolded: `ss = pre ++ x :: post`, no end marker and no hit in `pre`, and `x` is a
hit that is not an end marker. -/
theorem firstHit_iff (ss : List Slot) (name : Bytes) (x : Slot) :
    FirstHit ss name x ↔ ∃ pre post, ss = pre ++ x :: post ∧
      (∀ p ∈ pre, firstByte p.2.2 ≠ 0 ∧ nameHit name p = false) ∧ firstByte x.2.2 ≠ 0 ∧ nameHit name x = true :=
  Lemmas.Reopen.firstHit_iff ss name x

/-- If `x` is the first slot of the directory, before the end marker, that matches `name`, the
engine's lookup returns the decoding of `x` — whatever lies after the end marker (no `CleanTail`). -/
theorem dirLookup_of_firstHit (v : FatVolume) (disk : Disk) (dc : Nat) (dcs : List Nat) (name : Bytes) (x : Slot)
    (h : FirstHit (dirSlotsOf v disk dc dcs) name x) :
    dirLookup v disk dc dcs name = some (decode v.fatType x) :=
  Lemmas.Reopen.dirLookup_of_firstHit v disk dc dcs name x h

/-! ### 1. Opening establishes the file invariant -/

/-- **Target 1.**  `s`: no faults, coherent cache, 512-byte blocks, not locked (`MgrOK`); `d` an open
directory handle (record `dir`) on the open volume `v` (slot `vi`), `name` a valid 8.3 name with
stored form `sfn` (`DirCtx`); the directory is on the medium (`DirOn`); the lookup on the medium
yields `e`, which is not a directory and is not open; the file table has room.  Then
`open_file_in_dir d name ReadOnly` returns the next handle value; the new state is `s` with device
bookkeeping and cache moved (no write, same medium), the handle counter advanced and the record
`openedFile dir s.nextId e ReadOnly 0` (entry `e`, offset 0, handle `s.nextId`) appended; `MgrOK`
still holds; and IF `e`'s first cluster and size are consistent with the medium, the new record
satisfies `FileOK` — so `Props.C01Read.read_refines` applies to it. -/
theorem open_establishes_fileOK (s : Mgr) (d : Nat) (name : List Nat) (dir : DirInfo) (vi : Nat) (sfn : Bytes)
    (v : VolInfo) (dcs : List Nat) (e : DirEntry)
    (hs : MgrOK s) (hc : DirCtx s d name dir vi sfn) (hvi : s.vols[vi]? = some v)
    (hroom : s.files.length < s.maxFiles)
    (hdir : DirOn v.vol s.dev.disk dir.cluster dcs)
    (hlook : dirLookup v.vol s.dev.disk dir.cluster dcs sfn = some e)
    (hno : fileIsOpen s dir.rawVolume e = false) (hnd : Attr.isDirectory e.attributes = false) :
    ∃ s', openFileInDir d name .ReadOnly s = (.ok s.nextId, s') ∧
      Opened s s' (openedFile dir s.nextId e .ReadOnly 0) ∧ MgrOK s' ∧
      ∀ cs, ((e.cluster < 2 ∧ cs = [] ∧ e.size = 0) ∨ Chain v.vol s.dev.disk e.cluster cs) →
        e.size ≤ cs.length * clusterBytesLen v.vol →
        FileOK v.vol s'.dev.disk (openedFile dir s.nextId e .ReadOnly 0) cs :=
  Lemmas.Reopen.open_readOnly_fileOK s d name dir vi sfn v dcs e hs hc hvi hroom hdir hlook hno hnd

/-- The new handle is found: if no open file of `s` carries the value of the new record's handle
(C08's invariant on the handle counter), a handle search on the new state finds the new record, at
the last index. -/
theorem opened_handle_found (s s' : Mgr) (f : FileInfo) (h : Opened s s' f)
    (hfresh : ∀ g ∈ s.files, g.rawFile ≠ f.rawFile) :
    s'.files.findIdx? (·.rawFile = f.rawFile) = some s.files.length ∧ s'.files[s.files.length]? = some f := by
  have hfiles : s'.files = s.files ++ [f] := by rw [h.1]
  rw [hfiles]
  exact ⟨Lemmas.Reopen.findIdx?_append_fresh s.files f f.rawFile hfresh rfl, by simp⟩

/-- The `ReadWriteAppend` variant (also `ReadWriteCreateOrAppend` on an existing name): the entry
must not carry the read-only attribute; the record starts at `currentOffset = e.size` with
`curClusterOff = 0`, `curCluster = e.cluster` — the cursor is NOT on the cluster holding the
offset, but `FileOK.cursor` only asks for a cursor on the chain at a cluster-aligned position, so
`FileOK` holds. -/
theorem open_append_establishes_fileOK (s : Mgr) (d : Nat) (name : List Nat) (dir : DirInfo) (vi : Nat) (sfn : Bytes)
    (v : VolInfo) (dcs : List Nat) (e : DirEntry) (mode : Mode)
    (hm : mode = .ReadWriteAppend ∨ mode = .ReadWriteCreateOrAppend)
    (hs : MgrOK s) (hc : DirCtx s d name dir vi sfn) (hvi : s.vols[vi]? = some v)
    (hroom : s.files.length < s.maxFiles)
    (hdir : DirOn v.vol s.dev.disk dir.cluster dcs)
    (hlook : dirLookup v.vol s.dev.disk dir.cluster dcs sfn = some e)
    (hno : fileIsOpen s dir.rawVolume e = false) (hro : Attr.isReadOnly e.attributes = false)
    (hnd : Attr.isDirectory e.attributes = false) :
    ∃ s', openFileInDir d name mode s = (.ok s.nextId, s') ∧
      Opened s s' (openedFile dir s.nextId e .ReadWriteAppend e.size) ∧ MgrOK s' ∧
      ∀ cs, ((e.cluster < 2 ∧ cs = [] ∧ e.size = 0) ∨ Chain v.vol s.dev.disk e.cluster cs) →
        e.size ≤ cs.length * clusterBytesLen v.vol →
        FileOK v.vol s'.dev.disk (openedFile dir s.nextId e .ReadWriteAppend e.size) cs :=
  Lemmas.Reopen.open_append_fileOK s d name dir vi sfn v dcs e mode hm hs hc hvi hroom hdir hlook hno hro hnd

/-! ### 2. Flush / close, seen from the medium -/

/-- **Target 2.**  `s`: `MgrOK`; `h` an open handle (slot `i`, record `f`, dirty, `FileOK` with
chain `cs`) on the open volume `v` (slot `vi`, `WFGeom`); `EntryOK f.entry`; `SlotApart`.  Then
`flush_file h` succeeds (state `s1`) and `close_file h` succeeds with the same medium, dropping the
record (`swap_remove`); all tables — in particular the volume record — are otherwise untouched;
`MgrOK` holds again; and on `s1.dev.disk`
* the file's slot decodes to `stored f.entry` (`stored_fields`, `stored_spec`);
* every byte outside `flushPos` is unchanged and every whole block other than the entry's block
  and the FAT32 info sector is identical (the info sector itself changes in bytes 488..495 only);
* the file's cluster chain is still `cs` and its byte-array contents are unchanged. -/
theorem flush_then_lookup (s : Mgr) (h i vi : Nat) (f : FileInfo) (v : VolInfo) (cs : List Nat)
    (hs : MgrOK s) (hh : s.files.findIdx? (·.rawFile = h) = some i) (hf : s.files[i]? = some f)
    (hv : s.vols.findIdx? (·.rawVolume = f.rawVolume) = some vi) (hvi : s.vols[vi]? = some v)
    (hg : WFGeom v.vol) (hok : FileOK v.vol s.dev.disk f cs) (hd : f.dirty = true)
    (he : EntryOK f.entry) (hap : SlotApart v.vol f.entry.entryBlock cs) :
    ∃ s1, flushFile h s = (.ok (), s1) ∧
      closeFile h s = (.ok (), { s1 with files := swapRemove s.files i }) ∧ Flushed s s1 ∧ MgrOK s1 ∧
      decode v.vol.fatType (slotAt s1.dev.disk f.entry.entryBlock f.entry.entryOffset) = stored f.entry ∧
      (∀ b j, ¬ flushPos v.vol f.entry b j → (s1.dev.disk.get b).getD j 0 = (s.dev.disk.get b).getD j 0) ∧
      AgreeOff v.vol f.entry.entryBlock s.dev.disk s1.dev.disk ∧
      ((f.entry.cluster < 2 ∧ cs = [] ∧ f.entry.size = 0) ∨ Chain v.vol s1.dev.disk f.entry.cluster cs) ∧
      fileContent v.vol s1.dev.disk cs f.entry.size = fileContent v.vol s.dev.disk cs f.entry.size :=
  Lemmas.Reopen.close_then_slot s h i vi f v cs hs hh hf hv hvi hg hok hd he.toLemmas hap.toLemmas

/-- **Entry-for-entry unchanged** (stretch C, for `flush_file` / `close_file`): `d'` being `d`
after a flush of `e` (byte frame `flushPos`, as `flush_then_lookup` gives it), the slot at every
32-byte-aligned position `(b, off)` of every directory block other than `e`'s own position holds
the same 32 bytes — hence decodes to the same entry, in every directory of the volume. -/
theorem untouched_entries_unchanged (v : FatVolume) (hg : WFGeom v) (e : DirEntry) (d d' : Disk)
    (hb : BlocksOK d) (hb' : BlocksOK d')
    (hbyte : ∀ b j, ¬ flushPos v e b j → (d'.get b).getD j 0 = (d.get b).getD j 0)
    (heal : e.entryOffset % 32 = 0) (b off : Nat)
    (hreg : regionOf v b = .data ∨ regionOf v b = .root) (hal : off % 32 = 0)
    (hne : (b, off) ≠ (e.entryBlock, e.entryOffset)) :
    slotAt d' b off = slotAt d b off ∧ decode v.fatType (slotAt d' b off) = decode v.fatType (slotAt d b off) := by
  have h := Lemmas.Reopen.slot_unchanged_by_flush v hg e d d' hb hb' hbyte heal (b, off) hreg hal hne
  have h' : slotAt d' b off = slotAt d b off := h
  exact ⟨h', by rw [h']⟩

/-- **Byte-for-byte unchanged**: any cluster chain of the volume (another file, a directory) is
still a chain after a flush of an entry living in directory block `eb` (block frame `AgreeOff`, as
`flush_then_lookup` gives it), and if `eb` is not one of its blocks its bytes are the same — so
every other file reads the same before and after. -/
theorem untouched_files_unchanged (v : FatVolume) (hg : WFGeom v) (eb : Nat) (d d' : Disk)
    (hagree : AgreeOff v eb d d') (hdb : regionOf v eb = .data ∨ regionOf v eb = .root)
    {c : Nat} {cs : List Nat} (hch : Chain v d c cs) :
    Chain v d' c cs ∧
    ((∀ x ∈ cs, ∀ j, j < v.blocksPerCluster → clusterToBlock v x + j ≠ eb) →
      ∀ n, fileContent v d' cs n = fileContent v d cs n) :=
  ⟨Lemmas.Reopen.chain_of_agreeOff v hg eb d d' hagree hdb hch,
   fun hown n => Lemmas.Reopen.fileContent_of_agreeOff v hg eb d d' hagree cs (Lemmas.ChainL.chain_inRange hch) hown n⟩

/-- The directory of the flushed file before and after: if on `d` the directory (`dc`, clusters
`dcs`, all in range) is on the medium and the file's slot is the first hit for its name, the same
holds on `d'`; the entry's block is then a directory block and its offset is aligned. -/
theorem first_hit_preserved (v : FatVolume) (hg : WFGeom v) (e : DirEntry) (d d' : Disk)
    (hb : BlocksOK d) (hb' : BlocksOK d') (hst : Lemmas.Reopen.Storable v.fatType e) (hlfn : e.attributes % 16 ≠ 15)
    (hslot : slice (d'.get e.entryBlock) e.entryOffset 32 = e.serialize v.fatType)
    (hbyte : ∀ b j, ¬ flushPos v e b j → (d'.get b).getD j 0 = (d.get b).getD j 0)
    (hagree : AgreeOff v e.entryBlock d d')
    (dc : Nat) (dcs : List Nat) (hin : ∀ c ∈ dcs, InRange v c) (hdir : DirOn v d dc dcs)
    (hfirst : FirstHit (dirSlotsOf v d dc dcs) e.name (slotAt d e.entryBlock e.entryOffset)) :
    DirOn v d' dc dcs ∧
    FirstHit (dirSlotsOf v d' dc dcs) e.name (slotAt d' e.entryBlock e.entryOffset) ∧
    (regionOf v e.entryBlock = .data ∨ regionOf v e.entryBlock = .root) ∧ e.entryOffset % 32 = 0 :=
  Lemmas.Reopen.dir_after_flush v hg e d d' hb hb' hst hlfn hslot hbyte hagree dc dcs hin hdir hfirst

/-! ### 3. Reading back -/

/-- **Reader half**: on any `MgrOK` state `t`, if `x` is the first slot of the directory of handle
`d`, before the end marker, matching the stored form `sfn` of `name`, and it decodes to a plain
file entry `e` that is not open and whose first cluster and size are consistent with the medium
(chain `cs`), then `open_file_in_dir d name ReadOnly` returns the next handle (table has room,
handle value not in use) without writing, the reported length is `e.size`, and a `read` of `n`
bytes through the new handle returns the first `n` bytes of the contents the medium holds for `e`. -/
theorem open_read_entry (t : Mgr) (d : Nat) (name : List Nat) (dir : DirInfo) (wi : Nat) (sfn : Bytes)
    (w : VolInfo) (dcs : List Nat) (x : Slot) (e : DirEntry) (cs : List Nat)
    (ht : MgrOK t) (hctx : DirCtx t d name dir wi sfn) (hwi : t.vols[wi]? = some w) (hgw : WFGeom w.vol)
    (hroom : t.files.length < t.maxFiles) (hfresh : ∀ g ∈ t.files, g.rawFile ≠ t.nextId)
    (hdir : DirOn w.vol t.dev.disk dir.cluster dcs)
    (hfirst : FirstHit (dirSlotsOf w.vol t.dev.disk dir.cluster dcs) sfn x)
    (hdec : decode w.vol.fatType x = e)
    (hplain : Attr.isDirectory e.attributes = false) (hno : fileIsOpen t dir.rawVolume e = false)
    (hch : (e.cluster < 2 ∧ cs = [] ∧ e.size = 0) ∨ Chain w.vol t.dev.disk e.cluster cs)
    (hfit : e.size ≤ cs.length * clusterBytesLen w.vol) :
    ∃ t1, openFileInDir d name .ReadOnly t = (.ok t.nextId, t1) ∧
      Opened t t1 (openedFile dir t.nextId e .ReadOnly 0) ∧ MgrOK t1 ∧
      fileLength t.nextId t1 = (.ok e.size, t1) ∧
      ∀ n, ∃ t2, read t.nextId n t1 = (.ok ((fileContent w.vol t.dev.disk cs e.size).take n), t2) ∧
        t2.dev.disk = t.dev.disk ∧ t2.dev.wlog = t.dev.wlog :=
  Lemmas.Reopen.open_read_entry t d name dir wi sfn w dcs x e cs ht hctx hwi hgw hroom hfresh hdir hfirst hdec
    hplain hno hch hfit

/-- **Main theorem (target 3): a flushed file is read back by any manager on the same medium.**

Writer: `s` (`MgrOK`), handle `h` (slot `i`, record `f`, dirty, `FileOK` with chain `cs`) on the
open volume `v` (slot `vi`, `WFGeom`), `EntryOK f.entry`, `SlotApart`.  `B` below is
`fileContent v.vol s.dev.disk cs f.entry.size`, the byte-array contents of the file before the close.

Reader: ANY manager state `t` with `MgrOK t` on the medium the close left
(`t.dev.disk = s1.dev.disk`) — the same manager or a fresh one after a remount — with an open
volume record `w` of the same geometry (`SameGeom`), an open directory handle `d` (record `dir`)
whose directory is on the medium and in whose slot list the file's slot is the first slot before
the end marker matching the file's 11-byte name; `name` a spelling of that stored name (`DirCtx`
with `sfn = f.entry.name`); no open file of `t` on that slot; room in the file table; the next
handle value not in use.

Then the close succeeds, `B.length = f.entry.size`, and on every such `t`:
`open_file_in_dir d name ReadOnly` returns `t.nextId` without writing; `file_length` of the new
handle is `B.length`; a `read` of `n` bytes returns `B.take n` — the whole of `B` for
`n ≥ B.length` — without writing. -/
theorem reopen_reads_flushed (s : Mgr) (h i vi : Nat) (f : FileInfo) (v : VolInfo) (cs : List Nat)
    (hs : MgrOK s) (hh : s.files.findIdx? (·.rawFile = h) = some i) (hf : s.files[i]? = some f)
    (hv : s.vols.findIdx? (·.rawVolume = f.rawVolume) = some vi) (hvi : s.vols[vi]? = some v)
    (hg : WFGeom v.vol) (hok : FileOK v.vol s.dev.disk f cs) (hd : f.dirty = true)
    (he : EntryOK f.entry) (hap : SlotApart v.vol f.entry.entryBlock cs) :
    ∃ s1, closeFile h s = (.ok (), s1) ∧
      (fileContent v.vol s.dev.disk cs f.entry.size).length = f.entry.size ∧
      ∀ (t : Mgr) (d : Nat) (name : List Nat) (dir : DirInfo) (wi : Nat) (w : VolInfo) (dcs : List Nat),
        MgrOK t → t.dev.disk = s1.dev.disk →
        DirCtx t d name dir wi f.entry.name → t.vols[wi]? = some w → SameGeom v.vol w.vol →
        t.files.length < t.maxFiles → (∀ g ∈ t.files, g.rawFile ≠ t.nextId) →
        DirOn w.vol t.dev.disk dir.cluster dcs →
        FirstHit (dirSlotsOf w.vol t.dev.disk dir.cluster dcs) f.entry.name
          (slotAt t.dev.disk f.entry.entryBlock f.entry.entryOffset) →
        fileIsOpen t dir.rawVolume f.entry = false →
        ∃ t1, openFileInDir d name .ReadOnly t = (.ok t.nextId, t1) ∧
          t1.dev.disk = t.dev.disk ∧ t1.dev.wlog = t.dev.wlog ∧
          fileLength t.nextId t1 = (.ok (fileContent v.vol s.dev.disk cs f.entry.size).length, t1) ∧
          ∀ n, ∃ t2, read t.nextId n t1 = (.ok ((fileContent v.vol s.dev.disk cs f.entry.size).take n), t2) ∧
            t2.dev.disk = t.dev.disk ∧ t2.dev.wlog = t.dev.wlog ∧
            ((fileContent v.vol s.dev.disk cs f.entry.size).length ≤ n →
              read t.nextId n t1 = (.ok (fileContent v.vol s.dev.disk cs f.entry.size), t2)) :=
  Lemmas.Reopen.reopen_reads_flushed s h i vi f v cs hs hh hf hv hvi hg hok hd he.toLemmas hap.toLemmas

/-- The same with everything asked of the directory stated on the writer's medium BEFORE the close
(where C03's invariant lives): the directory (`dc`, clusters `dcs`, all in range) is on the medium,
the file's slot is its first hit for the file's name, the entry is not a long-name fragment.  The
reader's handle designates that directory (`dir.cluster = dc`).  That the entry's block is a
directory block follows; `hown` (it is not one of the file's own data blocks) remains. -/
theorem reopen_reads_flushed_pre (s : Mgr) (h i vi : Nat) (f : FileInfo) (v : VolInfo) (cs : List Nat)
    (hs : MgrOK s) (hh : s.files.findIdx? (·.rawFile = h) = some i) (hf : s.files[i]? = some f)
    (hv : s.vols.findIdx? (·.rawVolume = f.rawVolume) = some vi) (hvi : s.vols[vi]? = some v)
    (hg : WFGeom v.vol) (hok : FileOK v.vol s.dev.disk f cs) (hd : f.dirty = true)
    (he : EntryOK f.entry) (hlfn : f.entry.attributes % 16 ≠ 15)
    (hown : ∀ c ∈ cs, ∀ j, j < v.vol.blocksPerCluster → clusterToBlock v.vol c + j ≠ f.entry.entryBlock)
    (dc : Nat) (dcs : List Nat) (hin : ∀ c ∈ dcs, InRange v.vol c) (hdir : DirOn v.vol s.dev.disk dc dcs)
    (hfirst : FirstHit (dirSlotsOf v.vol s.dev.disk dc dcs) f.entry.name
      (slotAt s.dev.disk f.entry.entryBlock f.entry.entryOffset)) :
    ∃ s1, closeFile h s = (.ok (), s1) ∧
      (fileContent v.vol s.dev.disk cs f.entry.size).length = f.entry.size ∧
      ∀ (t : Mgr) (d : Nat) (name : List Nat) (dir : DirInfo) (wi : Nat) (w : VolInfo),
        MgrOK t → t.dev.disk = s1.dev.disk →
        DirCtx t d name dir wi f.entry.name → dir.cluster = dc → t.vols[wi]? = some w → SameGeom v.vol w.vol →
        t.files.length < t.maxFiles → (∀ g ∈ t.files, g.rawFile ≠ t.nextId) →
        fileIsOpen t dir.rawVolume f.entry = false →
        ∃ t1, openFileInDir d name .ReadOnly t = (.ok t.nextId, t1) ∧
          t1.dev.disk = t.dev.disk ∧ t1.dev.wlog = t.dev.wlog ∧
          fileLength t.nextId t1 = (.ok (fileContent v.vol s.dev.disk cs f.entry.size).length, t1) ∧
          ∀ n, ∃ t2, read t.nextId n t1 = (.ok ((fileContent v.vol s.dev.disk cs f.entry.size).take n), t2) ∧
            t2.dev.disk = t.dev.disk ∧ t2.dev.wlog = t.dev.wlog ∧
            ((fileContent v.vol s.dev.disk cs f.entry.size).length ≤ n →
              read t.nextId n t1 = (.ok (fileContent v.vol s.dev.disk cs f.entry.size), t2)) :=
  Lemmas.Reopen.reopen_reads_flushed_pre s h i vi f v cs hs hh hf hv hvi hg hok hd he.toLemmas hlfn hown dc dcs hin
    hdir hfirst

/-! ### 4. Remounting (stretch A) -/

/-- `open_raw_volume idx` on a fault-free coherent manager with room in the volume table and the
partition not yet open: it reads block 0, the first block of the partition and (FAT32) the info
sector — nothing else of the medium enters — and if `mountPure` of those (`Props.C15`) is `v`, it
returns the next handle, writes nothing and appends the record `v`. -/
theorem open_raw_volume_is_mount (s : Mgr) (idx : Nat) (v : FatVolume) (hs : MgrOK s)
    (hroom : s.vols.length < s.maxVols) (hnot : s.vols.any (fun x => x.idx = idx) = false)
    (hm : mountPure (s.dev.disk.get 0) idx s.dev.disk.get = .ok v) :
    ∃ s', openRawVolume idx s = (.ok s.nextId, s') ∧
      s' = { s with dev := s'.dev, cache := s'.cache, nextId := (s.nextId + 1) % 4294967296,
                    vols := s.vols ++ [{ rawVolume := s.nextId, idx := idx, vol := v }] } ∧
      s'.dev.disk = s.dev.disk ∧ s'.dev.wlog = s.dev.wlog ∧ MgrOK s' :=
  Lemmas.Reopen.openRawVolume_spec s idx v hs hroom hnot hm

/-- Mounting depends on three blocks only: if `d'` agrees with `d` on block 0, on the boot sector
of the partition and (FAT32) on the info sector, it mounts to the very same record. -/
theorem mount_reads_three_blocks (d d' : Disk) (idx : Nat) (v : FatVolume)
    (hm : mountPure (d.get 0) idx d.get = .ok v)
    (h0 : d'.get 0 = d.get 0) (hb : d'.get v.lbaStart = d.get v.lbaStart)
    (hinfo : v.fatType = .fat32 → d'.get v.infoLocation = d.get v.infoLocation) :
    mountPure (d'.get 0) idx d'.get = .ok v :=
  Lemmas.Reopen.mount_frame d d' idx v hm h0 hb hinfo

/-- **Fresh mount, same geometry**: if `d'` agrees with `d` on block 0, on the boot sector of the
mounted partition and on the info sector outside its bytes 488..495, mounting `d'` succeeds with a
record of the same geometry (only the free count and the next-free hint may differ). -/
theorem fresh_mount_same_geometry (d d' : Disk) (idx : Nat) (v : FatVolume)
    (hm : mountPure (d.get 0) idx d.get = .ok v)
    (h0 : d'.get 0 = d.get 0) (hb : d'.get v.lbaStart = d.get v.lbaStart)
    (hinfo : v.fatType = .fat32 → ∀ i, i < 488 ∨ 496 ≤ i →
      (d'.get v.infoLocation).getD i 0 = (d.get v.infoLocation).getD i 0) :
    ∃ w, mountPure (d'.get 0) idx d'.get = .ok w ∧ SameGeom v w :=
  Lemmas.Reopen.mount_sameGeom d d' idx v hm h0 hb hinfo

/-- … and a flush is such a change: mounting the medium a flush of `e` left gives the geometry the
volume was mounted with (`vm`: what mounting the medium before the flush gives, `SameGeom vm v`). -/
theorem mount_after_flush (v : FatVolume) (hg : WFGeom v) (e : DirEntry) (d d' : Disk)
    (hreg : regionOf v e.entryBlock = .data ∨ regionOf v e.entryBlock = .root)
    (hbyte : ∀ b j, ¬ flushPos v e b j → (d'.get b).getD j 0 = (d.get b).getD j 0)
    (hagree : AgreeOff v e.entryBlock d d')
    (idx : Nat) (vm : FatVolume) (hm : mountPure (d.get 0) idx d.get = .ok vm) (hsg : SameGeom vm v) :
    ∃ w, mountPure (d'.get 0) idx d'.get = .ok w ∧ SameGeom v w :=
  Lemmas.Reopen.mount_after_flush v hg e d d' hreg hbyte hagree idx vm hm hsg

/-- **End to end: close, then a fresh manager mounts, opens the root directory, opens the file by
name and reads the flushed bytes.**

Writer as in `reopen_reads_flushed_pre`, the file being in the root directory
(`dc = 0xFFFFFFFC`; `dcs` its cluster list on FAT32, ignored for the FAT16 fixed root); the volume
is partition `idx` of this medium: mounting the medium as it is gives the record's geometry.

Then the close succeeds and for EVERY fresh manager `t0` on the resulting medium (`MgrOK`, empty
tables with room for one volume, one directory, one file, handle counter at least 3 below the
wrap-around) and every spelling `name` of the file's stored name, `open_raw_volume idx`,
`open_root_dir`, `open_file_in_dir … name ReadOnly` succeed with the handles `k`, `k+1`, `k+2`
(`k = t0.nextId`), no call writes, the reported length is `B.length` and `read (k+2) n` returns
`B.take n` (all of `B` for `n ≥ B.length`), `B` being the contents of the writer's file. -/
theorem remount_reads_flushed (s : Mgr) (h i vi : Nat) (f : FileInfo) (v : VolInfo) (cs : List Nat)
    (hs : MgrOK s) (hh : s.files.findIdx? (·.rawFile = h) = some i) (hf : s.files[i]? = some f)
    (hv : s.vols.findIdx? (·.rawVolume = f.rawVolume) = some vi) (hvi : s.vols[vi]? = some v)
    (hg : WFGeom v.vol) (hok : FileOK v.vol s.dev.disk f cs) (hd : f.dirty = true)
    (he : EntryOK f.entry) (hlfn : f.entry.attributes % 16 ≠ 15)
    (hown : ∀ c ∈ cs, ∀ j, j < v.vol.blocksPerCluster → clusterToBlock v.vol c + j ≠ f.entry.entryBlock)
    (dcs : List Nat) (hin : ∀ c ∈ dcs, InRange v.vol c) (hdir : DirOn v.vol s.dev.disk 0xFFFFFFFC dcs)
    (hfirst : FirstHit (dirSlotsOf v.vol s.dev.disk 0xFFFFFFFC dcs) f.entry.name
      (slotAt s.dev.disk f.entry.entryBlock f.entry.entryOffset))
    (idx : Nat) (vm : FatVolume) (hm : mountPure (s.dev.disk.get 0) idx s.dev.disk.get = .ok vm)
    (hsg : SameGeom vm v.vol) :
    ∃ s1, closeFile h s = (.ok (), s1) ∧
      ∀ (t0 : Mgr) (name : List Nat), MgrOK t0 → t0.dev.disk = s1.dev.disk →
        t0.vols = [] → t0.dirs = [] → t0.files = [] → 0 < t0.maxVols → 0 < t0.maxDirs → 0 < t0.maxFiles →
        t0.nextId + 2 < 4294967296 → Sfn.createFromStr name = .ok f.entry.name →
        ∃ t1 t2 t3, openRawVolume idx t0 = (.ok t0.nextId, t1) ∧
          openRootDir t0.nextId t1 = (.ok (t0.nextId + 1), t2) ∧
          openFileInDir (t0.nextId + 1) name .ReadOnly t2 = (.ok (t0.nextId + 2), t3) ∧
          t3.dev.disk = s1.dev.disk ∧ t3.dev.wlog = t0.dev.wlog ∧
          fileLength (t0.nextId + 2) t3 = (.ok (fileContent v.vol s.dev.disk cs f.entry.size).length, t3) ∧
          ∀ n, ∃ t4, read (t0.nextId + 2) n t3 = (.ok ((fileContent v.vol s.dev.disk cs f.entry.size).take n), t4) ∧
            t4.dev.disk = s1.dev.disk ∧ t4.dev.wlog = t0.dev.wlog ∧
            ((fileContent v.vol s.dev.disk cs f.entry.size).length ≤ n →
              read (t0.nextId + 2) n t3 = (.ok (fileContent v.vol s.dev.disk cs f.entry.size), t4)) :=
  Lemmas.Reopen.remount_reads_flushed s h i vi f v cs hs hh hf hv hvi hg hok hd he.toLemmas hlfn hown dcs hin hdir
    hfirst idx vm hm hsg

/-! ### 5. The independent reader (stretch B) -/

/-- `g` is the geometry of the volume record `v` as the numbers `Spec.Fs` works with (absolute
block numbers): FAT type, first block of FAT copy 1, first data block, blocks per cluster, number
of data clusters. -/
abbrev GeomOf (v : FatVolume) (g : Fs.Geom) : Prop := Lemmas.Reopen.GeomOf v g

/-- No FAT entry of the clusters `cs` is the FAT32 value 1.  The crate takes that value for an
end-of-chain mark (`next_cluster`: `0x0000_0001 | 0x0FFF_FFF8..=0x0FFF_FFFF => EndOfFile`); the
FAT specification reserves it and the independent reader reports it (`Example.entry_one`). -/
def ProperEnds (v : FatVolume) (d : Disk) (cs : List Nat) : Prop :=
  ∀ x ∈ cs, v.fatType = .fat32 → fatRaw v d x % 268435456 ≠ 1

/-- On a medium with 512-byte blocks a chain of the engine's view (`Chain`, C01) is the chain the
independent reader computes from its own FAT table with its own walk. -/
theorem spec_chain_agrees (v : FatVolume) (g : Fs.Geom) (hgm : GeomOf v g) (d : Disk) (hb : BlocksOK d)
    {c : Nat} {cs : List Nat} (hch : Chain v d c cs) (hp : ProperEnds v d cs) : Fs.chain g d c = .ok cs :=
  Lemmas.Reopen.spec_chain_agrees v g hgm d hb hch hp

/-- `Fs.fileBytes` of data clusters of the volume is `fileContent`. -/
theorem spec_file_bytes_agree (v : FatVolume) (hg : WFGeom v) (g : Fs.Geom) (hgm : GeomOf v g) (d : Disk)
    (cs : List Nat) (hin : ∀ c ∈ cs, InRange v c) (size : Nat) :
    Fs.fileBytes g d cs size = fileContent v d cs size :=
  Lemmas.Reopen.spec_fileBytes_agrees v hg g hgm d cs hin size

/-- **The independent reader agrees** (stretch B).  Writer as in `flush_then_lookup`; `g` describes
the volume's geometry; `ProperEnds`.  On the medium the close leaves, the reader's slot at the
file's position — any `Fs.Slot` whose bytes are the 32 bytes at `entryOffset` of block
`entryBlock`, as `Fs.blockSlots` produces them — has the open file's name, attributes, first
cluster and size; `Fs.chain` of that cluster is `cs`; `Fs.fileBytes` of that chain and size is the
contents of the writer's file. -/
theorem spec_reader_agrees (s : Mgr) (h i vi : Nat) (f : FileInfo) (v : VolInfo) (cs : List Nat)
    (hs : MgrOK s) (hh : s.files.findIdx? (·.rawFile = h) = some i) (hf : s.files[i]? = some f)
    (hv : s.vols.findIdx? (·.rawVolume = f.rawVolume) = some vi) (hvi : s.vols[vi]? = some v)
    (hg : WFGeom v.vol) (hok : FileOK v.vol s.dev.disk f cs) (hd : f.dirty = true)
    (he : EntryOK f.entry) (hap : SlotApart v.vol f.entry.entryBlock cs)
    (g : Fs.Geom) (hgm : GeomOf v.vol g) (hp : ProperEnds v.vol s.dev.disk cs) :
    ∃ s1, closeFile h s = (.ok (), s1) ∧
      ∀ sl : Fs.Slot, sl.bytes = slice (s1.dev.disk.get f.entry.entryBlock) f.entry.entryOffset 32 →
        Fs.nameOf sl = f.entry.name ∧ Fs.attrOf sl = f.entry.attributes ∧
        Fs.clusterOf g sl = f.entry.cluster ∧ Fs.sizeOf sl = f.entry.size ∧
        (cs ≠ [] → Fs.chain g s1.dev.disk (Fs.clusterOf g sl) = .ok cs) ∧
        Fs.fileBytes g s1.dev.disk cs (Fs.sizeOf sl) = fileContent v.vol s.dev.disk cs f.entry.size :=
  Lemmas.Reopen.spec_reader_after_close s h i vi f v cs hs hh hf hv hvi hg hok hd he.toLemmas hap.toLemmas g hgm hp

/-! ### Non-vacuity (tests, evaluated by the kernel)

The smallest FAT16 volume (4085 clusters of one block) in partition 0 of a medium: partition table
in block 0, boot sector in block 1, FAT in blocks 2..17, root directory in block 18, cluster `c` in
block `17 + c`.  The file `A.TXT` was created empty and then written: 600 bytes in clusters 2 → 3;
the medium still holds the OLD directory entry (size 0, no cluster). -/
namespace Example
open Sdmmc.Props.C06 (decode)

deriving instance DecidableEq for Res

/-- Partition table: partition 0 of type 0x06 (FAT16) starts at block 1 and has 4103 blocks. -/
def mbrBlk : Block :=
  zeros 446 ++ [0x00, 0, 0, 0, 0x06, 0, 0, 0, 1, 0, 0, 0, 0x07, 0x10, 0, 0] ++ zeros 48 ++ [0x55, 0xAA]
/-- Boot sector: 512-byte blocks, 1 block per cluster, 1 reserved block, 1 FAT of 16 blocks, 16 root
entries, 4103 blocks in all: 4085 clusters, the smallest FAT16 volume. -/
def bpbBlk : Block :=
  zeros 11 ++ [0x00, 0x02, 1, 1, 0, 1, 16, 0, 0x07, 0x10, 0xF8, 16, 0] ++ zeros 486 ++ [0x55, 0xAA]
/-- What mounting gives. -/
def vol0 : FatVolume :=
  { lbaStart := 1, numBlocks := 4103, name := zeros 11, blocksPerCluster := 1, firstDataBlock := 18, fatStart := 1,
    secondFatStart := none, freeClustersCount := none, nextFreeCluster := none, clusterCount := 4085,
    fatType := .fat16, rootEntriesCount := 16, firstRootDirBlock := 17, infoLocation := 0, firstRootDirCluster := 0 }
/-- The writer's record: the same geometry, the next-free hint moved by its allocations. -/
def vol : FatVolume := { vol0 with nextFreeCluster := some 4 }

example : mbrBlk.length = 512 ∧ bpbBlk.length = 512 := by decide +kernel

/-- FAT (absolute block 2): cluster 2 → 3, cluster 3 → end. -/
def fatBlk : Block := [0xF8, 0xFF, 0xFF, 0xFF, 3, 0, 0xFF, 0xFF] ++ zeros 504
def nameA : Bytes := [0x41, 0x20, 0x20, 0x20, 0x20, 0x20, 0x20, 0x20, 0x54, 0x58, 0x54]
def nameStr : List Nat := [0x41, 0x2E, 0x54, 0x58, 0x54]   -- "A.TXT"
def t0 : Timestamp := Timestamp.fromFat 0x4A8F 0xBF7D
def clk : Timestamp := Timestamp.fromFat 0x5B21 0x6000
/-- The entry as it stands on the medium before the flush: created empty at `t0`. -/
def oldEntry : DirEntry :=
  { name := nameA, mtime := t0, ctime := t0, attributes := 0x20, cluster := 0, size := 0, entryBlock := 18, entryOffset := 0 }
/-- The open file's entry: 600 bytes in clusters 2 → 3, modified at `clk`. -/
def entry : DirEntry :=
  { name := nameA, mtime := clk, ctime := t0, attributes := 0x20, cluster := 2, size := 600, entryBlock := 18, entryOffset := 0 }
/-- Root directory (absolute block 18): the old entry in slot 0, then the end marker. -/
def dirBlk : Block := oldEntry.serialize .fat16 ++ zeros 480
def blkA : Block := List.replicate 512 0xAA
def blkB : Block := List.replicate 512 0xBB
def disk : Disk :=
  (((((Disk.empty.set 0 mbrBlk).set 1 bpbBlk).set 2 fatBlk).set 18 dirBlk).set 19 blkA).set 20 blkB

def file : FileInfo :=
  { rawFile := 7, rawVolume := 3, curClusterOff := 512, curCluster := 3, currentOffset := 600, mode := .ReadWriteCreate,
    entry := entry, dirty := true }
def vinfo : VolInfo := { rawVolume := 3, idx := 0, vol := vol }
def mgr : Mgr :=
  { dev := { disk := disk }, nextId := 8, vols := [vinfo],
    dirs := [{ rawDirectory := 5, rawVolume := 3, cluster := Gen.CLUSTER_ROOT_DIR }], files := [file],
    maxVols := 1, maxDirs := 4, maxFiles := 4, clock := clk }

/-- The contents of the writer's file: 512 × AA then 88 × BB. -/
def B : Bytes := List.replicate 512 0xAA ++ List.replicate 88 0xBB

example : fileContent vol disk [2, 3] entry.size = B := by decide +kernel

/-- Mounting the medium gives the writer's geometry. -/
theorem mount_ok : mountPure (disk.get 0) 0 disk.get = .ok vol0 := by decide +kernel
theorem sameGeom : SameGeom vol0 vol := rfl

/-- The medium after the close. -/
def disk1 : Disk := (closeFile 7 mgr).2.dev.disk
/-- A fresh manager on it. -/
def fresh : Mgr := { dev := { disk := disk1 }, nextId := 0, maxVols := 1, maxDirs := 1, maxFiles := 1 }

def ok? {α} : Res α → Option α | .ok a => some a | _ => none

/-- What a call answered: a number (handle, length) or bytes. -/
def view : Res Payload → Option (Option Nat × Bytes)
  | .ok (.handle h) => some (some h, [])
  | .ok (.num n) => some (some n, [])
  | .ok (.bytes b) => some (none, b)
  | _ => none

/-- The engine, run: close; fresh manager; mount, open root, open "A.TXT", ask the length, read 1000
bytes (all 600 come back), read again (nothing left).  No call writes. -/
theorem engine_run :
    ok? (closeFile 7 mgr).1 = some () ∧
    ((run fresh [.openVolume 0, .openRoot 0, .openFile 1 nameStr .ReadOnly, .length 2, .read 2 1000, .read 2 10]).2.map
      fun o => (view o.result, o.writes.length)) =
      [(some (some 0, []), 0), (some (some 1, []), 0), (some (some 2, []), 0), (some (some 600, []), 0),
       (some (none, B), 0), (some (none, []), 0)] := by
  decide +kernel

/-! The hypotheses of the theorems hold of this state. -/

theorem blocksOK : BlocksOK disk := by
  have hz : BlocksOK Disk.empty := fun i => by
    rw [Lemmas.FBasic.Disk.get_empty]; exact Lemmas.FatOps.zeroBlock_length
  refine Lemmas.FatOps.blocksOK_set _ _ _ (Lemmas.FatOps.blocksOK_set _ _ _ (Lemmas.FatOps.blocksOK_set _ _ _
    (Lemmas.FatOps.blocksOK_set _ _ _ (Lemmas.FatOps.blocksOK_set _ _ _ (Lemmas.FatOps.blocksOK_set _ _ _ hz ?_) ?_) ?_) ?_) ?_) ?_
  all_goals decide +kernel

theorem mgrOK : MgrOK mgr := ⟨rfl, fun i h => (by cases h), blocksOK, rfl⟩

theorem wfgeom : WFGeom vol :=
  ⟨by decide, by decide, fun s h => (by cases h), fun _ => (by decide), fun h => (by cases h), by decide,
   (by show endCluster vol ≤ 0xFFF7; decide)⟩

theorem handle_found : mgr.files.findIdx? (·.rawFile = 7) = some 0 := by decide
theorem volume_found : mgr.vols.findIdx? (·.rawVolume = file.rawVolume) = some 0 := by decide

theorem chain : Chain vol disk 2 [2, 3] :=
  .link 2 3 [3] ⟨by decide, by decide⟩ (by decide +kernel) (by decide) (.last 3 ⟨by decide, by decide⟩ (by decide +kernel))

theorem fileOK : FileOK vol disk file [2, 3] :=
  ⟨.inr chain, by decide, by decide, .inr ⟨1, by decide, by decide, by decide⟩⟩

theorem entryOK : EntryOK entry := ⟨by decide, by decide, by decide, by decide, by decide⟩

theorem not_own : ∀ c ∈ [2, 3], ∀ j, j < vol.blocksPerCluster → clusterToBlock vol c + j ≠ entry.entryBlock := by
  decide

theorem root_on : DirOn vol disk 0xFFFFFFFC [] := fun hk => absurd ⟨rfl, rfl⟩ hk

/-- Before the close the file's slot (still holding the OLD entry) is the first hit for its name. -/
theorem first_hit : FirstHit (dirSlotsOf vol disk 0xFFFFFFFC []) entry.name (slotAt disk 18 0) := by
  unfold FirstHit
  decide +kernel

/-- Both time stamps are FAT-representable, so nothing is lost in the slot. -/
example : stored entry = entry :=
  stored_of_fatTime entry ⟨0x5B21, 0x6000, by decide, by decide, by decide, by decide, rfl⟩
    ⟨0x4A8F, 0xBF7D, by decide, by decide, by decide, by decide, rfl⟩

/-- After the close the slot decodes to the open file's entry (before: to the old one). -/
example : decode .fat16 (slotAt disk1 18 0) = entry ∧ decode .fat16 (slotAt disk 18 0) = oldEntry := by
  decide +kernel

/-- The end-to-end theorem applies: for EVERY fresh manager on the medium after the close … -/
example : ∃ s1, closeFile 7 mgr = (.ok (), s1) ∧
    ∀ (t0 : Mgr) (name : List Nat), MgrOK t0 → t0.dev.disk = s1.dev.disk →
      t0.vols = [] → t0.dirs = [] → t0.files = [] → 0 < t0.maxVols → 0 < t0.maxDirs → 0 < t0.maxFiles →
      t0.nextId + 2 < 4294967296 → Sfn.createFromStr name = .ok entry.name →
      ∃ t1 t2 t3, openRawVolume 0 t0 = (.ok t0.nextId, t1) ∧
        openRootDir t0.nextId t1 = (.ok (t0.nextId + 1), t2) ∧
        openFileInDir (t0.nextId + 1) name .ReadOnly t2 = (.ok (t0.nextId + 2), t3) ∧
        t3.dev.disk = s1.dev.disk ∧ t3.dev.wlog = t0.dev.wlog ∧
        fileLength (t0.nextId + 2) t3 = (.ok (fileContent vol disk [2, 3] 600).length, t3) ∧
        ∀ n, ∃ t4, read (t0.nextId + 2) n t3 = (.ok ((fileContent vol disk [2, 3] 600).take n), t4) ∧
          t4.dev.disk = s1.dev.disk ∧ t4.dev.wlog = t0.dev.wlog ∧
          ((fileContent vol disk [2, 3] 600).length ≤ n →
            read (t0.nextId + 2) n t3 = (.ok (fileContent vol disk [2, 3] 600), t4)) :=
  remount_reads_flushed mgr 7 0 0 file vinfo [2, 3] mgrOK handle_found rfl volume_found rfl wfgeom fileOK rfl
    entryOK (by decide) not_own [] (fun _ hc => nomatch hc) root_on first_hit 0 vol0 mount_ok sameGeom

/-- … and "A.TXT" is a spelling of the stored name. -/
example : Sfn.createFromStr nameStr = .ok entry.name := by decide

/-! The independent reader on the medium after the close. -/

def geom : Fs.Geom :=
  { fat32 := false, lba := 1, total := 4103, bpc := 1, fatStart := 2, fatSize := 16, nFats := 1, rootStart := 18,
    rootBlocks := 1, firstData := 19, clusters := 4085, rootCluster := 0, infoBlock := 0 }

theorem geomOf : Lemmas.Reopen.GeomOf vol geom := ⟨by decide, by decide, by decide, by decide, by decide⟩

def exceptOk? {α} : Except String α → Option α | .ok a => some a | _ => none

/-- It lists one object in the root directory — `A.TXT`, first cluster 2, 600 bytes — … -/
example :
    ((exceptOk? (Fs.dirSlots geom disk1 .fixedRoot)).map fun r =>
      (Fs.objects r.1).map fun s => (Fs.nameOf s, Fs.clusterOf geom s, Fs.sizeOf s)) = some [(nameA, 2, 600)] := by
  decide +kernel

example : Fs.fileBytes geom disk1 [2, 3] 600 = B := by
  decide +kernel

theorem slotApart : SlotApart vol entry.entryBlock [2, 3] := ⟨.inr (by decide), not_own⟩

/-- The chain walk of the reader (fuel: the cluster count) is not evaluated here; the theorem gives
it: after the close `Fs.chain` of the slot's first cluster is `[2, 3]`. -/
example : ∃ s1, closeFile 7 mgr = (.ok (), s1) ∧
    ∀ sl : Fs.Slot, sl.bytes = slice (s1.dev.disk.get 18) 0 32 →
      Fs.nameOf sl = nameA ∧ Fs.attrOf sl = 0x20 ∧ Fs.clusterOf geom sl = 2 ∧ Fs.sizeOf sl = 600 ∧
      ([2, 3] ≠ [] → Fs.chain geom s1.dev.disk (Fs.clusterOf geom sl) = .ok [2, 3]) ∧
      Fs.fileBytes geom s1.dev.disk [2, 3] (Fs.sizeOf sl) = fileContent vol disk [2, 3] 600 :=
  Lemmas.Reopen.spec_reader_after_close mgr 7 0 0 file vinfo [2, 3] mgrOK handle_found rfl volume_found rfl wfgeom
    fileOK rfl entryOK.toLemmas slotApart.toLemmas geom geomOf (fun _ _ h => by cases h)

/-- **Why `ProperEnds`.**  A FAT32 table whose entry for cluster 2 is the reserved value 1: the
crate's `next_cluster` answers `EndOfFile` — `[2]` is a chain for the engine —, the independent
reader refuses the chain. -/
def vol32 : FatVolume :=
  { lbaStart := 0, numBlocks := 200, name := [], blocksPerCluster := 1, firstDataBlock := 10, fatStart := 2,
    secondFatStart := none, freeClustersCount := none, nextFreeCluster := none, clusterCount := 100,
    fatType := .fat32, rootEntriesCount := 0, firstRootDirBlock := 0, infoLocation := 1, firstRootDirCluster := 3 }
def geom32 : Fs.Geom :=
  { fat32 := true, lba := 0, total := 200, bpc := 1, fatStart := 2, fatSize := 1, nFats := 1, rootStart := 0,
    rootBlocks := 0, firstData := 10, clusters := 100, rootCluster := 3, infoBlock := 1 }
def disk32 : Disk := Disk.empty.set 2 ([0xF8, 0xFF, 0xFF, 0x0F, 0xFF, 0xFF, 0xFF, 0x0F, 1, 0, 0, 0] ++ zeros 500)

theorem entry_one :
    nextOf vol32 disk32 2 = .err .EndOfFile ∧ Chain vol32 disk32 2 [2] ∧ ¬ ProperEnds vol32 disk32 [2] ∧
    exceptOk? (Fs.chain geom32 disk32 2) = none :=
  ⟨by decide +kernel, .last 2 ⟨by decide, by decide⟩ (by decide +kernel),
   fun h => h 2 (List.mem_singleton.2 rfl) rfl (by decide +kernel), by decide +kernel⟩

end Example

/-! ### The same on FAT32 (tests): the info sector is rewritten by the close and re-read by the mount

The smallest FAT32 volume (65525 clusters of one block) in partition 0: partition table in block 0,
boot sector in block 1, info sector in block 2, FAT in blocks 3..514, cluster `c` in block
`513 + c`; root directory = cluster 2, the file = clusters 3 → 4. -/
namespace Example32
open Example (nameA nameStr t0 clk blkA blkB B ok? view)
open Sdmmc.Props.C06 (decode)

/-- Partition 0, type 0x0C (FAT32 LBA), starts at block 1, 66039 blocks. -/
def mbrBlk : Block :=
  zeros 446 ++ [0x00, 0, 0, 0, 0x0C, 0, 0, 0, 1, 0, 0, 0, 0xF7, 0x01, 0x01, 0] ++ zeros 48 ++ [0x55, 0xAA]
/-- Boot sector: 1 block per cluster, 2 reserved blocks, 1 FAT of 512 blocks, 66039 blocks in all
(65525 clusters: the smallest FAT32 volume), root directory in cluster 2, info sector in block 1. -/
def bpbBlk : Block :=
  zeros 11 ++ [0x00, 0x02, 1, 2, 0, 1, 0, 0, 0, 0, 0xF8, 0, 0] ++ zeros 8 ++ [0xF7, 0x01, 0x01, 0, 0, 2, 0, 0] ++
    zeros 4 ++ [2, 0, 0, 0, 1, 0] ++ zeros 460 ++ [0x55, 0xAA]
/-- Info sector: signatures, free count 65522, next free 5. -/
def infoBlk : Block :=
  [0x52, 0x52, 0x61, 0x41] ++ zeros 480 ++ [0x72, 0x72, 0x41, 0x61, 0xF2, 0xFF, 0, 0, 5, 0, 0, 0] ++ zeros 12 ++
    [0, 0, 0x55, 0xAA]
example : mbrBlk.length = 512 ∧ bpbBlk.length = 512 ∧ infoBlk.length = 512 := by decide +kernel

def vol0 : FatVolume :=
  { lbaStart := 1, numBlocks := 66039, name := zeros 11, blocksPerCluster := 1, firstDataBlock := 514, fatStart := 2,
    secondFatStart := none, freeClustersCount := some 65522, nextFreeCluster := some 5, clusterCount := 65525,
    fatType := .fat32, rootEntriesCount := 0, firstRootDirBlock := 0, infoLocation := 2, firstRootDirCluster := 2 }
/-- The writer's record after two allocations. -/
def vol : FatVolume := { vol0 with freeClustersCount := some 65520, nextFreeCluster := some 5 }

/-- FAT (absolute block 3): root directory = cluster 2 (end), file = 3 → 4 (end). -/
def fatBlk : Block :=
  [0xF8, 0xFF, 0xFF, 0x0F, 0xFF, 0xFF, 0xFF, 0x0F, 0xFF, 0xFF, 0xFF, 0x0F, 4, 0, 0, 0, 0xFF, 0xFF, 0xFF, 0x0F] ++ zeros 492
def oldEntry : DirEntry :=
  { name := nameA, mtime := t0, ctime := t0, attributes := 0x20, cluster := 0, size := 0, entryBlock := 515, entryOffset := 0 }
def entry : DirEntry :=
  { name := nameA, mtime := clk, ctime := t0, attributes := 0x20, cluster := 3, size := 600, entryBlock := 515, entryOffset := 0 }
def dirBlk : Block := oldEntry.serialize .fat32 ++ zeros 480
def disk : Disk :=
  ((((((Disk.empty.set 0 mbrBlk).set 1 bpbBlk).set 2 infoBlk).set 3 fatBlk).set 515 dirBlk).set 516 blkA).set 517 blkB
def file : FileInfo :=
  { rawFile := 7, rawVolume := 3, curClusterOff := 512, curCluster := 4, currentOffset := 600, mode := .ReadWriteCreate,
    entry := entry, dirty := true }
def vinfo : VolInfo := { rawVolume := 3, idx := 0, vol := vol }
def mgr : Mgr :=
  { dev := { disk := disk }, nextId := 8, vols := [vinfo],
    dirs := [{ rawDirectory := 5, rawVolume := 3, cluster := Gen.CLUSTER_ROOT_DIR }], files := [file],
    maxVols := 1, maxDirs := 4, maxFiles := 4, clock := clk }

theorem mount_ok : mountPure (disk.get 0) 0 disk.get = .ok vol0 := by decide +kernel
theorem sameGeom : SameGeom vol0 vol := rfl

def disk1 : Disk := (closeFile 7 mgr).2.dev.disk
def fresh : Mgr := { dev := { disk := disk1 }, nextId := 0, maxVols := 1, maxDirs := 1, maxFiles := 1 }

/-- The engine, run: the close writes the info sector (block 2) and the directory block (515); the
info sector now records 65520 free clusters; a fresh manager mounts (reading the new info sector),
opens the root, opens "A.TXT" and reads the 600 bytes. -/
theorem engine_run :
    ok? (closeFile 7 mgr).1 = some () ∧ (closeFile 7 mgr).2.dev.wlog.map (·.1) = [515, 2] ∧
    readU32 (disk1.get 2) 488 = 65520 ∧
    ((run fresh [.openVolume 0, .openRoot 0, .openFile 1 nameStr .ReadOnly, .length 2, .read 2 1000]).2.map
      fun o => (view o.result, o.writes.length)) =
      [(some (some 0, []), 0), (some (some 1, []), 0), (some (some 2, []), 0), (some (some 600, []), 0),
       (some (none, B), 0)] := by
  decide +kernel

theorem blocksOK : BlocksOK disk := by
  have hz : BlocksOK Disk.empty := fun i => by
    rw [Lemmas.FBasic.Disk.get_empty]; exact Lemmas.FatOps.zeroBlock_length
  refine Lemmas.FatOps.blocksOK_set _ _ _ (Lemmas.FatOps.blocksOK_set _ _ _ (Lemmas.FatOps.blocksOK_set _ _ _
    (Lemmas.FatOps.blocksOK_set _ _ _ (Lemmas.FatOps.blocksOK_set _ _ _ (Lemmas.FatOps.blocksOK_set _ _ _
    (Lemmas.FatOps.blocksOK_set _ _ _ hz ?_) ?_) ?_) ?_) ?_) ?_) ?_
  all_goals decide +kernel

theorem mgrOK : MgrOK mgr := ⟨rfl, fun i h => (by cases h), blocksOK, rfl⟩

theorem wfgeom : WFGeom vol :=
  ⟨by decide, by decide, fun s h => (by cases h), fun h => (by cases h), fun _ => (by decide), by decide,
   (by show endCluster vol ≤ 0x0FFFFFF7; decide)⟩

theorem chain : Chain vol disk 3 [3, 4] :=
  .link 3 4 [4] ⟨by decide, by decide⟩ (by decide +kernel) (by decide) (.last 4 ⟨by decide, by decide⟩ (by decide +kernel))

theorem fileOK : FileOK vol disk file [3, 4] :=
  ⟨.inr chain, by decide, by decide, .inr ⟨1, by decide, by decide, by decide⟩⟩

theorem entryOK : EntryOK entry := ⟨by decide, by decide, by decide, by decide, by decide⟩

theorem not_own : ∀ c ∈ [3, 4], ∀ j, j < vol.blocksPerCluster → clusterToBlock vol c + j ≠ entry.entryBlock := by
  decide

/-- The root directory is the one-cluster chain `[2]`. -/
theorem root_on : DirOn vol disk 0xFFFFFFFC [2] :=
  fun _ => ⟨[], rfl, ⟨fun i hi => absurd hi (by simp), by decide +kernel⟩, by decide⟩

theorem root_in_range : ∀ c ∈ [2], InRange vol c := by
  intro c hc
  rw [List.mem_singleton] at hc
  subst hc
  exact ⟨by decide, by decide⟩

theorem first_hit : FirstHit (dirSlotsOf vol disk 0xFFFFFFFC [2]) entry.name (slotAt disk 515 0) := by
  unfold FirstHit
  decide +kernel

/-- The end-to-end theorem applies on FAT32 as well (hypotheses satisfiable). -/
example : True := by
  have := remount_reads_flushed mgr 7 0 0 file vinfo [3, 4] mgrOK (by decide) rfl (by decide) rfl wfgeom fileOK rfl
    entryOK (by decide) not_own [2] root_in_range root_on first_hit 0 vol0 mount_ok sameGeom
  trivial

end Example32

end Sdmmc.Props.C02Reopen
