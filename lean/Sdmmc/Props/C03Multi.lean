/-
C03 / C04 / C01 with SEVERAL OPEN VOLUMES — the volume invariant, the write frame and the independence of the
volumes, lifted from the one-volume theorems (`Props.C03Inv`, `Props.C03All`, `Props.C04Hist`) by FRAMING.

The crate's `VolumeManager` keeps up to `MAX_VOLUMES` volumes open on ONE block device, through ONE one-block cache, ONE
handle generator and three tables with GLOBAL limits.  Property theorems only; vocabulary `Sdmmc.Spec.VolumeN`
(`VolInvN`, `MirrorN`, `proj`, `target`, `volFiles`, `PartDisjoint`), `Sdmmc.Spec.Volume`, `Sdmmc.Spec.DataPlane`
(`InPartition`).  Proofs: `Sdmmc.Lemmas.VolN*` (`VolNList`, `VolNSim`, `VolNRun`: the simulation calculus; `VolNFile`,
`VolNRead`, `VolNWrite`, `VolNDir`, `VolNDirW`, `VolNOpen`: the API functions; `VolNStep`: `step_sim`; `VolNInv`: the
lift; `VolNTab`, `VolNVol`: the calls that work on no volume record / on the volume table).

WHAT IS PROVED.

* `step_proj` — **the simulation lemma.**  A call addressed through its handle to volume record `i`
  (`target s op = some i`) answers the same, issues the same device reads and writes, and reaches the projected state
  (`ProjRel`: up to the ORDER of the directory / file tables — `swap_remove` moves the last record of the GLOBAL table)
  whether it runs on `s` or on `proj s i`, the manager reduced to volume `i` (`maxVols := 1`, the limits lowered by the
  number of records of other volumes so that "table full" agrees); the records of the other volumes, the volume handles,
  partition indices and limits are untouched.  All 18 constructors of `Op` that work on a volume record.  One
  hypothesis, for `label` only (`LabelFresh`): see FINDINGS.
* `api_step_invariant_multi` — **every call** (all constructors of `Op`, every outcome) preserves
  `∃ ghs, VolInvN s ghs ∧ MirrorN s ghs`; `api_history_invariant_multi` — every history.  Hypothesis (`CoveredN`), for
  `open_volume` only: IF the mount succeeds, the fresh volume handle is not carried by an open volume (see FINDINGS), the
  mounted partition overlaps no open one, and the mounted record describes a sound volume with identical FAT copies on
  the present medium (the analogue of the remount hypothesis of `Props.C03Inv`; the invariant cannot know what an
  unmounted partition holds).  No name hypothesis (`Props.C03All.name_ok_all`); `maxVols` arbitrary.
  `MirrorN` is part of the statement because the frame "no write leaves the partition" comes from C04, which needs it.
* `multi_never_leaves_own_partition` — every device write of a call on volume `i` goes to a block of the partition of
  volume `i` (in its FAT, root, data or info region), never to block 0;
  `writing_on_one_volume_never_changes_another` — no call on volume `i` changes a block of the partition of another open
  volume, its volume record, or its directory / file records (up to table order): files of other volumes read back the
  same; `table_calls_write_nothing_elsewhere` — the same for the calls that work on no volume record or on the table
  (`close_volume` writes the info sector of ITS partition only).
* Refinement (item 3 of the package): `answers_are_single_volume_answers` — the answer and the device traffic of a call
  on volume `i` are those of the SAME call on the one-volume manager `proj s i`, to which every one-volume theorem
  (`Props.C01Fs.fs_history_refines`, C01Read/Write, C02, C06, C09, C10Inv, C16 …) applies, and the successor state
  projects to the successor of the projection up to table order.  A multi-volume abstract file system is NOT built here.

FINDINGS (about the crate; all need 2^32 generated handles, i.e. a wrap-around of `HandleGenerator`):
* `open_volume` may hand out a volume handle that an open volume still carries; `get_volume_by_id` then resolves it to
  the FIRST record, the second volume is unreachable, and after a `close_volume` of a third volume (`swap_remove`) the
  handle may resolve to the OTHER volume: the records of one volume would be applied to the other.  Hence the
  freshness clause of `CoveredN`, and the clause `handles` (pairwise distinct) of `VolInvN`.
* `get_root_volume_label` lists and closes "the directory with the fresh handle" — the first record carrying it; with a
  stale duplicate it lists and CLOSES another volume's directory and leaks the one it opened (`LabelFresh`).  The
  invariant survives (`api_step_invariant_multi` needs no such hypothesis).
* deviation (c) (`open_root_dir` does not validate its volume handle): such a directory is inert (`BadHandle`) — until
  a later `open_volume` hands out that very handle, whereupon it becomes a root-directory handle of the new volume
  (`VolInvN.inertDirs` keeps this harmless).
-/
import Sdmmc.Lemmas.VolNStep
import Sdmmc.Lemmas.VolNTab
import Sdmmc.Lemmas.VolNVol
import Sdmmc.Lemmas.VolNFrame
import Sdmmc.Props.C01Fs
import Sdmmc.Lemmas.VolNExample
import Sdmmc.Lemmas.VolFsck9
import Sdmmc.Props.C03All
import Sdmmc.Props.C04Hist

namespace Sdmmc.Props.C03Multi
open Sdmmc.Model Sdmmc.Model.Fat Sdmmc.Spec.Volume
open Sdmmc.Spec hiding run step NoFault Coherent
open Sdmmc.Props.C03Inv (NameOK Covered CoveredAll)
open Sdmmc.Lemmas.VolN (LabelFresh ProjRel StepSim vkey)

/-! ### The simulation lemma -/

/-- The projection of `Sdmmc.Spec.VolumeN` is the projection of the proofs. -/
theorem proj_def {s : Mgr} {i : Nat} {vi : VolInfo} (h : s.vols[i]? = some vi) :
    proj s i = Lemmas.VolN.projH vi.rawVolume i s := Lemmas.VolN.proj_eq_projH h

/-- A target is the index of a volume record. -/
theorem target_lt {s : Mgr} {op : Op} {i : Nat} (ht : target s op = some i) : ∃ vi, s.vols[i]? = some vi := by
  have key : ∀ {r : Nat}, s.vols.findIdx? (·.rawVolume = r) = some i → ∃ vi, s.vols[i]? = some vi := fun h => by
    obtain ⟨vi, hvi, _⟩ := Lemmas.MHoare.findIdx?_some_get h
    exact ⟨vi, hvi⟩
  have hd : ∀ {d : Nat}, dirTarget s d = some i → ∃ vi, s.vols[i]? = some vi := fun {d} h => by
    unfold dirTarget at h
    split at h
    · cases h
    · split at h
      · cases h
      · exact key h
  have hf : ∀ {f : Nat}, fileTarget s f = some i → ∃ vi, s.vols[i]? = some vi := fun {f} h => by
    unfold fileTarget at h
    split at h
    · cases h
    · split at h
      · cases h
      · exact key h
  cases op <;> first | cases ht | exact hd ht | exact hf ht | exact key ht

/-- **`step_proj`.**  A call addressed to volume record `i`, run on `s` and on `proj s i`: the same output (answer,
device writes, device reads); the state reached from the projection is the projection of the state reached from `s`
up to the order of the directory / file tables; the other volumes' records (up to order), all volume handles /
partition indices and the three limits are untouched. -/
theorem step_proj {s : Mgr} {ghs : List Ghost} (hI : VolInvN s ghs) (op : Op) {i : Nat} {vi : VolInfo}
    (ht : target s op = some i) (hvi : s.vols[i]? = some vi) (hf : LabelFresh s op) :
    (step (proj s i) op).2 = (step s op).2 ∧
    ProjRel vi.rawVolume i (step s op).1 (step (proj s i) op).1 ∧
    (step s op).1.vols.map vkey = s.vols.map vkey ∧
    (step s op).1.vols.eraseIdx i = s.vols.eraseIdx i ∧
    (otherDirs (step s op).1 vi.rawVolume).Perm (otherDirs s vi.rawVolume) ∧
    (otherFiles (step s op).1 vi.rawVolume).Perm (otherFiles s vi.rawVolume) ∧
    (step s op).1.maxVols = s.maxVols ∧ (step s op).1.maxDirs = s.maxDirs ∧ (step s op).1.maxFiles = s.maxFiles := by
  rw [proj_def hvi]
  obtain ⟨h1, h2, h3, h4, h5, h6, h7⟩ :=
    Lemmas.VolN.step_sim hI.unlocked (Lemmas.VolN.findIdx?_of_nodup hI.handles hvi) op ht hf
  exact ⟨h1, h2, h3, h4, h5, h6, h7⟩

/-! ### One call on a volume -/

/-- An addressed call is covered for the projected manager: it is no `open_volume`, and every name is fine. -/
theorem coveredAll_proj {s : Mgr} {op : Op} {i : Nat} (ht : target s op = some i) (v0 : FatVolume) (t : Mgr) :
    CoveredAll v0 t op := by
  cases op <;> first | cases ht | exact C03All.name_ok_all _ | exact trivial

/-- The facts about the state after an addressed call, from C03 / C04 applied to the projection. -/
theorem lifted_of_target {s : Mgr} {ghs : List Ghost} (hI : VolInvN s ghs) (hm : MirrorN s ghs) (op : Op) {i : Nat}
    {vi : VolInfo} {gh : Ghost} (ht : target s op = some i) (hvi : s.vols[i]? = some vi) (hgh : ghs[i]? = some gh)
    (hf : LabelFresh s op) :
    ∃ gh', Lemmas.VolN.Lifted s (step s op).1 (step (proj s i) op).1 i vi gh gh' ∧
      Mirror gh'.vol (step (proj s i) op).1.dev.disk ∧
      ∀ w, w ∈ (step s op).2.writes → InPartition gh.vol w.1 ∧ w.1 ≠ 0 ∧
        (regionOf gh.vol w.1 = .fat ∨ regionOf gh.vol w.1 = .root ∨ regionOf gh.vol w.1 = .data ∨ regionOf gh.vol w.1 = .info) := by
  obtain ⟨hout, hrel, hk, hv, hd, hfl, _⟩ := step_proj hI op ht hvi hf
  have hP : VolInv (proj s i) gh := by rw [proj_def hvi]; exact Lemmas.VolN.volInv_proj hI hvi hgh
  have hPm : Mirror gh.vol (proj s i).dev.disk := by
    rw [proj_def hvi]; exact hm gh (List.mem_of_getElem? hgh)
  have hc := coveredAll_proj ht gh.vol (proj s i)
  obtain ⟨gh', hM', hg'⟩ := C04Hist.step_invariantM gh.vol (proj s i) op gh ⟨hP, hPm⟩ (SameGeom.refl _) hc
  obtain ⟨L, _, hall, hdisk, _⟩ := C04Hist.step_licensed_all gh.vol (proj s i) gh op ⟨hP, hPm⟩ hc
  have hreg := Lemmas.WriteSet.allLicensed_in_region gh.vol hP.med.geom L _ _ hall
  have hpd : (proj s i).dev = s.dev := by rw [proj_def hvi]; rfl
  have hwr : (step (proj s i) op).2.writes = (step s op).2.writes := by rw [hout]
  refine ⟨gh', ⟨hrel, hk, hv, hd, hfl, hM'.1, hg', ?_⟩, hM'.2, ?_⟩
  · intro b hb
    rw [← hrel.dev, hdisk b, Lemmas.CrashBase.applyWrites_get_other _ _ _ fun w hw (e : w.1 = b) => hb (by rw [← e]; exact (hreg w hw).2.1), hpd]
  · intro w hw
    rw [← hwr] at hw
    exact ⟨(hreg w hw).2.1, (hreg w hw).2.2.2, (hreg w hw).1⟩

/-- **A call addressed to a volume preserves the invariant** (given `LabelFresh`; `label` without it: below). -/
theorem step_multi_target {s : Mgr} {ghs : List Ghost} (hI : VolInvN s ghs) (hm : MirrorN s ghs) (op : Op) {i : Nat}
    (ht : target s op = some i) (hf : LabelFresh s op) :
    ∃ ghs', VolInvN (step s op).1 ghs' ∧ MirrorN (step s op).1 ghs' := by
  obtain ⟨vi, hvi⟩ := target_lt ht
  have hilt : i < ghs.length := by rw [hI.len]; exact (List.getElem?_eq_some_iff.1 hvi).1
  obtain ⟨gh, hgh⟩ : ∃ gh, ghs[i]? = some gh := ⟨_, List.getElem?_eq_getElem hilt⟩
  obtain ⟨gh', hL, hm', _⟩ := lifted_of_target hI hm op ht hvi hgh hf
  exact ⟨ghs.set i gh', Lemmas.VolN.volInvN_reassemble hI hvi hgh hL, Lemmas.VolN.mirrorN_reassemble hI hm hvi hgh hL hm'⟩

/-! ### Every call -/

/-- The hypothesis on `open_volume` (nothing is required of the other calls): IF the mount succeeds, the handle it
hands out is not carried by an open volume, the mounted partition overlaps no open one, and the mounted record describes
a sound volume (no open files) with identical FAT copies on the present medium. -/
def CoveredN (s : Mgr) : Op → Prop
  | .openVolume idx => ∀ h s', openRawVolume idx (Lemmas.MHoare.resetLogs s) = (.ok h, s') → ∀ vi, s'.vols.getLast? = some vi →
      h ∉ s.vols.map (·.rawVolume) ∧ (∀ w, w ∈ s.vols → PartDisjoint w.vol vi.vol ∧ PartDisjoint vi.vol w.vol) ∧
      ∃ gh, gh.vol = vi.vol ∧ MedInv vi.vol s.dev.disk [] gh ∧ Mirror vi.vol s.dev.disk
  | _ => True

/-- A history all of whose `open_volume` calls satisfy `CoveredN` in the state they are issued in. -/
def CoveredNRun : Mgr → List Op → Prop
  | _, [] => True
  | s, op :: ops => CoveredN s op ∧ CoveredNRun (step s op).1 ops

theorem volInvN_resetLogs {s : Mgr} {ghs : List Ghost} (hI : VolInvN s ghs) (hm : MirrorN s ghs) :
    VolInvN (Lemmas.MHoare.resetLogs s) ghs ∧ MirrorN (Lemmas.MHoare.resetLogs s) ghs :=
  ⟨Lemmas.VolN.volInvN_resetLogs hI, Lemmas.VolN.mirrorN_frame hm rfl⟩

/-- All calls except `open_volume` and `label`. -/
theorem step_multi_basic {s : Mgr} {ghs : List Ghost} (hI : VolInvN s ghs) (hm : MirrorN s ghs) (op : Op)
    (h1 : ∀ i, op ≠ .openVolume i) (h2 : ∀ v, op ≠ .label v) :
    ∃ ghs', VolInvN (step s op).1 ghs' ∧ MirrorN (step s op).1 ghs' := by
  cases ht : target s op with
  | some i => exact step_multi_target hI hm op ht (by cases op <;> first | trivial | exact absurd rfl (h2 _))
  | none =>
    obtain ⟨hI0, hm0⟩ := volInvN_resetLogs hI hm
    rw [Lemmas.MHoare.step_unlocked s op hI.unlocked]
    simp only
    cases op with
    | openVolume i => exact absurd rfl (h1 i)
    | label v => exact absurd rfl (h2 v)
    | closeVolume v =>
      rw [show (runOp (.closeVolume v) (Lemmas.MHoare.resetLogs s)).2 = (closeVolume v (Lemmas.MHoare.resetLogs s)).2 from
        Lemmas.VolApi.seq_state _ _ _]
      exact Lemmas.VolN.closeVolume_multi hI0 hm0 v
    | openRoot v =>
      rw [show (runOp (.openRoot v) (Lemmas.MHoare.resetLogs s)).2 = (openRootDir v (Lemmas.MHoare.resetLogs s)).2 from
        Lemmas.VolApi.map_state _ _ _]
      obtain ⟨a, b⟩ := Lemmas.VolN.openRoot_multi hI0 v
      exact ⟨ghs, a, Lemmas.VolN.mirrorN_frame hm0 (by rw [b])⟩
    | closeDir d =>
      rw [show (runOp (.closeDir d) (Lemmas.MHoare.resetLogs s)).2 = (closeDir d (Lemmas.MHoare.resetLogs s)).2 from
        Lemmas.VolApi.seq_state _ _ _]
      obtain ⟨a, b⟩ := Lemmas.VolN.closeDir_multi hI0 d
      exact ⟨ghs, a, Lemmas.VolN.mirrorN_frame hm0 (by rw [b])⟩
    | hasOpen => exact ⟨ghs, hI0, hm0⟩
    | _ =>
      refine ⟨ghs, ?_⟩
      rw [Lemmas.VolN.untargeted_state hI0 _ (by exact ht) (fun _ h => by cases h) (fun _ h => by cases h)
        (fun _ h => by cases h) (fun _ h => by cases h) (fun h => by cases h)]
      exact ⟨hI0, hm0⟩

theorem resetLogs_idem {s : Mgr} (hw : s.dev.wlog = []) (hr : s.dev.rlog = []) : Lemmas.MHoare.resetLogs s = s := by
  unfold Lemmas.MHoare.resetLogs
  obtain ⟨dev, cache, nextId, vols, dirs, files, mv, md, mf, clock, locked⟩ := s
  obtain ⟨disk, calls, faults, wlog, rlog, failed⟩ := dev
  simp only at hw hr
  subst hw; subst hr
  rfl

/-- `get_root_volume_label`, whatever the handle generator hands out: open the root directory, list "the directory
with the fresh handle", close "the directory with the fresh handle". -/
theorem step_multi_label {s : Mgr} {ghs : List Ghost} (hI : VolInvN s ghs) (hm : MirrorN s ghs) (v : Nat) :
    ∃ ghs', VolInvN (step s (.label v)).1 ghs' ∧ MirrorN (step s (.label v)).1 ghs' := by
  obtain ⟨hI0, hm0⟩ := volInvN_resetLogs hI hm
  rw [Lemmas.MHoare.step_unlocked s _ hI.unlocked]
  simp only
  rw [show (runOp (.label v) (Lemmas.MHoare.resetLogs s)).2 = (getRootVolumeLabel v (Lemmas.MHoare.resetLogs s)).2 from
    Lemmas.VolApi.map_state _ _ _]
  generalize hs0 : Lemmas.MHoare.resetLogs s = s0 at hI0 hm0
  have hw0 : s0.dev.wlog = [] := by rw [← hs0]; rfl
  have hr0 : s0.dev.rlog = [] := by rw [← hs0]; rfl
  unfold getRootVolumeLabel
  cases hv : s0.vols.findIdx? (·.rawVolume = v) with
  | none => rw [Lemmas.MHoare.bind_err (Lemmas.MHoare.getVolumeById_bad hv)]; exact ⟨ghs, hI0, hm0⟩
  | some i =>
    obtain ⟨vi, hvi, _⟩ := Lemmas.MHoare.findIdx?_some_get hv
    rw [Lemmas.MHoare.bind_ok (Lemmas.MHoare.getVolumeById_ok hv), Lemmas.MHoare.bind_ok (Lemmas.MHoare.getVolInfo_ok hvi)]
    split
    · exact ⟨ghs, hI0, hm0⟩
    · obtain ⟨hI1, hd1⟩ := Lemmas.VolN.openRoot_multi hI0 v
      have hm1 : MirrorN (openRootDir v s0).2 ghs := Lemmas.VolN.mirrorN_frame hm0 (by rw [hd1])
      rcases hor : openRootDir v s0 with ⟨r, s1⟩
      rw [hor] at hI1 hd1 hm1
      simp only at hI1 hd1 hm1
      cases r with
      | err e => rw [Lemmas.MHoare.bind_err hor]; exact ⟨ghs, hI1, hm1⟩
      | panic e => rw [Lemmas.MHoare.bind_panic hor]; exact ⟨ghs, hI1, hm1⟩
      | diverged => rw [Lemmas.MHoare.bind_diverged hor]; exact ⟨ghs, hI1, hm1⟩
      | ok dir =>
        rw [Lemmas.MHoare.bind_ok hor, Lemmas.MHoare.attempt_bind]
        -- the listing is the call `list dir` issued in `s1`
        have hrs : Lemmas.MHoare.resetLogs s1 = s1 := resetLogs_idem (by rw [hd1]; exact hw0) (by rw [hd1]; exact hr0)
        have hlist : (step s1 (.list dir)).1 = (iterateDir dir s1).2 := by
          rw [Lemmas.MHoare.step_unlocked s1 _ hI1.unlocked, hrs]
          show ((iterateDir dir >>= fun e => (pure (Payload.entries e) : M Payload)) s1).2 = _
          rw [Lemmas.VolApi.map_state]
        obtain ⟨ghs2, hI2, hm2⟩ := step_multi_basic hI1 hm1 (.list dir) (fun _ h => by cases h) (fun _ h => by cases h)
        rw [hlist] at hI2 hm2
        rw [Lemmas.MHoare.attempt_bind]
        obtain ⟨hI3, hd3⟩ := Lemmas.VolN.closeDir_multi hI2 dir
        have hm3 : MirrorN (closeDir dir (iterateDir dir s1).2).2 ghs2 := Lemmas.VolN.mirrorN_frame hm2 (by rw [hd3])
        refine ⟨ghs2, ?_⟩
        have hfin : ∀ (r : Res (List DirEntry)) (t : Mgr),
            ((M.lift r >>= fun es => (pure ((es.find? fun e => e.attributes = Gen.ATTR_VOLUME).map (·.name)) : M (Option Bytes))) t).2 = t := by
          intro r t
          cases r <;> rfl
        rw [hfin]
        exact ⟨hI3, hm3⟩

/-- **`api_step_invariant_multi`.**  Every API call — all constructors of `Op`, whatever it answers — preserves the
invariant of several open volumes (with identical FAT copies). -/
theorem api_step_invariant_multi (s : Mgr) (op : Op) (ghs : List Ghost) (hI : VolInvN s ghs) (hm : MirrorN s ghs)
    (hc : CoveredN s op) : ∃ ghs', VolInvN (step s op).1 ghs' ∧ MirrorN (step s op).1 ghs' := by
  by_cases h1 : ∃ i, op = .openVolume i
  · obtain ⟨idx, rfl⟩ := h1
    obtain ⟨hI0, hm0⟩ := volInvN_resetLogs hI hm
    rw [Lemmas.MHoare.step_unlocked s _ hI.unlocked]
    simp only
    rw [show (runOp (.openVolume idx) (Lemmas.MHoare.resetLogs s)).2 = (openRawVolume idx (Lemmas.MHoare.resetLogs s)).2 from
      Lemmas.VolApi.map_state _ _ _]
    exact Lemmas.VolN.openVolume_multi hI0 hm0 idx hc
  · by_cases h2 : ∃ v, op = .label v
    · obtain ⟨v, rfl⟩ := h2
      exact step_multi_label hI hm v
    · exact step_multi_basic hI hm op (fun i e => h1 ⟨i, e⟩) (fun v e => h2 ⟨v, e⟩)

/-- **`api_history_invariant_multi`.**  Every history of API calls preserves the invariant; the only hypothesis concerns
the `open_volume` calls that succeed (`CoveredNRun`). -/
theorem api_history_invariant_multi (ops : List Op) (s : Mgr) (ghs : List Ghost) (hI : VolInvN s ghs) (hm : MirrorN s ghs)
    (hc : CoveredNRun s ops) : ∃ ghs', VolInvN (run s ops).1 ghs' ∧ MirrorN (run s ops).1 ghs' := by
  induction ops generalizing s ghs with
  | nil => exact ⟨ghs, hI, hm⟩
  | cons op ops ih =>
    obtain ⟨ghs1, h1, m1⟩ := api_step_invariant_multi s op ghs hI hm hc.1
    obtain ⟨ghs2, h2, m2⟩ := ih (step s op).1 ghs1 h1 m1 hc.2
    exact ⟨ghs2, by unfold run; exact h2, by unfold run; exact m2⟩

/-- … after every call of the history. -/
theorem coveredNRun_take : ∀ {s : Mgr} {ops : List Op}, CoveredNRun s ops → ∀ k, CoveredNRun s (ops.take k)
  | _, [], _, _ => by rw [List.take_nil]; trivial
  | _, _ :: _, _, 0 => trivial
  | _, _ :: _, h, k + 1 => ⟨h.1, coveredNRun_take h.2 k⟩

theorem api_history_invariant_multi_prefix (ops : List Op) (s : Mgr) (ghs : List Ghost) (hI : VolInvN s ghs)
    (hm : MirrorN s ghs) (hc : CoveredNRun s ops) (k : Nat) :
    ∃ ghs', VolInvN (run s (ops.take k)).1 ghs' ∧ MirrorN (run s (ops.take k)).1 ghs' :=
  api_history_invariant_multi (ops.take k) s ghs hI hm (coveredNRun_take hc k)

/-! ### The volumes do not disturb each other -/

/-- **`multi_never_leaves_own_partition`.**  Every device write of a call addressed to volume `i` goes to a block of
the partition of volume `i` — in its FAT, FAT16-root, data or info region —, never to block 0. -/
theorem multi_never_leaves_own_partition (s : Mgr) (op : Op) (ghs : List Ghost) (hI : VolInvN s ghs) (hm : MirrorN s ghs)
    {i : Nat} {vi : VolInfo} {gh : Ghost} (ht : target s op = some i) (hvi : s.vols[i]? = some vi) (hgh : ghs[i]? = some gh)
    (w : Nat × Block) (hw : w ∈ (step s op).2.writes) :
    InPartition gh.vol w.1 ∧ w.1 ≠ 0 ∧
    (regionOf gh.vol w.1 = .fat ∨ regionOf gh.vol w.1 = .root ∨ regionOf gh.vol w.1 = .data ∨ regionOf gh.vol w.1 = .info) := by
  by_cases hro : Lemmas.Fault.readOnlyOp op = true
  · rw [(Lemmas.Fault.step_readonly_nowrite s op hro).2] at hw
    cases hw
  · obtain ⟨_, _, _, h⟩ := lifted_of_target hI hm op ht hvi hgh (by cases op <;> trivial)
    exact h w hw

/-- **`writing_on_one_volume_never_changes_another`.**  No call changes a block of the partition of an open volume `j`
other than the one it works on (`target s op ≠ some j`; a `close_volume` of ANOTHER volume).  All constructors of `Op`. -/
theorem writing_on_one_volume_never_changes_another (s : Mgr) (op : Op) (ghs : List Ghost) (hI : VolInvN s ghs)
    (hm : MirrorN s ghs) {j : Nat} {vj : VolInfo} (hvj : s.vols[j]? = some vj) (hnt : target s op ≠ some j)
    (hncl : ∀ v, op = .closeVolume v → vj.rawVolume ≠ v) (b : Nat) (hb : InPartition vj.vol b) :
    (step s op).1.dev.disk.get b = s.dev.disk.get b := by
  by_cases hro : Lemmas.Fault.readOnlyOp op = true
  · rw [(Lemmas.Fault.step_readonly_nowrite s op hro).1]
  have hI0 := Lemmas.VolN.volInvN_resetLogs hI
  cases ht : target s op with
  | some i =>
    obtain ⟨vi, hvi⟩ := target_lt ht
    have hilt : i < ghs.length := by rw [hI.len]; exact (List.getElem?_eq_some_iff.1 hvi).1
    obtain ⟨gh, hgh⟩ : ∃ gh, ghs[i]? = some gh := ⟨_, List.getElem?_eq_getElem hilt⟩
    obtain ⟨_, hL, _, _⟩ := lifted_of_target hI hm op ht hvi hgh (by cases op <;> trivial)
    apply hL.frame
    rw [← hI.vols i vi gh hvi hgh]
    have hij : i ≠ j := fun e => hnt (by rw [ht, e])
    exact fun hbi => hI.parts i j vi vj hvi hvj hij b hbi hb
  | none =>
    rw [Lemmas.MHoare.step_unlocked s op hI.unlocked]
    simp only
    cases op with
    | closeVolume v =>
      rw [show (runOp (.closeVolume v) (Lemmas.MHoare.resetLogs s)).2 = (closeVolume v (Lemmas.MHoare.resetLogs s)).2 from
        Lemmas.VolApi.seq_state _ _ _]
      by_contra hne
      obtain ⟨k, vk, hvk, hraw, hreg⟩ := Lemmas.VolN.closeVolume_disk hI0 v b hne
      have hkj : k ≠ j := by
        intro e
        subst e
        have : vk = vj := Option.some.inj (hvk.symm.trans hvj)
        exact hncl v rfl (this ▸ hraw)
      exact hI.parts k j vk vj hvk hvj hkj b (Lemmas.VolN.inPartition_of_info hreg) hb
    | openFile d n m =>
      rw [Lemmas.VolN.untargeted_state hI0 _ (by exact ht) (fun _ h => by cases h) (fun _ h => by cases h)
        (fun _ h => by cases h) (fun _ h => by cases h) (fun h => by cases h)]; rfl
    | write f d =>
      rw [Lemmas.VolN.untargeted_state hI0 _ (by exact ht) (fun _ h => by cases h) (fun _ h => by cases h)
        (fun _ h => by cases h) (fun _ h => by cases h) (fun h => by cases h)]; rfl
    | flush f =>
      rw [Lemmas.VolN.untargeted_state hI0 _ (by exact ht) (fun _ h => by cases h) (fun _ h => by cases h)
        (fun _ h => by cases h) (fun _ h => by cases h) (fun h => by cases h)]; rfl
    | closeFile f =>
      rw [Lemmas.VolN.untargeted_state hI0 _ (by exact ht) (fun _ h => by cases h) (fun _ h => by cases h)
        (fun _ h => by cases h) (fun _ h => by cases h) (fun h => by cases h)]; rfl
    | delete d n =>
      rw [Lemmas.VolN.untargeted_state hI0 _ (by exact ht) (fun _ h => by cases h) (fun _ h => by cases h)
        (fun _ h => by cases h) (fun _ h => by cases h) (fun h => by cases h)]; rfl
    | mkdir d n =>
      rw [Lemmas.VolN.untargeted_state hI0 _ (by exact ht) (fun _ h => by cases h) (fun _ h => by cases h)
        (fun _ h => by cases h) (fun _ h => by cases h) (fun h => by cases h)]; rfl
    | _ => exact absurd rfl hro

/-- … and the records of the other volumes are kept: after a call on volume `i` every other volume record is
unchanged, and the open files / directories of every other volume are the same up to the order of the tables —
"files of other volumes read back the same". -/
theorem other_volumes_records_kept (s : Mgr) (op : Op) (ghs : List Ghost) (hI : VolInvN s ghs) {i : Nat} {vi : VolInfo}
    (ht : target s op = some i) (hvi : s.vols[i]? = some vi) (hf : LabelFresh s op) {j : Nat} {vj : VolInfo}
    (hvj : s.vols[j]? = some vj) (hij : j ≠ i) :
    (step s op).1.vols[j]? = some vj ∧ (volFiles (step s op).1 vj.rawVolume).Perm (volFiles s vj.rawVolume) ∧
    (volDirs (step s op).1 vj.rawVolume).Perm (volDirs s vj.rawVolume) := by
  obtain ⟨_, _, hk, hv, hd, hfl, _⟩ := step_proj hI op ht hvi hf
  have hlen : (step s op).1.vols.length = s.vols.length := by simpa using congrArg List.length hk
  have hne : vj.rawVolume ≠ vi.rawVolume := fun e => hij (Lemmas.VolN.index_of_handle hI.handles hvj hvi e)
  refine ⟨(Lemmas.VolN.getElem?_of_eraseIdx_eq hv hlen hij).trans hvj, ?_, ?_⟩
  · rw [Lemmas.VolN.volFiles_of_other hne, Lemmas.VolN.volFiles_of_other hne]
    exact hfl.filter _
  · have e : ∀ t : Mgr, volDirs t vj.rawVolume = (otherDirs t vi.rawVolume).filter fun d => decide (d.rawVolume = vj.rawVolume) := by
      intro t
      unfold volDirs otherDirs
      rw [List.filter_filter]
      apply List.filter_congr
      intro d _
      by_cases h : d.rawVolume = vj.rawVolume
      · simp [h, hne]
      · simp [h]
    rw [e, e]
    exact hd.filter _

/-! ### Refinement through the projection -/

/-- **`answers_are_single_volume_answers`.**  The output of a call on volume `i` — answer, device writes, device
reads — is the output of the SAME call on the one-volume manager `proj s i`, which satisfies the one-volume invariant
(with identical FAT copies), so that every one-volume theorem applies to it; and the successor state projects to the
successor of the projection, up to the order of the directory / file tables. -/
theorem answers_are_single_volume_answers (s : Mgr) (op : Op) (ghs : List Ghost) (hI : VolInvN s ghs) (hm : MirrorN s ghs)
    {i : Nat} {vi : VolInfo} {gh : Ghost} (ht : target s op = some i) (hvi : s.vols[i]? = some vi) (hgh : ghs[i]? = some gh)
    (hf : LabelFresh s op) :
    VolInv (proj s i) gh ∧ Mirror gh.vol (proj s i).dev.disk ∧ (step s op).2 = (step (proj s i) op).2 ∧
    ProjRel vi.rawVolume i (step s op).1 (step (proj s i) op).1 := by
  obtain ⟨hout, hrel, _⟩ := step_proj hI op ht hvi hf
  refine ⟨by rw [proj_def hvi]; exact Lemmas.VolN.volInv_proj hI hvi hgh, ?_, hout.symm, hrel⟩
  rw [proj_def hvi]; exact hm gh (List.mem_of_getElem? hgh)

/-- **One call of a multi-volume history is a step of the abstract file system of ITS volume** (`Props.C01Fs`): from any
abstract counterpart `a` of the projection to volume `i`, the call leads to an abstract state `a'` — the counterpart of
the state the projection reaches — by the abstract step for `op` WITH THE ANSWER THE MULTI-VOLUME CALL GAVE.  (The other
volumes' calls do not touch volume `i`'s medium or records: `writing_on_one_volume_never_changes_another`,
`other_volumes_records_kept`.  Chaining this along a history needs the abstraction up to the ORDER of the handle
tables, because `swap_remove` reorders the global tables; that is not done here.) -/
theorem fs_step_refines_multi (s : Mgr) (op : Op) (ghs : List Ghost) (hI : VolInvN s ghs) {i : Nat} {vi : VolInfo}
    {gh : Ghost} (ht : target s op = some i) (hvi : s.vols[i]? = some vi) (hgh : ghs[i]? = some gh) (hf : LabelFresh s op)
    {a : Spec.AbsFs.AbsFs} (hA : Lemmas.AbsFs.Abs (proj s i) gh a) :
    ∃ gh' a', VolInv (step (proj s i) op).1 gh' ∧ SameGeom gh.vol gh'.vol ∧ Lemmas.AbsFs.Abs (step (proj s i) op).1 gh' a' ∧
      Spec.AbsFs.absStep a op (a', (step s op).2.result) ∧ ProjRel vi.rawVolume i (step s op).1 (step (proj s i) op).1 := by
  obtain ⟨hout, hrel, _⟩ := step_proj hI op ht hvi hf
  have hP : VolInv (proj s i) gh := by rw [proj_def hvi]; exact Lemmas.VolN.volInv_proj hI hvi hgh
  have hc : Lemmas.AbsFs.FsCovered gh.vol (proj s i) op := by
    cases op <;> first | cases ht | exact C03All.name_ok_all _ | exact trivial
  obtain ⟨gh', a', h1, h2, h3, h4⟩ := C01Fs.fs_step_refines gh.vol hP hA (SameGeom.refl _) op hc
  rw [hout] at h4
  exact ⟨gh', a', h1, h2, h3, h4, hrel⟩

/-! ### Non-vacuity and an evaluated history (tests, labelled as tests) -/

namespace Example
open Sdmmc.Lemmas.VolExample Sdmmc.Lemmas.VolN.Example2
open Sdmmc.Props.C04Hist.Example (mirror_of_check)

/-- One medium with a FAT16 volume in blocks 0 … 39 and a FAT32 volume in blocks 40 … 79 (the two example volumes of
`Props.C03Inv`), both open, two directory handles on each: the invariant holds … -/
theorem two_volumes : VolInvN mgr2 ghs2 := mgr2_inv

/-- … and the FAT copies of both agree. -/
theorem two_volumes_mirror : MirrorN mgr2 ghs2 := by
  intro gh hgh
  have : gh = gh1 ∨ gh = gh32b := by simpa [ghs2] using hgh
  rcases this with rfl | rfl
  · exact mirror_of_check _ _ (by decide +kernel)
  · exact mirror_of_check _ _ (by decide +kernel)

/-- A history touching both volumes: create `N.TXT` on the FAT16 volume and `M.TXT` on the FAT32 volume, write to
both, flush one, `mkdir D` on the FAT32 volume, close, delete `A.TXT` on the FAT16 volume, close; `close_volume` of the
FAT32 volume is refused while its directories are open, then succeeds; finally a lookup on the remaining volume. -/
def ops : List Op :=
  [.openFile 2 [78, 46, 84, 88, 84] .ReadWriteCreate, .openFile 6 [77, 46, 84, 88, 84] .ReadWriteCreate,
   .write 10 (List.replicate 600 7), .write 11 (List.replicate 700 9), .flush 10, .mkdir 7 [68], .closeFile 11,
   .delete 2 [65, 46, 84, 88, 84], .closeFile 10, .closeVolume 5, .closeDir 6, .closeDir 7, .closeVolume 5,
   .find 3 [66, 46, 66, 73, 78]]

theorem ops_covered : CoveredNRun mgr2 ops := by
  refine ⟨trivial, trivial, trivial, trivial, trivial, trivial, trivial, trivial, trivial, trivial, trivial, trivial,
    trivial, trivial, trivial⟩

/-- The history theorem applies: the invariant holds after every prefix of it. -/
theorem ops_invariant (k : Nat) : ∃ ghs', VolInvN (run mgr2 (ops.take k)).1 ghs' ∧ MirrorN (run mgr2 (ops.take k)).1 ghs' :=
  api_history_invariant_multi_prefix ops mgr2 ghs2 two_volumes two_volumes_mirror ops_covered k

/-- Evaluated (TEST): the answers (`close_volume` is refused once: `VolumeStillInUse`) and the blocks each call writes —
the calls on the FAT16 volume write blocks of 1 … 39 only, the calls on the FAT32 volume blocks of 41 … 79 only;
`close_volume` writes the info sector 41 of ITS volume; afterwards one volume is left open. -/
theorem ops_evaluated :
    (run mgr2 ops).2.map (fun o => ((match o.result with | .ok _ => true | _ => false), o.writes.map (·.1))) =
      [(true, [3]), (true, [44]), (true, [1, 2, 8, 1, 2, 1, 2, 10]), (true, [42, 43, 49, 42, 43, 42, 43, 50]), (true, [3]),
       (true, [42, 43, 51, 45]), (true, [41, 44]), (true, [3, 1, 2, 1, 2, 1, 2]), (true, [3]), (false, []), (true, []),
       (true, []), (true, [41]), (true, [])] ∧
    (run mgr2 ops).1.vols.map (·.rawVolume) = [1] := by decide +kernel

/-- Evaluated (TEST): on the final medium the independent checker is content with BOTH partitions. -/
theorem ops_fsck :
    (Spec.Fs.fsck (geomOfVol vol16) (run mgr2 ops).1.dev.disk [] true).problems = [] ∧
    (Spec.Fs.fsck (geomOfVol vol32b) (run mgr2 ops).1.dev.disk [] true).problems = [] := by decide +kernel

/-- The simulation lemma, instantiated: creating `M.TXT` through directory handle 6 (FAT32 volume, record 1) gives the
same output on the two-volume manager and on its projection to record 1. -/
theorem create_on_second_volume :
    (step (proj mgr2 1) (.openFile 6 [77, 46, 84, 88, 84] .ReadWriteCreate)).2 =
      (step mgr2 (.openFile 6 [77, 46, 84, 88, 84] .ReadWriteCreate)).2 :=
  (step_proj (vi := { rawVolume := 5, idx := 1, vol := vol32b }) two_volumes
    (.openFile 6 [77, 46, 84, 88, 84] .ReadWriteCreate) (i := 1) (by decide +kernel) rfl trivial).1

end Example

end Sdmmc.Props.C03Multi
