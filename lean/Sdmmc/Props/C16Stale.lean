/-
C16, last sentence — "A wrong or out-of-range record found at mount never makes an operation fail or panic."

The record is the FAT32 free-space record: the in-memory fields `FatVolume.freeClustersCount : Option Nat` and
`FatVolume.nextFreeCluster : Option Nat` (`Model/Mount.lean`).  Mounting reads them from the FSInfo sector
(`Model.Info.parse`): the count may be ANY 32-bit value (`0xFFFFFFFF` = unknown); the hint may be any 32-bit value, `0`,
`1`, `0xFFFFFFFF` being read as unknown (`Props.C16Api.normHint`, `Lemmas.Acct.parse_bounds`; `mounted_hint_ok` below).
So every mounted record satisfies `HintOK` (hint unknown or `≥ 2`) and NOTHING ELSE: an out-of-range hint such as
`0x00FFFFFF` is accepted and kept (`Props.C16Api.Example.hint_out_of_range_written_back`;
`Example.out_of_range_hint_accepted` below).

Property theorems only; the proofs are in `Sdmmc.Lemmas.AbsClean` (abstract side), `Sdmmc.Lemmas.StaleSafe` (the crate's
model), `Sdmmc.Lemmas.StaleAlloc` (allocation).  Vocabulary: `Spec.Volume.VolInv` / `VolInvN` (the volume invariant: it
does not mention the count and constrains the hint by `HintOK` only), `Spec.Volume.Clean r` (`r` is `Ok _` or `Err _`:
neither a panic nor a hang), `Spec.AbsFs` (the abstract file system), `Model.step` / `run`.

WHAT IS PROVED
1. NEVER PANICS.  `call_never_panics`: under the volume invariant EVERY call — all 24 constructors of `Op`, every name,
   `open_volume` whether or not a volume is open — answers `Ok` or an error.  `history_never_panics`: so does every
   history, and the invariant holds after every prefix; the one hypothesis (`RemountRun`, as in `Props.C03All`) is about
   an `open_volume` issued while no volume is open and is needed for the invariant, not for the answers;
   `history_never_panics_no_remount`: histories without `open_volume` need no hypothesis.  `open_volume_never_panics`:
   `open_raw_volume` answers `Ok` or an error from ANY state of the manager, over ANY medium.
   `history_never_panics_multi`: several open volumes (`VolInvN`, `MirrorN`; hypotheses as in `Props.C01Multi`).
2. FOR ANY RECORD.  `volInv_any_record`: the invariant survives replacing the count by ANY value and the hint by ANY value
   `≥ 2` (or unknown) — it does not look at them; `mirror_any_record` likewise.  `stale_record_never_panics`: hence for
   every such record every history answers only `Ok` / errors and keeps the invariant.  `volInvN_any_record`,
   `stale_record_never_panics_multi`: the same with several open volumes, the record of any one of them replaced.
3. NEVER FAILS FOR THE RECORD'S SAKE (engine level, and `write`).  `alloc_any_record`, `alloc_ok_iff_free`,
   `alloc_full_iff`: with any count and any hint `≥ 2` — in range or not, naming a free or an in-use cluster —
   `alloc_cluster` answers `Ok c`, `c` a free cluster of the volume, exactly when the FAT has a free cluster, and
   `NotEnoughSpace` exactly when it has none.  `write_verdict_any_record`: with any record `write` answers `Ok` iff the
   clusters it needs are free in the FAT, an out-of-space error iff not — the verdict of the true record (see also
   `Props.C16Api.stale_record_harmless`: the very same answer).
4. THE ABSTRACT FILE SYSTEM (`Spec/AbsFs.lean`), where it pins the answers and where not.  FINDING: the target
   "`absStep a op (a', r)` and `a.locked = false` imply `Clean r`" is FALSE: the relation is loose in exactly four places
   (`Loose a op`: `open_volume` while no volume is open; `iterate_dir_lfn` on a valid handle; `flush_file` / `close_file`
   on a written-to handle of an open volume whose slot holds no file), and there a panic is an allowed answer
   (`absStep_loose_panics`).  Everywhere else the answer is `Ok` or an error (`absStep_clean`).  This is looseness of the
   specification, not a behaviour of the crate: the model's answers are clean by 1.  `absRun_clean_partial` /
   `absRunN_clean_partial` are therefore restricted to runs without those four calls.

NOT PROVED HERE: anything under device faults (C11); that the out-of-space answers of `open_file_in_dir` (create) and
`make_dir_in_dir` are functions of the FAT alone at API level (at engine level they are: 3.; at API level `Props.C01Fs`
allows `NotEnoughSpace` non-deterministically).
-/
import Sdmmc.Lemmas.AbsClean
import Sdmmc.Lemmas.StaleSafe
import Sdmmc.Lemmas.StaleSafeN
import Sdmmc.Lemmas.StaleAlloc
import Sdmmc.Props.C16Api

namespace Sdmmc.Props.C16Stale
open Sdmmc.Model Sdmmc.Model.Fat Sdmmc.Spec.Volume
open Sdmmc.Spec hiding run step NoFault Coherent
open Sdmmc.Spec.AbsFs (AbsFs AbsFsN absStep absRun absStepN absRunN dirOf fileOf volOpen)
open Sdmmc.Props.C03All (RemountRun)
open Sdmmc.Props.C03Multi (CoveredNRun)
open Sdmmc.Props.C01Multi (FreshRun)
open Sdmmc.Lemmas.AbsClean (Loose Dangling TightOp)

/-! ### 1. Never panics -/

/-- **`open_raw_volume` answers `Ok` or an error** — from any state of the manager (any tables, any cache, any fault
schedule), over any medium: whatever block 0, the boot sector and the FSInfo sector hold. -/
theorem open_volume_never_panics (idx : Nat) (s : Mgr) : Clean (openRawVolume idx s).1 :=
  Lemmas.StaleSafe.openRawVolume_clean idx s

/-- **Under the volume invariant every call answers `Ok` or an error.**  No covering hypothesis. -/
theorem call_never_panics {s : Mgr} {gh : Ghost} (hI : VolInv s gh) (op : Op) : Clean (step s op).2.result :=
  Lemmas.StaleSafe.step_clean hI op

/-- **`history_never_panics`.**  From `VolInv s gh` — whatever count and hint the record carries —, every history
answers only `Ok` / errors, and the invariant holds after every prefix, for a ghost whose record has the geometry of the
reference record `v0`. -/
theorem history_never_panics (v0 : FatVolume) (ops : List Op) {s : Mgr} {gh : Ghost} (hI : VolInv s gh)
    (h0 : SameGeom v0 gh.vol) (hc : RemountRun v0 s ops) :
    (∀ o, o ∈ (run s ops).2 → Clean o.result) ∧ ∀ k, ∃ gh', VolInv (run s (ops.take k)).1 gh' ∧ SameGeom v0 gh'.vol :=
  Lemmas.StaleSafe.history_clean v0 ops hI h0 hc

/-- … without `open_volume` in the history there is no hypothesis besides the invariant. -/
theorem history_never_panics_no_remount (ops : List Op) {s : Mgr} {gh : Ghost} (hI : VolInv s gh)
    (hno : ∀ op ∈ ops, ∀ i, op ≠ .openVolume i) :
    (∀ o, o ∈ (run s ops).2 → Clean o.result) ∧
    ∀ k, ∃ gh', VolInv (run s (ops.take k)).1 gh' ∧ SameGeom gh.vol gh'.vol :=
  history_never_panics gh.vol ops hI (SameGeom.refl _) (C03All.remountRun_of_no_openVolume gh.vol s ops hno)

/-- One call with several open volumes (`LabelFresh`: the handle `get_root_volume_label` would use for its temporary
directory is unused — it can fail only after the 32-bit handle generator has wrapped around). -/
theorem call_never_panics_multi {s : Mgr} {ghs : List Ghost} (hI : VolInvN s ghs) (hm : MirrorN s ghs) (op : Op)
    (hf : Lemmas.VolN.LabelFresh s op) : Clean (step s op).2.result :=
  Lemmas.StaleSafe.step_clean_multi hI hm op hf

/-- **`history_never_panics_multi`.**  Several open volumes. -/
theorem history_never_panics_multi (ops : List Op) {s : Mgr} {ghs : List Ghost} (hI : VolInvN s ghs) (hm : MirrorN s ghs)
    (hc : CoveredNRun s ops) (hf : FreshRun s ops) :
    (∀ o, o ∈ (run s ops).2 → Clean o.result) ∧
    ∀ k, ∃ ghs', VolInvN (run s (ops.take k)).1 ghs' ∧ MirrorN (run s (ops.take k)).1 ghs' :=
  Lemmas.StaleSafe.history_clean_multi ops hI hm hc hf

/-! ### 2. For ANY record -/

/-- **What mounting can read**: a hint `≥ 2` or none — every mounted record satisfies `HintOK` — and ANY count below
`0xFFFFFFFF`. -/
theorem mounted_hint_ok (b : Bytes) (fc nf : Option Nat) (hp : Info.parse b = .ok (fc, nf)) :
    (∀ n, nf = some n → 2 ≤ n) ∧ (∀ n, fc = some n → n < 0xFFFFFFFF) :=
  ⟨fun n hn => ((Lemmas.Acct.parse_bounds b fc nf hp).2 n hn).1, (Lemmas.Acct.parse_bounds b fc nf hp).1⟩

/-- **`volInv_any_record`.**  The invariant does not look at the count, and at the hint only for `HintOK`: replace, in
the record of the open volume (and in the ghost), the count by ANY `cnt` and the hint by ANY `hint` that is unknown or
`≥ 2` — the invariant still holds. -/
theorem volInv_any_record {s : Mgr} {gh : Ghost} (hI : VolInv s gh) {vi : VolInfo} (hv : s.vols = [vi])
    (cnt hint : Option Nat) (hh : ∀ n, hint = some n → 2 ≤ n) :
    VolInv { s with vols := [{ vi with vol := { vi.vol with freeClustersCount := cnt, nextFreeCluster := hint } }] }
      { gh with vol := { gh.vol with freeClustersCount := cnt, nextFreeCluster := hint } } :=
  Lemmas.StaleSafe.volInv_any_record hI hv cnt hint hh

/-- The agreement of the two FAT copies depends on the geometry only. -/
theorem mirror_any_record (v : FatVolume) (d : Disk) (cnt hint : Option Nat) :
    Mirror { v with freeClustersCount := cnt, nextFreeCluster := hint } d ↔ Mirror v d :=
  Lemmas.StaleSafe.mirror_any_record cnt hint

/-- **`stale_record_never_panics`.**  For ANY count and ANY hint mounting can produce, put into the record of the open
volume: every history answers only `Ok` / errors, and the volume invariant holds after every prefix. -/
theorem stale_record_never_panics {s : Mgr} {gh : Ghost} (hI : VolInv s gh) {vi : VolInfo} (hv : s.vols = [vi])
    (cnt hint : Option Nat) (hh : ∀ n, hint = some n → 2 ≤ n) (ops : List Op)
    (hc : RemountRun gh.vol
      { s with vols := [{ vi with vol := { vi.vol with freeClustersCount := cnt, nextFreeCluster := hint } }] } ops) :
    (∀ o, o ∈ (run { s with vols := [{ vi with vol := { vi.vol with freeClustersCount := cnt, nextFreeCluster := hint } }] }
        ops).2 → Clean o.result) ∧
    ∀ k, ∃ gh', VolInv (run
        { s with vols := [{ vi with vol := { vi.vol with freeClustersCount := cnt, nextFreeCluster := hint } }] }
        (ops.take k)).1 gh' ∧ SameGeom gh.vol gh'.vol :=
  history_never_panics gh.vol ops (volInv_any_record hI hv cnt hint hh) ⟨cnt, hint, rfl⟩ hc

/-- … and with no `open_volume` in the history, no hypothesis on the history at all. -/
theorem stale_record_never_panics_no_remount {s : Mgr} {gh : Ghost} (hI : VolInv s gh) {vi : VolInfo} (hv : s.vols = [vi])
    (cnt hint : Option Nat) (hh : ∀ n, hint = some n → 2 ≤ n) (ops : List Op) (hno : ∀ op ∈ ops, ∀ i, op ≠ .openVolume i) :
    (∀ o, o ∈ (run { s with vols := [{ vi with vol := { vi.vol with freeClustersCount := cnt, nextFreeCluster := hint } }] }
        ops).2 → Clean o.result) ∧
    ∀ k, ∃ gh', VolInv (run
        { s with vols := [{ vi with vol := { vi.vol with freeClustersCount := cnt, nextFreeCluster := hint } }] }
        (ops.take k)).1 gh' ∧ SameGeom gh.vol gh'.vol :=
  stale_record_never_panics hI hv cnt hint hh ops (C03All.remountRun_of_no_openVolume gh.vol _ ops hno)

/-- **`volInvN_any_record`.**  Several open volumes: replace, in volume record `i` and in its ghost, the count by ANY
value and the hint by ANY value that is unknown or `≥ 2` — `VolInvN` and `MirrorN` still hold. -/
theorem volInvN_any_record {s : Mgr} {ghs : List Ghost} (hI : VolInvN s ghs) (hm : MirrorN s ghs) (i : Nat)
    (cnt hint : Option Nat) (hh : ∀ n, hint = some n → 2 ≤ n) :
    VolInvN { s with vols := s.vols.modify i fun vi =>
        { vi with vol := { vi.vol with freeClustersCount := cnt, nextFreeCluster := hint } } }
      (ghs.modify i fun gh => { gh with vol := { gh.vol with freeClustersCount := cnt, nextFreeCluster := hint } }) ∧
    MirrorN { s with vols := s.vols.modify i fun vi =>
        { vi with vol := { vi.vol with freeClustersCount := cnt, nextFreeCluster := hint } } }
      (ghs.modify i fun gh => { gh with vol := { gh.vol with freeClustersCount := cnt, nextFreeCluster := hint } }) :=
  ⟨Lemmas.StaleSafe.volInvN_any_record hI i cnt hint hh, Lemmas.StaleSafe.mirrorN_any_record hm i cnt hint⟩

/-- **`stale_record_never_panics_multi`.**  Several open volumes, ANY record in volume slot `i`: every history answers
only `Ok` / errors and keeps the invariant after every prefix (hypotheses on the history as in `Props.C01Multi`). -/
theorem stale_record_never_panics_multi {s : Mgr} {ghs : List Ghost} (hI : VolInvN s ghs) (hm : MirrorN s ghs) (i : Nat)
    (cnt hint : Option Nat) (hh : ∀ n, hint = some n → 2 ≤ n) (ops : List Op)
    (hc : CoveredNRun { s with vols := s.vols.modify i fun vi =>
        { vi with vol := { vi.vol with freeClustersCount := cnt, nextFreeCluster := hint } } } ops)
    (hf : FreshRun { s with vols := s.vols.modify i fun vi =>
        { vi with vol := { vi.vol with freeClustersCount := cnt, nextFreeCluster := hint } } } ops) :
    (∀ o, o ∈ (run { s with vols := s.vols.modify i fun vi =>
        { vi with vol := { vi.vol with freeClustersCount := cnt, nextFreeCluster := hint } } } ops).2 → Clean o.result) ∧
    ∀ k, ∃ ghs', VolInvN (run { s with vols := s.vols.modify i fun vi =>
        { vi with vol := { vi.vol with freeClustersCount := cnt, nextFreeCluster := hint } } } (ops.take k)).1 ghs' ∧
      MirrorN (run { s with vols := s.vols.modify i fun vi =>
        { vi with vol := { vi.vol with freeClustersCount := cnt, nextFreeCluster := hint } } } (ops.take k)).1 ghs' :=
  Lemmas.StaleSafe.stale_record_never_panics_multi hI hm i cnt hint hh ops hc hf

/-! ### 3. Success is a function of the FAT, not of the record -/

section
open Sdmmc.Lemmas.FBasic (NoFault Coherent)
open Sdmmc.Lemmas.StaleAlloc (HasFree)

/-- The volume has a free cluster: some FAT entry of a data cluster is `0`. -/
theorem hasFree_iff (v : FatVolume) (d : Disk) : HasFree v d ↔ ∃ c, 2 ≤ c ∧ c < endCluster v ∧ isFree v d c := Iff.rfl

/-- **`alloc_any_record`.**  Fault-free coherent engine state; ANY count, ANY hint `≥ 2` or unknown.  If the FAT has a
free cluster, `alloc_cluster` answers `Ok c` with `c` a free cluster of the volume; if not, `NotEnoughSpace`, and nothing
is written. -/
theorem alloc_any_record (s : FS) (prev : Option Nat) (zero : Bool) (hn : NoFault s) (hc : Coherent s)
    (cnt hint : Option Nat) (hh : ∀ n, hint = some n → 2 ≤ n) :
    (HasFree s.vol s.dev.disk →
      ∃ c s', allocCluster prev zero { s with vol := { s.vol with freeClustersCount := cnt, nextFreeCluster := hint } } =
          (.ok c, s') ∧
        2 ≤ c ∧ c < endCluster s.vol ∧ isFree s.vol s.dev.disk c) ∧
    (¬ HasFree s.vol s.dev.disk →
      (allocCluster prev zero { s with vol := { s.vol with freeClustersCount := cnt, nextFreeCluster := hint } }).1 =
        .err .NotEnoughSpace ∧
      (allocCluster prev zero
        { s with vol := { s.vol with freeClustersCount := cnt, nextFreeCluster := hint } }).2.dev.wlog = s.dev.wlog) :=
  Lemmas.StaleAlloc.alloc_any_record s prev zero hn hc cnt hint hh

/-- **Success ⇔ the FAT has a free cluster** — for any record. -/
theorem alloc_ok_iff_free (s : FS) (prev : Option Nat) (zero : Bool) (hn : NoFault s) (hc : Coherent s)
    (cnt hint : Option Nat) (hh : ∀ n, hint = some n → 2 ≤ n) :
    (∃ c s', allocCluster prev zero { s with vol := { s.vol with freeClustersCount := cnt, nextFreeCluster := hint } } =
        (.ok c, s')) ↔
      HasFree s.vol s.dev.disk :=
  Lemmas.StaleAlloc.alloc_ok_iff_free s prev zero hn hc cnt hint hh

/-- **`NotEnoughSpace` ⇔ the FAT has no free cluster** — for any record. -/
theorem alloc_full_iff (s : FS) (prev : Option Nat) (zero : Bool) (hn : NoFault s) (hc : Coherent s)
    (cnt hint : Option Nat) (hh : ∀ n, hint = some n → 2 ≤ n) :
    (allocCluster prev zero { s with vol := { s.vol with freeClustersCount := cnt, nextFreeCluster := hint } }).1 =
        .err .NotEnoughSpace ↔ ¬ HasFree s.vol s.dev.disk :=
  Lemmas.StaleAlloc.alloc_full_iff s prev zero hn hc cnt hint hh

end

section
open Sdmmc.Props.C05Capacity (Writable needed cbOf freeOf)

/-- **`write` with ANY record gives the verdict the FAT dictates** (hypotheses: those of
`Props.C05Capacity.write_fails_iff_no_space`): `Ok` iff the clusters the call needs beyond those the file has are free,
an out-of-space error iff they are not — hence the verdict of the call with the record `s` carries. -/
theorem write_verdict_any_record (s : Mgr) (h i vi : Nat) (data : Bytes) (f : FileInfo) (v : VolInfo) (cs : List Nat)
    (A B : List (List Nat)) (w : Writable s h i vi f v cs A B) (hmax : f.currentOffset + data.length ≤ Gen.MAX_FILE_SIZE)
    (cnt hint : Option Nat) (hh : ∀ n, hint = some n → 2 ≤ n) :
    let s2 : Mgr :=
      { s with vols := s.vols.set vi { v with vol := { v.vol with freeClustersCount := cnt, nextFreeCluster := hint } } }
    ((write h data s2).1 = .ok () ↔ needed cs.length (f.currentOffset + data.length) (cbOf v) - cs.length ≤ freeOf s v) ∧
    (((write h data s2).1 = .err .DiskFull ∨ (write h data s2).1 = .err .NotEnoughSpace) ↔
      freeOf s v < needed cs.length (f.currentOffset + data.length) (cbOf v) - cs.length) ∧
    ((write h data s2).1 = .ok () ↔ (write h data s).1 = .ok ()) ∧
    (((write h data s2).1 = .err .DiskFull ∨ (write h data s2).1 = .err .NotEnoughSpace) ↔
      ((write h data s).1 = .err .DiskFull ∨ (write h data s).1 = .err .NotEnoughSpace)) :=
  Lemmas.StaleAlloc.write_verdict_any_record s h i vi data f v cs A B w hmax cnt hint hh

end

/-! ### 4. The abstract file system: where it pins the answer, and where not -/

/-- The four loose places, spelled out. -/
theorem loose_cases (a : AbsFs) :
    (∀ i, Loose a (.openVolume i) ↔ a.vols = []) ∧
    (∀ d n, Loose a (.listLfn d n) ↔ ∃ od, dirOf a d = .ok od) ∧
    (∀ h, Loose a (.flush h) ↔ Dangling a h) ∧ (∀ h, Loose a (.closeFile h) ↔ Dangling a h) ∧
    (∀ op, TightOp op → ¬ Loose a op) :=
  ⟨fun _ => Iff.rfl, fun _ _ => Iff.rfl, fun _ => Iff.rfl, fun _ => Iff.rfl, fun _ h => Lemmas.AbsClean.not_loose_of_tight h⟩

/-- `Dangling a h`: the handle was written to, its volume is open, and the slot it refers to holds no file. -/
theorem dangling_iff (a : AbsFs) (h : Nat) :
    Dangling a h ↔ ∃ i f, fileOf a h = some (i, f) ∧ f.dirty = true ∧ volOpen a f.volume = true ∧
      ∀ m b, (a.slots f.dir)[f.idx]? ≠ some (.file m b) := Iff.rfl

/-- **`absStep_clean`.**  Unborrowed, and not one of the four loose places: the abstract file system answers `Ok` or an
error.  (The target without `¬ Loose a op` is false: `absStep_loose_panics`.) -/
theorem absStep_clean {a a' : AbsFs} {op : Op} {r : Res Payload} (hl : a.locked = false) (hn : ¬ Loose a op)
    (h : absStep a op (a', r)) : Clean r :=
  Lemmas.AbsClean.absStep_clean hl hn h

/-- **The exception is exact**: at a loose place the relation allows a panic. -/
theorem absStep_loose_panics {a : AbsFs} {op : Op} (hl : a.locked = false) (hL : Loose a op) :
    ∃ a' msg, absStep a op (a', .panic msg) :=
  Lemmas.AbsClean.absStep_loose_panics hl hL

/-- No step changes the borrow flag (so "unborrowed" is kept along runs). -/
theorem absStep_locked {a a' : AbsFs} {op : Op} {r : Res Payload} (h : absStep a op (a', r)) : a'.locked = a.locked :=
  Lemmas.AbsClean.absStep_locked h

/-- **Runs, partial**: no `open_volume`, `iterate_dir_lfn`, `flush_file`, `close_file` among the calls.
FULL TARGET (all calls): false for the relation, true for the crate (`history_never_panics`). -/
theorem absRun_clean_partial {a a' : AbsFs} {ops : List Op} {rs : List (Res Payload)} (hl : a.locked = false)
    (ht : ∀ op ∈ ops, TightOp op) (h : absRun a ops rs a') : ∀ r ∈ rs, Clean r :=
  Lemmas.AbsClean.absRun_clean_partial hl ht h

/-- The multi-volume abstract file system: one step, and runs (partial, as above). -/
theorem absStepN_clean {A A' : AbsFsN} {op : Op} {r : Res Payload} (hl : A.locked = false) (ht : TightOp op)
    (h : absStepN A op (A', r)) : Clean r :=
  Lemmas.AbsClean.absStepN_clean hl ht h

theorem absRunN_clean_partial {A A' : AbsFsN} {ops : List Op} {rs : List (Res Payload)} (hl : A.locked = false)
    (ht : ∀ op ∈ ops, TightOp op) (h : absRunN A ops rs A') : ∀ r ∈ rs, Clean r :=
  Lemmas.AbsClean.absRunN_clean_partial hl ht h

/-! ### Non-vacuity (tests, evaluated by the kernel) -/

namespace Example
open Sdmmc.Lemmas.VolExample

/-- The FAT32 example volume of `Props.C03Inv` (20 clusters, 15 free, the first free one is 7; handles 2 and 3: the open
root / `SUB` directories; new handles start at 10) with an ABSURD record: the count says "no free cluster", the hint
names cluster `0x00FFFFFF` — far outside the volume. -/
def staleMgr : Mgr :=
  { mgr32 with vols := [{ ({ rawVolume := 1, idx := 0, vol := vol32 } : VolInfo) with
      vol := { vol32 with freeClustersCount := some 0, nextFreeCluster := some 0x00FFFFFF } }] }

/-- Such a hint is what mounting accepts: only `0`, `1`, `0xFFFFFFFF` are read as unknown. -/
theorem out_of_range_hint_accepted :
    C16Api.normHint 0x00FFFFFF = some 0x00FFFFFF ∧ C16Api.normHint 0 = none ∧ C16Api.normHint 1 = none ∧
    C16Api.normHint 0xFFFFFFFF = none ∧ C16Api.normCount 0 = some 0 := by decide

/-- The invariant holds with the absurd record (by `volInv_any_record`, not by evaluation). -/
theorem stale_invariant :
    VolInv staleMgr { gh32 with vol := { vol32 with freeClustersCount := some 0, nextFreeCluster := some 0x00FFFFFF } } :=
  volInv_any_record (vi := { rawVolume := 1, idx := 0, vol := vol32 }) C03Inv.Example.fat32_volume rfl (some 0)
    (some 0x00FFFFFF)
    (fun n hn => by cases hn; decide)

/-- A history that allocates: create `N.TXT` in the root, write 600 bytes (two clusters), close, make the directory `D`
in `SUB`, delete `F.TXT`, look `N.TXT` up. -/
def ops : List Op :=
  [.openFile 2 [78, 46, 84, 88, 84] .ReadWriteCreate, .write 10 (List.replicate 600 7), .closeFile 10, .mkdir 3 [68],
   .delete 2 [70, 46, 84, 88, 84], .find 2 [78, 46, 84, 88, 84]]

/-- The theorem applies: no panic, and the invariant after every call. -/
theorem stale_history :
    (∀ o, o ∈ (run staleMgr ops).2 → Clean o.result) ∧
    ∀ k, ∃ gh', VolInv (run staleMgr (ops.take k)).1 gh' ∧ SameGeom vol32 gh'.vol :=
  stale_record_never_panics_no_remount (vi := { rawVolume := 1, idx := 0, vol := vol32 }) C03Inv.Example.fat32_volume rfl
    (some 0) (some 0x00FFFFFF) (fun n hn => by cases hn; decide) ops
    (by
      intro op hop i he
      subst he
      unfold ops at hop
      iterate 6 (rcases List.mem_cons.mp hop with h | hop; (· cases h))
      cases hop)

/-- Evaluated (TEST): and no call FAILS — all six answer `Ok`, although the count says the volume is full and the hint
points outside it; afterwards the hint has been repaired to a cluster of the volume, the count stays at its floor. -/
theorem stale_history_evaluated :
    (run staleMgr ops).2.map (fun o => match o.result with | .ok _ => true | _ => false) =
      [true, true, true, true, true, true] ∧
    (run staleMgr ops).1.vols.map (fun vi => (vi.vol.freeClustersCount, vi.vol.nextFreeCluster)) = [(some 2, some 4)] := by
  decide +kernel

/-- Several open volumes: the interleaved history of `Props.C01Multi.Example` never panics. -/
theorem two_volumes_never_panic : ∀ o, o ∈ (run Lemmas.VolN.Example2.mgr2 C01Multi.Example.ops2).2 → Clean o.result :=
  (history_never_panics_multi C01Multi.Example.ops2 C03Multi.Example.two_volumes C03Multi.Example.two_volumes_mirror
    C01Multi.Example.ops2_covered C01Multi.Example.ops2_fresh).1

/-- … nor with an absurd record in the FAT32 volume (slot 1): count `0xFFFFFFFE`, hint `0x00FFFFFF`. -/
theorem two_volumes_stale_never_panic :
    ∀ o, o ∈ (run { Lemmas.VolN.Example2.mgr2 with vols := Lemmas.VolN.Example2.mgr2.vols.modify 1 fun vi =>
        { vi with vol := { vi.vol with freeClustersCount := some 0xFFFFFFFE, nextFreeCluster := some 0x00FFFFFF } } }
      C01Multi.Example.ops2).2 → Clean o.result :=
  (stale_record_never_panics_multi C03Multi.Example.two_volumes C03Multi.Example.two_volumes_mirror 1 (some 0xFFFFFFFE)
    (some 0x00FFFFFF) (fun n hn => by cases hn; decide) C01Multi.Example.ops2
    ⟨trivial, trivial, trivial, trivial, trivial, trivial, trivial, trivial, trivial, trivial, trivial, trivial,
      trivial, trivial, trivial, trivial, trivial, trivial, trivial, trivial, trivial⟩
    ⟨trivial, trivial, trivial, trivial, trivial, trivial, trivial, trivial, trivial, trivial, trivial, trivial,
      trivial, trivial, trivial, trivial, trivial, trivial, trivial, trivial, trivial⟩).1

/-- The abstract relation really allows a panic at a loose place: `open_volume` on the abstract state with no volume. -/
theorem loose_example : ∃ a' msg, absStep
    { nextId := 0, maxDirs := 1, maxFiles := 1, clock := default, locked := false, vols := [], dirs := [], files := [],
      ids := [], slots := fun _ => [] } (.openVolume 0) (a', .panic msg) :=
  absStep_loose_panics rfl rfl

end Example

end Sdmmc.Props.C16Stale
