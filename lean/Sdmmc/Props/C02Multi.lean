/-
C02 with SEVERAL OPEN VOLUMES on one device.

C02: "Once a file has been flushed or closed, a completely fresh mount of the raw block device - by this library and by an
independent FAT reader written from the specification - shows that file under its name with exactly the flushed length and
contents, the directory/file attribute, a creation time that never changes after creation and a modification time equal to
the clock value at the last write.  Every file and directory that the history did not touch is byte-for-byte and
entry-for-entry unchanged."

`Props.C02Fs` / `Props.C02Final` / `Props.C02Main` prove it for a manager with ONE open volume.  Here: a manager with ANY
NUMBER of open volumes on one device (one block cache, one handle generator, global table limits).  Property theorems only;
proofs in `Sdmmc.Lemmas.VolNRemountTree` (the remount through the projection `proj s i`) and `Sdmmc.Lemmas.VolNMountsTree` (a
volume that stays open keeps mounting).  Trusted statement: that of `Props.C02Final` (`FreshShows`, `IndependentShows`,
`FreshOn`, the reader `readerOps`, `Spec.Fs`) plus `Spec/VolumeN.lean` (`VolInvN`, `MirrorN`, `volFiles`),
`Spec/VolumeNCrash.lean` (`VolInvNC`), `Spec/AbsFsN.lean` (`AbsFsN`, `viewOf`, `absRunN`), `Lemmas.VolN.AbsN`, and
`Lemmas.VolNMountsTree.KeepsVolume`.

WHAT IS PROVED.
1. `remount_same_tree_multi`, `fresh_mount_shows_volume_multi`, `independent_reader_agrees_multi`, `volume_lengths_multi`:
   for a state with `VolInvN`, an abstract counterpart `A` (`AbsN`, tables up to order), and a volume record `i` (`vi`, ghost
   `gh`) whose volume has NO OPEN FILE (`volFiles s vi.rawVolume = []` — the OTHER volumes may have open, dirty files): the
   one-volume theorems of `Props.C02Fs` about `viewOf A vi.rawVolume`, the tree volume `vi.rawVolume` has in `A`.
2. `c02_final_multi`: for EVERY multi-volume history and EVERY prefix `k`: (history) the byte-array model of
   `Props.C01Multi` makes the same history with the SAME answers, ending in `Ak`; and for EVERY record `i` of the state
   `sk` the prefix leaves whose volume has no open file: (length), (spec) `IndependentShows`, and — for every record `w` the
   medium of `sk` mounts partition `vi.idx` to, with the geometry of the volume — (tree) and (reader) `FreshShows`, all about
   `viewOf Ak vi.rawVolume`.
   `history_mounts_volume` / `c02_final_multi_mounts`: (mounts) DERIVED — from `VolInvNC` and "the medium mounted the
   partition of the volume at the START of the history", for a volume (tracked by its raw handle: record indices move when
   another volume is closed) that no call of the prefix closes: it is open in `sk`, with the same handle, partition index
   and geometry, and the medium of `sk` mounts its partition to the geometry of its record.
3. `other_volume_history_leaves_tree`, `untouched_volume_fresh_mount`: (untouched across volumes) along a history NONE of
   whose calls works on the volume `hv` (`Props.C01Multi.ForeignRun`) the tree of `hv` — every directory, every entry, every
   file's bytes — is unchanged, and a fresh mount after the history shows the tree `hv` had AT THE START.
4. `targeted_call_keeps_ghost` (one call): a call addressed to volume record `i` IS a one-volume event `evStep` on the view,
   and the slot ghost of `Props.C02Fs` (`GInv`, `eff`) is true of the view afterwards.

WHAT IS NOT LIFTED — the (times) clause over histories (`Props.C02Fs.history_ghost`: creation time never changes, modification
time = clock at the last write) and the per-slot (untouched) clause WITHIN a volume.  They are statements about histories WITH
CLOCK MOVEMENTS (`runClk`, `CEv`, `absRunClk`, `ghostRun`) of the ONE-volume abstract file system; there is no multi-volume
clock-history machinery (`absRunN` has no `tick`).  For tick-free histories the missing step is the chaining of 4: between two
calls on the volume, calls on OTHER volumes change what the view shares (next handle, free room) and — `open_root_dir` /
`close_dir`, which work on no volume record — the view's open-directory records, so the view does not make a one-volume
`absRunClk`; a "stutter" event and the transport of `AInv` across it would be needed (`Props.C01Multi.step_keeps_other_volume`
says nothing about the view's open directories).  What IS available per volume without that: the stored entries `m : Meta`
(name, attribute byte, creation and modification time, size) a fresh mount shows are those of `viewOf Ak hv` (1, 2); each call
on the volume is the one-volume step on its view (`Props.C01Multi`, 4), each other call leaves its tree alone (3).

HYPOTHESES, stated plainly.
* `VolInvN` + `MirrorN` (+ `RawOKN` = `VolInvNC` for the mounting chain) at the start; `CoveredNRun` (about `open_volume` calls
  that succeed), `FreshRun` (about `get_root_volume_label`): as in `Props.C01Multi` / `Props.C10Multi`.  Fault-free device.
* the volume read back has no open FILE at the remount (open directories do not matter; other volumes are unconstrained).
* `c02_final_multi`: the medium of `sk` mounts partition `vi.idx` to the geometry of the volume — a HYPOTHESIS there,
  derived in `c02_final_multi_mounts` from mounting at the start + no `close_volume` of that handle in the prefix.
* the fresh manager `t`: `FreshOn sk t` — empty tables, `maxVols = 1`, fault-free device, coherent cache on the medium of
  `sk`; inside `FreshShows`: its handle generator does not wrap and its tables have room.
* `independent_reader_agrees_multi` / `IndependentShows`: (H1) `NoOne` for the volume read.
-/
import Sdmmc.Lemmas.VolNRemountTree
import Sdmmc.Lemmas.VolNMountsTree
import Sdmmc.Props.C02Final
import Sdmmc.Props.C10Multi

namespace Sdmmc.Props.C02Multi
open Sdmmc.Model Sdmmc.Model.Fat Sdmmc.Spec.Volume
open Sdmmc.Spec hiding run step NoFault Coherent
open Sdmmc.Spec.AbsFs (AbsFs AbsFsN viewOf TPerm SameUpToOrder Kept absStepN absRunN Meta view AInv GInv SlotG eff evStep Ev
  pathDir readerOps ParsesTo lookup listing)
open Sdmmc.Lemmas.VolN (LabelFresh AbsN AbsNx filesOn)
open Sdmmc.Lemmas.AbsFs (Abs FreshOn)
open Sdmmc.Lemmas.AbsFsTimes (handlesFrom)
open Sdmmc.Lemmas.VolNMountsTree (KeepsVolume)
open Sdmmc.Props.C03Multi (CoveredN CoveredNRun)
open Sdmmc.Props.C01Multi (FreshRun Foreign ForeignRun)
open Sdmmc.Props.C02Final (FreshShows IndependentShows)

/-! ### 1. One volume of several, at a point where it has no open file -/

section
variable {s : Mgr} {ghs : List Ghost} {A : AbsFsN} {i : Nat} {vi : VolInfo} {gh : Ghost}

/-- **Remount of one volume of several: the same tree.**  `s` has the multi-volume invariant and an abstract counterpart
`A`; record `i` (`vi`, ghost `gh`) is a volume WITHOUT OPEN FILE; `t` is a fresh manager on the medium of `s`; the medium
mounts partition `idx` to a record with the geometry of the volume.  Then `open_volume idx` on `t` answers its first handle,
the one-volume invariant and abstraction hold of the mounted manager, and its abstract tree has exactly the directories of
`viewOf A vi.rawVolume` with the same slots — every entry, every file's bytes. -/
theorem remount_same_tree_multi {t : Mgr} (hI : VolInvN s ghs) (hA : AbsN s ghs A) (hvi : s.vols[i]? = some vi)
    (hgh : ghs[i]? = some gh) (hq : volFiles s vi.rawVolume = []) (hF : FreshOn s t) (idx : Nat) (w : FatVolume)
    (hm : mountPure (t.dev.disk.get 0) idx t.dev.disk.get = .ok w) (hsg : SameGeom gh.vol w) :
    ∃ gh' a', (step t (.openVolume idx)).2.result = .ok (.handle t.nextId) ∧
      VolInv (step t (.openVolume idx)).1 gh' ∧ SameGeom gh.vol gh'.vol ∧ Abs (step t (.openVolume idx)).1 gh' a' ∧
      a'.ids = (viewOf A vi.rawVolume).ids ∧
      (∀ h, h ∈ (viewOf A vi.rawVolume).ids → a'.slots h = (viewOf A vi.rawVolume).slots h) ∧
      a'.vols = [(t.nextId, idx)] ∧ a'.dirs = [] ∧ a'.files = [] ∧ a'.nextId = (t.nextId + 1) % 4294967296 ∧
      a'.maxDirs = t.maxDirs ∧ a'.maxFiles = t.maxFiles ∧ a'.clock = t.clock ∧ a'.locked = false :=
  Lemmas.VolNRemount.remount_same_tree_multi hI hA hvi hgh hq hF idx w hm hsg

/-- **A fresh mount shows the files of the volume**: the reader of `Props.C02Fs.fresh_mount_shows_flushed` — `open_volume`,
`open_root_dir`, `open_dir` along the path, `open_file_in_dir … ReadOnly`, `file_length`, `read n`, `iterate_dir` — answers
the handles in order, the stored size `m.size`, the first `n` bytes of `bytes`, and a listing showing exactly the entries of
directory `x` of `viewOf A vi.rawVolume`, `m` among them. -/
theorem fresh_mount_shows_volume_multi {t : Mgr} (hI : VolInvN s ghs) (hA : AbsN s ghs A) (hvi : s.vols[i]? = some vi)
    (hgh : ghs[i]? = some gh) (hq : volFiles s vi.rawVolume = []) (hF : FreshOn s t) (idx : Nat) (w : FatVolume)
    (hm : mountPure (t.dev.disk.get 0) idx t.dev.disk.get = .ok w) (hsg : SameGeom gh.vol w)
    {path : List (List Nat)} {sfns : List Bytes} {fname : List Nat} {fs : Bytes}
    {x j : Nat} {m : Meta} {bytes : Bytes} (n : Nat)
    (hps : ParsesTo path sfns) (hp : pathDir (viewOf A vi.rawVolume).slots 0 sfns = some x)
    (hfs : Sfn.createFromStr fname = .ok fs) (hlk : lookup ((viewOf A vi.rawVolume).slots x) fs = some j)
    (hsl : ((viewOf A vi.rawVolume).slots x)[j]? = some (.file m bytes))
    (hn : t.nextId + path.length + 3 < 4294967296) (hmd : path.length + 1 ≤ t.maxDirs) (hmf : 1 ≤ t.maxFiles) :
    ∃ es, (run t (.openVolume idx :: readerOps t.nextId (t.nextId + 1) path fname n)).2.map (·.result) =
        .ok (.handle t.nextId) :: (handlesFrom (t.nextId + 1) (path.length + 2) ++
          [.ok (.num m.size), .ok (.bytes (bytes.take n)), .ok (.entries es)]) ∧
      es.map view = listing ((viewOf A vi.rawVolume).slots x) ∧ m ∈ es.map view :=
  Lemmas.VolNRemount.fresh_reader_multi hI hA hvi hgh hq hF idx w hm hsg n hps hp hfs hlk hsl hn hmd hmf

/-- **The independent reader agrees**: `Spec.Fs`, on the medium all the volumes share, with the geometry of THIS volume,
finds every file slot of `viewOf A vi.rawVolume` — same index, name, attribute byte, size — and returns its bytes.
(H1) `NoOne` as in `Props.C03Inv.fsck_ok`. -/
theorem independent_reader_agrees_multi (hI : VolInvN s ghs) (hA : AbsN s ghs A) (hvi : s.vols[i]? = some vi)
    (hgh : ghs[i]? = some gh) (hq : volFiles s vi.rawVolume = [])
    (g : Fs.Geom) (hg : GeomOf gh.vol g) (h1 : NoOne gh.vol s.dev.disk) {h j : Nat} {m : Meta} {bytes : Bytes}
    (hh : h ∈ (viewOf A vi.rawVolume).ids) (hsl : ((viewOf A vi.rawVolume).slots h)[j]? = some (.file m bytes)) :
    ∃ ss dcs sl cs, Fs.dirSlots g s.dev.disk (Lemmas.VolFsck.refOf gh.vol h) = .ok (ss, dcs) ∧
      (ss.takeWhile fun x => decide (Fs.firstByte x ≠ 0))[j]? = some sl ∧
      Fs.nameOf sl = m.name ∧ Fs.attrOf sl = m.attr ∧ Fs.sizeOf sl = m.size ∧
      ((Fs.clusterOf g sl = 0 ∧ cs = []) ∨ Fs.chain g s.dev.disk (Fs.clusterOf g sl) = .ok cs) ∧
      Fs.fileBytes g s.dev.disk cs (Fs.sizeOf sl) = bytes :=
  Lemmas.VolNRemount.independent_reader_multi hI hA hvi hgh hq g hg h1 hh hsl

/-- **Exactly the flushed length**: in the tree of a volume without open file the stored size of every file is the length of
its bytes. -/
theorem volume_lengths_multi (hI : VolInvN s ghs) (hA : AbsN s ghs A) (hvi : s.vols[i]? = some vi)
    (hgh : ghs[i]? = some gh) (hq : volFiles s vi.rawVolume = []) :
    ∀ x, x ∈ (viewOf A vi.rawVolume).ids → ∀ (j : Nat) (m : Meta) (bytes : Bytes),
      ((viewOf A vi.rawVolume).slots x)[j]? = some (.file m bytes) → m.size = bytes.length :=
  (Lemmas.VolNRemount.view_sizes_multi hI hA hvi hgh hq).2

/-- The same three statements in the vocabulary of `Props.C02Final`. -/
theorem freshShows_multi (hI : VolInvN s ghs) (hA : AbsN s ghs A) (hvi : s.vols[i]? = some vi)
    (hgh : ghs[i]? = some gh) (hq : volFiles s vi.rawVolume = []) (idx : Nat) (w : FatVolume)
    (hm : mountPure (s.dev.disk.get 0) idx s.dev.disk.get = .ok w) (hsg : SameGeom gh.vol w) :
    FreshShows s idx (viewOf A vi.rawVolume) := by
  intro t hF path sfns fname fs x j m bytes n hps hp hfs hlk hsl hnw hmd hmf
  exact fresh_mount_shows_volume_multi hI hA hvi hgh hq hF idx w (by rw [hF.disk]; exact hm) hsg n hps hp hfs hlk hsl
    hnw hmd hmf

theorem independentShows_multi (hI : VolInvN s ghs) (hA : AbsN s ghs A) (hvi : s.vols[i]? = some vi)
    (hgh : ghs[i]? = some gh) (hq : volFiles s vi.rawVolume = []) : IndependentShows s gh.vol (viewOf A vi.rawVolume) := by
  intro g hg hno h j m bytes hh hsl
  exact independent_reader_agrees_multi hI hA hvi hgh hq g hg hno hh hsl

end

/-- `FreshShows` and `IndependentShows` read the tree only. -/
theorem freshShows_congr {sk : Mgr} {idx : Nat} {a b : AbsFs} (h : a.slots = b.slots) (hS : FreshShows sk idx a) :
    FreshShows sk idx b := by
  intro t hF path sfns fname fs x j m bytes n hps hp hfs hlk hsl hnw hmd hmf
  rw [← h] at hp hlk hsl ⊢
  exact hS t hF path sfns fname fs x j m bytes n hps hp hfs hlk hsl hnw hmd hmf

theorem independentShows_congr {sk : Mgr} {v : FatVolume} {a b : AbsFs} (hi : a.ids = b.ids) (h : a.slots = b.slots)
    (hS : IndependentShows sk v a) : IndependentShows sk v b := by
  intro g hg hno x j m bytes hh hsl
  rw [← hi] at hh
  rw [← h] at hsl
  exact hS g hg hno x j m bytes hh hsl

/-! ### 2. Every history, every prefix, every volume without open file -/

/-- **C02 for several open volumes** (the mounting of the medium at the prefix as a hypothesis; derived below).
See the header, 2. -/
theorem c02_final_multi {s : Mgr} {ghs : List Ghost} {A0 : AbsFsN} (hI : VolInvN s ghs) (hm : MirrorN s ghs)
    (hA : AbsN s ghs A0) (ops : List Op) (hc : CoveredNRun s ops) (hf : FreshRun s ops) (k : Nat) :
    ∃ (ghsk : List Ghost) (Ak : AbsFsN),
      -- (history)
      (absRunN A0 (ops.take k) ((run s (ops.take k)).2.map (·.result)) Ak ∧ VolInvN (run s (ops.take k)).1 ghsk ∧
        MirrorN (run s (ops.take k)).1 ghsk ∧ AbsN (run s (ops.take k)).1 ghsk Ak) ∧
      ∀ (i : Nat) (vi : VolInfo) (gh : Ghost), (run s (ops.take k)).1.vols[i]? = some vi → ghsk[i]? = some gh →
        volFiles (run s (ops.take k)).1 vi.rawVolume = [] →
        -- (length)
        (∀ x, x ∈ (viewOf Ak vi.rawVolume).ids → ∀ (j : Nat) (m : Meta) (bytes : Bytes),
          ((viewOf Ak vi.rawVolume).slots x)[j]? = some (.file m bytes) → m.size = bytes.length) ∧
        -- (spec)
        IndependentShows (run s (ops.take k)).1 gh.vol (viewOf Ak vi.rawVolume) ∧
        -- on a medium that mounts the partition of the volume:
        ∀ (w : FatVolume),
          mountPure ((run s (ops.take k)).1.dev.disk.get 0) vi.idx (run s (ops.take k)).1.dev.disk.get = .ok w →
          SameGeom gh.vol w →
          -- (tree)
          (∀ t, FreshOn (run s (ops.take k)).1 t → ∃ gh'' a',
            (step t (.openVolume vi.idx)).2.result = .ok (.handle t.nextId) ∧ VolInv (step t (.openVolume vi.idx)).1 gh'' ∧
            Abs (step t (.openVolume vi.idx)).1 gh'' a' ∧ a'.ids = (viewOf Ak vi.rawVolume).ids ∧
            ∀ h, h ∈ (viewOf Ak vi.rawVolume).ids → a'.slots h = (viewOf Ak vi.rawVolume).slots h) ∧
          -- (reader)
          FreshShows (run s (ops.take k)).1 vi.idx (viewOf Ak vi.rawVolume) := by
  obtain ⟨ghsk, Ak, h1, h2, h3, h4⟩ := C01Multi.fs_history_refines_multi (ops.take k) s ghs A0 hI hm hA
    (C03Multi.coveredNRun_take hc k) (Lemmas.VolNCrash.freshRun_take ops s hf k)
  refine ⟨ghsk, Ak, ⟨h4, h1, h2, h3⟩, ?_⟩
  intro i vi gh hvi hgh hq
  refine ⟨volume_lengths_multi h1 h3 hvi hgh hq, independentShows_multi h1 h3 hvi hgh hq, ?_⟩
  intro w hw hsg
  refine ⟨?_, freshShows_multi h1 h3 hvi hgh hq vi.idx w hw hsg⟩
  intro t hF
  obtain ⟨gh'', a', r1, r2, _, r4, r5, r6, _⟩ :=
    remount_same_tree_multi h1 h3 hvi hgh hq hF vi.idx w (by rw [hF.disk]; exact hw) hsg
  exact ⟨gh'', a', r1, r2, r4, r5, r6⟩

/-- `KeepsVolume`, spelled out. -/
theorem keepsVolume_def (hv : Nat) (s s' : Mgr) : KeepsVolume hv s s' ↔
    ∀ vi, vi ∈ s.vols → vi.rawVolume = hv →
      ∃ vi', vi' ∈ s'.vols ∧ vi'.rawVolume = hv ∧ vi'.idx = vi.idx ∧ SameGeom vi.vol vi'.vol := Iff.rfl

/-- **Every call except `close_volume hv` keeps the volume `hv` open**, with its handle, partition index and geometry. -/
theorem call_keeps_volume {s : Mgr} {ghs : List Ghost} (hI : VolInvN s ghs) (hm : MirrorN s ghs) (op : Op)
    (hf : LabelFresh s op) (hv : Nat) (hne : op ≠ .closeVolume hv) : KeepsVolume hv s (step s op).1 :=
  Lemmas.VolNMountsTree.step_keepsVolume hI hm op hf hv hne

/-- **(mounts), one call**: if the medium before a call mounts partition `idx` to the geometry of an open volume, so does the
medium after the call — whatever the call, whichever volume it works on. -/
theorem call_keeps_mounting {s : Mgr} {ghs : List Ghost} (hI : VolInvNC s ghs) (op : Op) (hf : LabelFresh s op) {j : Nat}
    {vj : VolInfo} {gh : Ghost} (hvj : s.vols[j]? = some vj) (hgh : ghs[j]? = some gh) (idx : Nat) (vm : FatVolume)
    (hmnt : mountPure (s.dev.disk.get 0) idx s.dev.disk.get = .ok vm) (hsg : SameGeom vm gh.vol) :
    ∃ w, mountPure ((step s op).1.dev.disk.get 0) idx (step s op).1.dev.disk.get = .ok w ∧ SameGeom gh.vol w :=
  Lemmas.VolNMountsTree.step_mounts_volume hI op hf hvj hgh idx vm hmnt hsg

/-- **(mounts), histories: a volume that stays open keeps mounting.**  From `VolInvNC`; the volume with record `vj` (handle
`hv`) is open at the start and its partition `vj.idx` mounts to its geometry; no call of the history is `close_volume hv`.
Then after the history a record `vj'` with the same handle, the same partition index and the same geometry is open, and the
medium mounts partition `vj.idx` to a record with the geometry of `vj'`. -/
theorem history_mounts_volume (ops : List Op) {s : Mgr} {ghs : List Ghost} (hI : VolInvNC s ghs) (hc : CoveredNRun s ops)
    (hf : FreshRun s ops) (hv : Nat) (hno : ∀ op, op ∈ ops → op ≠ .closeVolume hv)
    {j : Nat} {vj : VolInfo} {gh : Ghost} (hvj : s.vols[j]? = some vj) (hgh : ghs[j]? = some gh) (e : vj.rawVolume = hv)
    (vm : FatVolume) (hmnt : mountPure (s.dev.disk.get 0) vj.idx s.dev.disk.get = .ok vm) (hsg : SameGeom vm gh.vol) :
    ∃ ghs' vj' w, VolInvNC (run s ops).1 ghs' ∧ vj' ∈ (run s ops).1.vols ∧ vj'.rawVolume = hv ∧ vj'.idx = vj.idx ∧
      SameGeom vj.vol vj'.vol ∧
      mountPure ((run s ops).1.dev.disk.get 0) vj.idx (run s ops).1.dev.disk.get = .ok w ∧ SameGeom vj'.vol w :=
  Lemmas.VolNMountsTree.history_mounts_volume ops hI hc hf hv hno hvj hgh e vm hmnt hsg

/-- **C02 for several open volumes, the mounting derived.**  From `VolInvNC`; record `j` (`vj`, ghost `gh0`) is open at the
start and the medium mounts its partition to its geometry; no call among the first `k` is `close_volume vj.rawVolume`.
Then in the state `sk` the first `k` calls leave there is a record `i` (`vi`, ghost `gh`) with the same handle, partition
index and geometry; (mounts) the medium of `sk` mounts that partition to a record `w` with the geometry of the volume; and
if the volume has no open file in `sk`: (length), (spec), (tree), (reader) for `viewOf Ak vi.rawVolume`, where (history)
`Ak` is the state the byte-array model reaches with the same answers. -/
theorem c02_final_multi_mounts {s : Mgr} {ghs : List Ghost} {A0 : AbsFsN} (hI : VolInvNC s ghs) (hA : AbsN s ghs A0)
    (ops : List Op) (hc : CoveredNRun s ops) (hf : FreshRun s ops) (k : Nat)
    {j : Nat} {vj : VolInfo} {gh0 : Ghost} (hvj : s.vols[j]? = some vj) (hgh0 : ghs[j]? = some gh0)
    (hno : ∀ op, op ∈ ops.take k → op ≠ .closeVolume vj.rawVolume)
    (vm : FatVolume) (hmnt : mountPure (s.dev.disk.get 0) vj.idx s.dev.disk.get = .ok vm) (hsg : SameGeom vm gh0.vol) :
    ∃ (ghsk : List Ghost) (Ak : AbsFsN) (i : Nat) (vi : VolInfo) (gh : Ghost) (w : FatVolume),
      -- (history)
      (absRunN A0 (ops.take k) ((run s (ops.take k)).2.map (·.result)) Ak ∧ VolInvN (run s (ops.take k)).1 ghsk ∧
        MirrorN (run s (ops.take k)).1 ghsk ∧ AbsN (run s (ops.take k)).1 ghsk Ak) ∧
      -- the volume is still open
      ((run s (ops.take k)).1.vols[i]? = some vi ∧ ghsk[i]? = some gh ∧ vi.rawVolume = vj.rawVolume ∧ vi.idx = vj.idx ∧
        SameGeom gh0.vol gh.vol) ∧
      -- (mounts)
      (mountPure ((run s (ops.take k)).1.dev.disk.get 0) vi.idx (run s (ops.take k)).1.dev.disk.get = .ok w ∧
        SameGeom gh.vol w) ∧
      (volFiles (run s (ops.take k)).1 vi.rawVolume = [] →
        -- (length)
        (∀ x, x ∈ (viewOf Ak vi.rawVolume).ids → ∀ (j : Nat) (m : Meta) (bytes : Bytes),
          ((viewOf Ak vi.rawVolume).slots x)[j]? = some (.file m bytes) → m.size = bytes.length) ∧
        -- (spec)
        IndependentShows (run s (ops.take k)).1 gh.vol (viewOf Ak vi.rawVolume) ∧
        -- (tree)
        (∀ t, FreshOn (run s (ops.take k)).1 t → ∃ gh'' a',
          (step t (.openVolume vi.idx)).2.result = .ok (.handle t.nextId) ∧ VolInv (step t (.openVolume vi.idx)).1 gh'' ∧
          Abs (step t (.openVolume vi.idx)).1 gh'' a' ∧ a'.ids = (viewOf Ak vi.rawVolume).ids ∧
          ∀ h, h ∈ (viewOf Ak vi.rawVolume).ids → a'.slots h = (viewOf Ak vi.rawVolume).slots h) ∧
        -- (reader)
        FreshShows (run s (ops.take k)).1 vi.idx (viewOf Ak vi.rawVolume)) := by
  obtain ⟨ghsk, Ak, hH, hrest⟩ := c02_final_multi hI.inv hI.mirror hA ops hc hf k
  obtain ⟨_, vi, w, _, hmem, e1, e2, hg, hw, hsw⟩ := history_mounts_volume (ops.take k) hI (C03Multi.coveredNRun_take hc k)
    (Lemmas.VolNCrash.freshRun_take ops s hf k) vj.rawVolume hno hvj hgh0 rfl vm hmnt hsg
  obtain ⟨i, hi⟩ := List.getElem?_of_mem hmem
  obtain ⟨gh, hgh⟩ : ∃ g, ghsk[i]? = some g :=
    ⟨_, List.getElem?_eq_getElem (by rw [hH.2.1.len]; exact (List.getElem?_eq_some_iff.1 hi).1)⟩
  have hvol : vi.vol = gh.vol := hH.2.1.vols i vi gh hi hgh
  have hvol0 : vj.vol = gh0.vol := hI.inv.vols j vj gh0 hvj hgh0
  have hw' : mountPure ((run s (ops.take k)).1.dev.disk.get 0) vi.idx (run s (ops.take k)).1.dev.disk.get = .ok w := by
    rw [e2]; exact hw
  have hsw' : SameGeom gh.vol w := by rw [← hvol]; exact hsw
  refine ⟨ghsk, Ak, i, vi, gh, w, hH, ⟨hi, hgh, e1, e2, by rw [← hvol0, ← hvol]; exact hg⟩, ⟨hw', hsw'⟩, ?_⟩
  intro hq
  obtain ⟨r1, r2, r3⟩ := hrest i vi gh hi hgh hq
  obtain ⟨r4, r5⟩ := r3 w hw' hsw'
  exact ⟨r1, r2, r4, r5⟩

/-! ### 3. Untouched across volumes -/

/-- **`other_volume_history_leaves_tree`.**  Along a history none of whose calls works on the volume `hv` (`ForeignRun`: every
call's handle leads to another volume record or to none, and no `open_volume` hands out `hv` itself) — whatever the calls do
on the other volumes: create, write, delete, `mkdir`, close and re-open them — the view of `hv` keeps its tree: the same
directories, and in every directory the same slots, entry for entry and byte for byte.  (Remark, not a theorem here:
`close_volume hv` is itself "foreign" — it works on no volume record —; but once closed the volume cannot come back under
the handle `hv`, so a record carrying `hv` at the end is the record of the start.) -/
theorem other_volume_history_leaves_tree (ops : List Op) (s : Mgr) (ghs : List Ghost) (A : AbsFsN) (hI : VolInvN s ghs)
    (hm : MirrorN s ghs) (hA : AbsN s ghs A) (hc : CoveredNRun s ops) (hf : FreshRun s ops) (hv : Nat)
    (hfo : ForeignRun hv s ops) :
    ∃ ghs' A', VolInvN (run s ops).1 ghs' ∧ MirrorN (run s ops).1 ghs' ∧ AbsN (run s ops).1 ghs' A' ∧
      absRunN A ops ((run s ops).2.map (·.result)) A' ∧
      (viewOf A' hv).ids = (viewOf A hv).ids ∧ (viewOf A' hv).slots = (viewOf A hv).slots ∧
      ((viewOf A' hv).files).Perm (viewOf A hv).files := by
  obtain ⟨ghs', A', h1, h2, h3, h4, h5, h6, h7⟩ := C01Multi.other_volume_calls_invisible ops s ghs A hI hm hA hc hf hv hfo
  exact ⟨ghs', A', h1, h2, h3, h4, h5, h6, h7⟩

/-- **A fresh mount after calls on other volumes shows the tree the volume had AT THE START.**  After a history none of whose
calls works on `hv`: for a record `i` (`vi`, `gh`) of the final state carrying `hv` whose volume has no open file, (length),
(spec), and — on a medium that mounts its partition — (tree), (reader) hold for `viewOf A hv`, the view BEFORE the history. -/
theorem untouched_volume_fresh_mount (ops : List Op) (s : Mgr) (ghs : List Ghost) (A : AbsFsN) (hI : VolInvN s ghs)
    (hm : MirrorN s ghs) (hA : AbsN s ghs A) (hc : CoveredNRun s ops) (hf : FreshRun s ops) (hv : Nat)
    (hfo : ForeignRun hv s ops) :
    ∃ ghs', VolInvN (run s ops).1 ghs' ∧ MirrorN (run s ops).1 ghs' ∧
      ∀ (i : Nat) (vi : VolInfo) (gh : Ghost), (run s ops).1.vols[i]? = some vi → ghs'[i]? = some gh → vi.rawVolume = hv →
        volFiles (run s ops).1 hv = [] →
        (∀ x, x ∈ (viewOf A hv).ids → ∀ (j : Nat) (m : Meta) (bytes : Bytes),
          ((viewOf A hv).slots x)[j]? = some (.file m bytes) → m.size = bytes.length) ∧
        IndependentShows (run s ops).1 gh.vol (viewOf A hv) ∧
        ∀ (w : FatVolume), mountPure ((run s ops).1.dev.disk.get 0) vi.idx (run s ops).1.dev.disk.get = .ok w →
          SameGeom gh.vol w →
          (∀ t, FreshOn (run s ops).1 t → ∃ gh'' a',
            (step t (.openVolume vi.idx)).2.result = .ok (.handle t.nextId) ∧ VolInv (step t (.openVolume vi.idx)).1 gh'' ∧
            Abs (step t (.openVolume vi.idx)).1 gh'' a' ∧ a'.ids = (viewOf A hv).ids ∧
            ∀ h, h ∈ (viewOf A hv).ids → a'.slots h = (viewOf A hv).slots h) ∧
          FreshShows (run s ops).1 vi.idx (viewOf A hv) := by
  obtain ⟨ghs', A', h1, h2, h3, _, h5, h6, _⟩ := other_volume_history_leaves_tree ops s ghs A hI hm hA hc hf hv hfo
  refine ⟨ghs', h1, h2, ?_⟩
  intro i vi gh hvi hgh e hq
  subst e
  refine ⟨?_, independentShows_congr h5 h6 (independentShows_multi h1 h3 hvi hgh hq), ?_⟩
  · rw [← h5, ← h6]; exact volume_lengths_multi h1 h3 hvi hgh hq
  · intro w hw hsg
    refine ⟨?_, freshShows_congr h6 (freshShows_multi h1 h3 hvi hgh hq vi.idx w hw hsg)⟩
    intro t hF
    obtain ⟨gh'', a', r1, r2, _, r4, r5, r6, _⟩ :=
      remount_same_tree_multi h1 h3 hvi hgh hq hF vi.idx w (by rw [hF.disk]; exact hw) hsg
    refine ⟨gh'', a', r1, r2, r4, r5.trans h5, fun h hh => ?_⟩
    rw [← h5] at hh
    rw [r6 h hh, h6]

/-! ### 4. The slot ghost, one call -/

/-- The ghost of a slot reads the tree and the open-file records as a set. -/
theorem ginv_sameUpToOrder {a b : AbsFs} {x j : Nat} {g : SlotG} (h : SameUpToOrder a b) (hx : x ∈ a.ids)
    (hG : GInv a x j g) : GInv b x j g := by
  refine ⟨?_, ?_, ?_⟩
  · intro t n at0 hb
    rw [← h.slots x hx]
    exact hG.born t n at0 hb
  · intro t sy hmod f hfm
    exact hG.pending t sy hmod f (h.files.mem_iff.2 hfm)
  · intro t hmod
    rw [← h.slots x hx]
    exact hG.stored t hmod

/-- **A call addressed to a volume is a one-volume event on its view, and the slot ghost stays true** (ONE call; the
chaining over histories is not lifted, see the header).  `B` is the abstract counterpart with the tables in the manager's
order; the view `viewOf B hv` of the volume the call works on is well formed (`AInv` — e.g. the volume has no open file:
`Lemmas.VolNRemount.view_sizes_multi`), `g` a ghost true of slot `(x, j)` of it.  Then the call is a step `evStep` of the
ONE-volume abstract file system from the view, with the answer the call gave, to a state `a'` that is the view of the
abstract successor `A'` up to table order; and `eff`, the ghost of `Props.C02Fs` after this event, is true of that view. -/
theorem targeted_call_keeps_ghost {s : Mgr} {ghs : List Ghost} {B : AbsFsN} (hI : VolInvN s ghs) (hm : MirrorN s ghs)
    (hB : AbsNx s ghs B) {op : Op} {i : Nat} {vi : VolInfo} {gh : Ghost} (ht : target s op = some i)
    (hvi : s.vols[i]? = some vi) (hgh : ghs[i]? = some gh) (hf : LabelFresh s op)
    (hW : AInv (viewOf B vi.rawVolume)) {x j : Nat} {g : SlotG} (hx : x ∈ (viewOf B vi.rawVolume).ids)
    (hG : GInv (viewOf B vi.rawVolume) x j g) :
    ∃ ghs' A' a', VolInvN (step s op).1 ghs' ∧ MirrorN (step s op).1 ghs' ∧ AbsN (step s op).1 ghs' A' ∧
      evStep (viewOf B vi.rawVolume) (.call op (step s op).2.result) a' ∧ SameUpToOrder a' (viewOf A' vi.rawVolume) ∧
      Kept B A' vi.rawVolume ∧ AInv a' ∧
      GInv (viewOf A' vi.rawVolume) x j (eff (viewOf B vi.rawVolume) x j (.call op (step s op).2.result) g) := by
  obtain ⟨hP, _, hAbs, hout, hcov⟩ := C01Multi.volume_view hI hm hB ht hvi hgh hf
  obtain ⟨gh', a', hV, _, hA', hstep⟩ := C01Fs.fs_step_refines gh.vol hP hAbs (SameGeom.refl _) op hcov
  obtain ⟨A', k1, k2, k3, k4, k5⟩ := C01Multi.volume_step_lifts hI hm hB ht hvi hgh hf hV hA'
  rw [← hout] at hstep
  have hev : evStep (viewOf B vi.rawVolume) (.call op (step s op).2.result) a' := hstep
  obtain ⟨g1, g2, g3⟩ := Lemmas.AbsFsTimes.ginv_run (es := [.call op (step s op).2.result]) hW hx hG ⟨a', hev, rfl, rfl⟩
  exact ⟨_, A', a', k1, k2, k3, hev, k4, k5, g2, ginv_sameUpToOrder k4 g3 g1⟩

/-! ### Non-vacuity (tests, evaluated by the kernel) -/

namespace Example
open Sdmmc.Lemmas.VolExample Sdmmc.Lemmas.VolN.Example2
open Sdmmc.Props.C03Multi.Example (two_volumes two_volumes_mirror)
open Sdmmc.Props.C01Multi.Example (ops2 ops2_covered ops2_fresh)

/-- On the two-volume state of `Props.C03Multi` (FAT16 volume, handle 1, record 0, partition index 0; FAT32 volume, handle 5,
record 1, partition index 1; no file open): `F.TXT` of the FAT32 volume is opened for appending (handle 10), five bytes are
written, the file is closed. -/
def ops3 : List Op :=
  [.openFile 6 [70, 46, 84, 88, 84] .ReadWriteAppend, .write 10 (List.replicate 5 9), .closeFile 10]

theorem ops3_covered : CoveredNRun mgr2 ops3 := ⟨trivial, trivial, trivial, trivial⟩
theorem ops3_fresh : FreshRun mgr2 ops3 := ⟨trivial, trivial, trivial, trivial⟩

/-- **Evaluated**: after the first two calls the FAT32 volume (handle 5) has an open, DIRTY file, the FAT16 volume (handle 1,
still record 0) has none; all three calls answer `Ok`. -/
theorem ops3_mid : (run mgr2 (ops3.take 2)).1.files.map (fun f => (f.rawVolume, f.dirty)) = [(5, true)] ∧
    volFiles (run mgr2 (ops3.take 2)).1 1 = [] ∧
    (run mgr2 (ops3.take 2)).1.vols.map (fun v => (v.rawVolume, v.idx)) = [(1, 0), (5, 1)] ∧
    (run mgr2 ops3).2.map (fun o => match o.result with | .ok _ => true | _ => false) = [true, true, true] := by
  refine ⟨?_, ?_, ?_, ?_⟩ <;> decide +kernel

/-- (history) at prefix 2: the byte-array model of `Props.C01Multi` makes the two calls with the same answers.  (Stated apart
from `ops3_final`, as a direct instance of the theorem: elaborating a tactic proof against a goal that contains
`absRunN … (run mgr2 …)` makes the elaborator evaluate the run.) -/
theorem ops3_history : ∃ A ghs' A', AbsN mgr2 ghs2 A ∧ VolInvN (run mgr2 (ops3.take 2)).1 ghs' ∧
    MirrorN (run mgr2 (ops3.take 2)).1 ghs' ∧ AbsN (run mgr2 (ops3.take 2)).1 ghs' A' ∧
    absRunN A (ops3.take 2) ((run mgr2 (ops3.take 2)).2.map (·.result)) A' :=
  C01Multi.fs_history_refines_multi_from_invariant (ops3.take 2) mgr2 ghs2 two_volumes two_volumes_mirror
    (C03Multi.coveredNRun_take ops3_covered 2) (Lemmas.VolNCrash.freshRun_take ops3 mgr2 ops3_fresh 2)

/-- The whole conclusion of `c02_final_multi` at prefix 2, for any abstract counterpart of the start state. -/
example (A0 : AbsFsN) (hA0 : AbsN mgr2 ghs2 A0) :=
  c02_final_multi two_volumes two_volumes_mirror hA0 ops3 ops3_covered ops3_fresh 2

/-- **`c02_final_multi` applies at prefix 2** — a point at which ANOTHER volume has an open, dirty file: for the FAT16 volume
(record 0, handle 1, partition index 0), with `Ak` an abstract counterpart of the state there: (length) and (spec) hold
outright; (reader) for every record `w` the medium mounts partition 0 to.  (The hand-built medium `disk2` has no partition
table — block 0 is the FAT16 volume's boot sector —, so, as in `Props.C09HistEx.ExampleSub`, the mounting stays a variable
here; a medium that mounts, with the evaluated reader, is the one-volume `Props.C02Fs.Example.fresh_reads`.) -/
theorem ops3_final : ∃ (A0 : AbsFsN) (ghsk : List Ghost) (Ak : AbsFsN) (vi : VolInfo) (gh : Ghost), AbsN mgr2 ghs2 A0 ∧
    AbsN (run mgr2 (ops3.take 2)).1 ghsk Ak ∧
    (run mgr2 (ops3.take 2)).1.vols[0]? = some vi ∧ ghsk[0]? = some gh ∧ vi.rawVolume = 1 ∧ vi.idx = 0 ∧
    (∀ x, x ∈ (viewOf Ak 1).ids → ∀ (j : Nat) (m : Meta) (bytes : Bytes),
      ((viewOf Ak 1).slots x)[j]? = some (.file m bytes) → m.size = bytes.length) ∧
    IndependentShows (run mgr2 (ops3.take 2)).1 gh.vol (viewOf Ak 1) ∧
    ∀ (w : FatVolume),
      mountPure ((run mgr2 (ops3.take 2)).1.dev.disk.get 0) 0 (run mgr2 (ops3.take 2)).1.dev.disk.get = .ok w →
      SameGeom gh.vol w → FreshShows (run mgr2 (ops3.take 2)).1 0 (viewOf Ak 1) := by
  obtain ⟨A0, hA0⟩ := C01Multi.Example.two_volumes_abs
  -- (the history clause is kept bundled: no variable of type `absRunN … (run …)` — a linter would evaluate the run)
  obtain ⟨ghsk, Ak, hH, hrest⟩ := c02_final_multi two_volumes two_volumes_mirror hA0 ops3 ops3_covered ops3_fresh 2
  obtain ⟨vi, hvi, e1, e2⟩ : ∃ vi, (run mgr2 (ops3.take 2)).1.vols[0]? = some vi ∧ vi.rawVolume = 1 ∧ vi.idx = 0 := by
    have hkey : ((run mgr2 (ops3.take 2)).1.vols[0]?).map (fun v => (v.rawVolume, v.idx)) = some (1, 0) := by decide +kernel
    cases hv0 : (run mgr2 (ops3.take 2)).1.vols[0]? with
    | none => rw [hv0] at hkey; cases hkey
    | some vi =>
      rw [hv0] at hkey
      exact ⟨vi, rfl, congrArg Prod.fst (Option.some.inj hkey), congrArg Prod.snd (Option.some.inj hkey)⟩
  obtain ⟨gh, hgh⟩ : ∃ g, ghsk[0]? = some g :=
    ⟨_, List.getElem?_eq_getElem (by rw [hH.2.1.len]; exact (List.getElem?_eq_some_iff.1 hvi).1)⟩
  obtain ⟨r1, r2, r3⟩ := hrest 0 vi gh hvi hgh (by rw [e1]; exact ops3_mid.2.1)
  rw [e1] at r1 r2 r3
  rw [e2] at r3
  exact ⟨A0, ghsk, Ak, vi, gh, hA0, hH.2.2.2, hvi, hgh, e1, e2, r1, r2, fun w hw hsg => (r3 w hw hsg).2⟩

/-- The start state satisfies `VolInvNC` (`Props.C10Multi.Example.two_volumes_crash`), so `c02_final_multi_mounts` applies to
`ops3` (no `close_volume` at all) for either volume — the mounting at the start again a variable. -/
example (k : Nat) (A0 : AbsFsN) (hA0 : AbsN mgr2 ghs2 A0) (vm : FatVolume)
    (hmnt : mountPure (mgr2.dev.disk.get 0) 0 mgr2.dev.disk.get = .ok vm) (hsg : SameGeom vm gh1.vol) :=
  c02_final_multi_mounts (j := 0) (vj := { rawVolume := 1, idx := 0, vol := vol16 }) (gh0 := gh1)
    C10Multi.Example.two_volumes_crash hA0 ops3 ops3_covered ops3_fresh k rfl rfl
    (fun op hop e => by
      have hmem : op ∈ ops3 := List.mem_of_mem_take hop
      rw [e] at hmem
      simp [ops3] at hmem) vm hmnt hsg

/-- In the interleaved history `ops2` of `Props.C01Multi`, the calls `opsF` (all on the FAT32 volume) leave the tree of the
FAT16 volume alone: `other_volume_history_leaves_tree` applies (`Props.C01Multi.Example.opsF_foreign`). -/
example (A : AbsFsN) (ghs : List Ghost) (hI : VolInvN C01Multi.Example.mid ghs) (hm : MirrorN C01Multi.Example.mid ghs)
    (hA : AbsN C01Multi.Example.mid ghs A) :=
  other_volume_history_leaves_tree C01Multi.Example.opsF C01Multi.Example.mid ghs A hI hm hA
    (by refine ⟨trivial, trivial, trivial, trivial, trivial, trivial, trivial, trivial, trivial, trivial⟩)
    (by refine ⟨trivial, trivial, trivial, trivial, trivial, trivial, trivial, trivial, trivial, trivial⟩)
    1 C01Multi.Example.opsF_foreign

end Example

end Sdmmc.Props.C02Multi
