/-
C14 — The SD card driver speaks the SPI-mode command protocol correctly.

Property theorems only; helper lemmas live in `Sdmmc.Lemmas.Sd*`.
Model: `Sdmmc.Model.Sd`.  The model logs everything it puts on the bus as a list of `Event`s
(`.poll got` = one 0xFF clocked out to fetch a byte, `.cmd frame`, `.byte x`, `.dataOut bs`,
`.dataIn n`).  All statements are about `evsNew s s'`: the events one call (or one function)
added, oldest first — for EVERY bus, every answer of the card, every driver state.
-/
import Sdmmc.Lemmas.SdAcmd
import Sdmmc.Lemmas.SdFraming
import Sdmmc.Lemmas.SdFrame
import Sdmmc.Lemmas.SdIdent

namespace Sdmmc.Props.C14
open Sdmmc.Model Sdmmc.Model.Sd Sdmmc.Gen Sdmmc.Spec

variable {σ : Type} (B : BusOps σ)

/-- The events added between two states, oldest first. -/
def evsNew (s s' : St σ) : List Event := (s'.events.take (s'.events.length - s.events.length)).reverse

def isPoll : Event → Bool
  | .poll _ => true
  | _ => false

def AllPolls (l : List Event) : Prop := ∀ e ∈ l, isPoll e = true

/-! ## Frames -/

/-- Command index of a frame: low six bits of its first byte. -/
def cmdIdx (f : Bytes) : Nat := (f.getD 0 0).toNat % 64

/-- A frame built by `card_command` for a 6-bit index and a 32-bit argument. -/
def FrameWF (f : Bytes) : Prop := ∃ c arg, c < 64 ∧ arg < 4294967296 ∧ f = frame c arg

def FramesOK (evs : List Event) : Prop := ∀ f, Event.cmd f ∈ evs → FrameWF f

/-- Big-endian value of bytes 1..4 of a frame. -/
def frameArg (f : Bytes) : Nat :=
  (f.getD 1 0).toNat * 16777216 + (f.getD 2 0).toNat * 65536 + (f.getD 3 0).toNat * 256 + (f.getD 4 0).toNat

def toBV (b : UInt8) : BitVec 8 := BitVec.ofNat 8 b.toNat

/-- Every command the driver sends, in any call, is a frame of a 6-bit index and a 32-bit argument. -/
theorem frames_wellformed (c : Call) (s : St σ) : FramesOK (evsNew s (call B c s).2) :=
  (Lemmas.Sd.call_cmdsOK B c s).1

/-- Such a frame is well-formed: six bytes; start bit 0, transmission bit 1 and the command
index in the first byte; the argument big-endian in bytes 1..4; the last byte is the driver's
`crc7` of the first five, which is the specification's CRC-7 (remainder modulo x^7+x^3+1, by
C19) shifted left with the end bit 1. -/
theorem frame_layout (c arg : Nat) (hc : c < 64) (ha : arg < 4294967296) :
    (frame c arg).length = 6 ∧
    (frame c arg).getD 0 0 = UInt8.ofNat (0x40 + c) ∧
    frameArg (frame c arg) = arg ∧
    toBV ((frame c arg).getD 5 0) = crc7 (((frame c arg).take 5).map toBV) ∧
    toBV ((frame c arg).getD 5 0) = specCrc7 (((frame c arg).take 5).map toBV) ∧
    ((frame c arg).getD 5 0).toNat % 2 = 1 :=
  Lemmas.Sd.frame_layout c arg hc ha

theorem cmdIdx_frame (c arg : Nat) (hc : c < 64) : cmdIdx (frame c arg) = c :=
  Lemmas.Sd.cmdIdx_frame c arg hc

/-! ## Only when the card can accept it -/

/-- Every command other than CMD0 and CMD12 is directly preceded by a poll that returned 0xFF
(the card is not busy). -/
def NotWhileBusy (evs : List Event) : Prop :=
  ∀ pre f post, evs = pre ++ Event.cmd f :: post → cmdIdx f ≠ 0 → cmdIdx f ≠ 12 →
    pre.getLast? = some (.poll 255)

/-- No command is sent while the card signals busy.  (CMD0, the reset, and CMD12, which must
interrupt a running transfer, are sent without the wait — as in the source.) -/
theorem not_while_busy (c : Call) (s : St σ) : NotWhileBusy (evsNew s (call B c s).2) :=
  (Lemmas.Sd.call_cmdsOK B c s).2.1

/-- Every ACMD41 / ACMD23 frame has a CMD55 frame before it with only polls in between. -/
def AcmdPrefixed (evs : List Event) : Prop :=
  ∀ pre f post, evs = pre ++ Event.cmd f :: post → (cmdIdx f = 41 ∨ cmdIdx f = 23) →
    ∃ pre' polls, pre = pre' ++ Event.cmd (frame 55 0) :: polls ∧ AllPolls polls

/-- Application commands are directly preceded by the application-command prefix. -/
theorem acmd_prefixed (c : Call) (s : St σ) : AcmdPrefixed (evsNew s (call B c s).2) :=
  (Lemmas.Sd.call_cmdsOK B c s).2.2

/-- The next command after this point is ACMD41 or ACMD23, with only polls before it. -/
def NextIsAcmd (post : List Event) : Prop :=
  ∃ polls f rest, post = polls ++ Event.cmd f :: rest ∧ AllPolls polls ∧ (cmdIdx f = 41 ∨ cmdIdx f = 23)

/-- Every CMD55 is followed by its application command, or by nothing but polls. -/
def After55 (evs : List Event) : Prop :=
  ∀ pre f post, evs = pre ++ Event.cmd f :: post → cmdIdx f = 55 → NextIsAcmd post ∨ AllPolls post

/-- Every CMD55 is followed by its application command. -/
def Closed55 (evs : List Event) : Prop :=
  ∀ pre f post, evs = pre ++ Event.cmd f :: post → cmdIdx f = 55 → NextIsAcmd post

def AcmdFollowed (c : Call) (r : SRes Answer) (evs : List Event) : Prop :=
  After55 evs ∧ (c ≠ .cardType → (∃ a, r = .ok a) → Closed55 evs)

/-- Conversely, after a CMD55 the next command of the same call is ACMD41 or ACMD23; if the
CMD55 (or the wait for the card before the application command) failed, no command at all
follows in that call — and then the call fails (`get_card_type`, which has no error channel,
excepted). -/
theorem acmd_follows_prefix (c : Call) (s : St σ) :
    AcmdFollowed c (call B c s).1 (evsNew s (call B c s).2) :=
  Lemmas.Sd.call_acmd B c s

/-! ## Data blocks -/

/-- The two CRC bytes `write_data` sends: the big-endian CRC-16 of the payload when CRC is on. -/
def crcOut (useCrc : Bool) (buf : Bytes) : Bytes :=
  if useCrc = true then [UInt8.ofNat (crc16Nat buf / 256), UInt8.ofNat (crc16Nat buf % 256)] else [0xFF, 0xFF]

/-- What `write_data` logs and returns. -/
def WriteChunk (u : Bool) (tok : Nat) (buf : Bytes) (r : SRes Unit) (evs : List Event) : Prop :=
  (r = .err .Transport ∧
    (evs = [.byte (UInt8.ofNat tok)] ∨ evs = [.byte (UInt8.ofNat tok), .dataOut buf] ∨
     evs = [.byte (UInt8.ofNat tok), .dataOut buf, .dataOut (crcOut u buf)] ∨
     evs = [.byte (UInt8.ofNat tok), .dataOut buf, .dataOut (crcOut u buf), .poll 256])) ∨
  (∃ st, st < 256 ∧ evs = [.byte (UInt8.ofNat tok), .dataOut buf, .dataOut (crcOut u buf), .poll st] ∧
    ((st % 32 = 5 ∧ r = .ok ()) ∨ (st % 32 ≠ 5 ∧ r = .err .WriteError)))

/-- `write_data(token, buf)` sends exactly: the token, the payload in one piece (all of it —
512 bytes for a block), two CRC bytes (the CRC-16 of the payload when CRC is on, 0xFF 0xFF
otherwise), and reads one response byte; an SPI error cuts this short. -/
theorem data_framing_write (tok : Nat) (buf : Bytes) (s : St σ) :
    WriteChunk s.useCrc tok buf (writeData B tok buf s).1 (evsNew s (writeData B tok buf s).2) :=
  (Lemmas.Sd.writeData_tr B tok buf s).evsNew

theorem crcOut_length (u : Bool) (buf : Bytes) : (crcOut u buf).length = 2 :=
  Lemmas.Sd.crcOut_length u buf

/-- `k` polls that all returned 0xFF. -/
def ffPolls (k : Nat) : List Event := List.replicate k (Event.poll 255)

/-- What `read_data` logs and returns. -/
def ReadChunk (len : Nat) (r : SRes Bytes) (evs : List Event) : Prop :=
  (r = .err .TimeoutReadBuffer ∧ evs = ffPolls (DEFAULT_READ_RETRIES + 1)) ∨
  (∃ k, r = .err .Transport ∧ evs = ffPolls k ++ [.poll 256]) ∨
  (∃ k g, g < 255 ∧ g ≠ 254 ∧ r = .err .ReadError ∧ evs = ffPolls k ++ [.poll g]) ∨
  (∃ k, r = .err .Transport ∧ evs = ffPolls k ++ [.poll 254, .dataIn len]) ∨
  (∃ k, evs = ffPolls k ++ [.poll 254, .dataIn len, .dataIn 2] ∧
    (r = .err .Transport ∨ (∃ buf, r = .ok buf) ∨ ∃ a b, r = .err (.CrcError a b)))

/-- `read_data` of `len` bytes waits for a token; only after the start token 0xFE it clocks in
exactly `len` payload bytes in one transaction and then exactly two CRC bytes. -/
theorem data_framing_read (len : Nat) (s : St σ) :
    ReadChunk len (readData B len s).1 (evsNew s (readData B len s).2) :=
  (Lemmas.Sd.readData_tr B len s).evsNew

def isData : Event → Bool
  | .byte _ => true
  | .dataOut _ => true
  | _ => false

/-- The data-phase events of a log (tokens, payload, CRC), in order. -/
def dataEvs (evs : List Event) : List Event := evs.filter isData

/-- The data-phase events of one block written with token `tok`. -/
def blockSeq (u : Bool) (tok : UInt8) (b : Bytes) : List Event := [.byte tok, .dataOut b, .dataOut (crcOut u b)]

/-- The data phase of a whole `write`: one block with the single-block start token 0xFE; or
every block with the multi-block token 0xFC, then the stop token 0xFD. -/
def writeSeq (u : Bool) : List Bytes → List Event
  | [b] => blockSeq u 0xFE b
  | blocks => (blocks.flatMap fun b => blockSeq u 0xFC b) ++ [.byte 0xFD]

/-- The data phase of a `write`, judged on the data-phase events `d` of the call: a prefix of
`writeSeq` — or, for a multiple-block write whose block loop failed, a prefix of the blocks
followed by the stop token 0xFD, which is sent either way so that the card is not left waiting for
data blocks — and exactly `writeSeq` when the `write` succeeds. -/
def WriteFraming (u : Bool) (blocks : List Bytes) (r : SRes Unit) (d : List Event) : Prop :=
  (d <+: writeSeq u blocks ∨
    ((∀ b, blocks ≠ [b]) ∧ ∃ pfx, pfx <+: (blocks.flatMap fun b => blockSeq u 0xFC b) ∧ d = pfx ++ [.byte 0xFD])) ∧
  ((∃ a, r = .ok a) → d = writeSeq u blocks)

/-- A `write` that succeeds has sent exactly `writeSeq` as its data phase; one that fails has
sent a prefix of it — or, when a block of a multiple-block write was refused, the blocks up to
that one and then the stop token. -/
theorem data_framing_tokens (blocks : List Bytes) (idx : Nat) (s : St σ) :
    WriteFraming s.useCrc blocks (write B blocks idx s).1 (dataEvs (evsNew s (write B blocks idx s).2)) :=
  (Lemmas.Sd.write_dataSeq B s.useCrc blocks idx s rfl).evsNew

/-! ## Multi-block transfers end properly -/

/-- A multi-block read whose CMD18 was answered always sends the stop-transmission command
CMD12 afterwards, whatever happened to the blocks: CMD12 has no busy wait in front of it, so its
frame goes out even if every block failed.  Only its response polls follow. -/
theorem multi_read_terminated (n idx start : Nat) (hn : n ≠ 1) (s : St σ)
    (hstart : startIdx s.cardType idx = .ok start) (r1 : Nat) (s1 : St σ)
    (h18 : cardCommand B CMD18 start s = (.ok r1, s1)) :
    ∃ pre post, evsNew s (Sd.read B n idx s).2 = pre ++ Event.cmd (frame CMD12 0) :: post ∧
      Event.cmd (frame CMD18 start) ∈ pre ∧ AllPolls post :=
  Lemmas.Sd.read_multi_terminated B n idx start hn s hstart r1 s1 h18

/-- A multi-block write whose CMD25 was answered always attempts the stop sequence afterwards,
whatever happened to the blocks (the counterpart of `multi_read_terminated`): after the events up
to and including the block loop come the polls of a busy wait, and then the stop token 0xFD —
right after a poll that showed the card not busy, followed only by polls (the byte that is clocked
and discarded, then the final busy wait) — unless that wait itself failed (the card was still busy when the write budget ran out, or
an SPI error occurred: its last poll did not read 0xFF), in which case `write` returns an error. -/
theorem multi_write_always_stopped (blocks : List Bytes) (idx start : Nat) (hne : ∀ b, blocks ≠ [b]) (s : St σ)
    (hstart : startIdx s.cardType idx = .ok start) (r0 : Nat) (s1 s2 : St σ) (r1 : Nat) (s3 : St σ)
    (hacmd : cardAcmd B ACMD23 (blocks.length % 4294967296) s = (.ok r0, s1))
    (hwait : waitNotBusy B DEFAULT_WRITE_RETRIES s1 = (.ok (), s2))
    (h25 : cardCommand B CMD25 start s2 = (.ok r1, s3)) :
    ∃ pre polls rest, evsNew s (write B blocks idx s).2 = pre ++ polls ++ rest ∧
      Event.cmd (frame CMD25 start) ∈ pre ∧ AllPolls polls ∧ polls ≠ [] ∧
      ((polls.getLast? = some (.poll 255) ∧ ∃ post, rest = Event.byte 0xFD :: post ∧ AllPolls post ∧
          ((write B blocks idx s).1 = .ok () → post.getLast? = some (.poll 255))) ∨
       (rest = [] ∧ polls.getLast? ≠ some (.poll 255) ∧ ∃ e, (write B blocks idx s).1 = .err e)) :=
  Lemmas.Sd.write_multi_stopped B blocks idx start hne s hstart r0 s1 s2 r1 s3 hacmd hwait h25

/-- A multi-block write that succeeds has sent the stop token 0xFD right after a poll that showed
the card not busy; after the stop token only polls follow — one byte that is clocked and discarded
(the card may take a byte to signal busy), then the final `wait_not_busy` (the driver waits for the
card to finish programming) — and the last of them showed the card not busy again. -/
theorem multi_write_terminated (blocks : List Bytes) (idx : Nat) (hne : ∀ b, blocks ≠ [b]) (s : St σ)
    (hok : (write B blocks idx s).1 = .ok ()) :
    ∃ pre post, evsNew s (write B blocks idx s).2 = pre ++ [Event.poll 255, Event.byte 0xFD] ++ post ∧
      AllPolls post ∧ post.getLast? = some (Event.poll 255) :=
  Lemmas.Sd.write_multi_terminated B blocks idx hne s hok

/-! ## Identification before data -/

/-- The command indices of a log, in order. -/
def cmdIdxs (evs : List Event) : List Nat :=
  evs.filterMap fun e => match e with
    | .cmd f => some (cmdIdx f)
    | _ => none

/-- A set of index sequences, written as a regular expression. -/
abbrev Lang := List Nat → Prop
/-- concatenation -/
def cat (L M : Lang) : Lang := fun l => ∃ l1 l2, l = l1 ++ l2 ∧ L l1 ∧ M l2
/-- `c*` -/
def star (c : Nat) : Lang := fun l => ∃ k, l = List.replicate k c
/-- `c+` -/
def plus (c : Nat) : Lang := fun l => ∃ k, 1 ≤ k ∧ l = List.replicate k c
/-- exactly `l0` -/
def lit (l0 : List Nat) : Lang := fun l => l = l0
/-- `(l0)?` -/
def opt (l0 : List Nat) : Lang := fun l => l = [] ∨ l = l0
/-- `k` times (CMD55, ACMD41) -/
def pairs (k : Nat) : List Nat := (List.replicate k [55, 41]).flatten
/-- `(55 41)+` -/
def pairsPlus : Lang := fun l => ∃ k, 1 ≤ k ∧ l = pairs k
/-- `(55 41)* (55)?` -/
def pairsDangling : Lang := fun l => ∃ k t, l = pairs k ++ t ∧ (t = [] ∨ t = [55])

/-- Every run of the identification sequence, failed ones included: `0+ (59)? 8* (55 41)* (55)? (58)?`. -/
def IdentOrderWeak : Lang :=
  cat (plus 0) (cat (opt [59]) (cat (star 8) (cat pairsDangling (opt [58]))))

/-- A completed identification sequence, in the order the specification prescribes:
`0+ 59 8+ (55 41)+ (58)?` with CRC on, `0+ 8+ (55 41)+ (58)?` with CRC off (GO_IDLE until the
card is idle, CRC_ON_OFF, SEND_IF_COND, APP_CMD + SD_SEND_OP_COND until ready, READ_OCR). -/
def IdentOrder (useCrc : Bool) : Lang :=
  cat (plus 0) (cat (lit (if useCrc = true then [59] else [])) (cat (plus 8) (cat pairsPlus (opt [58]))))

/-- The commands of the identification sequence (`acquire`'s closure) come in the prescribed order. -/
theorem ident_order (s : St σ) :
    IdentOrderWeak (cmdIdxs (evsNew s (acquireBody B s).2)) ∧
    ((acquireBody B s).1 = .ok () → IdentOrder s.useCrc (cmdIdxs (evsNew s (acquireBody B s).2))) := by
  have h := (Lemmas.Sd.acquireBody_order B s).evsNew
  exact ⟨h.1, fun hok => h.2 ⟨(), hok⟩⟩

/-- The commands of the identification sequence. -/
def identCmds : List Nat := [0, 59, 8, 55, 41, 58]

def IdentOnly (evs : List Event) : Prop := ∀ f, Event.cmd f ∈ evs → cmdIdx f ∈ identCmds

/-- Data commands (CMD9, 13, 17, 18, 24, 25, ACMD23 — anything that is not an identification
command) are only sent to an identified card: the events of any call split into the events of
`acquire` — identification commands only, and present exactly when the card was marked
uninitialised — and the events of the operation proper, which exist only if the card was
already initialised or that `acquire` succeeded (`acquire_needs_ident`: its closure ran to
completion, in the order `ident_order`). -/
theorem ident_before_data (c : Call) (s : St σ) :
    ∃ ea eo, evsNew s (call B c s).2 = ea ++ eo ∧ IdentOnly ea ∧
      (s.cardType.isSome → ea = []) ∧
      (s.cardType = none → c ≠ .markUninit →
        ea = evsNew s (acquire B s).2 ∧ (eo ≠ [] → (acquire B s).1 = .ok ())) :=
  Lemmas.Sd.ident_before_data B c s

theorem acquire_needs_ident (s : St σ) (h : (acquire B s).1 = .ok ()) : (acquireBody B s).1 = .ok () :=
  Lemmas.Sd.acquire_ok_body_ok B s h

/-! ## Non-vacuity (tests) -/

/-- A bus that replays recorded answers (`none` = SPI error), then answers 0xFF forever. -/
def replayBus : BusOps (List (Option Bytes)) where
  xfer := fun st out =>
    match st with
    | [] => ([], some (List.replicate out.length 0xFF))
    | r :: rest => (rest, r.map fun bs => bs ++ List.replicate (out.length - bs.length) 0xFF)
  delay := fun st => st

/-- Answers of a version-1 card during initialisation with CRC off (CMD0 → idle, CMD8 → illegal
command, CMD55 → idle, ACMD41 → ready, trailing byte), then to a single-block read. -/
def sd1Answers : List (Option Bytes) :=
  [some [], some [1], some [0xFF], some [], some [5], some [0xFF], some [], some [1],
   some [0xFF], some [], some [0], some [0xFF]]

def sd1Start : St (List (Option Bytes)) := { bus := sd1Answers, useCrc := false, acquireRetries := 2 }

/-- A whole call on an uninitialised card: identification, then the data command. -/
example : cmdIdxs (evsNew sd1Start (call replayBus (.read 1 3) sd1Start).2) = [0, 8, 55, 41, 17] := by
  decide +kernel

/-- The successful-identification language is inhabited by exactly that run. -/
example : IdentOrder false [0, 8, 55, 41] :=
  ⟨[0], [8, 55, 41], rfl, ⟨1, Nat.le_refl _, rfl⟩, [], [8, 55, 41], rfl, rfl, [8], [55, 41], rfl,
    ⟨1, Nat.le_refl _, rfl⟩, [55, 41], [], rfl, ⟨1, Nat.le_refl _, rfl⟩, Or.inl rfl⟩

/-- The hypotheses of `multi_read_terminated` are satisfiable (a card that answers CMD18 with 0). -/
example : startIdx (some CardType.SDHC) 5 = .ok 5 ∧
    (cardCommand replayBus CMD18 5 { bus := [some [0xFF], some [], some [0]], cardType := some .SDHC }).1 = .ok 0 :=
  ⟨rfl, rfl⟩

/-- `frame_layout` on CMD17 with argument 0x12345678. -/
example : frame 17 0x12345678 = [0x51, 0x12, 0x34, 0x56, 0x78, 0x5D] := by decide +kernel

end Sdmmc.Props.C14
