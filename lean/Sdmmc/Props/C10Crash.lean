/-
C10 (crash-prefix form, FAT-engine level) — "If the device stops accepting writes after any block
write of any operation, … no live chain refers to a free, bad or out-of-range cluster, no two chains
share a cluster, no chain is cyclic, no directory exposes uninitialised cluster contents …  Space
that is allocated but not yet referenced is the only permitted residue."

Property theorems only.  Vocabulary: `Sdmmc.Spec.Crash` (`newWrites`, `crashDisk`, `crashDisks`,
`OwnsLoose`, `ClusterZero`, `opZero`) on top of `Sdmmc.Spec.Forest` (`FatOp`, `step`, `run`,
`Exact`).  Proofs: `Sdmmc.Lemmas.Crash{Base,Fat,Alloc,Step,Hist,Delete}`.
Model: `allocCluster`, `truncateClusterChain`, `freeClusterChain`, `updateFat` of `Sdmmc.Model.Fat`
(= `alloc_cluster`, `truncate_cluster_chain`, `free_cluster_chain`, `update_fat` of
/repo/src/fat/volume.rs), the device write log `dev.wlog` of `Sdmmc.Model.Dev`.

WHAT IS PROVED (every volume with one or two FATs, every medium, every state satisfying the history
invariant `Exact`, every operation, EVERY prefix of the device writes of the operation — the crash
points; no bound on any size):

* `crash_step`: at every crash point the client's record of its chains BEFORE the call or the record
  AFTER it is structurally sound on the crashed medium (`OwnsLoose`: every list is the `Chain` of its
  first cluster — in range, acyclic, terminated, through no free/bad/reserved entry —, no cluster
  occurs twice, every cluster of the record is in use).  What may be wrong at a crash point are
  clusters in use that are in no chain: lost space.
  Which of the two, per operation, follows from the write orders — `update_fat` = copy 1 then copy 2,
  `alloc_cluster` = blank, mark, link, `truncate_cluster_chain` = terminate, then free front to back,
  `free_cluster_chain` = truncate, then free the head — which are proved as descriptions of EVERY crash
  medium of one engine call: `alloc_crash_stages`, `truncate_crash_stages`, `free_crash_stages`:
  - `newChain` / `extend`: stages A, B (new cluster marked, not yet linked: lost space) give the old
    record, stage C (the medium looks like the final one) the new record;
  - `truncate`: the old record while nothing is visible, the new record once the kept part is
    terminated, the not-yet-freed rest of the tail being lost space;
  (`Example.extend_verdicts`, `Example.truncate_verdicts` show the orders on a concrete medium.)
  - `free`: `crash_step_free` — the NEW record (chain removed) at every crash point.  The old one is
    NOT sound in between (`Example.free_breaks_old_record`): the chain is terminated behind its first
    cluster and freed from the second cluster on, the first cluster last.  The Rust callers free a
    chain only when no directory entry refers to it: `delete_file_in_dir` marks the entry deleted first
    (`delete_body_crash` below), `make_dir`'s clean-up frees a cluster whose entry was never written.
* `crash_step_leak`, `crash_step_lost`: lost space is confined to the operation's own chain: every
  cluster in use at a crash point is in the record before or in the record after the call.
* `crash_step_zeroed`: an operation that blanks its new cluster (`zero = true`, directories) has
  blanked ALL its blocks before any crash point at which the cluster is no longer free — the blank
  blocks are written before the end-of-chain mark, which is written before the link.
* `crash_step_mirror`, `crash_history_mirror`: identical FAT copies are, at every crash point,
  identical except possibly in one sector (`MirrorBut`) — the `update_fat` that was cut had written copy 1
  and not yet copy 2.  So a medium recovered after a crash need NOT satisfy `Mirror`; none of the
  theorems here assumes it (C16's `Mirror`-dependent statements about copy 2 do not apply to such a medium
  until the stale sector has been rewritten).
* `crash_step_replay`: the writes are faithful — the medium after the call is the medium before it
  with `newWrites` applied; the crash points are `crashDisks` (`crash_step_all`).
* `crash_history`, `crash_history_global`: the same over every history — for every operation of it
  (the states between operations satisfy `Exact` by `C05Forest.forest_history`), and for every prefix
  of the concatenated write sequence of the whole history.

* `delete_entry_single_write`, `delete_body_crash` (directory plane, one step beyond the engine): the
  body of `delete_file_in_dir` writes the deleted mark of the directory slot FIRST (one device write,
  to a block behind the FATs) and only then frees; at every crash point either nothing is written or
  the slot is marked and only FAT entries of the file's own chain differ.

HYPOTHESES.  `Exact st` = `Ready` (no device fault scheduled, cache coherent, 512-byte blocks,
`WFGeom`, hint ≥ 2) and `Owns` (the record is exact on the medium before the call).  Identity of the
two FAT copies (`Mirror`) is NOT needed: chains are read from copy 1, and `update_fat` rewrites the
whole sector of copy 2 from copy 1.  A crash between the two writes of one `update_fat` leaves copy 2
one sector behind copy 1; nothing here reads copy 2.

NOT PROVED HERE: that a directory entry exists for exactly the chains of the record (the directory
plane: `Props/C10.lean` for the write order of `make_dir`, `Props/C03.lean`), the crash points of
`make_dir` / `write_new_directory_entry` (their end-to-end write orders are `C10.makeDir_prefix`,
`C10.alloc_order`; the allocations inside them are covered by `alloc_crash_stages`), and the
manager-level statement over API calls; the harness's crash oracle covers those.
-/
import Sdmmc.Lemmas.CrashHist
import Sdmmc.Lemmas.CrashDelete

namespace Sdmmc.Props.C10Crash
open Sdmmc.Model Sdmmc.Model.Fat Sdmmc.Spec

/-! ### One operation, every crash point -/

/-- At every crash point of every operation the record before the call or the record after it is
sound on the crashed medium. -/
theorem crash_step (st : FS × List (List Nat)) (op : FatOp) (h : Exact st) (k : Nat) :
    OwnsLoose st.1.vol (crashDisk st.1.dev.disk (newWrites st.1 (step st op).1) k) st.2 ∨
    OwnsLoose st.1.vol (crashDisk st.1.dev.disk (newWrites st.1 (step st op).1) k) (step st op).2 :=
  ((Lemmas.CrashHist.step_crash st op h).spec k).sound

/-- The same, over the list of crash media. -/
theorem crash_step_all (st : FS × List (List Nat)) (op : FatOp) (h : Exact st) (dk : Disk)
    (hd : dk ∈ crashDisks st.1.dev.disk (newWrites st.1 (step st op).1)) :
    OwnsLoose st.1.vol dk st.2 ∨ OwnsLoose st.1.vol dk (step st op).2 := by
  obtain ⟨k, _, rfl⟩ := (Lemmas.CrashBase.mem_crashDisks _ _ _).1 hd
  exact crash_step st op h k

/-- `free_cluster_chain`: at every crash point the record WITHOUT the chain is sound (the caller has
removed the directory entry before). -/
theorem crash_step_free (st : FS × List (List Nat)) (i : Nat) (h : Exact st) (k : Nat) :
    OwnsLoose st.1.vol (crashDisk st.1.dev.disk (newWrites st.1 (step st (.free i)).1) k) (step st (.free i)).2 :=
  ((Lemmas.CrashHist.step_crash st (.free i) h).spec k).freed ⟨i, rfl⟩

/-- Lost space is confined to the operation's own chain: a cluster in use at a crash point belongs to
the record before or to the record after the call. -/
theorem crash_step_leak (st : FS × List (List Nat)) (op : FatOp) (h : Exact st) (k : Nat) (c : Nat)
    (hu : isUsed st.1.vol (crashDisk st.1.dev.disk (newWrites st.1 (step st op).1) k) c) :
    c ∈ st.2.flatten ∨ c ∈ (step st op).2.flatten :=
  ((Lemmas.CrashHist.step_crash st op h).spec k).leak c hu

/-- In terms of `Lost`: what is lost with respect to one record is part of the other record — the new
cluster of an allocation not yet linked, the not yet freed clusters of a tail being cut off or of a chain
being deleted. -/
theorem crash_step_lost (st : FS × List (List Nat)) (op : FatOp) (h : Exact st) (k : Nat) (c : Nat) :
    (Lost st.1.vol (crashDisk st.1.dev.disk (newWrites st.1 (step st op).1) k) st.2 c → c ∈ (step st op).2.flatten) ∧
    (Lost st.1.vol (crashDisk st.1.dev.disk (newWrites st.1 (step st op).1) k) (step st op).2 c → c ∈ st.2.flatten) :=
  ⟨fun hl => (crash_step_leak st op h k c hl.1).elim (fun hm => absurd hm hl.2) id,
   fun hl => (crash_step_leak st op h k c hl.1).elim id (fun hm => absurd hm hl.2)⟩

/-- No uninitialised cluster is ever reachable: when the operation blanks its new cluster, a cluster
that was free before the call and is not free at the crash point is entirely blank there. -/
theorem crash_step_zeroed (st : FS × List (List Nat)) (op : FatOp) (h : Exact st) (hz : opZero op = true) (k : Nat) (c : Nat)
    (hr : InRange st.1.vol c) (hf : isFree st.1.vol st.1.dev.disk c)
    (hm : ¬ isFree st.1.vol (crashDisk st.1.dev.disk (newWrites st.1 (step st op).1) k) c) :
    ClusterZero st.1.vol (crashDisk st.1.dev.disk (newWrites st.1 (step st op).1) k) c :=
  ((Lemmas.CrashHist.step_crash st op h).spec k).zeroed hz c hr hf hm

/-- The write log is faithful: the medium after the call is the medium before it with the call's
writes applied — the last crash point is the end state (and the first the start state). -/
theorem crash_step_replay (st : FS × List (List Nat)) (op : FatOp) (h : Exact st) :
    (step st op).1.dev.disk = crashDisk st.1.dev.disk (newWrites st.1 (step st op).1) (newWrites st.1 (step st op).1).length ∧
    st.1.dev.disk = crashDisk st.1.dev.disk (newWrites st.1 (step st op).1) 0 := by
  refine ⟨?_, by unfold crashDisk; rw [List.take_zero]; rfl⟩
  unfold crashDisk
  rw [List.take_length]
  exact (Lemmas.CrashHist.step_crash st op h).replay

/-- The two FAT copies: if they were identical before the call, they are identical at every crash
point except possibly in ONE sector (the `update_fat` in flight wrote copy 1 but not yet copy 2). -/
theorem crash_step_mirror (st : FS × List (List Nat)) (op : FatOp) (h : Exact st) (hm : Mirror st.1.vol st.1.dev.disk)
    (k : Nat) : MirrorBut st.1.vol (crashDisk st.1.dev.disk (newWrites st.1 (step st op).1) k) :=
  ((Lemmas.CrashHist.step_crash st op h).spec k).mirror hm

/-! ### Histories -/

/-- Every crash point inside any operation of any history: the record before or after that operation
is sound on the crashed medium. -/
theorem crash_history (st : FS × List (List Nat)) (ops : List FatOp) (h : Exact st) (n : Nat) (op : FatOp)
    (_hn : ops[n]? = some op) (k : Nat) :
    let a := run st (ops.take n)
    OwnsLoose a.1.vol (crashDisk a.1.dev.disk (newWrites a.1 (step a op).1) k) a.2 ∨
    OwnsLoose a.1.vol (crashDisk a.1.dev.disk (newWrites a.1 (step a op).1) k) (step a op).2 :=
  crash_step _ op (Lemmas.ForestStep.run_ok (ops.take n) st h).1 k

/-- Every prefix of the concatenated device writes of a whole history: the crashed medium is sound
for the client's record at some moment of the history. -/
theorem crash_history_global (st : FS × List (List Nat)) (ops : List FatOp) (h : Exact st) (k : Nat) :
    ∃ n, n ≤ ops.length ∧
      OwnsLoose st.1.vol (crashDisk st.1.dev.disk (newWrites st.1 (run st ops).1) k) (run st (ops.take n)).2 :=
  (Lemmas.CrashHist.run_crash_sound ops st h).spec k

/-- The two FAT copies over a whole history, cut anywhere. -/
theorem crash_history_mirror (st : FS × List (List Nat)) (ops : List FatOp) (h : Exact st)
    (hm : Mirror st.1.vol st.1.dev.disk) (k : Nat) :
    MirrorBut st.1.vol (crashDisk st.1.dev.disk (newWrites st.1 (run st ops).1) k) :=
  (Lemmas.CrashHist.run_crash_mirror ops st h hm).spec k

/-! ### The engine functions, stage by stage

The statements above are consequences of the following descriptions of EVERY crash medium of one engine
call, relative to the medium before the call (no client record involved; any well-formed chain). -/

/-- `truncate_cluster_chain(x)`, `x` anywhere in a chain `pre ++ x :: tail`: at every crash point either
nothing is visible yet, or `x` is terminated, the first `j` clusters of `tail` are free, and every other
entry and every non-FAT block is untouched — the chain is terminated BEFORE anything is freed, and the
tail is freed front to back. -/
theorem truncate_crash_stages (s : FS) (c x : Nat) (pre tail : List Nat) (hn : NoFault s) (hc : Coherent s)
    (hb : BlocksOK s.dev.disk) (hg : WFGeom s.vol) (hch : Chain s.vol s.dev.disk c (pre ++ x :: tail)) :
    ∃ s', truncateClusterChain x s = (.ok (), s') ∧ ∀ k,
      LooksLike s.vol s.dev.disk (crashDisk s.dev.disk (newWrites s s') k) ∨
      ∃ j, j ≤ tail.length ∧
        nextOf s.vol (crashDisk s.dev.disk (newWrites s s') k) x = .err .EndOfFile ∧
        (∀ y, y ∈ tail.take j → isFree s.vol (crashDisk s.dev.disk (newWrites s s') k) y) ∧
        (∀ y, y < endCluster s.vol → y ≠ x → y ∉ tail.take j →
          fatRaw s.vol (crashDisk s.dev.disk (newWrites s s') k) y = fatRaw s.vol s.dev.disk y) ∧
        (∀ i, regionOf s.vol i ≠ .fat → (crashDisk s.dev.disk (newWrites s s') k).get i = s.dev.disk.get i) := by
  obtain ⟨s', h, hcr⟩ := Lemmas.CrashFat.truncate_crash s c x pre tail hn hc hb hg hch
  refine ⟨s', h, fun k => ?_⟩
  rcases (hcr.spec k).1 with hv | ⟨j, hj, hst⟩
  · exact .inl ⟨hv.fat, hv.nonFat⟩
  · exact .inr ⟨j, hj, hst.eof x (List.mem_singleton.2 rfl), hst.free,
      fun y hy hyx hyt => hst.within.other y hy (fun hm => (List.mem_append.1 hm).elim
        (fun h1 => hyx (List.mem_singleton.1 h1)) hyt),
      fun i hi => hst.within.nonFat i hi id⟩

/-- `free_cluster_chain(r)` on the chain `r :: tail`: the stages of the truncation at `r`, and finally
every cluster of the chain free.  At every crash point only entries of the chain itself differ. -/
theorem free_crash_stages (s : FS) (r : Nat) (tail : List Nat) (hn : NoFault s) (hc : Coherent s)
    (hb : BlocksOK s.dev.disk) (hg : WFGeom s.vol) (hch : Chain s.vol s.dev.disk r (r :: tail)) :
    ∃ s', freeClusterChain r s = (.ok (), s') ∧ ∀ k,
      (LooksLike s.vol s.dev.disk (crashDisk s.dev.disk (newWrites s s') k) ∨
       (∃ j, j ≤ tail.length ∧
          nextOf s.vol (crashDisk s.dev.disk (newWrites s s') k) r = .err .EndOfFile ∧
          (∀ y, y ∈ tail.take j → isFree s.vol (crashDisk s.dev.disk (newWrites s s') k) y) ∧
          (∀ y, y < endCluster s.vol → y ≠ r → y ∉ tail.take j →
            fatRaw s.vol (crashDisk s.dev.disk (newWrites s s') k) y = fatRaw s.vol s.dev.disk y)) ∨
       (∀ y, y ∈ r :: tail → isFree s.vol (crashDisk s.dev.disk (newWrites s s') k) y)) ∧
      (∀ y, y < endCluster s.vol → y ∉ r :: tail →
        fatRaw s.vol (crashDisk s.dev.disk (newWrites s s') k) y = fatRaw s.vol s.dev.disk y) ∧
      (∀ i, regionOf s.vol i ≠ .fat → (crashDisk s.dev.disk (newWrites s s') k).get i = s.dev.disk.get i) := by
  obtain ⟨s', h, hcr⟩ := Lemmas.CrashFat.free_crash s r tail hn hc hb hg hch
  refine ⟨s', h, fun k => ?_⟩
  rcases (hcr.spec k).1 with (hv | ⟨j, hj, hst⟩) | hst
  · exact ⟨.inl ⟨hv.fat, hv.nonFat⟩, fun y hy _ => hv.fatRaw hy, hv.nonFat⟩
  · refine ⟨.inr (.inl ⟨j, hj, hst.eof r (List.mem_singleton.2 rfl), hst.free,
      fun y hy hyx hyt => hst.within.other y hy (fun hm => (List.mem_append.1 hm).elim
        (fun h1 => hyx (List.mem_singleton.1 h1)) hyt)⟩), fun y hy hyn => ?_, fun i hi => hst.within.nonFat i hi id⟩
    refine hst.within.other y hy fun hm => hyn ?_
    rcases List.mem_append.1 hm with h1 | h1
    · rw [List.mem_singleton.1 h1]; exact List.mem_cons_self
    · exact List.mem_cons_of_mem _ (List.mem_of_mem_take h1)
  · exact ⟨.inr (.inr hst.free), fun y hy hyn => hst.within.other y hy (by simpa using hyn),
      fun i hi => hst.within.nonFat i hi id⟩

/-- `alloc_cluster(prev, zero)` returning `c`: at every crash point one of three stages, in the order of
the writes — (A) no FAT entry has changed, and only blocks of the (still free) new cluster may differ,
and only when `zero` is set; (B) `c` reads end-of-chain, no other entry has changed, and when `zero` is
set every block of `c` is blank; (C) the medium looks like the one after the call, and when `zero` is
set every block of `c` is blank. -/
theorem alloc_crash_stages (s s' : FS) (prev : Option Nat) (zero : Bool) (c : Nat) (hn : NoFault s) (hc : Coherent s)
    (hb : BlocksOK s.dev.disk) (hg : WFGeom s.vol) (hh : HintOK s.vol)
    (hp : ∀ p, prev = some p → p < endCluster s.vol) (h : allocCluster prev zero s = (.ok c, s')) (k : Nat) :
    ((∀ y, y < endCluster s.vol → fatRaw s.vol (crashDisk s.dev.disk (newWrites s s') k) y = fatRaw s.vol s.dev.disk y) ∧
      (∀ i, regionOf s.vol i ≠ .fat → ¬ (zero = true ∧ InCluster s.vol c i) →
        (crashDisk s.dev.disk (newWrites s s') k).get i = s.dev.disk.get i)) ∨
    (nextOf s.vol (crashDisk s.dev.disk (newWrites s s') k) c = .err .EndOfFile ∧
      (∀ y, y < endCluster s.vol → y ≠ c →
        fatRaw s.vol (crashDisk s.dev.disk (newWrites s s') k) y = fatRaw s.vol s.dev.disk y) ∧
      (∀ i, regionOf s.vol i ≠ .fat → ¬ (zero = true ∧ InCluster s.vol c i) →
        (crashDisk s.dev.disk (newWrites s s') k).get i = s.dev.disk.get i) ∧
      (zero = true → ClusterZero s.vol (crashDisk s.dev.disk (newWrites s s') k) c)) ∨
    (LooksLike s.vol s'.dev.disk (crashDisk s.dev.disk (newWrites s s') k) ∧
      (zero = true → ClusterZero s.vol (crashDisk s.dev.disk (newWrites s s') k) c)) := by
  obtain ⟨hcr, _⟩ := Lemmas.CrashAlloc.alloc_crash s s' prev zero c hn hc hb hg hh hp h
  rcases (hcr.spec k).1 with hA | ⟨hB, he, hz⟩ | ⟨hC, hz⟩
  · exact .inl ⟨fun y hy => hA.other y hy List.not_mem_nil, hA.nonFat⟩
  · exact .inr (.inl ⟨he, fun y hy hyc => hB.other y hy (fun hm => hyc (List.mem_singleton.1 hm)), hB.nonFat, hz⟩)
  · exact .inr (.inr ⟨⟨hC.fat, hC.nonFat⟩, hz⟩)

/-! ### Deleting a file: the directory entry goes first

`delete_file_in_dir` runs `delete_directory_entry(dir, name)` and then `free_cluster_chain(first cluster)`
on the volume (`Lemmas.CrashDelete.deleteBody`, the F-level body of `Mgr.deleteFileInDir`).  This is what
makes `crash_step_free` the right statement for `free`. -/

/-- A successful `delete_directory_entry` is exactly ONE device write — byte `off` of block `b`, the first
byte of the first slot of that block matching the name, becomes `0xE5` — and `b` lies behind the FATs.
(No hypothesis on the directory's own chain.) -/
theorem delete_entry_single_write (dir : Nat) (name : Bytes) (s s' : FS) (hn : NoFault s) (hc : Coherent s) (hg : WFGeom s.vol)
    (h : deleteDirectoryEntry dir name s = (.ok (), s')) :
    ∃ b off, deleteInSlots name (slotsOf (s.dev.disk.get b)) = some off ∧ regionOf s.vol b ≠ .fat ∧
      newWrites s s' = [(b, (s.dev.disk.get b).set off (UInt8.ofNat 0xE5))] ∧
      s'.dev.disk = s.dev.disk.set b ((s.dev.disk.get b).set off (UInt8.ofNat 0xE5)) := by
  obtain ⟨b, off, hm, hreg⟩ := Lemmas.CrashDelete.deleteDirectoryEntry_ok dir name s s' hn hc hg h
  exact ⟨b, off, hm.slot, hreg, by rw [Lemmas.CrashBase.newWrites_append s s' [_] hm.wlog]; rfl, hm.disk⟩

/-- Every crash point of deleting a file with chain `c :: tail`: either NOTHING has been written, or the
directory slot already carries the deleted mark — and only then do FAT entries differ from before, and
only those of the file's own chain; no block outside the FAT other than the directory block differs.
So no crash point shows a live directory entry whose chain contains a free cluster. -/
theorem delete_body_crash (dir : Nat) (name : Bytes) (c : Nat) (tail : List Nat) (s s1 : FS) (hn : NoFault s) (hc : Coherent s)
    (hb : BlocksOK s.dev.disk) (hg : WFGeom s.vol) (hch : Chain s.vol s.dev.disk c (c :: tail))
    (hdel : deleteDirectoryEntry dir name s = (.ok (), s1)) :
    ∃ b off s', deleteInSlots name (slotsOf (s.dev.disk.get b)) = some off ∧ regionOf s.vol b ≠ .fat ∧
      Lemmas.CrashDelete.deleteBody dir name c s = (.ok (), s') ∧
      ∀ k, crashDisk s.dev.disk (newWrites s s') k = s.dev.disk ∨
        ((crashDisk s.dev.disk (newWrites s s') k).get b = (s.dev.disk.get b).set off (UInt8.ofNat 0xE5) ∧
         (∀ y, y < endCluster s.vol → y ∉ c :: tail →
            fatRaw s.vol (crashDisk s.dev.disk (newWrites s s') k) y = fatRaw s.vol s.dev.disk y) ∧
         (∀ i, regionOf s.vol i ≠ .fat → i ≠ b → (crashDisk s.dev.disk (newWrites s s') k).get i = s.dev.disk.get i)) := by
  obtain ⟨b, off, s', hm, hreg, hrun, hcr⟩ := Lemmas.CrashDelete.deleteBody_crash dir name c tail s s1 hn hc hb hg hch hdel
  exact ⟨b, off, s', hm.slot, hreg, hrun, fun k => hcr.spec k⟩

/-! ### Non-vacuity and sharpness (tests, labelled as tests) -/

namespace Example

/-- A 20-cluster FAT16 volume with two FAT copies (sectors 1 and 3), one block per cluster, data area
from block 10. -/
def vol : FatVolume :=
  { lbaStart := 0, numBlocks := 200, name := [], blocksPerCluster := 1, firstDataBlock := 10, fatStart := 1,
    secondFatStart := some 3, freeClustersCount := some 14, nextFreeCluster := none, clusterCount := 20,
    fatType := .fat16, rootEntriesCount := 16, firstRootDirBlock := 9, infoLocation := 0, firstRootDirCluster := 0 }
/-- FAT: chain `2 → 3 → 4`, chain `5 → 6`, cluster 7 bad, clusters 8 … 21 free. -/
def fatBlk : Block := [0xF8, 0xFF, 0xFF, 0xFF, 3, 0, 4, 0, 0xFF, 0xFF, 6, 0, 0xFF, 0xFF, 0xF7, 0xFF] ++ zeros 496
/-- Stale data in the block of the free cluster 8 (block 16). -/
def junk : Block := List.replicate 512 0xAA
def st : FS := { dev := { disk := ((Disk.empty.set 1 fatBlk).set 3 fatBlk).set 16 junk }, cache := {}, vol := vol }
def G0 : List (List Nat) := [[2, 3, 4], [5, 6]]

theorem st_ready : Ready st where
  noFault := rfl
  coherent := by intro i h; cases h
  blocksOK := by
    intro i
    show ((((Disk.empty.set 1 fatBlk).set 3 fatBlk).set 16 junk).get i).length = 512
    rw [Lemmas.FBasic.Disk.get_set, Lemmas.FBasic.Disk.get_set, Lemmas.FBasic.Disk.get_set, Lemmas.FBasic.Disk.get_empty]
    split
    · decide +kernel
    · split
      · decide +kernel
      · split
        · decide +kernel
        · exact Lemmas.FatOps.zeroBlock_length
  geom :=
    { bpc_pos := by decide
      fat_after_boot := by decide
      second_after_first := by intro s h; cases h; decide
      root16 := by intro _; decide
      root32 := by intro h; exact absurd h (by decide)
      data_fits := by decide
      count_bound := by show endCluster vol ≤ 0xFFF7; decide }
  hint := by intro n h; cases h

theorem st_owns : Owns st.vol st.dev.disk G0 := by
  refine ⟨?_, by decide, ?_⟩
  · intro cs hcs
    have : cs = [2, 3, 4] ∨ cs = [5, 6] := by simpa [G0] using hcs
    rcases this with rfl | rfl
    · exact Lemmas.CrashBase.chainOK_sound _ _ _ (by decide +kernel)
    · exact Lemmas.CrashBase.chainOK_sound _ _ _ (by decide +kernel)
  · intro c
    by_cases hc : c < 22
    · have h : ∀ c, c < 22 → (isUsed st.vol st.dev.disk c ↔ c ∈ G0.flatten) := by decide +kernel
      exact h c hc
    · constructor
      · intro hu; exact absurd hu.1.2 hc
      · intro hm
        have : c = 2 ∨ c = 3 ∨ c = 4 ∨ c = 5 ∨ c = 6 := by simpa [G0] using hm
        omega

/-- The start state satisfies the hypothesis of every theorem above. -/
theorem st_exact : Exact (st, G0) := ⟨st_ready, st_owns⟩

/-- The crash media of an operation on the example state. -/
def crashes (op : FatOp) : List Disk := crashDisks st.dev.disk (newWrites st (step (st, G0) op).1)
def after (op : FatOp) : List (List Nat) := (step (st, G0) op).2

/-- Which of the two records is sound at the crash points, in order (`(old, new)`). -/
def verdicts (op : FatOp) : List (Bool × Bool) :=
  (crashes op).map fun dk => (ownsLooseB vol dk G0, ownsLooseB vol dk (after op))

/-- Extending chain 0: 4 device writes (mark 8 in copy 1, copy 2; link 4 → 8 in copy 1, copy 2), 5 crash
points.  The old record is sound until the link reaches copy 1, the new record from then on. -/
theorem extend_verdicts : after (.extend 0 false) = [[2, 3, 4, 8], [5, 6]] ∧
    verdicts (.extend 0 false) = [(true, false), (true, false), (true, false), (false, true), (false, true)] := by
  decide +kernel

/-- … and in between cluster 8 is lost: in use, in no chain of the old record. -/
theorem extend_leaks : (crashes (.extend 0 false)).map (fun dk => decide (isUsed vol dk 8)) = [false, true, true, true, true] := by
  decide +kernel

/-- … and FAT copy 2 (sector 3) lags behind copy 1 (sector 1) at the crash points between the two
writes of an `update_fat` (1 and 3), and only there. -/
theorem extend_copies : (crashes (.extend 0 false)).map (fun dk => decide (dk.get 3 = dk.get 1)) =
    [true, false, true, false, true] := by decide +kernel

/-- The theorem applies to every one of these media. -/
example : ∀ dk, dk ∈ crashes (.extend 0 false) → OwnsLoose vol dk G0 ∨ OwnsLoose vol dk (after (.extend 0 false)) :=
  fun dk hd => crash_step_all (st, G0) (.extend 0 false) st_exact dk hd

/-- Cutting chain 0 behind its first cluster: 6 writes (terminate 2; free 3; free 4; each twice).  The
old record is sound only before the first write reaches copy 1; the new one from then on. -/
theorem truncate_verdicts : after (.truncate 0 0) = [[2], [5, 6]] ∧
    verdicts (.truncate 0 0) =
      [(true, false), (false, true), (false, true), (false, true), (false, true), (false, true), (false, true)] := by
  decide +kernel

/-- Deleting chain 1 (`5 → 6`): terminate 5, free 6, free 5.  SHARPNESS: the old record is NOT sound at
the crash points in between — the statement about `free` must be about the record without the chain. -/
theorem free_breaks_old_record : after (.free 1) = [[2, 3, 4]] ∧
    verdicts (.free 1) =
      [(true, true), (false, true), (false, true), (false, true), (false, true), (false, true), (false, true)] := by
  decide +kernel

/-- A new chain with blanking (a new directory): 3 writes — the blank block 16 FIRST, then the mark of
cluster 8 in copy 1 and copy 2.  At the first crash point block 16 still holds stale data and cluster 8
is free; at every crash point at which cluster 8 is marked, its block is blank. -/
theorem newChain_zero_order : after (.newChain true) = [[2, 3, 4], [5, 6], [8]] ∧
    (crashes (.newChain true)).map (fun dk => (decide (isFree vol dk 8), decide (dk.get 16 = zeroBlock))) =
      [(true, false), (true, true), (false, true), (false, true)] := by
  decide +kernel

example : ∀ k, ¬ isFree vol (crashDisk st.dev.disk (newWrites st (step (st, G0) (.newChain true)).1) k) 8 →
    ClusterZero vol (crashDisk st.dev.disk (newWrites st (step (st, G0) (.newChain true)).1) k) 8 :=
  fun k hm => crash_step_zeroed (st, G0) (.newChain true) st_exact rfl k 8 (by decide) (by decide +kernel) hm

/-- A whole history, cut anywhere: new chain, extend chain 0, cut chain 0, delete chain 1, new blanked
chain — 2 + 4 + 6 + 6 + 3 = 21 device writes, and every one of the 22 crash media is sound for the record
before or after the operation that was cut. -/
def ops : List FatOp := [.newChain false, .extend 0 false, .truncate 0 1, .free 1, .newChain true]

theorem history_writes : (newWrites st (run (st, G0) ops).1).length = 21 := by decide +kernel

example : ∀ k, ∃ n, n ≤ ops.length ∧
    OwnsLoose vol (crashDisk st.dev.disk (newWrites st (run (st, G0) ops).1) k) (run (st, G0) (ops.take n)).2 :=
  fun k => crash_history_global (st, G0) ops st_exact k

/-- Checked by evaluation as well: for each of the 22 crash media, some prefix of the history has a
record that is sound on it. -/
theorem history_checked :
    (crashDisks st.dev.disk (newWrites st (run (st, G0) ops).1)).all (fun dk =>
      (List.range (ops.length + 1)).any fun n => ownsLooseB vol dk (run (st, G0) (ops.take n)).2) = true := by
  decide +kernel

/-! #### Deleting a file -/

/-- The root directory (block 9) with one entry: `FILE    TXT`, archive attribute, first cluster 5. -/
def fileName : Bytes := [0x46, 0x49, 0x4C, 0x45, 0x20, 0x20, 0x20, 0x20, 0x54, 0x58, 0x54]
def rootBlk : Block := fileName ++ [0x20] ++ zeros 14 ++ [5, 0] ++ zeros 4 ++ zeros 480
def stDir : FS := { st with dev := { st.dev with disk := st.dev.disk.set 9 rootBlk } }

/-- Deleting it: 7 device writes — the directory block FIRST (slot byte `0xE5`), then terminate 5, free 6,
free 5, each in both FAT copies.  Per crash point: is the slot marked, and the entries of 5 and 6. -/
theorem delete_order :
    let r := Lemmas.CrashDelete.deleteBody Gen.CLUSTER_ROOT_DIR fileName 5 stDir
    (match r.1 with | .ok _ => true | _ => false) = true ∧
    (newWrites stDir r.2).map (·.1) = [9, 1, 3, 1, 3, 1, 3] ∧
    (crashDisks stDir.dev.disk (newWrites stDir r.2)).map
        (fun dk => (decide (byteAt (dk.get 9) 0 = 0xE5), fatRaw vol dk 5, fatRaw vol dk 6)) =
      [(false, 6, 0xFFFF), (true, 6, 0xFFFF), (true, 0xFFFF, 0xFFFF), (true, 0xFFFF, 0xFFFF), (true, 0xFFFF, 0),
       (true, 0xFFFF, 0), (true, 0, 0), (true, 0, 0)] := by
  decide +kernel

end Example

end Sdmmc.Props.C10Crash
